"""Shared by the C08 and C11 check modules: board enumeration, running the generator (write_robots,
the command line, the manual entry point) through the implementation worker, and the Coq
correspondence (Model/Board.v evaluated by vm_compute vs the games read back from the file)."""
import ast, itertools, os
from common import BUILD, P1, P2, PR, KINDS, NotRepresentable, enc, dec, fdec, cz, cstr, clist, cnats
import coqrun, impl

PROBS = (0.1, 0.5, 0.29)
TRIPLES = list(itertools.product(PROBS, repeat=3))
REWARD_VALUES = (0, 3)
SCRATCH = os.path.join(BUILD, "scratch_boards")
SHAPES_QUICK = [(1, 1), (1, 2), (2, 1), (1, 3), (3, 1)]
SHAPES_MORE = [(1, 4), (4, 1), (2, 2)]
KEYS = ["game_a", "game_b", "game_c"]
GROUPS = {"game_a": 4, "game_b": 7, "game_c": 10}
FOUR_TILE_MODEL_EVERY = 12

HDR = ("From Coq Require Import String List ZArith.\nFrom CR Require Import Model.Corr Model.Board.\n"
       "Import ListNotations.\nLocal Open Scope string_scope.\n")


# ------------------------------------------------------------------ inputs
def exhaustive_boards(shapes):
    """every board of the given shapes over arrows {0,1,2,3} x loose {0,1} x two reward values"""
    tiles = list(itertools.product(range(4), (0, 1), REWARD_VALUES))
    for (L, W) in shapes:
        for combo in itertools.product(tiles, repeat=L * W):
            moves = [[combo[i * W + j][0] for j in range(W)] for i in range(L)]
            loose = [[combo[i * W + j][1] for j in range(W)] for i in range(L)]
            rewards = [[combo[i * W + j][2] for j in range(W)] for i in range(L)]
            yield dict(L=L, W=W, moves=moves, rewards=rewards, loose=loose)


def with_probs(board, k):
    ptb, prb, plb = TRIPLES[k % len(TRIPLES)]
    return dict(board, ptb=ptb, prb=prb, plb=plb)


def random_board_jobs(ctx, count, maxdim):
    """argument tuples for the real gen_rnd_board (seed, length, width, prob_loose_tile, max_reward,
    force_down) and the break probabilities to use with each"""
    rng = ctx.rng
    jobs = []
    for k in range(count):
        L, W = rng.randint(1, maxdim), rng.randint(1, maxdim)
        args = [rng.randrange(10 ** 6), L, W, rng.choice([0.05, 0.3, 0.5, 0.9]), rng.choice([1, 3, 6]),
                rng.random() < 0.5]
        if k % 3 == 0:
            pr = [round(rng.uniform(0.001, 0.999), rng.choice([2, 3, 17])) for _ in range(3)]
            pr = [min(max(p, 0.001), 0.999) for p in pr]
        else:
            pr = list(rng.choice(TRIPLES))
        jobs.append((args, pr))
    return jobs


def boards_from_generator(jobs, tag):
    """run gen_rnd_board (op 'board') for each job; returns list of case dicts (or None)"""
    res = impl.run_cases([dict(op="board", args=enc(a)) for a, _ in jobs], limit=20, tag=tag + "b")
    out = []
    for (a, pr), r in zip(jobs, res):
        if "ok" not in r:
            out.append(None)
            continue
        moves, rewards, loose = dec(r["ok"])
        out.append(dict(L=a[1], W=a[2], moves=moves, rewards=rewards, loose=loose,
                        ptb=pr[0], prb=pr[1], plb=pr[2], gen_args=a))
    return out


def case_key(c):
    return (c["L"], c["W"], str(c["moves"]), str(c["rewards"]), str(c["loose"]), c["ptb"], c["prb"], c["plb"])


def public(c):
    return {k: c[k] for k in ("L", "W", "moves", "rewards", "loose", "ptb", "prb", "plb", "gen_args", "argv")
            if k in c}


def wr_job(c):
    return dict(op="write_robots", scratch=SCRATCH,
                args=enc([c["L"], c["W"], c["moves"], c["rewards"], c["loose"], c["ptb"], c["prb"], c["plb"]]))


def case_batches(ctx, tag, big=True):
    """yields lists of (src, case, model_flag): exhaustive small boards, random boards made by the real
    gen_rnd_board, larger boards (implementation + independent predicates only; the unary-nat model is slow)."""
    os.makedirs(SCRATCH, exist_ok=True)
    yield [("exh", with_probs(b, k), True) for k, b in enumerate(exhaustive_boards(SHAPES_QUICK))]
    # rewards need not be whole numbers (a hand board may price a tile at 0.5): every 7th board again with 3 -> 1.5, 0 -> 0.25
    frac = []
    for k, b in enumerate(exhaustive_boards(SHAPES_QUICK)):
        if k % 7 == 3 and b["L"] * b["W"] >= 2:
            c = with_probs(b, k)
            c = dict(c, rewards=[[1.5 if x else 0.25 for x in row] for row in c["rewards"]])
            frac.append(("frac", c, True))
    yield frac
    rj = random_board_jobs(ctx, 60 if ctx.quick else 300, 3 if ctx.quick else 5)
    batch = []
    for c in boards_from_generator(rj, tag):
        if c is None:
            ctx.harness_errors.append("gen_rnd_board failed on a random-board job")
        else:
            batch.append(("rnd", c, True))
    # legal but extreme probabilities (1e-9, 1 - 1e-9, the smallest positive double): they are written as given
    ext = []
    for k, b in enumerate(exhaustive_boards(SHAPES_QUICK)):
        if k % 41 == 5 and b["L"] * b["W"] >= 2:
            ptb, prb, plb = [(1e-9, 1 - 1e-9, 5e-324), (1 - 1e-12, 1e-300, 1e-9), (2.5e-7, 1 - 2.5e-7, 1e-7)][k % 3]
            ext.append(("extreme", dict(b, ptb=ptb, prb=prb, plb=plb), True))
    batch += ext
    if big:
        bj = [([7, 8, 8, 0.3, 6, True], [0.1, 0.1, 0.1]), ([8, 1, 40, 0.5, 3, False], [0.5, 0.29, 0.1]),
              ([9, 40, 1, 0.5, 3, True], [0.29, 0.5, 0.1]),
              # state numbers past CPython's small-int cache (257) in every group: identity-vs-equality slips show here
              ([12, 9, 10, 0.4, 5, False], [0.29, 0.1, 0.5]), ([13, 1, 90, 0.5, 3, True], [0.5, 0.5, 0.5]),
              ([ctx.rng.randrange(10 ** 6), ctx.rng.randint(6, 12), ctx.rng.randint(8, 14), 0.3, 4, ctx.rng.random() < 0.5],
               [0.1, 0.29, 0.5])]
        if not ctx.quick:
            bj += [([10, 20, 20, 0.3, 6, True], [0.1, 0.1, 0.1]), ([11, 12, 7, 0.9, 6, False], [0.01, 0.99, 0.5])]
        for c in boards_from_generator(bj, tag + "big"):
            if c is not None:
                batch.append(("big", c, False))
    yield batch
    if not ctx.quick:
        # every 4-tile board goes through the implementation and the independent predicates;
        # one in FOUR_TILE_MODEL_EVERY of them also through the Coq model (budget)
        cur = []
        for k, b in enumerate(exhaustive_boards(SHAPES_MORE)):
            cur.append(("exh4", with_probs(b, k), ctx.rng.randrange(FOUR_TILE_MODEL_EVERY) == 0))
            if len(cur) == 16384:
                yield cur
                cur = []
        if cur:
            yield cur


def run_batch(batch, tag, jobs=16):
    """run write_robots for a batch of (src, case, model_flag, ...). An item: case, src, res (raw worker result),
    games (dict read back or None), text, model (bool: also evaluate the Coq model)"""
    res = impl.run_cases([wr_job(e[1]) for e in batch], limit=60, tag=tag + "w", jobs=jobs)
    items = []
    for (src, c, m), r in zip([e[:3] for e in batch], res):
        games = None
        if "ok" in r:
            try:
                games = dec(r["ok"])
            except Exception:   # noqa: BLE001
                games = None
        items.append(dict(case=c, src=src, res=r, games=games, text=r.get("text"), model=m))
    return items


# ------------------------------------------------------------------ command line / manual entry
CLI_SIZES_QUICK = [(1, 1), (1, 3), (3, 1), (2, 2), (3, 3)]
CLI_SIZES_MORE = [(1, 5), (5, 1), (2, 3), (4, 4), (5, 5)]
CLI_PROFILES = [(0.01, 0.01, 0.01, 0.01), (0.5, 0.5, 0.5, 0.5), (0.99, 0.99, 0.99, 0.99),
                (0.01, 0.99, 0.5, 0.3), (0.1, 0.29, 0.57, 0.3)]     # p (robot), q (light), r (tile), t (loose)
# probabilities finer than one percent: the command line must pass them on as given (the file name is percent-granular,
# the contents are not)
CLI_FINE = [(0.125, 0.335, 0.215, 0.125), (0.004, 0.996, 0.0051, 0.996), (0.9949, 0.0049, 0.5049, 0.004)]


def cli_params(ctx):
    out = [dict(default=True, seed=0, length=3, width=3, p=0.1, q=0.1, r=0.1, t=0.3, m=6, f=False)]
    sizes = CLI_SIZES_QUICK + ([] if ctx.quick else CLI_SIZES_MORE)
    k = 0
    for (L, W) in sizes:
        for f in (False, True):
            profs = [CLI_PROFILES[k % 5]] if ctx.quick else CLI_PROFILES
            for (p, q, r, t) in profs:
                out.append(dict(seed=[0, 1, 12345, 7][k % 4], length=L, width=W, p=p, q=q, r=r, t=t,
                                m=[6, 1, 3][k % 3], f=f))
                k += 1
    if ctx.quick:
        for k, (p, q, r, t) in enumerate(CLI_PROFILES):
            out.append(dict(seed=k, length=2, width=3, p=p, q=q, r=r, t=t, m=6, f=bool(k % 2)))
    for k, (p, q, r, t) in enumerate(CLI_FINE):
        out.append(dict(seed=3 + k, length=[3, 4, 2][k], width=[3, 2, 4][k], p=p, q=q, r=r, t=t, m=[6, 2, 4][k], f=bool(k % 2)))
    return out


def cli_argv(d):
    if d.get("default"):
        return []
    a = ["-s", str(d["seed"]), "-w", str(d["width"]), "-l", str(d["length"]), "-p", repr(d["p"]),
         "-q", repr(d["q"]), "-r", repr(d["r"]), "-t", repr(d["t"]), "-m", str(d["m"])]
    if d["f"]:
        a.append("-f")
    return a


def manual_boards(ctx):
    b = [dict(L=1, W=1, moves=[[1]], rewards=[[2]], loose=[[1]]),
         dict(L=1, W=1, moves=[[3]], rewards=[[0]], loose=[[0]]),
         dict(L=2, W=1, moves=[[1], [2]], rewards=[[1], [4]], loose=[[0], [1]]),
         dict(L=1, W=3, moves=[[0, 1, 2]], rewards=[[1, 0, 5]], loose=[[1, 0, 1]]),
         dict(L=3, W=1, moves=[[0], [3], [2]], rewards=[[1], [0], [5]], loose=[[1], [0], [1]]),
         dict(L=2, W=2, moves=[[3, 1], [2, 0]], rewards=[[6, 0], [1, 2]], loose=[[0, 1], [1, 0]]),
         dict(L=3, W=3, moves=[[1, 1, 3], [0, 2, 1], [1, 3, 1]], rewards=[[0, 1, 2], [3, 4, 5], [6, 0, 1]],
              loose=[[0, 0, 1], [1, 0, 0], [0, 1, 0]]),
         # a hand board whose rows are tuples (as legal a matrix as a list of lists)
         dict(L=2, W=3, moves=((1, 0, 3), (2, 1, 1)), rewards=((1, 2, 3), (4, 5, 6)), loose=((0, 1, 0), (1, 0, 1))),
         # a whole reward no double can hold (2**53 + 1): it is written as it is; outside the binary64 Coq instance, so the
         # independent Python rule game (exact) is the judge
         dict(L=1, W=2, moves=[[1, 3]], rewards=[[2 ** 53 + 1, 10 ** 17 + 1]], loose=[[0, 1]], no_model=True)]
    probs = [(0.1, 0.1, 0.1), (0.01, 0.5, 0.99), (0.29, 0.57, 0.58), (0.99, 0.01, 0.5)]
    return [dict(x, prb=probs[k % 4][0], plb=probs[k % 4][1], ptb=probs[k % 4][2]) for k, x in enumerate(b)]


def build_entry_items(ctx, tag):
    """command-line runs and manual-entry runs; items like build_items plus files/top/rc fields"""
    os.makedirs(SCRATCH, exist_ok=True)
    params = cli_params(ctx)
    jobs = [dict(op="rg_cli", scratch=SCRATCH, argv=cli_argv(d), limit=150) for d in params]
    bjobs = [([d["seed"], d["length"], d["width"], d["t"], d["m"], d["f"]], [d["r"], d["p"], d["q"]]) for d in params]
    boards = boards_from_generator(bjobs, tag + "cli")
    res = impl.run_cases(jobs, limit=150, tag=tag + "c")
    items = []
    for d, b, r in zip(params, boards, res):
        c = dict(b or dict(L=d["length"], W=d["width"]), argv=cli_argv(d))
        games = None
        if "read" in r:
            try:
                games = dec(r["read"])
            except Exception:   # noqa: BLE001
                games = None
        items.append(dict(case=c, src="cli", res=r, games=games, text=r.get("text"), model=b is not None,
                          params=d))
    mb = manual_boards(ctx)
    mres = impl.run_cases([dict(op="rg_manual", scratch=SCRATCH,
                                args=enc([c["moves"], c["rewards"], c["loose"], c["prb"], c["plb"], c["ptb"]]))
                           for c in mb], limit=60, tag=tag + "m")
    for c, r in zip(mb, mres):
        games = None
        if "read" in r:
            try:
                games = dec(r["read"])
            except Exception:   # noqa: BLE001
                games = None
        items.append(dict(case=c, src="manual", res=r, games=games, text=r.get("text"), model=not c.get("no_model")))
    return items


def reader_agrees(text, games):
    """the reader uses eval; compare with ast.literal_eval on the unmodified text.
    returns (ok, how, detail)"""
    try:
        lit = ast.literal_eval(text)
        how = "ast.literal_eval"
    except Exception as e:   # noqa: BLE001
        try:
            lit = eval(compile(text, "<generated>", "eval"), {"__builtins__": {}}, {})
            how = "compile+eval in an empty namespace (literal_eval refused: %s)" % type(e).__name__
        except Exception as e2:   # noqa: BLE001
            return False, "neither", "%s / %s" % (e, e2)
    same = (lit == games) and repr(lit) == repr(games)
    return same, how, None if same else "eval and %s disagree" % how


# ------------------------------------------------------------------ Coq emission
LABELS = {"Green": "tG", "Yellow": "tY", "Down": "tD", "Left": "tL", "Right": "tR", "Etha": "tE"}
KEYNAMES = {"game_a": "key_a", "game_b": "key_b", "game_c": "key_c"}


class FloatTable:
    def __init__(self):
        self.names = {}

    def ref(self, x):
        if isinstance(x, bool) or not isinstance(x, (int, float)):
            raise NotRepresentable(x)
        key = fdec(x)
        if key not in self.names:
            self.names[key] = "f%d%s%d" % (key[0], "n" if key[1] < 0 else "p", abs(key[1]))
        return self.names[key]

    def defs(self):
        return "".join("Definition %s := F %s %s.\n" % (n, cz(m), cz(e)) for (m, e), n in self.names.items())


def cgame_short(g, ft):
    if not isinstance(g, dict) or set(g.keys()) != {"rewards", "players", "transition_list", "final_states"}:
        raise NotRepresentable("keys")
    players = g["players"]
    try:
        kinds = [KINDS[p] for p in players]
    except (KeyError, TypeError) as e:
        raise NotRepresentable(e)
    rows = []
    for i, row in enumerate(g["transition_list"]):
        kind = players[i] if i < len(players) else PR
        items = []
        if not isinstance(row, list):
            raise NotRepresentable(row)
        for t in row:
            if not (isinstance(t, tuple) and len(t) == 2 and isinstance(t[1], int) and not isinstance(t[1], bool)
                    and t[1] >= 0):
                raise NotRepresentable(t)
            if kind == PR:
                items.append("tp %s %d" % (ft.ref(t[0]), t[1]))
            else:
                if not isinstance(t[0], str):
                    raise NotRepresentable(t)
                items.append("%s %d" % (LABELS.get(t[0]) or "ta " + cstr(t[0]), t[1]))
        rows.append("[" + ";".join(items) + "]")
    for f in g["final_states"]:
        if not isinstance(f, int) or f < 0:
            raise NotRepresentable(f)
    return "(mkG [%s] [%s] [%s] %s)" % (";".join(ft.ref(r) for r in g["rewards"]), ";".join(kinds),
                                        ";".join(rows), cnats(g["final_states"]))


def cboard_case(c, games, ft):
    if not isinstance(games, dict):
        raise NotRepresentable("not a dict")
    named = []
    for k, g in games.items():
        if not isinstance(k, str):
            raise NotRepresentable(k)
        named.append("(%s, %s)" % (KEYNAMES.get(k) or cstr(k), cgame_short(g, ft)))
    rows_n = lambda m: clist([cnats(r) for r in m])
    for m in c["moves"] + c["loose"]:
        for x in m:
            if not isinstance(x, int) or x < 0:
                raise NotRepresentable(x)
    return "(mkBC %d %d %s %s %s %s %s %s %s)" % (
        c["L"], c["W"], rows_n(c["moves"]), clist([clist([ft.ref(x) for x in r]) for r in c["rewards"]]),
        rows_n(c["loose"]), ft.ref(c["ptb"]), ft.ref(c["prb"]), ft.ref(c["plb"]), clist(named))


def render(it, ft):
    """(term, None) or (None, complaint) for one item with games"""
    try:
        return cboard_case(it["case"], it["games"], ft), None
    except NotRepresentable as e:
        return None, "file content outside the typed game universe (%s)" % (e,)


def correspondence_terms(ctx, lights, names, tag, chunk=250):
    """lights: items flagged model=True carrying 'term' (or 'term_err', or no games at all). Evaluates
    Model/Board.v's write_robots (instance F, vm_compute) against the embedded dictionary read back and
    records ctx.corr_break for every mismatch."""
    pairs = []
    for it in lights:
        if not it["model"]:
            continue
        if not it["has_games"]:
            ctx.corr_break("the implementation produced no readable file where the model produces three games",
                           public(it["case"]), impl=it.get("res"))
        elif it.get("term") is None:
            ctx.corr_break(it.get("term_err") or "not representable", public(it["case"]))
        else:
            pairs.append((it["term"], it))
    small = [p for p in pairs if p[1]["case"]["L"] * p[1]["case"]["W"] <= 4]
    large = [p for p in pairs if p[1]["case"]["L"] * p[1]["case"]["W"] > 4]
    chunks = coqrun.chunked(small, chunk) + coqrun.chunked(large, 12)
    flat = [m for ch in chunks for _, m in ch]
    ft = FloatTable()
    ft.names = names
    body = lambda l: ("Definition cases : list board_case := %s.\n"
                      "Eval vm_compute in (run_board_cases cases).") % l
    bad, errs = coqrun.eval_case_files(tag, HDR + ft.defs(), [[t for t, _ in ch] for ch in chunks], body)
    ctx.corr_cases += len(flat)
    for b in bad:
        it = flat[b]
        ctx.corr_break("Model/Board.v write_robots and the file read back disagree (%s)" % it["src"],
                       public(it["case"]))
    for e in errs:
        ctx.harness_errors.append("coqc failed on %s: %s" % (e[0], e[2][-500:]))
    return len(flat)


def lighten(it, check, ft, keep):
    """what the main process needs of an item: the verdict of the property's own predicate (check), the Coq
    term for the correspondence, and the games only when asked for"""
    light = dict(case=it["case"], src=it["src"], model=it["model"], has_games=it["games"] is not None,
                 res={k: v for k, v in it["res"].items() if k not in ("text", "ok", "read")},
                 params=it.get("params"))
    if it["games"] is not None:
        light["problems"] = check((it["case"], it["games"]))
        if it["res"].get("first_same") is False:
            light["problems"] = list(light["problems"]) + ["writing the same board objects twice in one process gives two different files"]
        if it["res"].get("args_intact") is False:
            light["problems"] = list(light["problems"]) + ["the generator changed the board it was given (its argument lists are no longer what the caller passed)"]
        if it["model"]:
            light["term"], light["term_err"] = render(it, ft)
        if keep:
            light["games"] = it["games"]
            light["text"] = it.get("text")
    return light


def _slice_worker(arg):
    sl, tag, checker = arg
    import importlib
    check = importlib.import_module("props." + checker).item_check
    ft = FloatTable()
    items = run_batch(sl, tag, jobs=1)
    return [lighten(it, check, ft, e[3] if len(e) > 3 else False) for it, e in zip(items, sl)], ft.names


_pool = None


def pool():
    global _pool
    if _pool is None:
        from concurrent.futures import ProcessPoolExecutor
        _pool = ProcessPoolExecutor(max_workers=16)
    return _pool


def shutdown():
    global _pool
    if _pool is not None:
        _pool.shutdown()
        _pool = None


def process_batch(ctx, batch, tag, checker):
    """batch: list of (src, case, model_flag, keep_games_flag). Runs the implementation, the property's
    predicate and the Coq term rendering in parallel worker processes, then the Coq correspondence.
    Returns the light items in order."""
    if not batch:
        return []
    nsl = 1 if len(batch) < 64 else 48
    size = (len(batch) + nsl - 1) // nsl
    slices = [batch[k:k + size] for k in range(0, len(batch), size)]
    args = [(sl, "%s_%d" % (tag, k), checker) for k, sl in enumerate(slices)]
    outs = [_slice_worker(a) for a in args] if nsl == 1 else list(pool().map(_slice_worker, args))
    lights, names = [], {}
    for ls, nm in outs:
        lights.extend(ls)
        names.update(nm)
    correspondence_terms(ctx, lights, names, tag)
    return lights


def process_items(ctx, items, tag, checker, keep=True):
    """the same for items that were already run (command line / manual entry)"""
    import importlib
    check = importlib.import_module("props." + checker).item_check
    ft = FloatTable()
    lights = [lighten(it, check, ft, keep) for it in items]
    correspondence_terms(ctx, lights, ft.names, tag)
    return lights


def well_shaped(games):
    """minimal shape needed by the python predicates; returns None or a complaint"""
    if not isinstance(games, dict):
        return "reader returned %s, not a dict" % type(games).__name__
    if list(games.keys()) != KEYS:
        return "keys %s, expected exactly %s" % (list(games.keys()), KEYS)
    for k, g in games.items():
        if not isinstance(g, dict) or sorted(g.keys()) != ["final_states", "players", "rewards", "transition_list"]:
            return "%s is not a game description" % k
    return None
