"""Independent exact solver over Fractions (strategy enumeration + linear solve). Search support
only: it turns a broken proof/correspondence into a concrete failing input and guards the random
generators; no verdict 'holds' rests on it."""
import itertools
from fractions import Fraction as Fr
from common import P1, P2, PR

MAX_PAIRS = 600


def _reach_sets(n, succ):
    """reach[s] = set of states reachable from s (including s)"""
    reach = [set([s]) for s in range(n)]
    changed = True
    while changed:
        changed = False
        for s in range(n):
            new = set(reach[s])
            for t in list(reach[s]):
                new |= set(succ[t])
            if new != reach[s]:
                reach[s] = new
                changed = True
    return reach


def _gauss(A):
    m = len(A)
    for c in range(m):
        piv = next((k for k in range(c, m) if A[k][c] != 0), None)
        if piv is None:
            return None
        A[c], A[piv] = A[piv], A[c]
        pv = A[c][c]
        A[c] = [v / pv for v in A[c]]
        for k in range(m):
            if k != c and A[k][c] != 0:
                f = A[k][c]
                A[k] = [a - f * b for a, b in zip(A[k], A[c])]
    return [A[i][-1] for i in range(m)]


def chain_reach(n, P, finals):
    """P[s] = list of (Fraction, dst). probability of ever visiting a final state"""
    fin = set(finals)
    succ = [[d for _, d in P[s]] if s not in fin else [] for s in range(n)]
    reach = _reach_sets(n, succ)
    x = [None] * n
    idx = []
    for s in range(n):
        if s in fin:
            x[s] = Fr(1)
        elif not (reach[s] & fin):
            x[s] = Fr(0)
        else:
            idx.append(s)
    pos = {s: i for i, s in enumerate(idx)}
    A = [[Fr(0)] * (len(idx) + 1) for _ in idx]
    for s in idx:
        i = pos[s]
        A[i][i] += 1
        for p, d in P[s]:
            if x[d] is not None:
                A[i][-1] += p * x[d]
            else:
                A[i][pos[d]] -= p
    sol = _gauss(A) if idx else []
    if sol is None:
        return None
    for s in idx:
        x[s] = sol[pos[s]]
    return x


def chain_reward(n, P, r):
    """expected total reward; None when some recurrent class carries reward (infinite)"""
    succ = [[d for _, d in P[s]] for s in range(n)]
    reach = _reach_sets(n, succ)
    recurrent = [all(s in reach[t] for t in reach[s]) for s in range(n)]
    x = [None] * n
    for s in range(n):
        if recurrent[s]:
            if r[s] != 0:
                return None
            x[s] = Fr(0)
    idx = [s for s in range(n) if x[s] is None]
    pos = {s: i for i, s in enumerate(idx)}
    A = [[Fr(0)] * (len(idx) + 1) for _ in idx]
    for s in idx:
        i = pos[s]
        A[i][i] += 1
        A[i][-1] += r[s]
        for p, d in P[s]:
            if x[d] is not None:
                A[i][-1] += p * x[d]
            else:
                A[i][pos[d]] -= p
    sol = _gauss(A) if idx else []
    if sol is None:
        return None
    for s in idx:
        x[s] = sol[pos[s]]
    return x


def chain_steps(n, P):
    """expected number of steps before entering a recurrent class (None if singular)"""
    return chain_reward(n, P, [Fr(0) if False else None for _ in range(n)]) if False else _steps(n, P)


def _steps(n, P):
    succ = [[d for _, d in P[s]] for s in range(n)]
    reach = _reach_sets(n, succ)
    recurrent = [all(s in reach[t] for t in reach[s]) for s in range(n)]
    r = [Fr(0) if recurrent[s] else Fr(1) for s in range(n)]
    return chain_reward(n, P, r)


def _choices(players, tl, kind):
    return [s for s in range(len(players)) if players[s] == kind and len(tl[s]) > 0]


def npairs(players, tl):
    k = 1
    for s in range(len(players)):
        if players[s] != PR and tl[s]:
            k *= len(tl[s])
    return k


def induced(players, tl, fr, sig):
    P = []
    for s in range(len(players)):
        if not tl[s]:
            P.append([])
        elif players[s] == PR:
            P.append([(fr[s][i], d) for i, (_, d) in enumerate(tl[s])])
        else:
            P.append([(Fr(1), tl[s][sig[s]][1])])
    return P


def maxmin(players, tl, fr, evaluate):
    """pointwise max over Player 1 strategies of pointwise min over Player 2 strategies of
    evaluate(P) (a vector or None). Returns (vector, T) with T = max expected steps seen, or None."""
    n = len(players)
    if npairs(players, tl) > MAX_PAIRS:
        return None
    p1 = _choices(players, tl, P1)
    p2 = _choices(players, tl, P2)
    best = None
    for c1 in itertools.product(*[range(len(tl[s])) for s in p1]):
        worst = None
        for c2 in itertools.product(*[range(len(tl[s])) for s in p2]):
            sig = dict(zip(p1, c1))
            sig.update(zip(p2, c2))
            x = evaluate(induced(players, tl, fr, sig))
            if x is None:
                return None
            worst = x if worst is None else [min(a, b) for a, b in zip(worst, x)]
        best = worst if best is None else [max(a, b) for a, b in zip(best, worst)]
    return best


def reach_values(game, meta):
    n = len(game["players"])
    return maxmin(game["players"], game["transition_list"], meta["fr"],
                  lambda P: chain_reach(n, P, game["final_states"]))


def max_steps(game, meta, tl=None, fr=None):
    """largest expected number of steps to absorption over all strategy pairs (None: unknown/infinite)"""
    players = game["players"]
    tl = tl if tl is not None else game["transition_list"]
    fr = fr if fr is not None else meta["fr"]
    n = len(players)
    if npairs(players, tl) > MAX_PAIRS:
        return None
    p = [s for s in range(n) if players[s] != PR and tl[s]]
    T = Fr(0)
    for c in itertools.product(*[range(len(tl[s])) for s in p]):
        x = _steps(n, induced(players, tl, fr, dict(zip(p, c))))
        if x is None:
            return None
        T = max(T, max(x))
    return T


def conditioned(game, meta, reach_strats, probs, prune):
    """independent construction of the conditioned game from the REPORTED strategies and probabilities:
    Player 1 keeps the actions of its reachability strategy; with pruning, Player 1 and probabilistic
    states lose every transition into a state reported with probability 0 and the surviving
    probabilities are rescaled; then states nobody points to (iterated; never state 0, never Player 1)
    lose their transitions. Returns (tl, fr)."""
    players = game["players"]
    n = len(players)
    tl, fr = [], []
    for s in range(n):
        row = list(game["transition_list"][s])
        f = list(meta["fr"][s]) if meta["fr"][s] is not None else None
        if players[s] == P1:
            row = [t for t in row if t[0] in reach_strats[s]]
        if prune and players[s] in (P1, PR):
            keep = [i for i, t in enumerate(row) if probs[t[1]] != 0]
            if players[s] == PR and len(keep) != len(row):
                tot = sum(f[i] for i in keep)
                f = [f[i] / tot for i in keep] if tot != 0 else [f[i] for i in keep]
            elif players[s] == PR:
                f = [f[i] for i in keep]
            row = [row[i] for i in keep]
        tl.append(row)
        fr.append(f)
    if prune:
        while True:
            pointed = {0} | {d for row in tl for _, d in row}
            clear = [s for s in range(n) if players[s] != P1 and s not in pointed and tl[s]]
            if not clear:
                break
            for s in clear:
                tl[s] = []
                fr[s] = []
    return tl, fr


def reward_values(game, meta, tl, fr):
    players = game["players"]
    n = len(players)
    r = [Fr(x).limit_denominator(10**9) if isinstance(x, float) else Fr(x) for x in game["rewards"]]
    rr = [r[s] if tl[s] else Fr(0) for s in range(n)]    # a state without transitions is worth 0
    return maxmin(players, tl, fr, lambda P: chain_reward(n, P, rr))


def reachable_from0(tl):
    seen, todo = {0}, [0]
    while todo:
        s = todo.pop()
        for _, d in tl[s]:
            if d not in seen:
                seen.add(d)
                todo.append(d)
    return seen
