"""A second, translator-style tie between model and code: constants are EXTRACTED from the repository's
source with the Python `ast` module on every run and compared, inside Coq, with the constants the model
carries (error messages, report labels, threshold, group layout of the three board games, file-name
pieces). A change to one of these in /repo is then reported even if no generated input happens to
trigger it. When the extractor no longer RECOGNISES the source (a restructured function: nothing found where
the constants used to be) that is recorded in the evidence as a note, not as a break: the behavioural
correspondence of the same check exercises every one of these constants and remains the tie. A constant that is
found and is not among the model's constants is a break (a constant of the model that is no longer found is a note)."""
import ast, os, re
from common import REPO, cstr, clist
import coqrun


def _src(fn):
    return ast.parse(open(os.path.join(REPO, fn)).read())


def _fstr(node):
    """literal text of a str / f-string whose placeholders are module-level string constants"""
    if isinstance(node, ast.Constant) and isinstance(node.value, str):
        return node.value
    if isinstance(node, ast.JoinedStr):
        out = []
        for v in node.values:
            if isinstance(v, ast.Constant):
                out.append(v.value)
            elif isinstance(v, ast.FormattedValue) and isinstance(v.value, ast.Name):
                out.append("{%s}" % v.value.id)
            else:
                return None
        return "".join(out)
    return None


def tad_facts():
    t = _src("tad.py")
    consts = {}
    for n in t.body:
        if isinstance(n, ast.Assign) and isinstance(n.value, ast.Constant) and isinstance(n.value.value, str):
            consts[n.targets[0].id] = n.value.value
    msgs = []
    for n in ast.walk(t):
        if isinstance(n, ast.Raise) and isinstance(n.exc, ast.Call) and getattr(n.exc.func, "id", None) == "ValueError" and n.exc.args:
            s = _fstr(n.exc.args[0])
            if s is None:
                msgs.append("<unreadable>")
                continue
            for k, v in consts.items():
                s = s.replace("{%s}" % k, v)
            msgs.append(s)
    thr = None
    for n in ast.walk(t):
        if isinstance(n, ast.Call) and getattr(n.func, "id", None) == "Solver":
            for kw in n.keywords:
                if kw.arg == "threshold":
                    thr = ast.unparse(kw.value)
    return sorted(set(msgs)), thr


def report_labels():
    t = _src("conditionalrewards.py")
    labels, msgs = [], []
    for n in ast.walk(t):
        if isinstance(n, ast.FunctionDef) and n.name == "save_results_to_file":
            for c in ast.walk(n):
                if isinstance(c, ast.Call) and getattr(c.func, "attr", None) == "write" and c.args and isinstance(c.args[0], ast.JoinedStr):
                    first = c.args[0].values[0]
                    if isinstance(first, ast.Constant):
                        labels.append(first.value)
        if isinstance(n, ast.FunctionDef) and n.name == "run_games":
            for c in ast.walk(n):
                if isinstance(c, ast.Assign) and getattr(c.targets[0], "id", None) == "msg":
                    s = _fstr(c.value)
                    if s is not None:
                        msgs.append(s.replace("{e}", ""))
    return labels, sorted(set(msgs))


def generator_layout():
    """the 'offsets for type of game' blocks of write_robot_A/B/C: name -> int, per game"""
    t = _src("roberta_generator.py")
    out = {}
    for n in t.body:
        if isinstance(n, ast.FunctionDef) and n.name in ("write_robot_A", "write_robot_B", "write_robot_C"):
            d = {}
            for c in n.body:
                if isinstance(c, ast.Assign) and isinstance(c.value, ast.Constant) and isinstance(c.value.value, int):
                    d[c.targets[0].id] = c.value.value
            out[n.name[-1]] = d
    return out


COQ_HDR = ("From CR Require Import Model.Outcome Model.Game Model.Validate Model.Report Model.Batch.\n"
           "From Coq Require Import String List Bool.\nImport ListNotations.\nOpen Scope string_scope.\n")


def check_messages(ctx):
    """every ValueError message of tad.py is a message constant of the model, and vice versa (solver part)"""
    msgs, thr = tad_facts()
    dyn = [m for m in msgs if "{" in m or m == "<unreadable>"]
    if dyn:
        # a message assembled at run time (a loop over list names, a helper): not a constant the extractor can read
        ctx.notes.append("source facts: %d ValueError message(s) of tad.py are assembled at run time and not compared here: %s" % (len(dyn), dyn[:3]))
        msgs = [m for m in msgs if m not in dyn]
    if not msgs:
        ctx.notes.append("source facts: no ValueError message recognised in tad.py (restructured?); tie left to the behavioural correspondence")
        return
    model = ("[Game.msg_tl_len; Game.msg_rw_len; Game.msg_rw_neg; Game.msg_fin_range; Game.msg_ns_range; Game.msg_missing; "
             "Game.msg_no_final; Game.msg_no_solution; Validate.msg_player; Validate.msg_not_list; Validate.msg_not_tuples; "
             "Validate.msg_tuple_len; Validate.msg_act_str; Validate.msg_prob_num; Validate.msg_ns_int]")
    body = ("Definition src : list string := %s.\nDefinition mdl : list string := %s.\n"
            "Definition missing (a b : list string) := filter (fun s => negb (existsb (String.eqb s) b)) a.\n"
            "Eval vm_compute in (List.length (missing src mdl)).\n") % (clist([cstr(m) for m in msgs]), model)
    _run(ctx, "msgs", body, "ValueError messages of tad.py vs the model's message constants", dict(source=msgs))
    if thr is None:
        ctx.notes.append("source facts: the Solver(threshold=...) call was not recognised in tad.py; tie left to the behavioural correspondence")
    elif thr != "10 ** (-6)":
        ctx.corr_break("the threshold passed to Solver in StochasticGame.solve is %r, the model uses 10**(-6)" % thr, dict(source=thr))


def check_labels(ctx):
    labels, msgs = report_labels()
    labels = [l for l in labels if not set(l) <= set("=\n")]
    if not labels or not msgs:
        ctx.notes.append("source facts: report labels / run_games messages not recognised in conditionalrewards.py (restructured?); "
                         "tie left to the behavioural correspondence (every report line is compared with the model)")
        if not labels and not msgs:
            return
    model = ("[Report.label_name; Report.label_msg; Report.label_states; Report.label_trans; Report.label_itreach; Report.label_itrew; "
             "Report.label_reach; Report.label_final; Report.label_equal; Report.label_probs; Report.label_pmr; Report.label_rew; "
             "Report.label_rmr; Report.label_time]")
    body = ("Definition src : list string := %s.\nDefinition mdl : list string := %s.\n"
            "Definition missing (a b : list string) := filter (fun s => negb (existsb (String.eqb s) b)) a.\n"
            "Eval vm_compute in (List.length (missing src mdl)).\n") % (clist([cstr(m) for m in labels]), model)
    if len(labels) != 14:
        ctx.notes.append("source facts: %d of the 14 report labels recognised in save_results_to_file" % len(labels))
    if labels:
        _run(ctx, "labels", body, "report labels of save_results_to_file (in order) vs the model's labels", dict(source=labels))
    if not msgs:
        return
    model2 = "[Batch.msg_solved; Batch.msg_error; Batch.msg_not_solved]"
    body2 = ("Definition src : list string := %s.\nDefinition mdl : list string := %s.\n"
             "Definition missing (a b : list string) := filter (fun s => negb (existsb (String.eqb s) b)) a.\n"
             "Eval vm_compute in (List.length (missing src mdl)).\n") % (clist([cstr(m) for m in msgs]), model2)
    _run(ctx, "bmsgs", body2, "messages of run_games vs the batch model's messages", dict(source=msgs))


def check_layout(ctx, expected):
    """expected: {'A': {...}, 'B': {...}, 'C': {...}} as the board model uses them"""
    got = generator_layout()
    for k in ("A", "B", "C"):
        if not got.get(k):
            ctx.notes.append("source facts: layout constants of write_robot_%s not recognised (restructured?); tie left to the behavioural "
                             "correspondence (every generated game is compared with Model/Board.v)" % k)
        elif any(n in expected[k] and v != expected[k][n] for n, v in got[k].items()):
            ctx.corr_break("group layout constants of write_robot_%s changed: source %r, model %r" % (k, got.get(k), expected[k]),
                           dict(source=got.get(k)))
        elif set(expected[k]) - set(got[k]):
            ctx.notes.append("source facts: layout constants %s of write_robot_%s not recognised (moved into a helper?); the recognised ones agree"
                             % (sorted(set(expected[k]) - set(got[k])), k))
    ctx.corr_cases += 3


def _run(ctx, tag, body, what, inp):
    path = os.path.join(coqrun.CASES, "facts_%s_%d.v" % (tag, os.getpid()))
    os.makedirs(coqrun.CASES, exist_ok=True)
    open(path, "w").write(COQ_HDR + body)
    rc, out = coqrun.coqc_file(path, 120)
    m = re.search(r"=\s*(\d+)\s*:\s*nat", out)
    ctx.corr_cases += 1
    if rc != 0 or not m:
        ctx.harness_errors.append("source facts (%s): coqc failed: %s" % (tag, out[-400:]))
    elif int(m.group(1)) != 0:
        ctx.corr_break("source constants differ from the model: " + what, inp)
    else:
        coqrun._cleanup(path)
