"""C01: reported reachability probabilities are the max-min values."""
from fractions import Fraction as Fr
from common import enc, dec, P1, P2, PR, KINDS, fdec, cz, cstr, clist, cnats, cgame, NotRepresentable
import coqrun
import solvecommon as sc, oracle_exact as ox, impl

RULE = ("corpus (figure 5.5, repaired-defect shapes) + every dead/alive pattern of <=3 successors + random games of 3-9 "
        "(thorough: 3-10) states in five families (stopping, exact-dyadic with player-only end components, arbitrary "
        "cyclic, player-heavy, tiny probabilities), random numbering, several/non-absorbing finals; both pruning modes. "
        "non-trivial = more than 3 states and some state with >=2 transitions; distinct by (description, mode)")
ASSUMPTIONS = ["numeric theorems are about exact rationals (instance Q); binary64 is tied by bit-exact correspondence, "
               "the effect of rounding on the inequalities is not proved",
               "game value = sup of finite-horizon values (textbook characterisation, taken as definition)",
               "closeness to the true value is proved only in residual form; the error form is false (known finding K1)",
               "the Python predicates allow 1e-12 of binary64 slack above 1 (weights 0.4+0.2+0.3+0.1 add up to 1.0000000000000002)"]

K1_WITNESS = dict(rewards=[0, 0, 0], players=[PR, PR, PR],
                  transition_list=[[(1 - 1e-7, 0), (1e-7, 1)], [(1, 1)], [(1, 2)]], final_states=[1])


def probs_of(r):
    return r.out[3] if r.op == "solve" else r.out[0]


def residual_problem(g, p, can, thr):
    for s in can:
        if s in g["final_states"] or not g["transition_list"][s]:
            continue
        row, k = g["transition_list"][s], g["players"][s]
        if k == PR:
            nxt = 0
            for w, d in row:
                nxt += p[d] * w
        elif k == P1:
            nxt = max([0] + [p[d] for _, d in row])
        else:
            nxt = min([1] + [p[d] for _, d in row])
        if not (-1e-9 <= nxt - p[s] <= thr * (1 + 1e-6) + 1e-15):
            return ("state %d: one more Bellman step gives %r, reported %r: the residual %g is outside [0, %g] "
                    "(the loop stopped before its own stopping rule was met)" % (s, nxt, p[s], nxt - p[s], thr))
    return None


def other_thresholds(ctx, games):
    """the convergence tolerance is a parameter of Solver: with 1e-3, 1e-9 and 1e-12 the reachability loop must honour the
    value it was given (final states 1, states without a path 0, values within [0,1] and never above the true value, residual
    within [0, threshold])"""
    pool = [gm for gm in games if gm[1]["style"] in ("stopping", "exact", "cyclic", "players", "corpus") and not gm[1].get("patient")]
    ctx.rng.shuffle(pool)
    pool = pool[:12 if ctx.quick else 150]
    jobs, info = [], []
    for g, m in pool:
        for thr in (1e-3, 1e-9, 1e-12):
            jobs.append(dict(op="reach", game=enc(g), prune=False, threshold=thr.hex()))
            info.append((g, m, thr))
    res = impl.run_cases(jobs, limit=20, tag="c01thr")
    for (g, m, thr), x in zip(info, res):
        ctx.evaluations += 1
        ctx.count("threshold %g" % thr)
        if "ok" not in x:
            if "timeout" not in x:
                ctx.violation("Solver(threshold=%g): %s" % (thr, x), dict(game=enc(g), game_repr=repr(g), prune=False, op="reach", threshold=thr))
            continue
        p = dec(x["ok"])[0]
        can = sc.paths_to_final(g)
        inp = dict(game=enc(g), game_repr=repr(g), prune=False, op="reach", threshold=thr)
        bad = None
        for s in range(len(p)):
            if s in g["final_states"] and p[s] != 1:
                bad = "final state %d reports %r, not 1" % (s, p[s])
            elif s not in can and p[s] != 0:
                bad = "state %d has no path to a final state but reports %r" % (s, p[s])
            elif not (0 <= p[s] <= 1 + 1e-12):
                bad = "state %d reports %r outside [0,1]" % (s, p[s])
        bad = bad or residual_problem(g, p, can, thr)
        if bad:
            ctx.violation("Solver(threshold=%g): %s" % (thr, bad), inp, probs=p)


def check_values(ctx, recs):
    recs = sc.mismatch_first(recs)
    by_game = {}
    for r in recs:
        if not r.ok:
            continue
        g = r.game
        p = probs_of(r)
        n = len(g["players"])
        can = sc.paths_to_final(g)
        for s in range(n):
            if s in g["final_states"] and p[s] != 1:
                ctx.violation("final state %d reports %r, not 1" % (s, p[s]), r.inp(), probs=p)
            if s not in can and p[s] != 0:
                ctx.violation("state %d has no path to a final state but reports %r" % (s, p[s]), r.inp(), probs=p)
            if not (0 <= p[s] <= 1 + 1e-12):      # binary64 weights such as 0.4+0.2+0.3+0.1 add up to 1.0000000000000002
                ctx.violation("state %d reports %r outside [0,1]" % (s, p[s]), r.inp(), probs=p)
        # the loop's own guarantee (theorem C01_numeric): on every iterated state the Bellman residual lies in [0, threshold]
        bad = residual_problem(g, p, can, sc.THR)
        if bad:
            ctx.violation(bad, r.inp(), probs=p)
        key = sc.game_key(g)
        if key in by_game and by_game[key] != p:
            ctx.violation("probabilities differ between pruning modes", r.inp(), probs=p, other=by_game[key])
        by_game.setdefault(key, p)
    # exact oracle (small games only)
    done = set()
    budget = 150 if ctx.quick else 1500
    for r in recs:
        if not r.ok or budget <= 0:
            continue
        key = sc.game_key(r.game)
        if key in done:
            continue
        done.add(key)
        guard = sc.guard_of(r.game, r.meta)
        v = ox.reach_values(r.game, r.meta)
        if v is None:
            ctx.count("oracle:skipped")
            continue
        budget -= 1
        ctx.count("oracle:" + guard)
        p = probs_of(r)
        for s in range(len(p)):
            if p[s] > float(v[s]) + 1e-9:
                ctx.violation("state %d reports %r, above the true value %s" % (s, p[s], v[s]), r.inp(), probs=p)
            tol = {"exact": 1e-12, "cond": 1e-4}.get(guard)
            if tol is not None and abs(p[s] - float(v[s])) > tol:
                ctx.violation("state %d reports %r, true value %s (family %s, tolerance %g)" % (s, p[s], v[s], guard, tol),
                              r.inp(), probs=p)


def known_k1(ctx):
    res = impl.run_cases([dict(op="reach", game=enc(K1_WITNESS), prune=False)], tag="c01k")[0]
    if "ok" in res:
        p = dec(res["ok"])[0]
        if abs(p[0] - 1.0) > 1e-4:
            if any(k.get("id") == "K1-C01" for k in ctx.known_witnesses()):
                ctx.known_hits.append(("K1-C01", "state 0 of [(1-1e-7 -> 0), (1e-7 -> F)] reports %r, true value 1 "
                                       "(stopping rule bounds the residual, not the error)" % p[0]))
            else:
                ctx.violation("slow-mixing chain reports %r, true value 1" % p[0], dict(game=enc(K1_WITNESS), prune=False, op="reach"))


def cq(x):
    m, e = fdec(x)
    return "(QF %s %s)" % (cz(m), cz(e))


def cgame_q(g):
    tl = []
    for i, row in enumerate(g["transition_list"]):
        if g["players"][i] == PR:
            tl.append(clist(["(mkT \"\" %s %d)" % (cq(x), d) for x, d in row]))
        else:
            tl.append(clist(["(mkT %s (QF 0 0) %d)" % (cstr(x), d) for x, d in row]))
    return "(mkG %s %s %s %s)" % (clist([cq(r) for r in g["rewards"]]), clist([KINDS[p] for p in g["players"]]),
                                  clist(tl), cnats(g["final_states"]))


def exact_vs_float(ctx, recs):
    """the model on EXACT rationals (instance Q, the one the numeric theorems are about), run for exactly as many sweeps
    as the implementation took, against the implementation's binary64 probabilities: every state within 1e-9.
    Measures the effect of rounding the theorems do not cover (the stopping decision itself is not compared: exact
    and rounded arithmetic may legitimately stop one sweep apart)."""
    terms, meta = [], []
    budget = 60 if ctx.quick else 600
    for r in recs:
        if not r.ok or r.prune or r.meta["style"] == "tiny" or len(terms) >= budget:
            continue
        it = r.out[4] if r.op == "solve" else r.out[2]
        if it > 60 or len(r.game["players"]) > 8:
            continue
        try:
            terms.append("(%s, false, %s, %d)" % (cgame_q(r.game), clist([cq(x) for x in probs_of(r)]), it))
            meta.append(r)
        except NotRepresentable:
            pass
    hdr = sc.HDR.replace("From Coq Require Import List ZArith String.", "From Coq Require Import List ZArith String.\nFrom Coq Require QArith.")
    body = lambda l: ("Definition cases : list qreach_case := %s.\n"
                      "Eval vm_compute in (run_qreach_cases (QArith_base.Qmake 1 1000000000) cases).") % l
    bad, errs = coqrun.eval_case_files("c01q", hdr, coqrun.chunked(terms, 20), body)
    ctx.count("exact-vs-binary64 runs", len(terms))
    ctx.notes.append("instance Q (exact rationals) vs implementation (binary64): %d games, %d with a state differing by more than 1e-9"
                     % (len(terms), len(bad)))
    for b in bad:
        ctx.corr_break("exact-rational model and binary64 implementation differ by more than 1e-9 after the same number of sweeps",
                       meta[b].inp())
    for e in errs:
        ctx.harness_errors.append("coqc failed on %s: %s" % (e[0], e[2][-600:]))


def _seqsum(row):
    t = 0
    for w, _ in row:
        t += w
    return t


def float_trace_monotone(ctx, recs):
    """the binary64 model (bit-exact with the implementation) is monotone from below and stays in [0,1] sweep by sweep:
    observed on the model's own trace, for the games of this run (the theorem is about exact rationals)"""
    terms, meta = [], []
    budget = 80 if ctx.quick else 1500
    seen = set()
    for r in recs:
        key = sc.game_key(r.game)
        if not r.ok or key in seen or len(terms) >= budget:
            continue
        it = r.out[4] if r.op == "solve" else r.out[2]
        if it > 300:
            continue
        seen.add(key)
        if any(k == PR and _seqsum(row) > 1 for k, row in zip(r.game["players"], r.game["transition_list"])):
            ctx.count("binary64 weights add up to more than 1 (0.4+0.2+0.3+0.1): outside the idealisation, not traced")
            continue
        try:
            terms.append("(%s, %d)" % (cgame(r.game), it))
            meta.append(r)
        except NotRepresentable:
            pass
    body = lambda l: "Definition cases : list (game (T:=PrimFloat.float) * nat) := %s.\nEval vm_compute in (run_monotone_cases cases)." % l
    hdr = sc.HDR + "From Coq Require PrimFloat.\n"
    bad, errs = coqrun.eval_case_files("c01m", hdr, coqrun.chunked(terms, 40), body)
    ctx.notes.append("binary64 trace monotone and within [0,1] sweep by sweep: %d games checked, %d exceptions" % (len(terms), len(bad)))
    for b in bad:
        ctx.corr_break("the binary64 run is not monotone from below / leaves [0,1] (the idealisation behind the numeric theorems fails here)",
                       meta[b].inp())
    for e in errs:
        ctx.harness_errors.append("coqc failed on %s: %s" % (e[0], e[2][-600:]))


def same_object_modes(ctx, recs):
    """'the reported probabilities are the same whether or not pruning was requested' - also when both modes are
    requested from ONE StochasticGame object, in either order"""
    fresh = {}
    for r in recs:
        if r.ok and r.op == "solve":
            fresh[(sc.game_key(r.game), r.prune)] = r.out[3]
    done, jobs, meta = set(), [], []
    for r in recs:
        key = sc.game_key(r.game)
        if r.op != "solve" or key in done or (key, False) not in fresh or len(jobs) >= (80 if ctx.quick else 800):
            continue
        done.add(key)
        for steps in ([[True, True], [False, False]], [[False, True], [True, False]]):
            jobs.append(dict(op="solve_seq", game=enc(r.game), steps=steps, limit=20))
            meta.append((r, steps))
    res = impl.run_cases(jobs, tag="c01s")
    for (r, steps), out in zip(meta, res):
        ctx.evaluations += 1
        ctx.count("same-object sequences")
        want = fresh[(sc.game_key(r.game), False)]
        for (prune, _), st in zip(steps, out.get("steps", [])):
            if "ok" in st and dec(st["ok"])[3] != want:
                ctx.violation("probabilities of a %s solve through a re-used StochasticGame object differ from a fresh solve"
                              % ("pruned" if prune else "unpruned"), dict(r.inp(), steps=steps), probs=dec(st["ok"])[3], fresh=want)


def run(ctx):
    n = 160 if ctx.quick else 2500
    games = sc.standard_games(ctx, n, 3, 9 if ctx.quick else 10)
    recs = sc.run_games(ctx, games, limit=10 if ctx.quick else 30, tag="c01")
    sc.correspondence(ctx, recs, "cmp_probs", "c01")
    sc.padding_check(ctx, recs, ("probs",), 40 if ctx.quick else 400, "c01")
    sc.loglevel_check(ctx, recs, ("probs",), 25 if ctx.quick else 250, "c01")
    sc.optimize_check(ctx, recs, ("probs",), 25 if ctx.quick else 250, "c01")
    sc.resolve_check(ctx, recs, ("probs",), 30 if ctx.quick else 300, "c01")
    sc.late_edit_check(ctx, recs, ("probs",), 40 if ctx.quick else 300, "c01")
    check_values(ctx, recs)
    other_thresholds(ctx, games)
    exact_vs_float(ctx, recs)
    float_trace_monotone(ctx, recs)
    same_object_modes(ctx, recs)
    known_k1(ctx)


def deep_search(ctx):
    games = sc.standard_games(ctx, 1500, 3, 8, styles=("stopping", "exact"))
    check_values(ctx, sc.run_games(ctx, games, tag="c01d"))


def replay(ctx, data):
    v = sc.replay_input(data)
    if v is None:
        return 1
    g = dec(v["game"])
    job = dict(op=v.get("op", "solve"), game=v["game"], prune=v["prune"])
    if v.get("threshold"):
        job["threshold"] = float(v["threshold"]).hex()
    res = impl.run_cases([job])[0]
    print("implementation:", res)
    meta = dict(fr=[[Fr(p).limit_denominator(10**9) for p, _ in row] if g["players"][i] == PR else None
                    for i, row in enumerate(g["transition_list"])], style="replay")
    print("exact values:", ox.reach_values(g, meta))
    return 0
