"""C07: backward search / reversed table. Model (proved equal to the specification) vs
reverse_dfs.reverse_dfs and reverse_transition_list."""
import itertools
from common import enc, dec, cnats, clist
import coqrun, impl

RULE = ("digraphs as successor lists (self-loops, parallel edges, unreachable parts): exhaustive small "
        "scopes, random graphs to 40 states, chains/ladders/boards; x final lists in any order with "
        "repetitions. non-trivial = at least one edge and a non-final state; distinct by (graph, finals)")
ASSUMPTIONS = ["list.sort sorts; dict semantics; indices in range (the solver validates them first)",
               "the interpreter's recursion limit is outside the model (the repaired search does not recurse)"]
HDR = ("From CR Require Import Model.Outcome Model.Graph Model.Corr.\nFrom Coq Require Import List Arith Bool.\n"
       "Import ListNotations.\n")


def spec_coreach(tl, finals):
    n = len(tl)
    preds = {}
    for u, row in enumerate(tl):
        for v in row:
            preds.setdefault(v, []).append(u)
    seen = set(finals)
    todo = list(finals)
    while todo:
        v = todo.pop()
        for u in preds.get(v, []):
            if u not in seen:
                seen.add(u)
                todo.append(u)
    return sorted(s for s in seen if s not in set(finals))


def small_graphs(n, maxdeg):
    rows = [list(r) for k in range(maxdeg + 1) for r in itertools.product(range(n), repeat=k)]
    for g in itertools.product(rows, repeat=n):
        yield [list(r) for r in g]


def final_lists(n, maxlen):
    for k in range(1, maxlen + 1):
        for f in itertools.product(range(n), repeat=k):
            yield list(f)


def gen(ctx):
    rng = ctx.rng
    cases = []
    # corpus: D2 witness and shapes around it
    cases += [([[1], [1, 2], [2]], [2]), ([[1, 2], [3], [3], [3]], [3, 3]), ([[0]], [0]),
              ([[1, 1], [0, 2], [2], [3, 0], [4]], [2, 2])]
    for n in (1, 2):
        for g in small_graphs(n, 2):
            for f in final_lists(n, 2):
                cases.append((g, f))
    g3 = list(small_graphs(3, 2))
    f3 = list(final_lists(3, 2))
    if ctx.quick:
        for _ in range(1500):
            cases.append((rng.choice(g3), rng.choice(f3)))
    else:
        for g in g3:
            for f in f3:
                cases.append((g, f))
        g4rows = [list(r) for k in range(3) for r in itertools.product(range(4), repeat=k)]
        for _ in range(20000):
            cases.append(([rng.choice(g4rows) for _ in range(4)], [rng.randrange(4) for _ in range(rng.randint(1, 3))]))
    for _ in range(200 if ctx.quick else 1500):
        n = rng.randint(4, 40)
        dens = rng.choice([0.5, 1, 1.5, 3])
        g = [[rng.randrange(n) for _ in range(min(n, int(rng.expovariate(1 / dens))))] for _ in range(n)]
        f = [rng.randrange(n) for _ in range(rng.randint(1, 4))]
        cases.append((g, f))
    return cases


def big_graphs(ctx, medium=False):
    """medium: sizes the unary-nat model evaluates in seconds; otherwise implementation-only sizes"""
    out = []
    L = 250 if medium else (1500 if ctx.quick else 5000)
    out.append(("chain", [[i + 1] for i in range(L - 1)] + [[L - 1]], [L - 1]))
    out.append(("ladder", [[i + 1, i + 2] if i + 2 < L else [L - 1] for i in range(L)], [L - 1, 0][:1]))
    out.append(("back-chain", [[0]] + [[i] for i in range(L - 1)], [0]))
    if not medium:
        # "graphs of any size and depth": a corridor far deeper than any recursion limit one might set by hand
        D = 30000
        out.append(("deep-chain", [[i + 1] for i in range(D - 1)] + [[D - 1]], [D - 1]))
    # a tall board as the generator lays it out (game A, 3 columns)
    rows = 16 if medium else (60 if ctx.quick else 200)
    W = 3
    nt = rows * W
    tl = []
    for i in range(rows):
        for j in range(W):
            tl.append([nt + i * W + j, 2 * nt + i * W + j])
    for i in range(rows):
        for j in range(W):
            tl.append([3 * nt + i * W + j + W] if i < rows - 1 else [4 * nt + 1])
    for i in range(rows):
        for j in range(W):
            tl.append([3 * nt + i * W + (j - 1) % W, 3 * nt + i * W + (j + 1) % W])
    for i in range(rows):
        for j in range(W):
            tl.append([4 * nt, i * W + j] if (i + j) % 3 == 0 else [i * W + j])
    tl += [[4 * nt], [4 * nt + 1]]
    out.append(("board", tl, [4 * nt + 1]))
    return out


LABELS = (1, "a", "", 0, 0.5, 0.0, "b", 1.0)


def as_tl(g):
    # the first component of a transition is an action label or a probability; the search must look at the target
    # only, so every kind of legal first component is used, the falsy ones ("" , 0, 0.0) included
    return [[(LABELS[(i * 7 + k * 3 + v) % len(LABELS)], v) for k, v in enumerate(row)] for i, row in enumerate(g)]


def run(ctx):
    cases = gen(ctx)
    big = big_graphs(ctx, medium=True) + big_graphs(ctx)
    nmed = len(big) // 2
    jobs = [dict(op="rdfs", tl=enc(as_tl(g)), finals=enc(f)) for g, f in cases]
    jobs += [dict(op="rtable", tl=enc(as_tl(g))) for g, f in cases[:600]]
    jobs += [dict(op="rdfs", tl=enc(as_tl(g)), finals=enc(f), limit=120) for _, g, f in big]
    res = impl.run_cases(jobs, limit=20, tag="c07")
    nc = len(cases)
    terms, meta = [], []
    for (g, f), r in zip(cases, res[:nc]):
        ctx.evaluations += 1
        key = (tuple(map(tuple, g)), tuple(f))
        if any(g) and len(set(f)) < len(g):
            ctx.nontrivial.add(key)
        ctx.count("states=%d" % len(g) if len(g) <= 4 else "states>4")
        exp = spec_coreach(g, f)
        if "ok" not in r:
            ctx.violation("reverse_dfs raised %s" % (r.get("exc") or "timeout"), dict(tl=g, finals=f), impl=r)
            continue
        out = dec(r["ok"])
        if out != exp:
            ctx.violation("reverse_dfs returned %s, co-reachable non-final states are %s" % (out, exp),
                          dict(tl=g, finals=f), impl=out)
        terms.append("(%s, %s, %s)" % (clist([cnats(row) for row in g]), cnats(f), cnats(out)))
        meta.append((g, f, out))
    ctx.sample(dict(tl=cases[3][0], finals=cases[3][1], impl=dec(res[3]["ok"]) if "ok" in res[3] else res[3]))
    # the same list searched twice, with a transition added IN PLACE to one of its rows in between: the second answer is about
    # the graph as it is then
    seq = []
    for g, f in cases[:80 if ctx.quick else 800]:
        if len(g) >= 2:
            u, v = ctx.rng.randrange(len(g)), ctx.rng.randrange(len(g))
            seq.append((g, f, u, v))
    rs = impl.run_cases([dict(op="rdfs_seq", tl=enc(as_tl(g)), finals=enc(f), edit=enc([u, ("added", v)])) for g, f, u, v in seq],
                        limit=20, tag="c07s")
    for (g, f, u, v), r in zip(seq, rs):
        ctx.evaluations += 1
        ctx.count("searched again after an in-place edit")
        g2 = [list(row) + ([v] if i == u else []) for i, row in enumerate(g)]
        exp = spec_coreach(g2, f)
        if "ok" not in r or dec(r["ok"]) != exp:
            ctx.violation("after adding the transition %d -> %d in place to a list searched before, reverse_dfs returned %s; co-reachable "
                          "non-final states are %s" % (u, v, dec(r["ok"]) if "ok" in r else r, exp), dict(tl=g2, finals=f, edited_in_place=[u, v]))
    # table
    tterms, tmeta = [], []
    for (g, f), r in zip(cases[:600], res[nc:nc + 600]):
        ctx.evaluations += 1
        if "ok" not in r:
            ctx.violation("reverse_transition_list raised %s" % r.get("exc"), dict(tl=g), impl=r)
            continue
        items = dec(r["ok"])
        want = {}
        for u, row in enumerate(g):
            for v in row:
                want.setdefault(v, []).append(u)
        for s in range(len(g)):
            want.setdefault(s, [])
        if dict((k, v) for k, v in items) != want or len(items) != len(want):
            ctx.violation("reversed table %s differs from the specified table %s" % (items, sorted(want.items())),
                          dict(tl=g), impl=items)
        tterms.append("(%s, %s)" % (clist([cnats(row) for row in g]),
                                    clist(["(%d, %s)" % (k, cnats(v)) for k, v in items])))
        tmeta.append(g)
    # big graphs: implementation + specification (python) and the model
    bterms = []
    for (name, g, f), r in zip(big, res[nc + 600:]):
        ctx.evaluations += 1
        ctx.count("big:" + name)
        ctx.nontrivial.add(("big", name, len(g)))
        exp = spec_coreach(g, f)
        if "ok" not in r:
            ctx.violation("reverse_dfs raised %s on %s of %d states" % (r.get("exc") or "timeout", name, len(g)),
                          dict(shape=name, states=len(g), tl=g if len(g) < 3000 else None, finals=f), impl=r)
            continue
        if dec(r["ok"]) != exp:
            ctx.violation("reverse_dfs wrong on %s of %d states" % (name, len(g)), dict(shape=name, tl=g, finals=f))
        if len(bterms) < nmed:
            bterms.append("(%s, %s, %s)" % (clist([cnats(row) for row in g]), cnats(f), cnats(dec(r["ok"]))))
    body = lambda l: ("Definition cases : list (list (list nat) * list nat * list nat) := %s.\n"
                      "Eval vm_compute in (idx_where (fun c => negb (match reverse_dfs (fst (fst c)) (snd (fst c)) with "
                      "Ok r => list_eqb Nat.eqb r (snd c) | _ => false end)) cases).") % l
    bad, errs = coqrun.eval_case_files("c07", HDR, coqrun.chunked(terms, 400), body)
    ctx.corr_cases += len(terms)
    for b in bad:
        g, f, out = meta[b]
        ctx.corr_break("model (proved equal to the specification) and reverse_dfs disagree", dict(tl=g, finals=f), impl=out)
    tbody = lambda l: ("Definition cases : list (list (list nat) * list (nat * list nat)) := %s.\n"
                       "Eval vm_compute in (idx_where (fun c => negb (Nat.eqb (length (rev_table (fst c))) (length (snd c)) && "
                       "forallb (fun kl => match dict_get (rev_table (fst c)) (fst kl) with Some l => list_eqb Nat.eqb l (snd kl) "
                       "| None => false end) (snd c))) cases).") % l
    bad, errs2 = coqrun.eval_case_files("c07t", HDR, coqrun.chunked(tterms, 300), tbody)
    ctx.corr_cases += len(tterms)
    for b in bad:
        ctx.corr_break("model table and reverse_transition_list disagree", dict(tl=tmeta[b]))
    badb, errs3 = coqrun.eval_case_files("c07b", HDR, [[t] for t in bterms], body, timeout=1500)
    ctx.corr_cases += len(bterms)
    for b in badb:
        ctx.corr_break("model and reverse_dfs disagree on a large graph", dict(shape=big[b][0]))
    for e in errs + errs2 + errs3:
        ctx.harness_errors.append("coqc failed on %s: %s" % (e[0], e[2][-500:]))


def replay(ctx, data):
    import solvecommon
    v = solvecommon.replay_input(data)
    if v is None or "tl" not in v or v["tl"] is None:
        return 1
    r = impl.run_cases([dict(op="rdfs", tl=enc(as_tl(v["tl"])), finals=enc(v["finals"]))])[0]
    exp = spec_coreach(v["tl"], v["finals"])
    print("implementation:", r, "specification:", exp)
    return 0 if r.get("ok") is not None and dec(r["ok"]) == exp else 1
