"""C13: results do not depend on how the game is written down (metamorphic)."""
from common import enc, dec, P1, P2, PR
import solvecommon as sc, oracle_exact as ox, gen_games, impl

RULE = ("stopping / exact-dyadic games x random renamings (state permutation fixing state 0, per-state transition order, injective "
        "action renaming); implementation run on the original and on each transformed description, both modes. non-trivial = >3 "
        "states, some state with >=2 transitions and a non-identity permutation; distinct by (description, renaming, mode)")
ASSUMPTIONS = ["sweep order is not equivariant: equality up to renaming is asserted exactly on the exact family, within 1e-4 on the "
               "bounded-absorption-time family, and only structurally otherwise (K1)"]

A = dict(rewards=[0] * 7, players=[P1, P1, P1, PR, PR, PR, PR],
         transition_list=[[("a", 1)], [("a", 2)], [("a", 3)], [(1e-7, 5), (1 - 1e-7, 6)], [(0.5, 5), (0.5, 6)], [(1, 5)], [(1, 6)]],
         final_states=[5])
B = dict(rewards=[0] * 7, players=[P1, PR, P1, P1, PR, PR, PR],
         transition_list=[[("a", 3)], [(1e-7, 5), (1 - 1e-7, 6)], [("a", 1)], [("a", 2)], [(0.5, 5), (0.5, 6)], [(1, 5)], [(1, 6)]],
         final_states=[5])


def transforms(ctx, g, m, k):
    out = []
    n = len(g["players"])
    names = sorted({x for row in g["transition_list"] for x, _ in row if isinstance(x, str)})
    for _ in range(k):
        perm = list(range(1, n))
        ctx.rng.shuffle(perm)
        perm = [0] + perm
        pool = ["p", "q", "r", "s", "t", "u", "v", "w", "x", "y", "zz", "left", "right"]
        ctx.rng.shuffle(pool)
        acts = {a: pool[i] for i, a in enumerate(names)}
        orders = {}
        for s, row in enumerate(g["transition_list"]):
            o = list(range(len(row)))
            ctx.rng.shuffle(o)
            orders[s] = o
        g2, m2 = gen_games.rename(g, m, perm, acts, orders)
        out.append((g2, m2, perm, acts))
    return out


# second K1 witness: all three actions of state 0 are truly reach-optimal (value 1/2); the in-place sweep leaves
# 0.499994 / 0.499995 in one numbering and equal 6-digit roundings in the other, so the reachability strategy,
# hence the conditioned game and its rewards (42 vs 54), depend on the numbering
A2 = {'rewards': [1.6666666666666667, 3, 0, 0, 2, 2, 1],
      'players': [P1, P2, PR, PR, PR, PR, P2],
      'transition_list': [[('beta', 6), ('d', 4), ('a', 6)], [('b', 4), ('a', 4)], [(1, 2)], [(1, 3)],
                          [(0.5, 5), (0.25, 0), (0.125, 3), (0.125, 6)], [(0.25, 1), (0.25, 2), (0.5, 6)], [('b', 1), ('a', 1)]],
      'final_states': [2]}
B2 = {'rewards': [1.6666666666666667, 2, 0, 3, 2, 0, 1],
      'players': [P1, PR, PR, P2, PR, PR, P2],
      'transition_list': [[('p', 6), ('r', 6), ('x', 1)], [(0.25, 0), (0.125, 6), (0.5, 4), (0.125, 2)], [(1, 2)],
                          [('r', 1), ('right', 1)], [(0.25, 5), (0.5, 6), (0.25, 3)], [(1, 5)], [('right', 3), ('r', 3)]],
      'final_states': [5]}


def same_strategies(r0, r1, perm, acts, idx):
    for s in range(len(perm)):
        a0, a1 = r0.out[idx][s], r1.out[idx][perm[s]]
        if (a0 is None) != (a1 is None):
            return False
        if a0 is not None and sorted(acts.get(a, a) for a in a0) != sorted(a1):
            return False
    return True


def compare(ctx, r0, r1, perm, acts, guard):
    inp = dict(r0.inp(), transformed=enc(r1.game), transformed_repr=repr(r1.game))
    if "timeout" in r0.res or "timeout" in r1.res:
        # one of the two numberings did not return within the time limit: the claim is about what the solver DECLARES; whether it
        # returns at all is C06's claim, for stopping games. (Seen once, thorough seed 50: an 'exact' game with zero-reward
        # player-only cycles solves in one numbering and rotates its probability diagnostic round such a cycle for ever in
        # another - the mechanism of known finding K5, on a game that is not a stopping game.)
        ctx.count("one numbering did not return within the time limit (not compared)")
        return
    if r0.ok != r1.ok or (not r0.ok and r0.describe() != r1.describe()):
        ctx.violation("solvability/outcome changes under renaming: %s vs %s" % (r0.describe(), r1.describe()), inp)
        return
    if not r0.ok or guard == "any" or r0.op != "solve" or r1.op != "solve":
        return
    tolp = 1e-12 if guard == "exact" else 1e-4
    tolr = 1e-9 if guard == "exact" else 1e-4
    n = len(perm)
    # Outside the exact family a true tie between Player-1 actions may be broken differently in the two numberings
    # (K1: the reach loop's error exceeds the 6-digit rounding); the conditioned games then differ legitimately in
    # the sense of K1, so rewards are compared only when the reported reachability strategies correspond.
    rewards_comparable = guard == "exact" or same_strategies(r0, r1, perm, acts, 1)
    if not rewards_comparable:
        ctx.count("tie-sensitive (rewards not compared)")
    for s in range(n):
        t = perm[s]
        if abs(r0.out[3][s] - r1.out[3][t]) > tolp:
            ctx.violation("probability of state %d changes under renaming: %r vs %r" % (s, r0.out[3][s], r1.out[3][t]), inp)
        if rewards_comparable and abs(r0.out[2][s] - r1.out[2][t]) > tolr * (1 + abs(r0.out[2][s])):
            ctx.violation("expected reward of state %d changes under renaming: %r vs %r" % (s, r0.out[2][s], r1.out[2][t]), inp)
        if guard != "exact":
            continue
        for idx, what in ((1, "reachability"), (0, "final")):
            a0, a1 = r0.out[idx][s], r1.out[idx][t]
            if (a0 is None) != (a1 is None):
                ctx.violation("%s strategy of state %d appears/disappears under renaming" % (what, s), inp)
            elif a0 is not None and sorted(acts.get(a, a) for a in a0) != sorted(a1):
                if idx == 0:
                    # reward ties through renormalised (non-dyadic) weights may round differently: only count
                    vals = sorted(r0.out[2][d] for _, d in (r0.pruned or r0.game["transition_list"])[s])
                    if any(0 < abs(x - y) < 1e-5 for x, y in zip(vals, vals[1:])):
                        ctx.count("near-tie")
                        continue
                ctx.violation("%s strategy of state %d changes under renaming: %r vs %r" % (what, s, a0, a1), inp)
            elif a1 is not None:
                row = [a for a, _ in r1.game["transition_list"][t]]
                if [a for a in row if a in a1] != a1:
                    ctx.violation("%s strategy of state %d is not listed in transition order" % (what, t), inp)


def known_k1(ctx):
    res = impl.run_cases([dict(op="solve", game=enc(A), prune=True), dict(op="solve", game=enc(B), prune=True)], tag="c13k")
    a_ok, b_ok = "ok" in res[0], "ok" in res[1]
    if a_ok != b_ok:
        what = ("the 7-state chain game (0->1->2->3, state 3 reaching the final state with 1e-7) is declared to have no solution, "
                "its renumbering (0->3->2->1) is solved with probability 1e-7")
        if any(k.get("id") == "K1-C13" for k in ctx.known_witnesses()):
            ctx.known_hits.append(("K1-C13", what))
        else:
            ctx.violation(what, dict(game=enc(A), transformed=enc(B), prune=True, op="solve"))


def run(ctx):
    base = [(gen_games.FIG55, gen_games.FIG55_META)] + sc.corpus_games() + gen_games.pattern_games(2)
    base += gen_games.mixed_games(ctx.rng, 70 if ctx.quick else 1500, 4, 9, styles=("stopping", "exact", "ties"))
    ct = gen_games.chain_tie_games()
    base += ct[::3] if ctx.quick else ct
    k = 3 if ctx.quick else 7
    games, plan = [], []
    for g, m in base:
        i0 = len(games)
        games.append((g, m))
        for g2, m2, perm, acts in transforms(ctx, g, m, k):
            plan.append((i0, len(games), perm, acts))
            games.append((g2, m2))
    recs = sc.run_games(ctx, games, limit=10, tag="c13")
    sc.correspondence(ctx, recs, "cmp_all", "c13")
    for i0, i1, perm, acts in plan:
        g, m = games[i0]
        guard = sc.guard_of(g, m)
        ctx.count("guard:" + guard)
        for mode in (0, 1):
            compare(ctx, recs[2 * i0 + mode], recs[2 * i1 + mode], perm, acts, guard)
    known_k1(ctx)
    known_k1b(ctx)


def known_k1b(ctx):
    res = impl.run_cases([dict(op="solve", game=enc(A2), prune=True), dict(op="solve", game=enc(B2), prune=True)], tag="c13k")
    if "ok" in res[0] and "ok" in res[1]:
        x, y = dec(res[0]["ok"])[2][0], dec(res[1]["ok"])[2][0]
        if abs(x - y) > 1e-3:
            what = ("a 7-state stopping game whose initial state has three truly reach-optimal actions reports expected reward %r, "
                    "its renaming %r: the tie is broken differently because the reach values are only approximately converged" % (x, y))
            if any(k.get("id") == "K1-C13b" for k in ctx.known_witnesses()):
                ctx.known_hits.append(("K1-C13b", what))
            else:
                ctx.violation(what, dict(game=enc(A2), transformed=enc(B2), prune=True, op="solve"))


deep_search = run


def replay(ctx, data):
    v = sc.replay_input(data)
    if v is None:
        return 1
    jobs = [dict(op="solve", game=v["game"], prune=v["prune"])]
    if "transformed" in v:
        jobs.append(dict(op="solve", game=v["transformed"], prune=v["prune"]))
    for r in impl.run_cases(jobs):
        print("implementation:", r)
    return 0
