"""C06: every well-formed stopping game is solved or declared unsolvable."""
from common import enc, dec, P1, P2, PR
import solvecommon as sc, oracle_exact as ox, gen_games, impl

RULE = ("stopping / exact-dyadic games incl. initial states that cannot reach a final state or are forced away by Player 2, "
        "0-4 dead successors in all arrangements, rewarded states next to dead branches; both modes; 20 s limit per run. "
        "non-trivial = >3 states and some state with >=2 transitions; distinct by (description, mode)")
ASSUMPTIONS = ["a probabilistic state whose alive successors all carry probability exactly 0 (surviving mass 0) is outside the quantifier (DESIGN.md Appendix E, boundary observations); zero weights on dead successors are inside it",
               "non-termination of the implementation is observed through a time limit; termination of the model's reach loop is a theorem on exact rationals, of the reward loop only partially"]

K1_WITNESS = dict(rewards=[0, 0, 0, 0], players=[P1, PR, PR, PR],
                  transition_list=[[("a", 1)], [(1e-7, 2), (1 - 1e-7, 3)], [(1, 2)], [(1, 3)]], final_states=[2])


def unsolvable_starts(ctx, count):
    out = []
    for g, m in gen_games.mixed_games(ctx.rng, count, 4, 8, styles=("stopping", "exact")):
        g = dict(g)
        n = len(g["players"])
        sink = next(s for s in range(n) if g["transition_list"][s] == [(1, s)] and s not in g["final_states"])
        tl = list(g["transition_list"])
        players = list(g["players"])
        fr = list(m["fr"])
        if ctx.rng.random() < 0.5:
            players[0], tl[0], fr[0] = PR, [(1, sink)], [1]                      # cannot reach a final state
        else:
            players[0], tl[0], fr[0] = P2, [("x", sink), ("y", min(n - 1, 1))], None   # Player 2 forces it away
        g.update(players=players, transition_list=tl)
        out.append((g, dict(m, fr=fr)))
    return out


def check(ctx, recs):
    by = {}
    for r in recs:
        by.setdefault(sc.game_key(r.game), {})[r.prune] = r
    for key, d in by.items():
        for prune, r in d.items():
            if r.op != "solve":
                continue
            n = len(r.game["players"])
            if "timeout" in r.res:
                ctx.violation("solve did not return within the time limit", r.inp())
            elif r.ok:
                if len(r.out) != 8 or any(len(r.out[i]) != n for i in (0, 1, 2, 3, 6, 7)):
                    ctx.violation("incomplete result", r.inp(), out=str(r.out)[:500])
                if prune and r.out[3][0] == 0:
                    ctx.violation("pruned solve returned although the initial state reports probability 0", r.inp())
            else:
                if r.res.get("exc") != "ValueError" or r.res.get("msg") != sc.NOSOL:
                    ctx.violation("well-formed game failed with %s" % r.describe(), r.inp())
                elif not prune:
                    ctx.violation("'no solution' raised without pruning", r.inp())
                elif False in d and d[False].ok and d[False].out[3][0] != 0:
                    ctx.violation("'no solution' although the initial state reports %r" % d[False].out[3][0], r.inp())


def known_k1(ctx):
    res = impl.run_cases([dict(op="solve", game=enc(K1_WITNESS), prune=True)], tag="c06k")[0]
    if res.get("msg") == sc.NOSOL:
        what = "initial state -> probabilistic state reaching the final state with 1e-7: value 1e-7 > 0 but 'no solution' is raised"
        if any(k.get("id") == "K1-C06" for k in ctx.known_witnesses()):
            ctx.known_hits.append(("K1-C06", what))
        else:
            ctx.violation(what, dict(game=enc(K1_WITNESS), prune=True, op="solve"))


def run(ctx):
    games = [(gen_games.FIG55, gen_games.FIG55_META)] + sc.corpus_games() + gen_games.pattern_games(4)
    games += gen_games.pattern_games3(3)      # initial states whose value is tiny but positive
    games += gen_games.mixed_games(ctx.rng, 250 if ctx.quick else 5000, 3, 9, styles=("stopping", "exact"))
    games += unsolvable_starts(ctx, 60 if ctx.quick else 800)
    games += gen_games.extra_families(ctx.rng, games, 12 if ctx.quick else 150)
    recs = sc.run_games(ctx, games, limit=20, tag="c06")
    sc.correspondence(ctx, recs, "cmp_shape", "c06")
    sc.resolve_check(ctx, recs, (), 40 if ctx.quick else 400, "c06")
    check(ctx, recs)
    corridor(ctx)
    known_k1(ctx)


def corridor(ctx):
    """a long one-way corridor numbered along the way, every state paying reward 1: a stopping game in which the largest change
    per sweep stays exactly 1 for more than a thousand sweeps before it drops to 0 - slow progress is not divergence"""
    for n in ((1101,) if ctx.quick else (1101, 2501)):
        corridor_of(ctx, n)
    if not ctx.quick:
        # ... and a three-state game whose reward loop needs about 1.4 million sweeps (self-loop left with probability 1e-5)
        g = dict(players=[PR, PR, PR], rewards=[1, 0, 0], transition_list=[[(0.99999, 0), (0.000009, 1), (0.000001, 2)], [(1, 1)], [(1, 2)]],
                 final_states=[1])
        res = impl.run_cases([dict(op="solve", game=enc(g), prune=p, limit=300) for p in (True, False)], limit=300, tag="c06m")
        for prune, r in zip((True, False), res):
            ctx.evaluations += 1
            ctx.count("game needing more than a million sweeps")
            if "timeout" not in r and "ok" not in r:
                ctx.violation("a stopping game needing ~1.4 million reward sweeps is neither solved nor declared unsolvable: %s: %s"
                              % (r.get("exc"), r.get("msg")), dict(game=enc(g), game_repr=repr(g), prune=prune, op="solve"))


def corridor_of(ctx, n):
    g = dict(players=[PR] * n, rewards=[1] * (n - 1) + [0], transition_list=[[(1, i + 1)] for i in range(n - 1)] + [[(1, n - 1)]],
             final_states=[n - 1])
    res = impl.run_cases([dict(op="solve", game=enc(g), prune=True, limit=300), dict(op="solve", game=enc(g), prune=False, limit=300)],
                         limit=300, tag="c06c")
    for prune, r in zip((True, False), res):
        ctx.evaluations += 1
        ctx.count("corridor of %d states" % n)
        if "timeout" in r:
            continue
        inp = dict(game=enc(g), game_repr="corridor of %d states, reward 1 each" % n, prune=prune, op="solve")
        if "ok" not in r:
            ctx.violation("a %d-state corridor (a stopping game) is neither solved nor declared unsolvable: %s: %s"
                          % (n, r.get("exc"), r.get("msg")), inp)
        elif dec(r["ok"])[2][0] != n - 1 or dec(r["ok"])[3][0] != 1:
            ctx.violation("a %d-state corridor: initial state reports reward %r and probability %r, expected %d and 1"
                          % (n, dec(r["ok"])[2][0], dec(r["ok"])[3][0], n - 1), inp)


deep_search = run


def replay(ctx, data):
    v = sc.replay_input(data)
    if v is None:
        return 1
    res = impl.run_cases([dict(op="solve", game=v["game"], prune=v["prune"])], limit=30)[0]
    print("implementation:", res)
    return 0 if ("ok" in res or res.get("msg") == sc.NOSOL) else 1
