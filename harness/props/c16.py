"""C16: the saved report states exactly what was computed; the input file is read into the games
it denotes. Model: Model/Report.v (format_entry, report_lines/report_text, stem/report_path, show_py)."""
import ast, copy, os, re
from common import BUILD, REPO, enc, dec, cstr, clist, NotRepresentable
import coqrun, impl, gen_games

RULE = ("result dictionaries from run_games on generated files of 1-3 games (<= 9 states; styles stopping/exact, "
        "figure 5.5, a malformed game (negative reward / unknown player / final or next state out of range / missing "
        "transitions) and an unsolvable one, so that None, 0 and empty lists occur), names built from letters, digits "
        "and underscores (never x together with x_no_prune), paths with and without directories, dots in directories, "
        "other extensions; report compared with the model in Coq and re-read line by line with ast.literal_eval; "
        "reader: every file of the repository's inputs/ and generated texts (repr, pretty-printed, comments, "
        "fractions written as 1/4, 5/3, 10**2, non-dictionaries) against an independent evaluator over the ast. "
        "non-trivial = a dictionary with at least one solved game; distinct by (file text, path)")
ASSUMPTIONS = ["CPython's repr/str of None, bools, ints, floats, strs and lists, and eval(repr(v)) == v for them, are taken "
               "as given: section variable show / hypothesis parse (show v) = Some v in the theorems; show_py renders "
               "ints, None, bools, lists and quote-free strings itself and takes the repr of each float from the harness",
               "the 'Total time' value is not reproducible: its text is taken from the report itself and only checked to be "
               "a non-negative float",
               "the independent reader is a small evaluator over ast.parse(text, mode='eval') that accepts literals, "
               "tuples, lists, dicts, unary +/- and the binary operators / * + - ** on numbers, nothing else "
               "(ast.literal_eval alone rejects 1/4 and 5/3); files using anything else would be skipped and counted",
               "dict keeps insertion order; str.split as documented (modelled by split_on)"]
HDR = ("From Coq Require Import String List Bool ZArith.\nFrom CR Require Import Model.Params Model.Report Model.Corr.\n"
       "Import ListNotations.\nLocal Open Scope string_scope.\n")
SCRATCH = os.path.join(BUILD, "scratch")

LABELS = ["Running example         : ", "Message                 : ", "number of states        : ",
          "number of transitions   : ", "n iterations reach      : ", "n iterations rew        : ",
          "Reachability strategies : ", "Final strategies        : ", "Are equal               : ",
          "Probabilities           : ", "Probabilities min rew   : ", "Rewards                 : ",
          "Rewards min reach       : ", "Total time              : "]
KEYS = [None, "msg", "n_states", "n_transitions", "n_iterations_reach", "n_iterations_rew", "reachability_strategies",
        "final_strategies", None, "probabilities", "prob_min_rew", "rewards", "rew_min_reach", None]
ENTRY_ORDER = ["n_states", "n_transitions", "n_iterations_reach", "n_iterations_rew", "reachability_strategies",
               "final_strategies", "probabilities", "prob_min_rew", "rewards", "rew_min_reach"]


# ------------------------------------------------------------------ strict comparison / safe evaluation
def same(a, b):
    """structural equality that also distinguishes 1 / 1.0 / True, list / tuple, and key order"""
    if type(a) is not type(b):
        return False
    if isinstance(a, float):
        return a.hex() == b.hex()
    if isinstance(a, (list, tuple)):
        return len(a) == len(b) and all(same(x, y) for x, y in zip(a, b))
    if isinstance(a, dict):
        return len(a) == len(b) and all(same(k1, k2) and same(a[k1], b[k2]) for k1, k2 in zip(a, b))
    return a == b


class Unsupported(Exception):
    pass


_BIN = {ast.Div: lambda x, y: x / y, ast.Mult: lambda x, y: x * y, ast.Add: lambda x, y: x + y,
        ast.Sub: lambda x, y: x - y, ast.Pow: lambda x, y: x ** y}


def _num(v):
    if type(v) not in (int, float):
        raise Unsupported("operator on a non-number")
    return v


def _ev(n):
    if isinstance(n, ast.Constant):
        if n.value is None or type(n.value) in (bool, int, float, str):
            return n.value
        raise Unsupported(type(n.value).__name__)
    if isinstance(n, ast.Tuple):
        return tuple(_ev(x) for x in n.elts)
    if isinstance(n, ast.List):
        return [_ev(x) for x in n.elts]
    if isinstance(n, ast.Dict):
        out = {}
        for k, v in zip(n.keys, n.values):
            if k is None:
                raise Unsupported("** in dict")
            out[_ev(k)] = _ev(v)
        return out
    if isinstance(n, ast.UnaryOp) and isinstance(n.op, (ast.USub, ast.UAdd)):
        v = _num(_ev(n.operand))
        return -v if isinstance(n.op, ast.USub) else +v
    if isinstance(n, ast.BinOp) and type(n.op) in _BIN:
        return _BIN[type(n.op)](_num(_ev(n.left)), _num(_ev(n.right)))
    raise Unsupported(type(n).__name__)


def safe_eval(text):
    return _ev(ast.parse(text, mode="eval").body)


def py_stem(path):
    base = path[path.rfind("/") + 1:]
    k = base.find(".")
    return base if k < 0 else base[:k]


# ------------------------------------------------------------------ Coq terms
def cpy(v):
    if v is None:
        return "PNone"
    if isinstance(v, bool):
        return "(PBool %s)" % ("true" if v else "false")
    if isinstance(v, int):
        return "(PInt (%d)%%Z)" % v
    if isinstance(v, float):
        return "(PFloat %s)" % cstr(repr(v))
    if isinstance(v, str):
        if "'" in v or "\\" in v:
            raise NotRepresentable(v)
        return "(PStr %s)" % cstr(v)
    if isinstance(v, list):
        return "(PList %s)" % clist([cpy(x) for x in v])
    raise NotRepresentable(type(v).__name__)


# ------------------------------------------------------------------ generators
MALFORMED = ["neg_reward", "bad_player", "final_oob", "next_oob", "missing"]


def malformed(rng, g):
    g = copy.deepcopy(g)
    kind = rng.choice(MALFORMED)
    n = len(g["rewards"])
    if kind == "neg_reward":
        g["rewards"][rng.randrange(n)] = -1
    elif kind == "bad_player":
        g["players"][rng.randrange(n)] = "Player 3"
    elif kind == "final_oob":
        g["final_states"] = g["final_states"] + [n]
    elif kind == "next_oob":
        s = rng.randrange(n)
        x, _ = g["transition_list"][s][0]
        g["transition_list"][s][0] = (x, n + 2)
    else:
        g["transition_list"] = g["transition_list"][:-1]
    return g


def unsolvable(rng):
    n = rng.randint(3, 5)
    # state 0 only reaches the sink n-1; the final state n-2 is unreachable from it
    tl = [[("a", n - 1)]] + [[(1, n - 1)] for _ in range(n - 3)] + [[(1, n - 2)], [(1, n - 1)]]
    return dict(rewards=[rng.choice([0, 1, 2]) for _ in range(n - 2)] + [0, 0],
                players=[gen_games.P1] + [gen_games.PR] * (n - 1), transition_list=tl, final_states=[n - 2])


def gen_name(rng):
    parts = ["a", "b", "game", "robot", "x1", "g_2", "no", "prune", "7", "A", "no_prune", "fig_5_5", "w3_l3", "0"]
    return "_".join(rng.choice(parts) for _ in range(rng.randint(1, 3)))


def gen_dict(ctx, pool):
    rng = ctx.rng
    while True:
        k = rng.choice([1, 2, 2, 3])
        names = []
        while len(names) < k:
            nm = gen_name(rng)
            if nm not in names:
                names.append(nm)
        every = set(names) | set(n + "_no_prune" for n in names)
        if len(every) == 2 * k:                      # K2 guard: no result key is produced twice
            break
    games = {}
    kinds = []
    for nm in names:
        c = rng.random()
        if c < 0.62:
            g, kind = copy.deepcopy(rng.choice(pool)), "generated"
        elif c < 0.72:
            g, kind = copy.deepcopy(gen_games.FIG55), "fig55"
        elif c < 0.87:
            g, kind = malformed(rng, rng.choice(pool + [gen_games.FIG55])), "malformed"
        else:
            g, kind = unsolvable(rng), "unsolvable"
        games[nm] = g
        kinds.append(kind)
    return games, kinds


def gen_path(rng, text_mode):
    st = rng.choice(["g", "robot_3_w2_l2_r6_rb10", "my_games_2", "x", "A_1", "file7", "no_prune"])
    if text_mode:
        return "inputs/%s.py" % st, st
    form = rng.choice(["inputs/%s.py", "inputs/%s.py", "%s.py", "/abs/dir/%s.py", "inputs/v1.2/%s.py", "../up/%s.txt",
                       "inputs/%s", "inputs/%s.tar.gz", "a/b/c/%s.py"])
    return form % st, st


def fr_text(x, fr):
    if fr is not None and fr.denominator != 1:
        return "%d/%d" % (fr.numerator, fr.denominator)
    return repr(x)


def pretty_text(rng, games, metas):
    """the games as a hand-written file: comments, line breaks, probabilities written as fractions"""
    out = ["# generated for the reader check", "#", ""]
    out.append("{")
    for nm, g in games.items():
        meta = metas.get(nm)
        out.append("    %r: {" % nm)
        rew = ", ".join("5/3" if r == 5 / 3 else ("10**1" if r == 10 and type(r) is int else repr(r)) for r in g["rewards"])
        out.append("        'rewards': [%s],  # rewards" % rew)
        out.append("        'players': %r," % (g["players"],))
        rows = []
        for i, row in enumerate(g["transition_list"]):
            frs = meta["fr"][i] if meta and meta["fr"][i] is not None and len(meta["fr"][i]) == len(row) else None
            items = []
            for j, (x, d) in enumerate(row):
                items.append("(%s, %d)" % (fr_text(x, frs[j]) if frs and not isinstance(x, str) else repr(x), d))
            rows.append("            [" + ", ".join(items) + "]")
        out.append("        'transition_list': [\n" + ",\n".join(rows) + "],")
        out.append("        'final_states': %r" % (g["final_states"],))
        out.append("    },")
    out.append("}")
    return "\n".join(out) + rng.choice(["", "\n", "\n\n"])


# ------------------------------------------------------------------ the report of one run, judged in Python
def judge_report(ctx, inp, path, r):
    """returns (entries, lines) for the Coq comparison, or None"""
    if "ok" not in r:
        ctx.violation("run_games / save_results_to_file raised %s: %s" % (r.get("exc", "timeout"), r.get("msg", "")), inp, impl=r)
        return None
    res = dec(r["ok"])
    text = r.get("text")
    want_file = py_stem(path) + ".txt"
    if r.get("files") != [want_file]:
        ctx.violation("the report of %s is %s, not outputs/%s" % (path, r.get("files"), want_file), inp, impl=r.get("files"))
        return None
    if text is None or not text.endswith("\n"):
        ctx.violation("the report does not end with a newline", inp, impl=text)
        return None
    lines = text[:-1].split("\n")
    if len(lines) != 15 * len(res):
        ctx.violation("the report has %d lines for %d result entries (15 each)" % (len(lines), len(res)), inp, impl=text)
        return None
    entries = []
    for b, (name, e) in enumerate(res):
        blk = lines[15 * b:15 * b + 15]
        where = "block %d (%s)" % (b, name)
        if blk[0] != "=" * 160:
            ctx.violation("%s does not start with the rule line" % where, inp, impl=blk[0])
        bad = False
        for k, lab in enumerate(LABELS):
            if not blk[k + 1].startswith(lab):
                ctx.violation("%s: line %d does not start with its label '%s'" % (where, k + 1, lab), inp, impl=blk[k + 1])
                bad = True
        if bad:
            continue
        rest = [blk[k + 1][26:] for k in range(14)]
        if rest[0] != name:
            ctx.violation("%s: the 'Running example' line names %r" % (where, rest[0]), inp, impl=blk[1])
        if rest[1] != e["msg"]:
            ctx.violation("%s: the message line reads %r, the run produced %r" % (where, rest[1], e["msg"]), inp, impl=blk[2])
        for k in range(2, 13):
            try:
                v = ast.literal_eval(rest[k])
            except (ValueError, SyntaxError) as ex:
                ctx.violation("%s: line '%s' cannot be read back (%s)" % (where, blk[k + 1][:120], ex), inp, impl=blk[k + 1])
                continue
            want = (e["reachability_strategies"] == e["final_strategies"]) if k == 8 else e[KEYS[k]]
            if not same(v, want):
                ctx.violation("%s: line '%s' reads back as %r, the run produced %r" % (where, LABELS[k].strip(" :"), v, want), inp, impl=blk[k + 1])
        try:
            tt = float(rest[13])
            if not tt >= 0 or repr(tt) != rest[13]:
                raise ValueError(rest[13])
        except ValueError:
            ctx.violation("%s: the total time %r is not a non-negative float" % (where, rest[13]), inp, impl=blk[14])
            tt = None
        try:
            fields = [cpy(e[k]) for k in ENTRY_ORDER]
            entries.append("(%s, mkEntry %s %s (PFloat %s))" % (cstr(name), cstr(e["msg"]), " ".join(fields), cstr(rest[13])))
        except NotRepresentable:
            return None
    try:
        return entries, [cstr(l) for l in lines]
    except NotRepresentable:
        return None


# ------------------------------------------------------------------ run
def run(ctx):
    import source_facts
    source_facts.check_labels(ctx)
    rng = ctx.rng
    os.makedirs(SCRATCH, exist_ok=True)
    pool_m = gen_games.mixed_games(rng, 40 if ctx.quick else 200, 3, 9, styles=("stopping", "exact"))
    # keep only games on which both solves return within a few seconds (a generated game may let Player 1
    # collect reward on a cycle for ever: the reward iteration then never stops, which is not this property's
    # subject and would only show up here as a time-out of the whole batch)
    pre = impl.run_cases([dict(op="solve", game=enc(g), prune=pr, limit=5) for g, _ in pool_m for pr in (True, False)],
                         limit=5, tag="c16p")
    pool_m = [gm for k, gm in enumerate(pool_m) if "timeout" not in pre[2 * k] and "timeout" not in pre[2 * k + 1]]
    ctx.notes.append("game pool: %d generated games kept, %d dropped because a solve did not return within 5 s"
                     % (len(pool_m), len(pre) // 2 - len(pool_m)))
    pool = [g for g, _ in pool_m]
    meta_of = {id(g): m for g, m in pool_m}
    ndict = 100 if ctx.quick else 1000
    cases = []
    for i in range(ndict):
        games, kinds = gen_dict(ctx, pool)
        text_mode = i % 3 == 0
        path, st = gen_path(rng, text_mode)
        c = dict(op="report", games=enc(games), path=path, scratch=SCRATCH, limit=60)
        if text_mode:
            c["text"] = repr(games)
        cases.append((games, kinds, path, c))
    jobs = [c for _, _, _, c in cases]

    # reader: repository inputs and generated texts
    rjobs, rmeta = [], []
    skipped_big = 0
    indir = os.path.join(REPO, "inputs")
    for fn in sorted(os.listdir(indir)) if os.path.isdir(indir) else []:
        p = os.path.join(indir, fn)
        if not fn.endswith(".py") or not os.path.isfile(p):
            continue
        if ctx.quick and os.path.getsize(p) > 300_000:
            skipped_big += 1
            continue
        rjobs.append(dict(op="read_dict", file="inputs/" + fn, limit=120))
        rmeta.append(("repo:" + fn, open(p).read()))
    for i in range(40 if ctx.quick else 400):
        k = rng.choice([1, 2, 3])
        chosen = [rng.choice(pool_m) for _ in range(k)]
        games = {"g%d_%s" % (j, rng.choice(["a", "x_1", "no_prune", "se\u00f1al", "\u03b1\u03b2", "na\u00efve_1"])): g for j, (g, _) in enumerate(chosen)}
        metas = {nm: m for nm, (_, m) in zip(games, chosen)}
        if rng.random() < 0.3:
            games["fig_5_5"] = copy.deepcopy(gen_games.FIG55)
            metas["fig_5_5"] = gen_games.FIG55_META
        form = i % 4
        text = repr(games) if form == 0 else (str(games).replace("], ", "],\n") if form == 1 else pretty_text(rng, games, metas))
        rjobs.append(dict(op="read_dict", text=text, name="t%d.py" % i))
        rmeta.append(("text:%d" % form, text))
    for text in ("[1, 2]", "42", "'x'", "(1, 2)", "None", "{1, 2}", "{}", "{'a': 1}", "  {'a': {'rewards': [1/4, 5/3, 10**2, -1, 2*3, 1-0.5]}}\n",
                 "{'se\u00f1al_17_08': {'players': ['Player 1'], 'x': [('\u03b1', 0), ('\u00e9t\u00e9', 0)]}}"):
        rjobs.append(dict(op="read_dict", text=text, name="lit.py"))
        rmeta.append(("literal", text))

    # K2 witness (known finding): names a and a_no_prune in one file
    k2 = dict(op="report", games=enc({"a": copy.deepcopy(gen_games.FIG55), "a_no_prune": unsolvable(rng)}),
              path="inputs/k2.py", scratch=SCRATCH, limit=60)
    # end to end through the command line
    ncli = 4 if ctx.quick else 20
    cli_jobs = []
    for games, kinds, path, c in cases[:ncli]:
        st = py_stem(path)
        # every log level the command line offers: the report must not depend on it
        lvl = [[], ["-l", "i"], ["-l", "dd"], ["--log_level", "d"]][len(cli_jobs) // 2 % 4]
        cli_jobs.append(dict(op="solver_cli", path="inputs/%s.py" % st, text=repr(games), argv=["-f", "inputs/%s.py" % st, "-s"] + lvl, limit=60))
        if len(cli_jobs) == 1:
            # the file is given by a bare relative name while another file of that name sits under inputs/: -f names the former
            cli_jobs[-1].update(path="%s.py" % st, argv=["-f", "%s.py" % st, "-s"] + lvl, decoys={"inputs/%s.py" % st: "{'decoy': {}}"})
        if len(cli_jobs) % 4 == 3:
            # the input is a symbolic link to a file of another name: the report is still named after the file that was given
            cli_jobs[-1]["link_to"] = "batch_2024_07.py"
        cli_jobs.append(dict(op="solver_cli", path="inputs/%s.py" % st, text=repr(games), argv=["--file", "inputs/%s.py" % st], limit=60))

    # the command line on a file denoting no game at all, with a report of an earlier run present: -s still writes this run's
    # (empty) report
    cli_empty = dict(op="solver_cli", path="inputs/empty_cli.py", text="{}", argv=["-f", "inputs/empty_cli.py", "-s"],
                     decoys={"outputs/empty_cli.txt": "stale report of an earlier run\n" * 50}, limit=60)
    r_empty = impl.run_cases([cli_empty], limit=60, tag="c16ce")[0]
    ctx.evaluations += 1
    ctx.count("cli: empty batch over a stale report")
    if r_empty.get("rc") != 0 or r_empty.get("outputs") != {"empty_cli.txt": ""}:
        ctx.violation("conditionalrewards.py -f inputs/empty_cli.py -s on a file denoting no game, an older report present: exit %s, "
                      "outputs %s (expected an empty outputs/empty_cli.txt)" % (r_empty.get("rc"), {k: v[:40] for k, v in (r_empty.get("outputs") or {}).items()}),
                      dict(text="{}", argv=cli_empty["argv"], stale_report=True))
    res = impl.run_cases(jobs + rjobs + [k2] + cli_jobs, limit=60, tag="c16")
    rrep = res[:len(jobs)]
    rread = res[len(jobs):len(jobs) + len(rjobs)]
    rk2 = res[len(jobs) + len(rjobs)]
    rcli = res[len(jobs) + len(rjobs) + 1:]

    # ---- reports
    terms, meta = [], []
    texts = {}
    for (games, kinds, path, c), r in zip(cases, rrep):
        ctx.evaluations += 1
        inp = dict(games=enc(games), path=path, text_mode="text" in c)
        for k in kinds:
            ctx.count("game:" + k)
        ctx.count("games-per-file:%d" % len(games))
        if "text" in c and "ok" in r:
            back = dec(r["read"]) if r.get("read") is not None else None
            # prune_states is added to each game by run_games itself
            if isinstance(back, dict):
                for g in back.values():
                    if isinstance(g, dict):
                        g.pop("prune_states", None)
            if not same(back, games):
                ctx.violation("read_dict_from_file(repr(games)) differs from games", inp, impl=r.get("read"))
        j = judge_report(ctx, inp, path, r)
        if "ok" in r:
            solved = [e for _, e in dec(r["ok"]) if e["msg"] == "Game solved"]
            if solved:
                ctx.nontrivial.add((repr(games), path))
            names = [n for n, _ in dec(r["ok"])]
            want = [x for nm in games for x in (nm, nm + "_no_prune")]
            if names != want:
                ctx.violation("report blocks %s are not one per game and pruning mode in run order %s" % (names, want), inp, impl=names)
            texts[len(terms)] = r.get("text")
        if j:
            entries, lines = j
            terms.append("(%s, %s, %s, %s)" % (clist(entries), clist(lines), cstr(path), cstr("outputs/" + r["files"][0])))
            meta.append(inp)
    if cases and "ok" in rrep[0]:
        ctx.sample(dict(path=cases[0][2], names=list(cases[0][0]), report_head=(rrep[0].get("text") or "")[:700]))
    body = lambda l: (
        "Definition cases : list (list (string * entry) * list string * string * string) := %s.\n"
        "Definition ok (c : list (string * entry) * list string * string * string) : bool :=\n"
        "  match c with (es, ls, path, out) =>\n"
        "    list_eqb String.eqb (report_lines show_py es) ls && String.eqb (report_text show_py es) (text_of_lines ls)\n"
        "    && list_eqb String.eqb (lines_of (report_text show_py es)) ls && String.eqb (report_path path) out end.\n"
        "Eval vm_compute in (idx_where (fun c => negb (ok c)) cases).") % l
    bad, errs = coqrun.eval_case_files("c16", HDR, coqrun.chunked(terms, 20), body)
    ctx.corr_cases += len(terms)
    for k in bad:
        ctx.corr_break("model report (format_entry / report_path with CPython's renderings) and the saved report disagree", meta[k])

    # ---- reader
    unsupported = 0
    for (kind, text), r in zip(rmeta, rread):
        ctx.evaluations += 1
        ctx.count("reader:" + kind.split(":")[0] + (":" + kind.split(":")[1] if kind.startswith("text") else ""))
        inp = dict(kind=kind, text=text if len(text) < 4000 else text[:4000] + "...")
        try:
            want = safe_eval(text)
        except Unsupported:
            unsupported += 1
            continue
        except SyntaxError:
            continue
        if not isinstance(want, dict):
            if r.get("exc") != "ValueError" or r.get("msg") != "The file content is not a valid Python dictionary.":
                ctx.violation("a file whose content is not a dictionary (%s) was not refused with the documented ValueError: %s"
                              % (type(want).__name__, str(r)[:200]), inp, impl=r)
            continue
        if "ok" not in r:
            ctx.violation("read_dict_from_file raised %s on a file denoting a dictionary" % r.get("exc", "timeout"), inp, impl=str(r)[:300])
            continue
        ctx.nontrivial.add(("reader", kind, len(text), hash(text)))
        if not same(dec(r["ok"]), want):
            ctx.violation("read_dict_from_file returned a dictionary different from the one the text denotes", inp)
    ctx.notes.append("reader: %d texts, %d skipped as using syntax outside the independent evaluator, %d repository inputs "
                     "over 300 kB skipped in this tier" % (len(rmeta), unsupported, skipped_big))

    # ---- an input file denoting no game at all, saved over the report of an earlier, bigger run: the report is the (empty)
    # sequence of this run's blocks, not yesterday's
    re_ = impl.run_cases([dict(op="report", games=enc({}), text="{}", path="inputs/empty_batch.py", scratch=SCRATCH,
                               stale_out="empty_batch.txt", limit=30)], tag="c16e")[0]
    ctx.evaluations += 1
    ctx.count("empty batch over a stale report")
    if "ok" not in re_ or re_.get("files") != ["empty_batch.txt"] or (re_.get("text") or "") != "":
        ctx.violation("a file denoting no game, saved with an older report of the same name present: files %s, report %r (expected an "
                      "empty outputs/empty_batch.txt)" % (re_.get("files"), (re_.get("text") or "")[:80] if "ok" in re_ else re_),
                      dict(text="{}", path="inputs/empty_batch.py", stale_report=True))

    # ---- one path read twice in one process, replaced in between by a different text of the same length with the old timestamp
    t1 = "{'g': {'rewards': [1, 0], 'players': ['Player 1', 'Probabilistic'], 'transition_list': [[('a', 1)], [(1, 1)]], 'final_states': [1]}}"
    t2 = t1.replace("[1, 0]", "[7, 0]").replace("('a', 1)", "('b', 1)")
    rt = impl.run_cases([dict(op="read_twice", first=t1, second=t2, limit=30)], tag="c16t")[0]
    ctx.evaluations += 1
    ctx.count("same path read twice (same length, same timestamp)")
    if "ok" not in rt or not same(dec(rt["ok"]), safe_eval(t2)):
        ctx.violation("a path read a second time in one process, after the file was replaced by another text of the same length and "
                      "timestamp, does not give the games the file denotes now: %s" % (str(dec(rt["ok"]))[:200] if "ok" in rt else rt),
                      dict(kind="read twice", text=t2, first_text=t1))

    # ---- command line
    for k in range(0, len(rcli), 2):
        ctx.evaluations += 1
        ctx.count("cli")
        a, b = rcli[k], rcli[k + 1]
        games, kinds, path, c = cases[k // 2]
        st = py_stem(path)
        inp = dict(games=enc(games), argv=cli_jobs[k]["argv"])
        notime = lambda t: re.sub(r"(?m)^Total time              : .*$", "Total time              : *", t or "")
        if a.get("rc") != 0 or list(a.get("outputs", {})) != [st + ".txt"]:
            ctx.violation("conditionalrewards.py -f inputs/%s.py -s: exit %s, outputs %s" % (st, a.get("rc"), list(a.get("outputs", {}))), inp, impl=a)
        elif "ok" in rrep[k // 2] and notime(a["outputs"][st + ".txt"]) != notime(rrep[k // 2].get("text")):
            ctx.violation("the report written by the command line differs from save_results_to_file(run_games(...))", inp, impl=a["outputs"])
        if b.get("rc") != 0 or b.get("outputs"):
            ctx.violation("without -s the command line must not write a report: exit %s, outputs %s" % (b.get("rc"), list(b.get("outputs", {}))), inp, impl=b)

    # ---- K2: prints nothing itself
    ctx.evaluations += 1
    if "ok" in rk2:
        names = [n for n, _ in dec(rk2["ok"])]
        nblocks = (rk2.get("text") or "").count("Running example")
        if len(names) == 3 and nblocks == 3:
            ctx.known_hits.append(("K2", "names 'a' and 'a_no_prune' in one file share the result key 'a_no_prune': "
                                         "3 report blocks for 4 runs"))
        elif len(names) != 4 or nblocks != 4:
            ctx.violation("K2 witness behaves differently: result keys %s, %d report blocks" % (names, nblocks),
                          dict(names=["a", "a_no_prune"]), impl=names)
    else:
        ctx.violation("K2 witness: run failed %s" % str(rk2)[:200], dict(names=["a", "a_no_prune"]), impl=rk2)
    for e in errs:
        ctx.harness_errors.append("coqc failed on %s: %s" % (e[0], e[2][-500:]))


def replay(ctx, data):
    v = data.get("input") or (data.get("details") or [{}])[0].get("input") or {}
    os.makedirs(SCRATCH, exist_ok=True)
    if "games" in v and "path" in v:
        games = dec(v["games"])
        c = dict(op="report", games=v["games"], path=v["path"], scratch=SCRATCH, limit=60)
        if v.get("text_mode"):
            c["text"] = repr(games)
        r = impl.run_cases([c])[0]
        print((r.get("text") or str(r))[:3000])
        sub = type(ctx)(ctx.pid, ctx.tier, ctx.seed)
        judge_report(sub, v, v["path"], r)
        for x in sub.violations:
            print("VIOLATED:", x["what"])
        return 1 if sub.violations or "ok" not in r else 0
    if "text" in v:
        r = impl.run_cases([dict(op="read_dict", text=v["text"], name="replay.py")])[0]
        try:
            want = safe_eval(v["text"])
        except Exception as e:   # noqa: BLE001
            print("independent evaluator:", e)
            return 1
        print("read_dict_from_file ->", str(r)[:1000], "\nindependent evaluation ->", str(want)[:1000])
        if not isinstance(want, dict):
            return 0 if r.get("exc") == "ValueError" else 1
        return 0 if "ok" in r and same(dec(r["ok"]), want) else 1
    print("nothing to replay")
    return 1
