"""C14: cross-objective diagnostics match the reported strategies."""
from fractions import Fraction as Fr
from common import enc, dec, P1, P2, PR
import solvecommon as sc, oracle_exact as ox, gen_games, impl

RULE = ("stopping / exact-dyadic games, corpus, dead/alive patterns; both modes; the induced-chain oracle is applied to runs whose final "
        "strategies are single actions at every state reachable from the initial state. non-trivial = >3 states and a state with >=2 "
        "transitions; distinct by (description, mode)")
ASSUMPTIONS = ["equality with the induced chain's true values only on guarded families (K1 otherwise); the step-refinement theorems are generic"]


def induced_values(g, meta, r):
    """Markov chain in which both players follow their FINAL strategies on the conditioned game"""
    out, pr = r.out, r.pruned
    final, reachs = out[0], out[1]
    n = len(pr)
    tl, fr = ox.conditioned(g, meta, reachs, out[3], r.prune)
    live = ox.reachable_from0(tl)
    for s in live:
        if g["players"][s] != PR and tl[s] and (final[s] is None or len(final[s]) != 1):
            return None
    P = []
    for s in range(n):
        if not tl[s]:
            P.append([])
        elif g["players"][s] == PR:
            P.append([(fr[s][i], d) for i, (_, d) in enumerate(tl[s])])
        else:
            acts = final[s] or []
            pick = [d for a, d in tl[s] if a in acts]
            P.append([(Fr(1), pick[0] if pick else tl[s][0][1])])
    return live, P, tl, fr


def check(ctx, recs):
    recs = sc.mismatch_first(recs)
    budget = 150 if ctx.quick else 2000
    budget2 = 400 if ctx.quick else 4000
    for r in recs:
        if not r.ok or r.op != "solve":
            continue
        g, out = r.game, r.out
        pmr, rmr = out[6], out[7]
        if r.prune and abs(pmr[0] - 1) > 1e-4 and sc.guard_of(g, r.meta) != "any":
            # from the initial state the conditioned game reaches a final state almost surely
            iv = induced_values(g, r.meta, r)
            if iv is not None:
                ctx.violation("'probabilities under minimal reward' is %r at the initial state of a pruned run, expected 1" % pmr[0], r.inp())
        guard = sc.guard_of(g, r.meta)
        if guard == "exact" and budget2 > 0:
            budget2 -= 1
            tl, fr = ox.conditioned(g, r.meta, out[1], out[3], r.prune)
            live = ox.reachable_from0(tl)
            if all(g["players"][s] != P1 or not tl[s] or len(out[0][s] or []) == 1 for s in live):
                tol = 1e-9
                # 'rewards under minimal reachability': Player 1 follows its final strategy, Player 2 plays inside its reported
                # reachability strategy and picks the cheapest continuation -> a minimisation over Player 2's restricted choices
                tl2 = []
                for s in range(len(tl)):
                    k = g["players"][s]
                    if k == P1 and tl[s]:
                        tl2.append([t for t in tl[s] if t[0] in (out[0][s] or [])][:1] or tl[s][:1])
                    elif k == P2 and tl[s]:
                        tl2.append([t for t in tl[s] if t[0] in (out[1][s] or [])] or tl[s])
                    else:
                        tl2.append(tl[s])
                y = ox.reward_values(g, r.meta, tl2, fr)
                if y is not None:
                    for s in live:
                        if abs(rmr[s] - float(y[s])) > tol + 1e-14 * abs(float(y[s])):      # absolute slack: see c02
                            ctx.violation("state %d: 'rewards under minimal reachability' %r, expected %s (Player 1 on its final strategy, "
                                          "Player 2 cheapest inside its reachability strategy)" % (s, rmr[s], y[s]), r.inp(), rew_min_reach=rmr)
        if guard == "any" or budget <= 0:
            continue
        iv = induced_values(g, r.meta, r)
        if iv is None:
            ctx.count("oracle:ties")
            continue
        live, P, tl, fr = iv
        x = ox.chain_reach(len(P), P, g["final_states"])
        if x is None:
            continue
        if guard == "cond":
            T = ox.max_steps(g, r.meta, tl, fr)
            if T is None or 1e-6 * float(T) > 5e-5:
                continue
        budget -= 1
        ctx.count("oracle:" + guard)
        tol = 1e-9 if guard == "exact" else 1e-4
        aff = k5_affected(g, P, tl, x, live)
        if aff:
            ctx.count("K5-class states (player state that never reaches a final state under the final strategies): not compared", len(aff))
        for s in live:
            if s in aff:
                continue
            if abs(pmr[s] - float(x[s])) > tol:
                ctx.violation("state %d: 'probability under minimal reward' %r, induced chain reaches a final state with %s" % (s, pmr[s], x[s]),
                              r.inp(), prob_min_rew=pmr)


def residual_check(ctx, recs):
    """the reward loop's own guarantee, theorem C14D_solve_residual (proved of the model on exact rationals), evaluated on the
    implementation's output: when solve returns, every state's expected reward and both diagnostics follow its conditioned row up
    to the threshold - probabilistic states by the weighted sums, a Player-1/2 state through ONE successor for the expected reward
    and the probability diagnostic (Player 1: for all three), Player 2's reward diagnostic through the minimum over its reported
    reachability strategy. A loop that stops before its stopping rule is met leaves a larger residual."""
    for r in recs:
        if not r.ok or r.op != "solve" or r.pruned is None:
            continue
        g, out, rows = r.game, r.out, r.pruned
        er, erm, ermr, reachs = out[2], out[6], out[7], out[1]
        for s, row in enumerate(rows):
            k, rw = g["players"][s], g["rewards"][s]
            tol = lambda v: sc.THR * (1 + 1e-6) + 1e-9 * (1 + abs(v))      # noqa: E731
            bad = None
            if not row:
                if (er[s], erm[s], ermr[s]) != (0, 0, 0):
                    bad = "an emptied state reports (%r, %r, %r), not zeros" % (er[s], erm[s], ermr[s])
            elif k == PR:
                a = sum(w * erm[d] for w, d in row)
                b = rw + sum(w * ermr[d] for w, d in row)
                if abs(a - erm[s]) > tol(a):
                    bad = "'probability under minimal reward' %r, weighted sum over its successors %r" % (erm[s], a)
                elif abs(b - ermr[s]) > tol(b):
                    bad = "'reward under minimal reachability' %r, reward + weighted sum over its successors %r" % (ermr[s], b)
            elif k == P1:
                if not any(abs(rw + er[d] - er[s]) <= tol(er[s]) and abs(erm[d] - erm[s]) <= tol(erm[s])
                           and abs(rw + ermr[d] - ermr[s]) <= tol(ermr[s]) for _, d in row):
                    bad = ("no successor explains the triple (expected reward %r, probability diagnostic %r, reward diagnostic %r)"
                           % (er[s], erm[s], ermr[s]))
            else:
                if not any(abs(rw + er[d] - er[s]) <= tol(er[s]) and abs(erm[d] - erm[s]) <= tol(erm[s]) for _, d in row):
                    bad = "no successor explains the pair (expected reward %r, probability diagnostic %r)" % (er[s], erm[s])
                else:
                    perm = [d for a, d in row if a in (reachs[s] or [])]
                    if perm:
                        b = rw + min(ermr[d] for d in perm)
                        if abs(b - ermr[s]) > tol(b):
                            bad = ("'reward under minimal reachability' %r, reward + cheapest continuation inside the reported "
                                   "reachability strategy %r" % (ermr[s], b))
            if bad:
                ctx.violation("state %d (%s): %s - the diagnostics are not converged to the solver's own tolerance" % (s, k, bad),
                              r.inp(), rewards=er, prob_min_rew=erm, rew_min_reach=ermr)
                break


def k5_affected(g, P, tl, x, live):
    """known finding K5: a PLAYER state with two or more actions from which, under the final strategies, no final state
    is ever reached (its true 'probability under minimal reward' is 0) can keep a stale diagnostic copied, in an early
    sweep when all expected rewards still tied, from a successor it does not follow in the end; the stale value then
    flows to every state whose induced chain passes through it. Returns those states (they are not compared)."""
    stale = set(s for s in live if g["players"][s] != PR and len(tl[s]) >= 2 and x[s] == 0)
    if not stale:
        return set()
    aff = set(stale)
    changed = True
    while changed:
        changed = False
        for s in live:
            if s not in aff and any(p != 0 and d in aff for p, d in P[s]):
                aff.add(s); changed = True
    return aff


K5_WITNESS = dict(players=[PR, P2, PR, PR, PR], rewards=[0, 0, 0, 0, 1],
                  transition_list=[[(0.5, 1), (0.5, 3)], [("c", 1), ("a", 2)], [(1, 4)], [(1, 3)], [(1, 3)]], final_states=[3])


def known_k5(ctx):
    """explicit witness of K5 (pruning off): Player 2 at state 1 ends up looping on 'c' (reward 0) for ever, so it never
    reaches the final state, but reports 1 - copied from state 2 in the first sweep, when both actions still tied at 0"""
    res = impl.run_cases([dict(op="solve", game=enc(K5_WITNESS), prune=False)], tag="c14k")[0]
    if "ok" not in res:
        ctx.violation("K5 witness: solve failed: %s" % str(res)[:200], dict(game=enc(K5_WITNESS), prune=False, op="solve"))
        return
    out = dec(res["ok"])
    if out[0][1] == ["c"] and (abs(out[6][1]) > 1e-9 or abs(out[6][0] - 0.5) > 1e-9):
        what = ("a Player-2 state whose final strategy is a zero-reward self-loop reports 'probability under minimal reward' %r "
                "(initial state %r); following the final strategies it reaches the final state with probability 0 (initial state 1/2)"
                % (out[6][1], out[6][0]))
        if any(k.get("id") == "K5" for k in ctx.known_witnesses()):
            ctx.known_hits.append(("K5", what))
        else:
            ctx.violation(what, dict(game=enc(K5_WITNESS), prune=False, op="solve"))


def run(ctx):
    known_k5(ctx)
    games = [(gen_games.FIG55, gen_games.FIG55_META)] + sc.corpus_games() + gen_games.pattern_games(3)
    games += gen_games.mixed_games(ctx.rng, 260 if ctx.quick else 5000, 3, 9, styles=("stopping", "exact", "ties"))
    games += gen_games.extra_families(ctx.rng, games, 12 if ctx.quick else 150)
    games += gen_games.offset_tie_games()
    games += gen_games.minreach_games()
    recs = sc.run_games(ctx, games, limit=10, tag="c14")
    sc.correspondence(ctx, recs, "cmp_diag", "c14")
    sc.padding_check(ctx, recs, ("erm", "ermr"), 40 if ctx.quick else 400, "c14")
    sc.loglevel_check(ctx, recs, ("erm", "ermr"), 25 if ctx.quick else 250, "c14")
    sc.optimize_check(ctx, recs, ("erm", "ermr"), 25 if ctx.quick else 250, "c14")
    sc.resolve_check(ctx, recs, ("erm", "ermr"), 30 if ctx.quick else 300, "c14")
    check(ctx, recs)
    residual_check(ctx, recs)


deep_search = run


def replay(ctx, data):
    v = sc.replay_input(data)
    if v is None:
        return 1
    res = impl.run_cases([dict(op="solve", game=v["game"], prune=v["prune"])])[0]
    print("implementation:", res)
    return 0
