"""C03: conditioning removes every dead branch, and only dead branches."""
import math
from common import enc, dec, P1, P2, PR
import solvecommon as sc, oracle_exact as ox, gen_games, impl

RULE = ("one Player-1 / probabilistic state with k successors in EVERY dead/alive pattern (k<=4 quick, k<=6 thorough) inside "
        "a host game + corpus (two adjacent / two separated dead successors) + random games whose reward loop terminates + "
        "'twin' games (a predecessor-less copy of a Player-2/probabilistic state, the description spelt with one shared list "
        "object for equal rows); "
        "observed: every node's next_states when the reward loop starts. non-trivial = >3 states and a state with >=2 "
        "transitions; distinct by (description, mode)")
ASSUMPTIONS = ["theorems are generic in the number operations, so they hold of the binary64 instance; 'sum to 1' is proved on exact rationals"]


def expected_lists(r):
    """independent restatement of the property on the implementation's own reported values"""
    g, out = r.game, r.out
    reach_strats, probs = out[1], out[3]
    exp = []
    for i, row in enumerate(g["transition_list"]):
        k = g["players"][i]
        row = [t for t in row if t[0] in reach_strats[i]] if k == P1 else list(row)
        if r.prune and k in (P1, PR):
            al = [t for t in row if probs[t[1]] != 0]
            if k == PR and len(al) != len(row):
                tot = 0
                for p, _ in al:
                    tot += p
                al = [(p / tot, d) for p, d in al]
            row = al
        exp.append(row)
    return exp


def check(ctx, recs):
    for r in recs:
        if not r.ok or r.op != "solve" or r.pruned is None:
            continue
        g, out, pr = r.game, r.out, r.pruned
        probs = out[3]
        exp = expected_lists(r)
        live = ox.reachable_from0(pr)
        for i in range(len(pr)):
            k = g["players"][i]
            if r.prune and k in (P1, PR):
                for x, d in pr[i]:
                    if probs[d] == 0:
                        ctx.violation("state %d keeps a transition into state %d whose probability is 0" % (i, d), r.inp(), pruned=str(pr))
            if pr[i] == [] and exp[i] != []:
                if not r.prune or k == P1 or i in live:
                    ctx.violation("state %d lost all its transitions" % i, r.inp(), pruned=str(pr))
                continue
            if [d for _, d in pr[i]] != [d for _, d in exp[i]]:
                ctx.violation("state %d: surviving targets %s, expected %s (alive successors in place)" %
                              (i, [d for _, d in pr[i]], [d for _, d in exp[i]]), r.inp(), pruned=str(pr))
                continue
            for (x, d), (y, _) in zip(pr[i], exp[i]):
                if k == PR:
                    if abs(x - y) > 2 * math.ulp(max(abs(y), 1e-300)):
                        ctx.violation("state %d: weight %r, expected old/total = %r" % (i, x, y), r.inp(), pruned=str(pr))
                elif x != y:
                    ctx.violation("state %d: label %r, expected %r" % (i, x, y), r.inp(), pruned=str(pr))
            if k == PR and pr[i] and r.prune:
                tot = sum(x for x, _ in pr[i])
                if abs(tot - 1) > 1e-9 and abs(sum(p for p, _ in g["transition_list"][i]) - 1) < 1e-9:
                    ctx.violation("state %d: surviving probabilities sum to %r" % (i, tot), r.inp(), pruned=str(pr))


def games_for(ctx):
    kmax = 4 if ctx.quick else 6
    games = [(gen_games.FIG55, gen_games.FIG55_META)] + sc.corpus_games() + gen_games.pattern_games(kmax)
    games += gen_games.pattern_games3(3 if ctx.quick else 4)
    rnd = gen_games.mixed_games(ctx.rng, 150 if ctx.quick else 3000, 3, 9, styles=("stopping", "exact"))
    games += rnd
    games += gen_games.twin_games(rnd + games[:40], ctx.rng, 60 if ctx.quick else 600)
    games += gen_games.extra_families(ctx.rng, rnd, 12 if ctx.quick else 150)
    for g, m in gen_games.mixed_games(ctx.rng, 60 if ctx.quick else 1000, 3, 8, styles=("cyclic", "tiny", "players")):
        m = dict(m, full=True)
        games.append((gen_games.zero_rewards(g), m))
    return games


def run(ctx):
    recs = sc.run_games(ctx, games_for(ctx), limit=10, tag="c03")
    sc.correspondence(ctx, recs, "cmp_pruned", "c03")
    sc.padding_check(ctx, recs, ("pruned",), 40 if ctx.quick else 400, "c03")
    sc.loglevel_check(ctx, recs, ("pruned",), 25 if ctx.quick else 250, "c03")
    sc.optimize_check(ctx, recs, ("pruned",), 25 if ctx.quick else 250, "c03")
    sc.resolve_check(ctx, recs, ("pruned",), 30 if ctx.quick else 300, "c03")
    check(ctx, recs)
    for r in recs:
        if "timeout" in r.res and r.meta["style"] in gen_games.TERMINATING:
            ctx.violation("solve did not return within the time limit", r.inp())


deep_search = run


def replay(ctx, data):
    v = sc.replay_input(data)
    if v is None:
        return 1
    meta = dict(style=v.get("style") or "stopping", share=bool(v.get("share")), full=True)
    recs = sc.run_games(ctx, [(dec(v["game"]), meta)], modes=(v["prune"],), limit=60, tag="c03r")
    for r in recs:
        print("implementation:", r.describe(), "| lists when the reward loop starts:", r.pruned)
    check(ctx, recs)
    sc.correspondence(ctx, recs, "cmp_pruned", "c03r")
    for x in ctx.violations:
        print("violation:", x["what"])
    for x in ctx.corr_breaks:
        print("model/implementation mismatch:", x["what"])
    return 1 if (ctx.violations or ctx.corr_breaks) else 0
