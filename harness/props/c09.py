"""C09: malformed game descriptions are rejected with ValueError, never solved.
Mutation by rule: well-formed host games x every documented rule x every position (state,
transition, tuple slot) x boundary values. The implementation (validation prefix on its own, solve in
both pruning modes, run_games for a subset) is compared with the Coq model `validate`
(coq/Model/Validate.v) and judged by an independent Python re-statement of the documented rules."""
import copy, math
from common import enc, dec, cz, cstr, clist, cbool, P1, P2, PR, NotRepresentable
import coqrun, impl, gen_games

RULE = ("hosts: figure 5.5, generated stopping/exact games, a 3-state game (thorough: + 40 random hosts); "
        "mutants: one documented rule broken at one position - list lengths, reward i, player i, final list / "
        "final k, transitions value of state i (falsy -> missing; truthy non-list), element j of state i (non-tuple, "
        "wrong length), slot 0 and slot 1 of every transition, inserted transitions - with boundary values "
        "-1, n, n+1, 1.0, '1', None, True, [], (), ('a',1,2), 0, n-1, +-2**70, nan, inf; plus pairs of mutations "
        "(first-error order). non-trivial = a mutant (host, rule, position, value) that is not an unbroken host; "
        "distinct by that key")
ASSUMPTIONS = [
    "universe: rewards/players/transition_list are lists of None/bool/int/float/str/tuple/list values, final_states "
    "a list of ints (bool finals act as 0/1)",
    "run_games is the repaired one (fix: commit bb189d4: a TypeError of count_transitions is caught, n_transitions = 0); "
    "a run_games crash on a malformed game is a violation",
    "descriptions with a non-numeric or NaN reward are outside the documented rules: the code raises TypeError "
    "(non-number) or depends on the position of the NaN; they are compared with the model but not judged",
    "messages of min([]) / max([]) are CPython 3.12's",
    "isinstance(True, int) holds: bool successors/probabilities/rewards are accepted as the ints 0/1",
]
HDR = ("From Coq Require Import String List ZArith Bool.\n"
       "From CR Require Import Model.Outcome Model.PyVal Model.Validate.\n"
       "Import ListNotations.\nLocal Open Scope string_scope.\nLocal Open Scope Z_scope.\n")
PREFIX = "Error while solving the game: "


# ------------------------------------------------------------------ the documented rules, restated
def isnum(x):
    return isinstance(x, (int, float))


def wfdoc(d):
    """the ten documented well-formedness rules as one predicate over positions"""
    P, T, R, F = d["players"], d["transition_list"], d["rewards"], d["final_states"]
    n = len(P)
    if len(T) != n or len(R) != n:
        return False
    if not all(isnum(r) and r >= 0 for r in R):
        return False
    if not all(isinstance(p, str) and p in (P1, P2, PR) for p in P):
        return False
    if len(F) == 0 or not all(isinstance(f, int) and 0 <= f < n for f in F):
        return False
    for p, tr in zip(P, T):
        if not isinstance(tr, list) or len(tr) == 0:
            return False
        for t in tr:
            if not isinstance(t, tuple) or len(t) != 2:
                return False
            x, s = t
            if p == PR:
                if not isnum(x):
                    return False
            elif not isinstance(x, str):
                return False
            if not isinstance(s, int) or not (0 <= s < n):
                return False
    return True


def outside_universe(d):
    """a reward that is not a number, or NaN (see ASSUMPTIONS)"""
    return any((not isnum(r)) or r != r for r in d["rewards"])


# ------------------------------------------------------------------ Coq emission of dynamic values
def cpy(v):
    if v is None:
        return "VNone"
    if isinstance(v, bool):
        return "(VBool %s)" % cbool(v)
    if isinstance(v, int):
        return "(VInt %s)" % cz(v)
    if isinstance(v, float):
        if v != v:
            return "(VFloat FNaN)"
        if v in (math.inf, -math.inf):
            return "(VFloat (FInf %s))" % cbool(v < 0)
        num, den = v.as_integer_ratio()
        return "(VF %s %d)" % (cz(num), den)
    if isinstance(v, str):
        return "(VStr %s)" % cstr(v)
    if isinstance(v, tuple):
        return "(VTuple %s)" % clist([cpy(x) for x in v])
    if isinstance(v, list):
        return "(VList %s)" % clist([cpy(x) for x in v])
    raise NotRepresentable(v)


def cdesc(d):
    for k in ("rewards", "players", "transition_list", "final_states"):
        if not isinstance(d[k], list):
            raise NotRepresentable(k)
    fs = []
    for f in d["final_states"]:
        if not isinstance(f, int):
            raise NotRepresentable(f)
        fs.append(cz(int(f)))
    return "(mkD %s %s %s %s)" % (clist([cpy(x) for x in d["rewards"]]), clist([cpy(x) for x in d["players"]]),
                                  clist([cpy(x) for x in d["transition_list"]]), clist(fs))


def cvout(r):
    if "ok" in r:
        return "VOk"
    if r.get("exc") == "ValueError":
        return "(VVal %s)" % cstr(r["msg"])
    return "(VExc %s)" % cstr(r.get("exc") or "timeout")


# ------------------------------------------------------------------ mutations
def apply(d, m):
    """m: dict(op=..., ...) -> a new description (the host is never modified)"""
    g = dict(rewards=list(d["rewards"]), players=list(d["players"]),
             transition_list=list(d["transition_list"]), final_states=list(d["final_states"]))
    op = m["op"]
    if op == "set":                      # rewards[i] / players[i] / final_states[i] / transition_list[i]
        g[m["field"]][m["i"]] = m["val"]
    elif op == "drop":
        g[m["field"]].pop()
    elif op == "append":
        g[m["field"]].append(m["val"])
    elif op == "prepend":
        g[m["field"]].insert(0, m["val"])
    elif op == "replace":                # the whole field
        g[m["field"]] = m["val"]
    elif op == "elem":                   # transition_list[i][j] = val
        row = list(g["transition_list"][m["i"]])
        row[m["j"]] = m["val"]
        g["transition_list"][m["i"]] = row
    elif op == "insert":                 # transition_list[i].insert(j, val)
        row = list(g["transition_list"][m["i"]])
        row.insert(m["j"], m["val"])
        g["transition_list"][m["i"]] = row
    elif op == "slot":                   # transition_list[i][j][slot] = val
        row = list(g["transition_list"][m["i"]])
        t = list(row[m["j"]])
        t[m["slot"]] = m["val"]
        row[m["j"]] = tuple(t)
        g["transition_list"][m["i"]] = row
    elif op == "empty":
        g = dict(rewards=[], players=[], transition_list=[], final_states=list(d["final_states"]))
    else:
        raise ValueError(op)
    return g


def boundary(n):
    return [-1, n, n + 1, 1.0, "1", None, True, [], (), ("a", 1, 2)]


def mutations(d):
    """every rule x every position x boundary values; list of mutation dicts with a 'rule' label"""
    n = len(d["players"])
    T = d["transition_list"]
    out = []
    add = lambda rule, **m: out.append(dict(rule=rule, **m))
    # lengths
    add("len", op="drop", field="transition_list")
    add("len", op="append", field="transition_list", val=[])
    add("len", op="append", field="transition_list", val=[(1, 0)])
    add("len", op="drop", field="rewards")
    add("len", op="append", field="rewards", val=0)
    add("len", op="drop", field="players")
    add("len", op="append", field="players", val=P1)
    add("len", op="replace", field="rewards", val=[])
    add("len", op="empty")
    # rewards
    for i in range(n):
        for v in [-1, -0.5, -5e-324, -math.inf, -2 ** 70, 0, -0.0, 0.0, True, False, 1.0, math.inf, n,
                  "1", None, math.nan, [], (), ("a", 1, 2)]:
            add("reward", op="set", field="rewards", i=i, val=v)
    # players
    for i in range(n):
        for v in ["Player 3", "player 1", "", "Probabilistic ", None, 1, True, (P1,), [P1], P1, P2, PR]:
            if v != d["players"][i]:
                add("player", op="set", field="players", i=i, val=v)
    # final states
    add("final", op="replace", field="final_states", val=[])
    for k in range(len(d["final_states"])):
        for v in [-1, n, n + 1, True, False, 2 ** 70, -2 ** 70, n - 1]:
            add("final", op="set", field="final_states", i=k, val=v)
    for v in [-1, n, n + 1, 0]:
        add("final", op="append", field="final_states", val=v)
        add("final", op="prepend", field="final_states", val=v)
    # a state without transitions / a transitions value that is not a list
    for i in range(n):
        for v in [[], (), None, 0, 0.0, -0.0, "", False]:
            add("missing", op="set", field="transition_list", i=i, val=v)
        for v in [tuple(T[i]), "abc", 1, -1, n, 1.0, True, math.nan, ("a", 1, 2), (("a", 1),)]:
            add("notlist", op="set", field="transition_list", i=i, val=v)
    # elements and slots
    for i in range(n):
        for j, (x, s) in enumerate(T[i]):
            for v in [[x, s], None, 1, "ab", 1.0, True, [], -1, n]:
                add("nottuple", op="elem", i=i, j=j, val=v)
            for v in [(), (x,), (x, s, 2), ("a", 1, 2), (x, s, s, s), (s,)]:
                add("tuplelen", op="elem", i=i, j=j, val=v)
            for v in boundary(n) + [0.5, "", math.nan, False, "alfa", 0]:
                add("slot0", op="slot", i=i, j=j, slot=0, val=v)
            for v in boundary(n) + [0, n - 1, False, -2 ** 70, 2 ** 70, 0.0, math.nan, "0", float(n)]:
                add("slot1", op="slot", i=i, j=j, slot=1, val=v)
        x0 = T[i][0][0]
        for j in range(len(T[i]) + 1):
            for v in [(x0, n), (x0, -1), (x0, 0), (None, 0), (x0,)]:
                add("insert", op="insert", i=i, j=j, val=v)
    return out


def target(m):
    """(field, state) a positional mutation touches, or None for the whole-list ones"""
    if m["op"] == "set" and m["field"] != "final_states":
        return (m["field"], m["i"])
    if m["op"] in ("elem", "slot", "insert"):
        return ("transition_list", m["i"])
    if m["op"] == "set":
        return ("final_states", m["i"])
    return None


def mkey(m):
    return repr(sorted((k, repr(v)) for k, v in m.items()))


def three_state():
    return dict(rewards=[1, 0.5, 0], players=[P1, PR, P2],
                transition_list=[[("go", 1), ("stay", 2)], [(0.5, 2), (0.5, 0)], [(" ", 2)]], final_states=[2])


def hosts(ctx):
    """well-formed, solvable hosts (solvability is established by running the implementation)"""
    rng = ctx.rng
    cand = [("fig55", copy.deepcopy(gen_games.FIG55)), ("three", three_state())]
    k = 3
    gs = gen_games.mixed_games(rng, 12, nmin=3, nmax=6, styles=("stopping", "exact"))
    cand += [("gen%d" % i, g) for i, (g, _) in enumerate(gs)]
    extra = []
    if not ctx.quick:
        ex = gen_games.mixed_games(rng, 160, nmin=3, nmax=9, styles=("stopping", "exact", "cyclic", "players"))
        extra = [("rnd%d" % i, g) for i, (g, _) in enumerate(ex)]
    # a host must be solved in BOTH modes (the cyclic families contain non-stopping games whose unpruned reward
    # loop never ends; they are not hosts)
    res = impl.run_cases([dict(op="solve", game=enc(g), prune=True, limit=10) for _, g in cand + extra],
                         tag="c09h")
    res2 = impl.run_cases([dict(op="solve", game=enc(g), prune=False, limit=10) for _, g in cand + extra],
                          tag="c09h")
    ok = [(nm, g) for (nm, g), r, r2 in zip(cand + extra, res, res2) if "ok" in r and "ok" in r2 and wfdoc(g)]
    # the two fixed hosts are ALWAYS used: if the implementation stops accepting them, the unbroken-host cases say so
    fixed = [h for h in cand if h[0] in ("fig55", "three")]
    gen = [h for h in ok if h[0].startswith("gen")][:k]
    rnd = [h for h in ok if h[0].startswith("rnd")][:40]
    return fixed + gen + rnd


def build_cases(ctx):
    rng = ctx.rng
    cases = []     # dicts: host, m (mutation label or None), d
    hs = hosts(ctx)
    for nm, h in hs:
        cases.append(dict(host=nm, rule="host", m=None, d=h))
        ms = mutations(h)
        for m in ms:
            cases.append(dict(host=nm, rule=m["rule"], m=m, d=apply(h, m)))
        # pairs: two positional mutations on different targets (first-error order)
        pos = [m for m in ms if target(m) is not None]
        want = 60 if ctx.quick else 40
        got = 0
        tries = 0
        while got < want and tries < 20 * want:
            tries += 1
            a, b = rng.choice(pos), rng.choice(pos)
            if target(a) == target(b):
                continue
            cases.append(dict(host=nm, rule="pair", m=dict(op="pair", a=a, b=b), d=apply(apply(h, a), b)))
            got += 1
    return hs, cases


def judge(ctx, c, what, r):
    """the property itself on one implementation outcome of a malformed, in-universe description"""
    if r.get("exc") == "ValueError":
        return
    got = "a result" if "ok" in r else ("no answer within the time limit" if "timeout" in r else
                                        "%s(%s)" % (r.get("exc"), r.get("msg")))
    ctx.violation("malformed description (rule %s) not rejected with ValueError: %s gave %s" % (c["rule"], what, got),
                  dict(game=enc(c["d"]), host=c["host"], mutation=repr(c["m"])), impl=r)


def run(ctx):
    import source_facts
    source_facts.check_messages(ctx)
    hs, cases = build_cases(ctx)
    ctx.notes.append("hosts: %s" % ", ".join("%s(n=%d)" % (nm, len(h["players"])) for nm, h in hs))
    # a NEGATIVE reward written in another of Python's real-number types: outside the typed universe of the Coq model
    # (not sent to it), but the documented rule 'a negative reward' applies to it all the same, so it is judged
    import fractions, decimal
    for nm, h in hs[:3]:
        for k, val in enumerate((fractions.Fraction(-3, 2), decimal.Decimal("-2"), fractions.Fraction(-1, 10 ** 9))):
            d = copy.deepcopy(h)
            d["rewards"][(k * 2) % len(d["rewards"])] = val
            cases.append(dict(host=nm, rule="negative reward (%s)" % type(val).__name__, m=dict(op="set_reward", at=(k * 2) % len(d["rewards"]), v=repr(val)),
                              d=d, judge_anyway=True))
    jobs = []
    for c in cases:
        e = enc(c["d"])
        c["wf"], c["out"] = wfdoc(c["d"]), outside_universe(c["d"])
        c["jv"] = len(jobs)
        jobs.append(dict(op="c09_validate", game=e, limit=5))
        c["js"] = None
        if c["m"] is None or (not c["wf"] and (not c["out"] or c.get("judge_anyway"))):
            c["js"] = len(jobs)
            jobs.append(dict(op="solve", game=e, prune=True, limit=10))
            jobs.append(dict(op="solve", game=e, prune=False, limit=10))
        c["jq"] = None
        if c["m"] is not None and not c["wf"] and (not c["out"] or c.get("judge_anyway")) and len(jobs) % 2 == 0:
            # every other malformed case: three solves through ONE StochasticGame object (a caller that falls back from the
            # pruned to the unpruned mode after the first refusal); each must be refused again
            c["jq"] = len(jobs)
            jobs.append(dict(op="solve_seq", game=e, steps=[[True, False], [False, False], [True, False]], limit=15))
    res = impl.run_cases(jobs, limit=10, tag="c09")
    terms, meta = [], []
    for k, c in enumerate(cases):
        rv = res[c["jv"]]
        rt, rf = (res[c["js"]], res[c["js"] + 1]) if c["js"] is not None else (None, None)
        c["rv"] = rv
        d = c["d"]
        ctx.evaluations += 1
        wf, out = c["wf"], c["out"]
        ctx.count("rule:" + c["rule"])
        ctx.count("class:" + ("outside-universe" if out else "well-formed" if wf else "malformed"))
        if c["m"] is not None:
            ctx.nontrivial.add((c["host"], mkey(c["m"])))
        if out and c.get("judge_anyway"):
            judge(ctx, c, "check_game+init_states", rv)
            judge(ctx, c, "solve(prune_states=True)", rt)
            judge(ctx, c, "solve(prune_states=False)", rf)
        elif out:
            pass                                     # compared with the model below, not judged
        elif not wf:
            judge(ctx, c, "check_game+init_states", rv)
            judge(ctx, c, "solve(prune_states=True)", rt)
            judge(ctx, c, "solve(prune_states=False)", rf)
            if c["jq"] is not None:
                ctx.count("malformed: three solves through one object")
                for i, st in enumerate(res[c["jq"]].get("steps") or []):
                    judge(ctx, c, "solve number %d through the same StochasticGame object" % (i + 1), st)
            for r, nm in ((rt, "pruned"), (rf, "unpruned")):
                if r.get("exc") == "ValueError" and rv.get("exc") == "ValueError" and r["msg"] != rv["msg"]:
                    ctx.corr_break("solve (%s) raised another message than the validation prefix" % nm,
                                   dict(game=enc(d)), impl=[rv, r])
        elif c["rule"] == "host":
            for r, nm in ((rt, "pruned"), (rf, "unpruned")):
                ctx.evaluations += 1
                if "ok" not in r:
                    ctx.corr_break("unbroken host not solved (%s)" % nm, dict(game=enc(d)), impl=r)
        try:
            terms.append("(%s, %s)" % (cdesc(d), cvout(rv)))
            meta.append(k)
        except NotRepresentable:
            ctx.count("not-emitted")
    for c in cases[1:4]:
        ctx.sample(dict(host=c["host"], mutation=repr(c["m"]), impl=c["rv"]))
    body = lambda l: ("Definition cases : list (desc * vout) := %s.\n"
                      "Close Scope Z_scope.\nEval vm_compute in (vidx_where cases).") % l
    bad, errs = coqrun.eval_case_files("c09", HDR, coqrun.chunked(terms, 300), body)
    ctx.corr_cases += len(terms)
    for b in bad:
        c = cases[meta[b]]
        ctx.corr_break("model validate and the implementation's validation disagree",
                       dict(game=enc(c["d"]), host=c["host"], mutation=repr(c["m"])), impl=c["rv"])

    # ---- through run_games: the recorded message, and later games are still solved
    good = copy.deepcopy(gen_games.FIG55)
    sub = []
    seen = set()
    for k, c in enumerate(cases):
        if c["m"] is None or c["out"] or c["wf"]:
            continue
        key = (c["host"], c["rule"], c["rv"].get("msg"), unsized(c["d"]))
        if key in seen and ctx.rng.random() > (0.05 if ctx.quick else 0.02):
            continue
        seen.add(key)
        sub.append(k)
    bjobs = [dict(op="run_games", games=enc({"first": good, "bad": cases[k]["d"], "good": good}), limit=30) for k in sub]
    bres = impl.run_cases(bjobs, limit=30, tag="c09b")
    bterms, bmeta = [], []
    for k, r in zip(sub, bres):
        c = cases[k]
        ctx.evaluations += 1
        ctx.count("run_games")
        inp = dict(game=enc(c["d"]), host=c["host"], mutation=repr(c["m"]), through="run_games")
        check_batch(ctx, c, r, inp)
        if unsized(c["d"]):
            ctx.count("run_games:transitions-value-without-len")
        try:
            bterms.append("(%s, %s)" % (cdesc(c["d"]), cbout(r)))
            bmeta.append(k)
        except NotRepresentable:
            ctx.count("not-emitted")
    bbody = lambda l: ("Definition cases : list (desc * bout) := %s.\n"
                       "Close Scope Z_scope.\nEval vm_compute in (bidx_where cases).") % l
    bbad, errs2 = coqrun.eval_case_files("c09b", HDR, coqrun.chunked(bterms, 300), bbody)
    ctx.corr_cases += len(bterms)
    for b in bbad:
        c = cases[bmeta[b]]
        ctx.corr_break("model run_entry and run_games disagree on what is recorded",
                       dict(game=enc(c["d"]), host=c["host"], mutation=repr(c["m"]), through="run_games"))
    for e in errs + errs2:
        ctx.harness_errors.append("coqc failed on %s: %s" % (e[0], e[2][-500:]))


def unsized(d):
    """some transitions value has no len(): count_transitions raises TypeError (caught by run_games since the
    fix: commit bb189d4, which records n_transitions = 0; before it the TypeError left run_games)"""
    return any(not isinstance(t, (list, tuple, str)) for t in d["transition_list"])


def cbout(r):
    if "ok" not in r:
        return "(BExc %s)" % cstr(r.get("exc") or "timeout")
    ents = dict((nm, e) for nm, e in dec(r["ok"]))
    return "(BMsgs %d %s %s)" % (ents["bad"]["n_transitions"], cstr(ents["bad"]["msg"]), cstr(ents["bad_no_prune"]["msg"]))


def check_batch(ctx, c, r, inp):
    """the batch clause of the property on one run_games outcome {first: good, bad: malformed, good: good}"""
    if "ok" not in r:
        ctx.violation("run_games did not record a message for a malformed game but raised %s(%s)"
                      % (r.get("exc") or "timeout", r.get("msg")), inp, impl=r)
        return
    ents = dict((nm, e) for nm, e in dec(r["ok"]))
    names = [nm for nm, _ in dec(r["ok"])]
    if names != ["first", "first_no_prune", "bad", "bad_no_prune", "good", "good_no_prune"]:
        ctx.violation("run_games result keys %s" % names, inp)
        return
    vm = c["rv"].get("msg") if c["rv"].get("exc") == "ValueError" else None
    m1, m2 = ents["bad"]["msg"], ents["bad_no_prune"]["msg"]
    if not m1.startswith(PREFIX) or (vm is not None and m1 != PREFIX + vm) or m2 != "Game not solved":
        ctx.violation("run_games recorded %r / %r for a malformed game (validator: %r)" % (m1, m2, vm), inp)
    if any(ents["bad" + s][f] is not None for s in ("", "_no_prune")
           for f in ("rewards", "probabilities", "final_strategies", "reachability_strategies")):
        ctx.violation("run_games recorded a result for a malformed game", inp)
    for nm in ("first", "first_no_prune", "good", "good_no_prune"):
        if ents[nm]["msg"] != "Game solved" or ents[nm]["rewards"] is None:
            ctx.violation("game %s next to a malformed one is not solved: %r" % (nm, ents[nm]["msg"]), inp)


def replay(ctx, data):
    v = data.get("input") or (data.get("details") or [{}])[0].get("input")
    g = v["game"]
    d = dec(g)
    rs = impl.run_cases([dict(op="c09_validate", game=g), dict(op="solve", game=g, prune=True),
                         dict(op="solve", game=g, prune=False),
                         dict(op="run_games", games=enc({"first": gen_games.FIG55, "bad": d, "good": gen_games.FIG55}))],
                        tag="c09r")
    wf, out = wfdoc(d), outside_universe(d)
    print("description:", d)
    print("documented rules hold:", wf, " outside universe:", out)
    for nm, r in zip(("validate", "solve pruned", "solve unpruned"), rs):
        print(nm, "->", {k: r[k] for k in r if k in ("exc", "msg", "timeout")} or "result")
    rb = rs[3]
    print("run_games ->", [(nm, e["msg"]) for nm, e in dec(rb["ok"])] if "ok" in rb else rb)
    if wf or out:
        return 0
    ok = all(r.get("exc") == "ValueError" for r in rs[:3])
    seq = impl.run_cases([dict(op="solve_seq", game=g, steps=[[True, False], [False, False], [True, False]])], tag="c09rs")[0]
    for i, st in enumerate(seq.get("steps") or []):
        print("solve number %d through one object ->" % (i + 1), {k: st[k] for k in st if k in ("exc", "msg", "timeout")} or "result")
        ok = ok and st.get("exc") == "ValueError"
    if v.get("through") == "run_games" or unsized(d):
        c = dict(d=d, rv=rs[0], rule="replay", host="replay", m=None)
        check_batch(ctx, c, rb, dict(game=g))
        ok = ok and not ctx.violations
    return 0 if ok else 1
