"""C05: final strategies are reward-optimal among reachability-optimal actions."""
from common import enc, dec, P1, P2, PR
import solvecommon as sc, oracle_exact as ox, gen_games, impl

RULE = ("games whose reward loop terminates (stopping, exact-dyadic with zero-reward player cycles, dead/alive patterns, corpus), "
        "with Player-2 states having differently rewarded actions and Player-1 states whose best-reward action is not "
        "reach-optimal; both modes. non-trivial = >3 states and a player state with >=2 actions; distinct by (description, mode)")
ASSUMPTIONS = ["inclusion is proved for every instance incl. binary64; exact optimal sets only where the reward loop converges exactly (K1 otherwise)"]


def check(ctx, recs):
    for r in recs:
        if not r.ok or r.op != "solve":
            continue
        g = r.game
        final, reachs, rew = r.out[0], r.out[1], r.out[2]
        pr = r.pruned
        exp_rows = sc.expected_rows(r)
        for i in range(len(final)):
            k = g["players"][i]
            if k == PR:
                if final[i] is not None:
                    ctx.violation("probabilistic state %d has a final strategy" % i, r.inp())
                continue
            if final[i] is None or reachs[i] is None:
                ctx.violation("player state %d has no strategy" % i, r.inp())
                continue
            if k == P1 and not set(final[i]) <= set(reachs[i]):
                ctx.violation("state %d: final strategy %r is not within the reachability strategy %r" % (i, final[i], reachs[i]), r.inp())
            if pr is None:
                continue
            # the actions still permitted, computed from the description and the reported values (not from the solver's own
            # lists): Player 1 - reachability-optimal actions whose successor is alive; Player 2 - every action of the
            # description (unless the whole state was dropped as unreachable)
            row = pr[i] if pr[i] == [] and k != P1 else exp_rows[i]
            vals = [round(rew[d], 6) for _, d in row]
            if k == P1:
                best = max([0] + vals)
            else:
                best = min(vals) if vals else None
            exp = [a for (a, _), v in zip(row, vals) if v == best]
            if final[i] != exp:
                ctx.violation("state %d (%s): final strategy %r, optimal remaining actions w.r.t. reported rewards %r" % (i, k, final[i], exp),
                              r.inp(), rewards=rew, pruned=str(pr))


def reward_tie_grids(ctx):
    """a Player-1 / Player-2 root whose successors all reach the final state surely and collect the SAME expected reward,
    but through float sums taken in different orders (0.7+0.2+0.1 = 0.9999999999999999, 0.1+0.2+0.7 = 1.0, ...): after
    rounding to 6 digits they tie, so all must be listed"""
    import itertools
    from fractions import Fraction as Fr
    orders = [[Fr(7, 10), Fr(2, 10), Fr(1, 10)], [Fr(1, 10), Fr(2, 10), Fr(7, 10)], [Fr(1)], [Fr(1, 2), Fr(1, 2)],
              [Fr(6, 10), Fr(3, 10), Fr(1, 10)], [Fr(3, 10), Fr(6, 10), Fr(1, 10)]]
    out = []
    for kind in (P1, P2):
        for k in (2, 3):
            combos = list(itertools.product(range(len(orders)), repeat=k))
            if ctx.quick:
                combos = ctx.rng.sample(combos, min(40, len(combos)))
            for combo in combos:
                for unit in (1, 3):                      # reward collected at X
                    X, F = k + 1, k + 2
                    tl = [[(gen_games.ACTS[i], i + 1) for i in range(k)]]
                    fr = [None]
                    for c in combo:
                        tl.append([(w.numerator / w.denominator if w != 1 else 1, X) for w in orders[c]])
                        fr.append(list(orders[c]))
                    tl += [[(1, F)], [(1, F)]]
                    fr += [[Fr(1)], [Fr(1)]]
                    g = dict(rewards=[0] * (k + 1) + [unit, 0], players=[kind] + [PR] * (k + 2),
                             transition_list=tl, final_states=[F])
                    out.append((g, dict(fr=fr, style="pattern")))
    return out


def late_tie_grids():
    """a Player-1 / Player-2 root all of whose successors reach the final state surely and whose expected rewards are p * unit:
    the optimum is NOT on the first transition and is shared by two later ones, at values that are not their own 6-digit
    rounding (1/3, 2/3, 0.7*3): every permutation of the row. A scan that mixes rounded and unrounded values drops a tied action."""
    import itertools
    from fractions import Fraction as Fr
    out = []
    for kind, multis in ((P2, [(2 / 3, 1 / 3, 1 / 3), (1.0, 1 / 3, 2 / 3, 1 / 3)]), (P1, [(1 / 3, 2 / 3, 2 / 3), (0.1, 0.7, 1 / 3, 0.7)])):
        for ps in multis:
            for unit in (1, 3):
                for perm in sorted(set(itertools.permutations(ps))):
                    k = len(perm)
                    X, F = k + 1, k + 2
                    tl = [[("act%d" % i, 1 + i) for i in range(k)]] + [[(p, X), (1 - p, F)] if p != 1.0 else [(1.0, X)] for p in perm]
                    tl += [[(1, F)], [(1, F)]]
                    fr = [None] + [[Fr(p), Fr(1 - p)] if p != 1.0 else [Fr(1)] for p in perm] + [[Fr(1)], [Fr(1)]]
                    out.append((dict(rewards=[0] * (k + 1) + [unit, 0], players=[kind] + [PR] * (k + 2), transition_list=tl,
                                     final_states=[F]), dict(fr=fr, style="pattern")))
    return out


def run(ctx):
    games = [(gen_games.FIG55, gen_games.FIG55_META)] + sc.corpus_games() + gen_games.pattern_games(3)
    games += gen_games.mixed_games(ctx.rng, 250 if ctx.quick else 4000, 3, 9, styles=("stopping", "exact", "ties"))
    # inclusion is claimed for ALL well-formed games: also make some player state a (non-absorbing) final state
    extra = []
    for g, m in games[8:]:
        cand = [i for i, k in enumerate(g["players"]) if k != PR and i != 0 and len(g["transition_list"][i]) >= 2]
        if cand and ctx.rng.random() < 0.35:
            g2 = dict(g, final_states=list(g["final_states"]) + [ctx.rng.choice(cand)])
            extra.append((g2, dict(m, style="stopping", guard="any")))
    games += extra
    games += reward_tie_grids(ctx)
    lt = late_tie_grids()
    games += lt[::2] if ctx.quick else lt
    games += gen_games.pattern_games3(2 if ctx.quick else 3)      # successors that are barely alive (1e-7): they stay permitted
    games += gen_games.extra_families(ctx.rng, games, 12 if ctx.quick else 150)
    games += gen_games.offset_tie_games()
    recs = sc.run_games(ctx, games, limit=10, tag="c05")
    sc.correspondence(ctx, recs, "cmp_final", "c05")
    sc.padding_check(ctx, recs, ("final",), 40 if ctx.quick else 400, "c05")
    sc.loglevel_check(ctx, recs, ("final",), 25 if ctx.quick else 250, "c05")
    sc.optimize_check(ctx, recs, ("final",), 25 if ctx.quick else 250, "c05")
    sc.resolve_check(ctx, recs, ("final",), 30 if ctx.quick else 300, "c05")
    sc.late_edit_check(ctx, recs, ("final",), 40 if ctx.quick else 300, "c05")
    check(ctx, recs)


deep_search = run


def replay(ctx, data):
    v = sc.replay_input(data)
    if v is None:
        return 1
    res = impl.run_cases([dict(op="solve", game=v["game"], prune=v["prune"])])[0]
    print("implementation:", res)
    return 0
