"""C10: solving leaves the description intact and is repeatable.
Implementation: sequences of solve() calls on ONE description (same StochasticGame object or fresh
objects, pruned/unpruned in every order) and single solves on fresh deep copies.
Property predicates (Python, on the implementation's outputs): the description is deep-equal to its
copy after every step; every step's result is identical (exact JSON encoding, floats as hex) to the
result of the same mode on a fresh deep copy.
Correspondence: the k-th result equals the pure model's `solve fops g mode_k` (the claim of theorem
C10_repeatable), and the store model (Model/Heap.v, solve_seq_H) run on the same sequence predicts
both the results and the caller's rows afterwards."""
import itertools
from common import enc, dec, cgame, cxout, cbool, clist, ctrans, game_key, NotRepresentable
import coqrun, impl, gen_games

RULE = ("well-formed games from the terminating families (stopping/exact random games 3-9 states, "
        "dead/alive successor patterns k<=3 for both node kinds, figure 5.5) x every mode sequence in "
        "{pruned,unpruned}^<=3 (quick) / <=4 (thorough), each once through one StochasticGame object and once "
        "through fresh objects, plus random mixed object patterns; also games with two final states listed in descending "
        "order and 'twin' games spelt with one list object for equal rows; baseline = the same mode on a fresh deep copy. "
        "non-trivial = a game whose pruned solve rebinds some next_states to a different list (pruning removed "
        "something); distinct by game description")
ASSUMPTIONS = ["copy.deepcopy yields a disjoint equal structure; == on lists/tuples is structural",
               "a StochasticGame object holds references to the description and the pruning flag only",
               "numbers exactly representable in binary64 (ints below 2**53)",
               "games whose reward loop terminates (stopping/exact families without a rewarded player-only cycle, guard "
               "computed from the input); the theorems cover every input"]
HDR = ("From CR Require Import Model.Corr Model.Heap.\nFrom Coq Require Import String List Arith Bool ZArith.\n"
       "Import ListNotations.\nLocal Open Scope string_scope.\n")
RESKEYS = ("ok", "pruned", "exc", "msg", "timeout")


def core(r):
    return {k: r.get(k) for k in RESKEYS if k in r}


def dx(r):
    """implementation result with its payload decoded, as common.cxout expects it"""
    d = dict(r)
    if "ok" in d:
        d["ok"] = dec(d["ok"])
        d["pruned"] = dec(d["pruned"]) if d.get("pruned") is not None else None
    return d


def mode_seqs(maxlen):
    out = []
    for k in range(1, maxlen + 1):
        out += [list(s) for s in itertools.product([True, False], repeat=k)]
    return out


def rewarded_player_cycle(g):
    """input-side guard: a cycle through player states only that carries a positive reward makes the
    reward loop diverge (the 'exact' family zeroes the reward of the state closing the cycle only)"""
    pl = g["players"]
    n = len(pl)
    isp = [p != "Probabilistic" for p in pl]
    succ = [[d for _, d in g["transition_list"][s] if isp[d]] if isp[s] else [] for s in range(n)]
    for s in range(n):
        if isp[s] and g["rewards"][s] > 0:
            seen, todo = set(), list(succ[s])
            while todo:
                v = todo.pop()
                if v == s:
                    return True
                if v not in seen:
                    seen.add(v)
                    todo.extend(succ[v])
    return False


def gen(ctx):
    n = 200 if ctx.quick else 700
    games = [(gen_games.FIG55, gen_games.FIG55_META)]
    games += gen_games.pattern_games(3)
    import solvecommon
    games += [gm for gm in solvecommon.corpus_games() if not gm[1].get("patient") and gm[1]["style"] == "corpus" and not gm[1].get("guard")]
    rnd = gen_games.mixed_games(ctx.rng, n, styles=("stopping", "exact"))
    games += rnd
    # descriptions a careless solver could disturb in other places than a row: several final states listed in
    # descending order; one list object shared by equal rows (solve_seq then runs on the shared spelling, the
    # baseline on fresh unshared copies)
    games += gen_games.two_final_games(rnd, ctx.rng, 30 if ctx.quick else 120)
    games += gen_games.twin_games(rnd, ctx.rng, 30 if ctx.quick else 120)
    kept = [gm for gm in games if not rewarded_player_cycle(gm[0])]
    ctx.count("dropped: rewarded player-only cycle (reward loop diverges)", len(games) - len(kept))
    return kept


def step_lists(ctx, maxlen):
    """(label, steps) with steps = [[prune, fresh], ...]"""
    out = []
    for seq in mode_seqs(maxlen):
        out.append(("same", [[p, False] for p in seq]))
        if len(seq) > 1:
            out.append(("fresh", [[p, True] for p in seq]))
    return out


def rows_term(game, tl):
    return clist([clist([ctrans(game["players"][i], t) for t in row]) for i, row in enumerate(tl)])


def check_one(ctx, game, steps, seqres, base, inp):
    """property predicates on one sequence; returns the list of step results (dicts)"""
    ok = True
    rs = seqres.get("steps")
    if rs is None or len(rs) != len(steps):
        ctx.violation("solve sequence did not complete: %s" % (seqres,), inp, impl=seqres)
        return None
    for k, (st, r) in enumerate(zip(steps, rs)):
        if "intact" not in r:
            ctx.violation("step %d: constructing StochasticGame raised %s" % (k, r), inp, impl=r)
            ok = False
            continue
        if not r["intact"]:
            ctx.violation("step %d (%s%s) changed the caller's description" %
                          (k, "pruned" if st[0] else "unpruned", ", fresh object" if st[1] else ""),
                          inp, after=r.get("after"), step=k)
            ok = False
        b = base[bool(st[0])]
        if core(r) != core(b):
            ctx.violation("step %d (%s) returned a result different from the same mode on a fresh deep copy" %
                          (k, "pruned" if st[0] else "unpruned"), inp, step=k, impl=core(r), fresh_copy=core(b))
            ok = False
    return rs


def run(ctx):
    games = gen(ctx)
    maxlen = 3 if ctx.quick else 4
    sl = step_lists(ctx, maxlen)
    jobs, where = [], []
    for gi, (g, meta) in enumerate(games):
        eg = enc(g)
        for prune in (True, False):
            jobs.append(dict(op="solve", game=eg, prune=prune))
            where.append((gi, "base", prune))
        mine = list(sl)
        # random mixed object patterns
        for _ in range(2 if ctx.quick else 4):
            k = ctx.rng.randint(2, maxlen)
            mine.append(("mixed", [[ctx.rng.random() < 0.5, ctx.rng.random() < 0.5] for _ in range(k)]))
        for label, steps in mine:
            jobs.append(dict(op="solve_seq", game=eg, steps=steps, share=bool(meta.get("share"))))
            where.append((gi, label, steps))
    res = impl.run_cases(jobs, limit=20, tag="c10")
    base = {}
    for (gi, kind, x), r in zip(where, res):
        if kind == "base":
            base.setdefault(gi, {})[x] = r
    solve_terms, solve_meta, seen = [], [], set()
    seq_terms, seq_meta = [], []

    def add_solve_case(gi, prune, r, what):
        g = games[gi][0]
        try:
            t = "(%s, %s, %s)" % (cgame(g), cbool(prune), cxout(dx(r), g["players"]))
        except NotRepresentable:
            ctx.count("not-representable")
            return
        if t in seen:
            return
        seen.add(t)
        solve_terms.append(t)
        solve_meta.append((gi, prune, what))

    for gi, (g, meta) in enumerate(games):
        ctx.count("style=%s" % meta["style"])
        for prune in (True, False):
            b = base[gi][prune]
            ctx.evaluations += 1
            inp = dict(game=enc(g), steps=[[prune, True]])
            if "timeout" in b:
                ctx.violation("solve did not finish within the time limit", inp, impl=b)
                continue
            ctx.count("outcome=%s" % ("ok" if "ok" in b else b.get("msg", b.get("exc"))))
            if not b.get("intact", False):
                ctx.violation("a single %s solve changed the caller's description" %
                              ("pruned" if prune else "unpruned"), inp, after=b.get("after"))
            elif b.get("same_objects") is False:
                ctx.corr_break("the rows of transition_list are equal but no longer the caller's list objects "
                               "(model: the outer list is never written)", inp)
            add_solve_case(gi, prune, b, "fresh deep copy")
        bp = base[gi][True]
        if "ok" in bp and dec(bp["pruned"]) != g["transition_list"]:
            ctx.nontrivial.add(game_key(g))
    nseq = 0
    for (gi, kind, x), r in zip(where, res):
        if kind == "base":
            continue
        g = games[gi][0]
        steps = x
        ctx.evaluations += 1
        nseq += 1
        ctx.count("sequence:%s,len=%d" % (kind, len(steps)))
        inp = dict(game=enc(g), steps=steps, share=bool(games[gi][1].get("share")))
        if "timeout" in r:
            ctx.violation("solve sequence did not finish within the time limit", inp, impl=r)
            continue
        rs = check_one(ctx, g, steps, r, base[gi], inp)
        if rs is None:
            continue
        for k, (st, rk) in enumerate(zip(steps, rs)):
            if "intact" in rk and core(rk) != core(base[gi][bool(st[0])]):
                add_solve_case(gi, bool(st[0]), rk, "step %d of %s" % (k, steps))
        # the store model on the longest sequences of each kind (and all mixed ones)
        if len(steps) == maxlen or kind == "mixed":
            if kind != "mixed" and (gi + sum(1 for s in steps if s[0])) % 4 != 0:
                continue
            try:
                after = g["transition_list"]
                for rk in rs:
                    if rk.get("after") is not None:
                        after = dec(rk["after"])["transition_list"]
                t = "(%s, %s, %s, %s)" % (
                    cgame(g), clist(["(%s, %s)" % (cbool(p), cbool(f)) for p, f in steps]),
                    clist([cxout(dx(rk), g["players"]) for rk in rs]), rows_term(g, after))
            except (NotRepresentable, KeyError, IndexError, TypeError):
                ctx.count("not-representable")
                continue
            seq_terms.append(t)
            seq_meta.append((gi, steps))
    for (gi, kind, x), r in zip(where, res):
        if gi == 0 and kind == "same" and x == [[True, False], [False, False]]:
            ctx.sample(dict(game=str(games[0][0]), steps=x,
                            impl=[dict(intact=rk.get("intact"), result=str(dec(rk["ok"]))[:300] if "ok" in rk else rk)
                                  for rk in r.get("steps", [])]))
    body = lambda l: ("Definition cases : list solve_case := %s.\n"
                      "Eval vm_compute in (run_solve_cases cmp_all cases).") % l
    bad, errs = coqrun.eval_case_files("c10", HDR, coqrun.chunked(solve_terms, 30), body)
    ctx.corr_cases += len(solve_terms)
    for b in bad:
        gi, prune, what = solve_meta[b]
        ctx.corr_break("the result of a %s solve (%s) differs from the model's solve fops g %s" %
                       ("pruned" if prune else "unpruned", what, cbool(prune)),
                       dict(game=enc(games[gi][0]), steps=[[prune, True]]))
    sbody = lambda l: ("Definition cases : list seq_case := %s.\n"
                       "Eval vm_compute in (run_seq_cases cases).") % l
    bad2, errs2 = coqrun.eval_case_files("c10s", HDR, coqrun.chunked(seq_terms, 12), sbody)
    ctx.corr_cases += len(seq_terms)
    for b in bad2:
        gi, steps = seq_meta[b]
        ctx.corr_break("the store model (solve_seq_H) and the implementation disagree on a solve sequence "
                       "(results or the caller's rows afterwards)", dict(game=enc(games[gi][0]), steps=steps, share=bool(games[gi][1].get("share"))))
    for e in errs + errs2:
        ctx.harness_errors.append("coqc failed on %s: %s" % (e[0], e[2][-500:]))
    ctx.notes.append("%d games, %d solve sequences, %d distinct (game, mode, result) cases through the pure model, "
                     "%d sequences through the store model" % (len(games), nseq, len(solve_terms), len(seq_terms)))


def replay(ctx, data):
    v = data.get("input") or (data.get("details") or [{}])[0].get("input")
    if not v:
        print("no input recorded in", data.get("kind"))
        return 1
    eg, steps = v["game"], v["steps"]
    r = impl.run_cases([dict(op="solve_seq", game=eg, steps=steps, share=bool(v.get("share"))),
                        dict(op="solve", game=eg, prune=True), dict(op="solve", game=eg, prune=False)], tag="c10r")
    base = {True: r[1], False: r[2]}
    rc = 0
    print("description:", dec(eg))
    for k, (st, rk) in enumerate(zip(steps, r[0].get("steps", []))):
        same = core(rk) == core(base[bool(st[0])])
        print("step %d prune=%s fresh=%s: intact=%s same-as-fresh-copy=%s outcome=%s" % (
            k, st[0], st[1], rk.get("intact"), same, "ok" if "ok" in rk else (rk.get("exc"), rk.get("msg"))))
        if not rk.get("intact"):
            print("  description afterwards:", dec(rk["after"]) if rk.get("after") is not None else None)
        if not rk.get("intact") or not same:
            rc = 1
    if not r[1].get("intact") or not r[2].get("intact"):
        rc = 1
    return rc
