"""C11: every accepted parameter set yields a loadable, proper three-game file.
Model (Model/Board.v, theorems in Props/C11.v) vs the file written by write_robots / the command
line / the manual entry point and read back with conditionalrewards.read_dict_from_file; independent
Python predicates on the games read back; every game is then solved in both pruning modes."""
import os
from common import enc, dec, P1, P2, PR
import impl
import boards_common as bc

RULE = ("boards: every board with <= 3 tiles (quick) / <= 4 tiles (thorough) over arrows {0,1,2,3} x loose {0,1} x "
        "rewards {0,3}, break probabilities cycling through {0.1,0.5,0.29}^3; random boards from the real gen_rnd_board "
        "up to 3x3 / 5x5 with probabilities also drawn from (0,1); larger boards (8x8, 1x40, 40x1, 9x10, 1x90, one seed-drawn board of 48..168 tiles; thorough also "
        "20x20, 12x7) through the implementation and the Python predicates only; command-line runs over sizes "
        "1x1, 1xk, kx1, kxk x probabilities 0.01/0.5/0.99 x force-down on/off, and the manual entry point. "
        "non-trivial = board with >= 2 tiles; distinct by (board, probabilities). In the thorough tier one in %d of the "
        "4-tile boards also goes through the Coq model, all go through the implementation and the predicates; "
        "quick tier budget: every board goes through the implementation and the predicates, every board with <= 2 tiles and "
        "one in 4 of the 3-tile boards through the Coq model (C08 runs the same correspondence on all of them). "
        "solving (pruned first, unpruned only after a pruned success, as run_games does): quick = every board with <= 2 tiles, one in 32 "
        "of the 3-tile boards, all random, command-line and manual inputs; thorough = every board with <= 3 tiles and one in 32 of the "
        "4-tile boards; limit 60 s per solve (300 s for the larger boards) on inputs that pass the termination guard "
        "(no rewarded end component in the conditioned graph, computed from the input), 4 s and outcome only counted on the others." % bc.FOUR_TILE_MODEL_EVERY)
ASSUMPTIONS = ["the text layer (str(dict) + .replace, eval) is not modelled: the file read back is compared with the model's games on every generated input, and eval is compared with ast.literal_eval on the unmodified text",
               "probability theorems are about exact rationals (instance Q); on binary64 p + (1-p) == 1.0 is observed on every generated file",
               "arrow codes 0..3 and loose codes 0..1 (write_preamble raises IndexError otherwise), rectangular boards",
               "Python ints in the file are mapped to binary64 for the comparison (exact below 2^53)"]
NO_SOLUTION = "The game has no solution. The initial state has a reach probability of 0."


# ------------------------------------------------------------------ independent predicates
def game_problems(key, g, L, W):
    """the facts C11 states, re-stated directly on one game read back from the file"""
    out = []
    groups = bc.GROUPS[key]
    n = groups * L * W + 2
    rw, pl, tl, fs = g["rewards"], g["players"], g["transition_list"], g["final_states"]
    if not (len(rw) == len(pl) == len(tl) == n):
        out.append("lengths rewards/players/transitions = %d/%d/%d, expected %d" % (len(rw), len(pl), len(tl), n))
        return out
    win, lose = n - 1, n - 2
    if fs != [win]:
        out.append("final states %s, expected [%d]" % (fs, win))
    for s in range(n):
        if isinstance(rw[s], bool) or not isinstance(rw[s], (int, float)) or not rw[s] >= 0:
            out.append("reward of state %d is %r" % (s, rw[s]))
        if pl[s] not in (P1, P2, PR):
            out.append("player of state %d is %r" % (s, pl[s]))
        row = tl[s]
        if not isinstance(row, list) or len(row) == 0:
            out.append("state %d has no transition" % s)
            continue
        for t in row:
            if not (isinstance(t, tuple) and len(t) == 2 and isinstance(t[1], int) and 0 <= t[1] < n):
                out.append("state %d has transition %r" % (s, t))
        if out:
            continue
        if pl[s] == PR:
            tot = 0
            for p, _ in row:
                if isinstance(p, bool) or not isinstance(p, (int, float)) or not p > 0:
                    out.append("state %d has probability %r" % (s, p))
                    break
                tot = tot + p
            else:
                if tot != 1:
                    out.append("probabilities of state %d sum to %r" % (s, tot))
        else:
            labels = [a for a, _ in row]
            if not all(isinstance(a, str) for a in labels) or len(set(labels)) != len(labels):
                out.append("state %d has action labels %r" % (s, labels))
    if out:
        return out
    if pl[win] != PR or tl[win] != [(1, win)]:
        out.append("winning state %d is not absorbing: %r" % (win, tl[win]))
    if pl[lose] != PR or tl[lose] != [(1, lose)] or lose in fs:
        out.append("losing state %d is not absorbing and non-final: %r" % (lose, tl[lose]))
    return out


def item_check(arg):
    case, games = arg
    bad = bc.well_shaped(games)
    if bad:
        return [bad]
    out = []
    for k in bc.KEYS:
        try:
            out += ["%s: %s" % (k, p) for p in game_problems(k, games[k], case["L"], case["W"])]
        except Exception as e:   # noqa: BLE001
            out.append("%s: malformed (%s: %s)" % (k, type(e).__name__, e))
    return out


def check_items(ctx, lights):
    """record the verdicts of the python predicates (computed in the worker processes); returns the items
    that are fit for solving"""
    good = []
    for it in lights:
        ctx.evaluations += 1
        c = it["case"]
        if "L" in c:
            ctx.count("%s:%dx%d" % (it["src"], c["L"], c["W"]) if c["L"] * c["W"] <= 4 else "%s:>4 tiles" % it["src"])
            if c["L"] * c["W"] >= 2 and "moves" in c:
                ctx.nontrivial.add(bc.case_key(c))
        if not it["has_games"]:
            r = it["res"]
            ctx.violation("no loadable three-game file was produced (%s)" % (r.get("exc") or r.get("read_exc") or r),
                          bc.public(c), impl=r)
        elif it.get("problems"):
            ctx.violation("; ".join(it["problems"][:4]), bc.public(c), src=it["src"])
        else:
            good.append(it)
    return good


def check_entry(ctx, it):
    """one command-line / manual run: exactly one file, loads into a dict with exactly the three keys,
    eval agrees with ast.literal_eval"""
    r = it["res"]
    c = bc.public(it["case"])
    if r.get("timeout"):
        ctx.violation("the generator did not finish", c)
        return False
    if r.get("rc") != 0:
        ctx.violation("the generator failed on accepted parameters: rc=%s %s" % (r.get("rc"), (r.get("stderr") or r.get("msg") or "")[-300:]), c)
        return False
    if len(r.get("files", [])) != 1 or r.get("top"):
        ctx.violation("expected exactly one file in inputs/, found %s (and %s beside it)" % (r.get("files"), r.get("top")), c)
        return False
    if "read_exc" in r:
        ctx.violation("read_dict_from_file raised %s" % r["read_exc"], c)
        return False
    ok, how, detail = bc.reader_agrees(it["text"], it["games"])
    ctx.count("reader-vs:" + how.split(" ")[0])
    if not ok:
        ctx.violation("reader: %s" % detail, c)
        return False
    return True


# ------------------------------------------------------------------ termination guard (input side)
def _sccs(nodes, succ):
    """Tarjan, iterative; succ restricted to nodes"""
    index, low, onst, st, out = {}, {}, set(), [], []
    for root in nodes:
        if root in index:
            continue
        work = [(root, iter([t for t in succ[root] if t in nodes]))]
        index[root] = low[root] = len(index)
        st.append(root); onst.add(root)
        while work:
            v, it = work[-1]
            adv = False
            for t in it:
                if t not in index:
                    index[t] = low[t] = len(index)
                    st.append(t); onst.add(t)
                    work.append((t, iter([u for u in succ[t] if u in nodes])))
                    adv = True
                    break
                if t in onst:
                    low[v] = min(low[v], index[t])
            if adv:
                continue
            work.pop()
            if work:
                low[work[-1][0]] = min(low[work[-1][0]], low[v])
            if low[v] == index[v]:
                comp = set()
                while True:
                    w = st.pop(); onst.discard(w); comp.add(w)
                    if w == v:
                        break
                out.append(comp)
    return out


def _mecs(n, succ, is_prob):
    """maximal end components of the graph when both players cooperate: sets closed under every successor
    of their probabilistic states, strongly connected, with at least one edge"""
    res, work = [], [set(range(n))]
    while work:
        S = work.pop()
        changed = True
        while changed:
            changed = False
            for s in list(S):
                inside = [t for t in succ[s] if t in S]
                if (is_prob[s] and len(inside) != len(succ[s])) or not inside:
                    S.discard(s); changed = True
        if not S:
            continue
        comps = _sccs(S, succ)
        if len(comps) == 1:
            res.append(S)
        else:
            work.extend(c for c in comps if len(c) > 1 or any(t in c for s in c for t in succ[s]))
    return res


def term_guard(g):
    """(pruned_ok, unpruned_ok): True when NO end component (both players cooperating, Player 1 allowed every
    action) other than the absorbing winning/losing states contains a positively rewarded state - then every
    quantity the reward loop iterates is bounded by a finite cooperative value and the loop must stop.
    Pruned mode: computed on the graph without the Player-1/probabilistic edges into states whose max-min
    reachability value is 0 (found qualitatively, by a least fixed point; not from the solver's answer)."""
    pl, tl, rw, fs = g["players"], g["transition_list"], g["rewards"], g["final_states"]
    n = len(pl)
    succ = [[t[1] for t in row] for row in tl]
    is_prob = [p == PR for p in pl]
    pos = set(fs)
    changed = True
    while changed:
        changed = False
        for s in range(n):
            if s in pos:
                continue
            hit = [t in pos for t in succ[s]]
            if (pl[s] == P2 and all(hit)) or (pl[s] != P2 and any(hit)):
                pos.add(s); changed = True

    def ok(sc):
        for m in _mecs(n, sc, is_prob):
            if any(rw[s] > 0 for s in m):
                return False
        return True
    cond = [[t for t in succ[s] if pl[s] == P2 or t in pos] for s in range(n)]
    return ok(cond), ok(succ)


def item_guards(games):
    return {k: term_guard(games[k]) for k in bc.KEYS}


def solve_items(ctx, items, limit, tag, short=4):
    """the batch runner's protocol (conditionalrewards.run_games): the pruned solve first; the unpruned solve
    only when the pruned one succeeded (after 'no solution' run_games records 'Game not solved' and does not
    call the solver again). Termination is claimed on inputs that pass term_guard; the others are solved with a
    short limit and their outcome is only counted (known finding: the reward loop can diverge)."""
    gs = [it["games"] for it in items]
    guards = list(bc.pool().map(item_guards, gs, chunksize=64)) if len(gs) > 500 else [item_guards(x) for x in gs]
    first = [(it, k, gd[k]) for it, gd in zip(items, guards) for k in bc.KEYS]
    res1 = impl.run_cases([dict(op="solve", game=enc(it["games"][k]), prune=True, limit=limit if gd[0] else short)
                           for it, k, gd in first], limit=limit, tag=tag + "p")
    second = []
    for (it, k, gd), r in zip(first, res1):
        if _solve_outcome(ctx, it, k, True, r, limit, gd[0]):
            second.append((it, k, gd))
    res2 = impl.run_cases([dict(op="solve", game=enc(it["games"][k]), prune=False, limit=limit if gd[1] else short)
                           for it, k, gd in second], limit=limit, tag=tag + "u")
    for (it, k, gd), r in zip(second, res2):
        _solve_outcome(ctx, it, k, False, r, limit, gd[1])


UNGUARDED_TIMEOUTS = []


def _solve_outcome(ctx, it, k, prune, r, limit, guarded):
    ctx.evaluations += 1
    mode = ("pruned" if prune else "unpruned") + ("" if guarded else "-unguarded")
    if "ok" in r:
        ctx.count("solve-%s:ok" % mode)
        if not r.get("intact", True):
            ctx.notes.append("solve changed the description of %s" % k)
        return True
    if r.get("exc") == "ValueError" and r.get("msg") == NO_SOLUTION:
        ctx.count("solve-%s:no-solution" % mode)
        return False
    if r.get("timeout") and not guarded:
        ctx.count("solve-%s:not-finished" % mode)
        UNGUARDED_TIMEOUTS.append(dict(bc.public(it["case"]), game=k, prune=prune))
        return False
    what = "timeout after %ss" % limit if r.get("timeout") else "%s: %s" % (r.get("exc"), r.get("msg"))
    ctx.violation("%s (%s) was neither solved nor reported unsolvable: %s" % (k, mode, what),
                  bc.public(it["case"]), game=k, prune=prune)
    return False


def known_witnesses(ctx):
    """explicit witnesses of known findings (known_findings.json, property C11, status known): each is a board,
    a game key and a pruning mode on which the solver does not finish; reported while that is still so"""
    for kf in ctx.known_witnesses("known"):
        w = kf.get("witness")
        if not w:
            continue
        items = bc.run_batch([("known", w, False)], "c11k")
        g = (items[0]["games"] or {}).get(w.get("game", "game_a"))
        if g is None:
            continue
        r = impl.run_cases([dict(op="solve", game=enc(g), prune=bool(w.get("prune", True)), limit=20)], limit=20,
                           tag="c11ks")[0]
        if r.get("timeout"):
            ctx.known_hits.append((kf.get("id"), kf.get("line") or "%s still does not terminate" % kf.get("id")))


def keep_for_solving(ctx, batch):
    """(src, case, model) -> (src, case, model, keep_games): which boards are solved, and (quick tier only) which of
    the 3-tile boards also go through the Coq model - C08 runs the same correspondence on all of them"""
    out = []
    k3 = k4 = 0
    for src, c, m in batch:
        keep = src in ("rnd", "big", "replay")
        if src == "exh":
            if c["L"] * c["W"] <= 2 or not ctx.quick:
                keep = True
            else:
                keep = (k3 % 32 == 0)
                m = (k3 % 4 == 0)
                k3 += 1
        elif src == "exh4":
            keep = (k4 % 32 == 0)
            k4 += 1
        out.append((src, c, m, keep))
    return out


def boundary_cli(ctx):
    """parameter sets at and beyond the ends of the documented ranges, through the command line: a run may be refused
    (then nothing is judged here - refusal is C15's claim), but whatever the generator ACCEPTS must yield a proper file"""
    import math
    sets = []
    for opt in ("-p", "-q", "-r", "-t"):
        for v in (0.0, 1.0, 1.5, -0.25, 1e-9, 1 - 1e-9, math.nan):
            sets.append(["-s", "3", "-l", "2", "-w", "2", "-t", "0.9", opt, repr(v)])
    for opt, vals in (("-m", (0, -1, 1)), ("-w", (0, -2)), ("-l", (0, -2)), ("-s", (-1,))):
        for v in vals:
            sets.append(["-l", "2", "-w", "2", opt, str(v)])
    res = impl.run_cases([dict(op="rg_cli", scratch=bc.SCRATCH, argv=a, limit=60) for a in sets], limit=60, tag="c11bd")
    for a, r in zip(sets, res):
        ctx.evaluations += 1
        inp = dict(argv=a)
        if r.get("rc") != 0 and not r.get("files"):
            ctx.count("boundary cli: refused")
            continue
        ctx.count("boundary cli: accepted")
        games = None
        if "read" in r:
            try:
                games = dec(r["read"])
            except Exception:   # noqa: BLE001
                games = None
        if games is None or r.get("rc") != 0:
            ctx.violation("the generator accepted %s (exit %s, files %s) but left no loadable three-game file"
                          % (" ".join(a), r.get("rc"), r.get("files")), inp, impl=str(r)[:300])
            continue
        def val(o, dflt):
            return int(a[a.index(o) + 1]) if o in a else dflt
        probs = item_check((dict(L=val("-l", 3), W=val("-w", 3)), games))
        if probs:
            ctx.violation("the generator accepted %s and wrote a file that is not a proper three-game file: %s"
                          % (" ".join(a), "; ".join(probs[:3])), inp)


def run(ctx):
    boundary_cli(ctx)
    import source_facts
    source_facts.check_layout(ctx, {'A': {'light': 0, 'robot_down': 1, 'robot_left_right': 2, 'prob': 3, 'total': 4, 'n_prob_groups': 1, 'n_robot_groups': 2}, 'B': {'light': 0, 'robot_down': 1, 'robot_left_right': 2, 'tile_break': 3, 'robot_down_break': 4, 'robot_left_break': 5, 'robot_right_break': 6, 'total': 7, 'n_prob_groups': 4, 'n_robot_groups': 2}, 'C': {'light': 0, 'robot_down': 1, 'robot_left_right': 2, 'robot_down_left_right': 3, 'tile_break': 4, 'robot_down_break': 5, 'robot_left_break': 6, 'robot_right_break': 7, 'light_red_break': 8, 'light_yellow_break': 9, 'total': 10, 'n_prob_groups': 6, 'n_robot_groups': 3}})
    import time
    nb = 0
    tm = {"impl+predicates+coq": 0.0, "solve": 0.0}
    for batch in bc.case_batches(ctx, "c11"):
        t0 = time.time()
        lights = bc.process_batch(ctx, keep_for_solving(ctx, batch), "c11_%d" % nb, "c11")
        good = check_items(ctx, lights)
        t1 = time.time()
        kept = [it for it in good if "games" in it]
        if nb == 0 and kept:
            it = kept[len(kept) // 2]
            ctx.sample(dict(board=bc.public(it["case"]), game_a=str(it["games"]["game_a"])[:400]))
        solve_items(ctx, [it for it in kept if it["src"] != "big"], 60, "c11s%d" % nb)
        bigs = [it for it in kept if it["src"] == "big"]
        if bigs:
            solve_items(ctx, bigs, 300, "c11sb%d" % nb)
        tm["impl+predicates+coq"] += t1 - t0; tm["solve"] += time.time() - t1
        nb += 1
    ctx.notes.append("seconds per phase (board batches): %s" % {k: round(v, 1) for k, v in tm.items()})
    entry = bc.build_entry_items(ctx, "c11e")
    fine = [it for it in entry if check_entry(ctx, it)]
    lights = bc.process_items(ctx, entry, "c11e", "c11")
    fine_ids = set(id(it["case"]) for it in fine)
    good = check_items(ctx, [it for it in lights if id(it["case"]) in fine_ids])
    for it in good[:2]:
        ctx.sample(dict(entry=it["src"], argv=it["case"].get("argv"), files=it["res"].get("files")))
    solve_items(ctx, good, 60, "c11se")
    # boards outside the domain never produce a file with three games (IndexError in the preamble)
    r = impl.run_cases([bc.wr_job(dict(L=1, W=1, moves=[[4]], rewards=[[0]], loose=[[0]], ptb=0.1, prb=0.1, plb=0.1)),
                        bc.wr_job(dict(L=1, W=1, moves=[[1]], rewards=[[0]], loose=[[2]], ptb=0.1, prb=0.1, plb=0.1))],
                       tag="c11x")
    ctx.notes.append("arrow code 4 / loose code 2 -> %s / %s (outside the modelled domain)" % (
        r[0].get("exc", "no error"), r[1].get("exc", "no error")))
    known_witnesses(ctx)
    if UNGUARDED_TIMEOUTS:
        ctx.notes.append("%d solves of inputs outside the termination guard did not finish within the short limit "
                         "(known finding: the reward loop diverges); first: %s" % (len(UNGUARDED_TIMEOUTS), UNGUARDED_TIMEOUTS[0]))
    bc.shutdown()


def replay(ctx, data):
    v = data.get("input") or (data.get("details") or [{}])[0].get("input")
    if v is None:
        print("nothing to replay (no failing input recorded)")
        return 1
    if "argv" in v and "moves" not in v:
        it = dict(case=v, src="cli", model=False)
        r = impl.run_cases([dict(op="rg_cli", scratch=bc.SCRATCH, argv=v["argv"], limit=150)], limit=150)[0]
        it.update(res=r, games=dec(r["read"]) if "read" in r else None, text=r.get("text"))
        ok = check_entry(ctx, it)
        print("command line", v["argv"], "->", r.get("rc"), r.get("files"), "ok" if ok else ctx.violations)
        return 0 if ok else 1
    lights = bc.process_batch(ctx, [("replay", v, True, True)], "c11r", "c11")
    good = check_items(ctx, lights)
    solve_items(ctx, good, 60, "c11rs")
    for x in ctx.violations:
        print("violation:", x["what"])
    for x in ctx.corr_breaks:
        print("model/implementation mismatch:", x["what"])
    bc.shutdown()
    return 1 if (ctx.violations or ctx.corr_breaks) else 0
