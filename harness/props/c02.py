"""C02: reported expected rewards are the values of the conditioned game."""
from fractions import Fraction as Fr
from common import enc, dec, P1, P2, PR
import solvecommon as sc, oracle_exact as ox, gen_games, impl

RULE = ("stopping games (rank construction: player states move strictly forward, every probabilistic state has a forward edge), "
        "exact-dyadic games with zero-reward player cycles, every dead/alive pattern of <=3 successors, corpus; rewards >= 0 incl. "
        "non-integers; both modes. non-trivial = >3 states and a state with >=2 transitions; distinct by (description, mode)")
ASSUMPTIONS = ["the conditioned game is built independently from the REPORTED strategies and probabilities (as the property states it)",
               "equality 'within tolerance' with the true value is asserted only on guarded families (exact / bounded expected absorption time); "
               "in general only the Bellman-consistency form holds (known finding K1)"]

K1_WITNESS = dict(rewards=[5e-7, 0, 0], players=[PR, PR, PR],
                  transition_list=[[(1 - 1e-7, 0), (1e-7, 1)], [(1, 1)], [(1, 2)]], final_states=[1])


def bellman_residual(g, pr, x):
    """max |Psi(x)(s) - x(s)| over all states of the conditioned game given by the lists pr (floats)"""
    worst = 0.0
    for s, row in enumerate(pr):
        k = g["players"][s]
        if not row:
            v = 0
        elif k == PR:
            v = g["rewards"][s]
            for p, d in row:
                v += x[d] * p
        elif k == P1:
            v = max([0] + [x[d] for _, d in row]) + g["rewards"][s]
        else:
            v = min(x[d] for _, d in row) + g["rewards"][s]
        worst = max(worst, abs(v - x[s]))
    return worst


def check(ctx, recs):
    recs = sc.mismatch_first(recs)
    budget = 600 if ctx.quick else 4000
    for r in recs:
        if not r.ok or r.op != "solve":
            continue
        g, out, pr = r.game, r.out, r.pruned
        rew = out[2]
        # the game the reward loop ran on is the conditioned game as the property text defines it (same targets, in place)
        exp = sc.expected_rows(r)
        for s_, (a, b) in enumerate(zip(pr, exp)):
            if a and [d for _, d in a] != [d for _, d in b]:
                ctx.violation("state %d: the reward loop ran on the successors %s, the conditioned game has %s" %
                              (s_, [d for _, d in a], [d for _, d in b]), r.inp(), pruned=str(pr))
                break
        res = bellman_residual(g, pr, rew)
        if res > 1e-6 * (1 + 1e-6) + 1e-12 * (1 + max(rew)):      # theorem C02_bellman_consistent: absolute, not relative
            ctx.violation("reported rewards are not Bellman-consistent on the conditioned game: residual %g" % res, r.inp(), rewards=rew)
        guard = sc.guard_of(g, r.meta)
        if guard == "any" or budget <= 0:
            continue
        tl, fr = ox.conditioned(g, r.meta, out[1], out[3], r.prune)
        v = ox.reward_values(g, r.meta, tl, fr)
        if v is None:
            ctx.count("oracle:skipped")
            continue
        if guard == "cond":
            T = ox.max_steps(g, r.meta, tl, fr)
            if T is None or 1e-6 * float(T) * (1 + float(max(v))) > 5e-5:
                ctx.count("oracle:unguarded")
                continue
        budget -= 1
        ctx.count("oracle:" + guard)
        live = ox.reachable_from0(tl) if r.prune else set(range(len(rew)))
        tol = 1e-9 if guard == "exact" else 1e-4
        for s in live:
            # exact family: the values are binary64 numbers, so the slack is absolute (plus a few ulps), not relative - rewards
            # of the order 1e10 that differ by single units must not pass as equal
            slack = (1e-9 + 1e-14 * abs(float(v[s]))) if guard == "exact" else tol * (1 + float(v[s]))
            if abs(rew[s] - float(v[s])) > slack:
                ctx.violation("state %d reports expected reward %r, value of the conditioned game is %s (family %s)" % (s, rew[s], v[s], guard),
                              r.inp(), rewards=rew)


def known_k1(ctx):
    res = impl.run_cases([dict(op="solve", game=enc(K1_WITNESS), prune=True)], tag="c02k")[0]
    if "ok" in res:
        x = dec(res["ok"])[2][0]
        if abs(x - 5) > 1e-3:
            what = "state with reward 5e-7 and a self-loop left with probability 1e-7: reported expected reward %r, true value 5" % x
            if any(k.get("id") == "K1-C02" for k in ctx.known_witnesses()):
                ctx.known_hits.append(("K1-C02", what))
            else:
                ctx.violation(what, dict(game=enc(K1_WITNESS), prune=True, op="solve"))


def run(ctx):
    games = [(gen_games.FIG55, gen_games.FIG55_META)] + sc.corpus_games() + gen_games.pattern_games(3)
    games += gen_games.pattern_games3(2 if ctx.quick else 3)
    games += gen_games.mixed_games(ctx.rng, 260 if ctx.quick else 5000, 3, 9, styles=("stopping", "exact", "ties"))
    games += gen_games.extra_families(ctx.rng, games, 12 if ctx.quick else 150)
    recs = sc.run_games(ctx, games, limit=10, tag="c02")
    sc.correspondence(ctx, recs, "cmp_rewards", "c02")
    sc.padding_check(ctx, recs, ("rewards",), 40 if ctx.quick else 400, "c02")
    sc.loglevel_check(ctx, recs, ("rewards",), 25 if ctx.quick else 250, "c02")
    sc.optimize_check(ctx, recs, ("rewards",), 25 if ctx.quick else 250, "c02")
    sc.resolve_check(ctx, recs, ("rewards",), 30 if ctx.quick else 300, "c02")
    check(ctx, recs)
    known_k1(ctx)


deep_search = run


def replay(ctx, data):
    v = sc.replay_input(data)
    if v is None:
        return 1
    res = impl.run_cases([dict(op="solve", game=v["game"], prune=v["prune"])])[0]
    print("implementation:", res)
    return 0
