"""C17: file names identify the parameters. Model (Model/Params.v: prob_to_str on binary64,
file_name, manual_name) vs roberta_generator.prob_to_str, the path created by the generator's
command line, and the manual entry point's path."""
import re
from common import enc, cf, cstr, clist, cbool
import coqrun, impl

RULE = ("prob_to_str: every k/100 and float('0.kk') for k = 1..99, near-half values, random floats in (0,1); "
        "created path: the command line in a scratch cwd for boundary seeds (0 .. 10**20) and sizes, force-down "
        "on/off, every k = 1..99 in one probability slot and a sample in each of the others, random parameter "
        "sets; manual entry point on hand-made boards. non-trivial = a run that created a file, or a "
        "percentage call on a value that is not a multiple of 1/4; distinct by full parameter tuple")
ASSUMPTIONS = ["str(int) is the decimal numeral; round(float) is round-half-even of the exact binary value "
               "(modelled exactly on the mantissa/exponent decomposition)",
               "argparse turns the decimal argument text into the nearest binary64 number (float())",
               "theorems that mention binary64 values depend on Coq's primitive float/int63 operations "
               "(listed by Print Assumptions; evaluated by vm_compute), not on any axiom about them"]
HDR = ("From Coq Require Import String List Bool ZArith NArith.\nFrom CR Require Import Model.Num Model.Params Model.Corr.\n"
       "Import ListNotations.\nLocal Open Scope string_scope.\n")

NAME_RE = re.compile(r"^inputs/robot_(\d+)_w(\d+)_l(\d+)_r(\d+)_rb(\d+)_lb(\d+)_tb(\d+)_lt(\d+)(_force_down)?\.py$")
MANUAL_RE = re.compile(r"^inputs/manual_robot_w(\d+)_l(\d+)_r(\d+)_rb(\d+)_lb(\d+)_tb(\d+)_(force_down)?\.py$")


def pct_text(k):
    return "0.%02d" % k


def cli_args(p):
    a = ["-s", str(p["seed"]), "-w", str(p["w"]), "-l", str(p["l"]), "-m", str(p["r"]),
         "-p", p["rb"], "-q", p["lb"], "-r", p["tb"], "-t", p["lt"]]
    if p["fd"]:
        a.append("-f")
    return a


def mk(seed=0, w=2, l=2, r=6, rb=10, lb=10, tb=10, lt=30, fd=False):
    """percentages given as ints are whole percents; strings are passed to the command line as they are"""
    t = lambda x: pct_text(x) if isinstance(x, int) else x
    return dict(seed=seed, w=w, l=l, r=r, rb=t(rb), lb=t(lb), tb=t(tb), lt=t(lt), fd=fd,
                whole=all(isinstance(x, int) for x in (rb, lb, tb, lt)),
                k=(rb, lb, tb, lt))


def gen_names(ctx):
    rng = ctx.rng
    ps = []
    for k in range(1, 100):                       # every k in the loose-tile slot (the D5 collision slot)
        ps.append(mk(lt=k, w=1, l=1))
    slots = ("rb", "lb", "tb")
    ks = [1, 2, 9, 10, 28, 29, 56, 57, 58, 99] + ([] if ctx.quick else list(range(1, 100)))
    for s in slots:
        for k in ks:
            ps.append(mk(w=1, l=2, **{s: k}))
    for seed in (0, 1, 7, 10, 99, 100, 2**31 - 1, 2**31, 2**32, 2**63, 2**64 + 1, 10**20, 999132423):
        for fd in (False, True):
            ps.append(mk(seed=seed, w=2, l=1, fd=fd))
    for (w, l, r) in ((1, 1, 1), (1, 10, 1), (10, 1, 2), (11, 12, 13), (3, 3, 6), (2, 100, 10), (100, 2, 99), (1, 1, 1000),
                      (1, 1, 1001), (1, 1, 1010), (1, 1, 1022)):       # the largest accepted maximum rewards: each has its own name
        for fd in (False, True):
            ps.append(mk(w=w, l=l, r=r, fd=fd))
    for _ in range(25 if ctx.quick else 2000):   # random whole-percent sets
        ps.append(mk(seed=rng.choice([rng.randrange(100), rng.randrange(10**9)]), w=rng.randint(1, 4), l=rng.randint(1, 4),
                     r=rng.randint(1, 12), rb=rng.randint(1, 99), lb=rng.randint(1, 99), tb=rng.randint(1, 99),
                     lt=rng.randint(1, 99), fd=rng.random() < 0.5))
    for _ in range(15 if ctx.quick else 300):    # arbitrary probabilities
        f = lambda: repr(rng.choice([rng.random(), rng.randrange(1, 1000) / 1000, rng.randrange(1, 200) / 200]))
        ps.append(mk(seed=rng.randrange(50), w=rng.randint(1, 3), l=rng.randint(1, 3), rb=f(), lb=f(), tb=f(), lt=f(),
                     fd=rng.random() < 0.5))
    return ps


def gen_probs(ctx):
    rng = ctx.rng
    xs = []
    for k in range(1, 100):
        xs.append(("k/100", k, k / 100))
        xs.append(("text", k, float(pct_text(k))))
    for x in (0.005, 0.015, 0.025, 0.125, 0.375, 0.135, 0.995, 0.994999, 0.0049999, 0.5, 0.25, 1e-9, 0.9999999,
              5e-324, 2.2250738585072014e-308, 0.004999999999999999, 0.005000000000000001, 0.285, 0.575):
        xs.append(("edge", None, x))
    for _ in range(300 if ctx.quick else 5000):
        xs.append(("random", None, rng.choice([rng.random(), rng.randrange(1, 2000) / 2000, rng.random() ** 3])))
    return [x for x in xs if 0 < x[2] < 1]


def manual_boards(ctx):
    rng = ctx.rng
    out = []
    for _ in range(20 if ctx.quick else 200):
        w, l = rng.randint(1, 4), rng.randint(1, 4)
        fd = rng.random() < 0.5
        moves = [[rng.randrange(3) for _ in range(w)] for _ in range(l)]
        if fd:
            moves[rng.randrange(l)][rng.randrange(w)] = 3
        rewards = [[rng.randrange(0, rng.choice([2, 7, 15])) for _ in range(w)] for _ in range(l)]
        loose = [[rng.randrange(2) for _ in range(w)] for _ in range(l)]
        ks = [rng.randint(1, 99) for _ in range(3)]
        out.append(dict(moves=moves, rewards=rewards, loose=loose, k=ks, fd=fd, w=w, l=l,
                        r=max(max(r) for r in rewards)))
    return out


def run(ctx):
    probs = gen_probs(ctx)
    names = gen_names(ctx)
    manual = manual_boards(ctx)
    jobs = [dict(op="call", module="roberta_generator", func="prob_to_str", args=enc([x])) for _, _, x in probs]
    jobs += [dict(op="gen_cli", argv=cli_args(p), limit=60) for p in names]
    jobs += [dict(op="manual_name", args=enc([m["moves"], m["rewards"], m["loose"]] + [k / 100 for k in m["k"]]))
             for m in manual]
    # the generator's main() called several times in ONE process (a driver setting sys.argv per board), alternating -f
    seqs = []
    for k in range(3 if ctx.quick else 20):
        a, b, c = (mk(seed=1000 + 3 * k, w=2, l=1, fd=True), mk(seed=1001 + 3 * k, w=2, l=1, fd=False, rb=29),
                   mk(seed=1002 + 3 * k, w=1, l=2, fd=True, lt=57))
        seqs.append([a, b, c])
    jobs += [dict(op="gen_main_seq", argvs=[cli_args(p) for p in sq], limit=60, debug=bool(k % 2)) for k, sq in enumerate(seqs)]
    res = impl.run_cases(jobs, limit=20, tag="c17")
    nseq = len(seqs)
    rseq, res = res[len(res) - nseq:], res[:len(res) - nseq]
    rp, rn, rm = res[:len(probs)], res[len(probs):len(probs) + len(names)], res[len(probs) + len(names):]
    for sq, r in zip(seqs, rseq):
        steps = r.get("seq") or []
        if len(steps) != len(sq):
            ctx.harness_errors.append("gen_main_seq returned %s" % str(r)[:200])
            continue
        names = names + sq                       # judged below exactly like the one-process-per-run cases
        rn = rn + steps

    # ---- prob_to_str
    pterms, pmeta = [], []
    for (kind, k, x), r in zip(probs, rp):
        ctx.evaluations += 1
        ctx.count("prob_to_str:" + kind)
        if (x * 4) != int(x * 4):
            ctx.nontrivial.add(("p", x))
        if "ok" not in r or not isinstance(r["ok"], str):
            ctx.violation("prob_to_str(%r) raised / returned a non-string: %s" % (x, r), dict(prob=x.hex(), k=k), impl=r)
            continue
        s = r["ok"]
        if k is not None and s != str(k):
            ctx.violation("the probability %d/100 (%r) is written as %s, not %d" % (k, x, s, k), dict(prob=x.hex(), k=k), impl=s)
        try:
            pterms.append("(%s, %s)" % (cf(x), cstr(s)))
            pmeta.append((x, s))
        except Exception:   # noqa: BLE001
            pass
    body = lambda l: ("Definition cases : list (PrimFloat.float * string) := %s.\n"
                      "Eval vm_compute in (idx_where (fun c => negb (String.eqb (prob_to_str (fst c)) (snd c))) cases).") % l
    bad, errs = coqrun.eval_case_files("c17p", HDR, coqrun.chunked(pterms, 400), body)
    ctx.corr_cases += len(pterms)
    for b in bad:
        ctx.corr_break("model prob_to_str and roberta_generator.prob_to_str disagree", dict(prob=pmeta[b][0].hex()), impl=pmeta[b][1])

    # ---- created path
    nterms, nmeta = [], []
    seen = {}
    for p, r in zip(names, rn):
        ctx.evaluations += 1
        ctx.count("cli:" + ("whole-percent" if p["whole"] else "any-probability") + (",force_down" if p["fd"] else ""))
        key = (p["seed"], p["w"], p["l"], p["r"], p["rb"], p["lb"], p["tb"], p["lt"], p["fd"])
        if r.get("rc") != 0 or len(r.get("files", [])) != 1 or r.get("extra"):
            ctx.violation("the generator did not create exactly one file for an accepted parameter set: %s" %
                          str(r)[:300], p, impl=r)
            continue
        ctx.nontrivial.add(key)
        path = r["files"][0][0]
        m = NAME_RE.match(path)
        if not m:
            ctx.violation("created path %s does not have the documented layout" % path, p, impl=path)
            continue
        got = tuple(int(g) for g in m.groups()[:8]) + (m.group(9) is not None,)
        if got[:4] != (p["seed"], p["w"], p["l"], p["r"]) or got[8] != p["fd"]:
            ctx.violation("created path %s does not state seed/width/length/max reward/force-down of the run" % path, p, impl=path)
        if p["whole"]:
            if got[4:8] != tuple(p["k"]):
                ctx.violation("created path %s does not state the whole percentages %s" % (path, p["k"]), p, impl=path)
            if path in seen and seen[path] != key:
                ctx.violation("two different whole-percent parameter sets share the file %s" % path,
                              dict(first=seen[path], second=p), impl=path)
            seen.setdefault(path, key)
        fl = [float(p[s]) for s in ("rb", "lb", "tb", "lt")]
        nterms.append("(%d%%N, %d%%N, %d%%N, %d%%N, %s, %s, %s)" % (
            p["seed"], p["w"], p["l"], p["r"], clist([cf(x) for x in fl]), cbool(p["fd"]), cstr(path)))
        nmeta.append((p, path))
    if nmeta:
        ctx.sample(dict(argv=cli_args(nmeta[0][0]), created=nmeta[0][1]))
    nbody = lambda l: (
        "Definition cases : list (N * N * N * N * list PrimFloat.float * bool * string) := %s.\n"
        "Definition name_of (c : N * N * N * N * list PrimFloat.float * bool * string) : string :=\n"
        "  match c with (s, w, l, r, [rb; lb; tb; lt], fd, _) => file_name s w l r rb lb tb lt fd | _ => \"\" end.\n"
        "Eval vm_compute in (idx_where (fun c => negb (String.eqb (name_of c) (snd c))) cases).") % l
    bad, errs2 = coqrun.eval_case_files("c17n", HDR, coqrun.chunked(nterms, 300), nbody)
    ctx.corr_cases += len(nterms)
    for b in bad:
        ctx.corr_break("model file_name and the path created by roberta_generator.py disagree", nmeta[b][0], impl=nmeta[b][1])

    # ---- manual entry point
    mterms, mmeta = [], []
    mseen = {}
    for m, r in zip(manual, rm):
        ctx.evaluations += 1
        ctx.count("manual")
        if not r.get("ok") or len(r.get("files", [])) != 1:
            ctx.violation("create_sg_from_board did not create exactly one file: %s" % str(r)[:300], m, impl=r)
            continue
        path = r["files"][0][0]
        mm = MANUAL_RE.match(path)
        key = (m["w"], m["l"], m["r"]) + tuple(m["k"]) + (m["fd"],)
        ctx.nontrivial.add(("manual",) + key)
        if not mm or tuple(int(g) for g in mm.groups()[:6]) + (mm.group(7) is not None,) != key:
            ctx.violation("manual path %s does not state the parameters %s" % (path, key), m, impl=path)
        if path in mseen and mseen[path] != key:
            ctx.violation("two different manual parameter sets share the file %s" % path, m, impl=path)
        mseen.setdefault(path, key)
        mterms.append("(%d%%N, %d%%N, %d%%N, %s, %s, %s)" % (m["w"], m["l"], m["r"], clist([cf(k / 100) for k in m["k"]]),
                                                       cbool(m["fd"]), cstr(path)))
        mmeta.append((m, path))
    mbody = lambda l: (
        "Definition cases : list (N * N * N * list PrimFloat.float * bool * string) := %s.\n"
        "Definition name_of (c : N * N * N * list PrimFloat.float * bool * string) : string :=\n"
        "  match c with (w, l, r, [rb; lb; tb], fd, _) => manual_name w l r rb lb tb fd | _ => \"\" end.\n"
        "Eval vm_compute in (idx_where (fun c => negb (String.eqb (name_of c) (snd c))) cases).") % l
    bad, errs3 = coqrun.eval_case_files("c17m", HDR, coqrun.chunked(mterms, 300), mbody)
    ctx.corr_cases += len(mterms)
    for b in bad:
        ctx.corr_break("model manual_name and the path created by create_sg_from_board disagree", mmeta[b][0], impl=mmeta[b][1])
    for e in errs + errs2 + errs3:
        ctx.harness_errors.append("coqc failed on %s: %s" % (e[0], e[2][-500:]))
    # hand boards whose largest reward is not a whole number: the name still states every parameter (the maximum as Python prints
    # it), and different probability sets still get different files. Outside the model's integer maximum: judged here.
    fr_boards = [dict(moves=[[1, 0], [2, 3]], rewards=[[0.5, 2.5], [1, 0]], loose=[[0, 1], [1, 0]], w=2, l=2, r="2.5", fd=True),
                 dict(moves=[[1, 2, 0]], rewards=[[0.25, 0, 0.125]], loose=[[0, 0, 1]], w=3, l=1, r="0.25", fd=False)]
    fjobs, fmeta = [], []
    for b in fr_boards:
        for ks in ((29, 57, 58), (10, 10, 10), (1, 99, 50)):
            fjobs.append(dict(op="manual_name", args=enc([b["moves"], b["rewards"], b["loose"]] + [k / 100 for k in ks])))
            fmeta.append((b, ks))
    fseen = {}
    for (b, ks), r in zip(fmeta, impl.run_cases(fjobs, limit=20, tag="c17f")):
        ctx.evaluations += 1
        ctx.count("manual: fractional maximum reward")
        want = "inputs/manual_robot_w%d_l%d_r%s_rb%d_lb%d_tb%d_%s.py" % (b["w"], b["l"], b["r"], ks[0], ks[1], ks[2], "force_down" if b["fd"] else "")
        got = r["files"][0][0] if r.get("ok") and len(r.get("files", [])) == 1 else None
        inp = dict(moves=b["moves"], rewards=b["rewards"], loose=b["loose"], k=list(ks))
        if got != want:
            ctx.violation("manual board with maximum reward %s and probabilities %s: created %s, the documented layout gives %s"
                          % (b["r"], ks, got if got else str(r)[:200], want), inp, impl=got)
        if got in fseen and fseen[got] != (b["r"], ks):
            ctx.violation("two different manual parameter sets share the file %s" % got, inp, impl=got)
        fseen.setdefault(got, (b["r"], ks))


def replay(ctx, data):
    v = data.get("input") or (data.get("details") or [{}])[0].get("input") or {}
    if "prob" in v:
        x = float.fromhex(v["prob"])
        r = impl.run_cases([dict(op="call", module="roberta_generator", func="prob_to_str", args=enc([x]))])[0]
        print("prob_to_str(%r) ->" % x, r, " expected:", v.get("k"))
        return 0 if v.get("k") is None or r.get("ok") == str(v["k"]) else 1
    if "first" in v:
        v = v["second"]
    if "seed" in v:
        r = impl.run_cases([dict(op="gen_cli", argv=cli_args(v), limit=60)])[0]
        print("python roberta_generator.py %s ->" % " ".join(cli_args(v)), r)
        if r.get("rc") != 0 or len(r.get("files", [])) != 1:
            return 1
        m = NAME_RE.match(r["files"][0][0])
        ok = bool(m) and (not v.get("whole") or tuple(int(g) for g in m.groups()[4:8]) == tuple(v["k"]))
        return 0 if ok else 1
    print("nothing to replay")
    return 1
