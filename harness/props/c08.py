"""C08: generated games encode the Roborta board rules faithfully.
Theorems: Props/C08.v (the generator's numbering is a bisimulation between the rule game of
Spec/Roborta.v and Model/Board.v's gen_A/B/C, all sizes, all boards). This module ties Model/Board.v to
roberta_generator.py (Coq correspondence on the file read back) and, independently of Coq, builds the
rule game in Python from the prose rules and checks by partition refinement that each game read back
is bisimilar to it from the initial state."""
from fractions import Fraction
from common import enc, dec, P1, P2, PR
import impl
import boards_common as bc

RULE = ("boards: every board with <= 3 tiles (quick) / <= 4 tiles (thorough) over arrows {0,1,2,3} x loose {0,1} x "
        "rewards {0,3}, break probabilities cycling through {0.1,0.5,0.29}^3; random boards from the real gen_rnd_board "
        "up to 3x3 / 5x5 (force-down on/off) with probabilities also drawn from (0,1); larger boards (8x8, 1x40, 40x1, 9x10, 1x90 and one seed-drawn board of 48..168 tiles; "
        "thorough also 20x20, 12x7) through the implementation and the Python bisimulation check only; command-line "
        "and manual-entry runs. Each input yields three games; each is compared (a) inside Coq with the model, "
        "(b) in Python with the independently built rule game. non-trivial = board with >= 2 tiles; distinct by "
        "(board, probabilities). In the thorough tier one in %d of the 4-tile boards also goes through the Coq model; "
        "all of them go through (b)." % bc.FOUR_TILE_MODEL_EVERY)
ASSUMPTIONS = ["a robot failure (games B, C) leaves the robot on its tile and counts as landing on it again, so a loose tile can break (what the generator emits; the property text does not distinguish)",
               "the Yellow phase of a down-only tile is not part of the rule game (unreachable); the generator's placeholder transition ('Etha', 0) there is outside the bisimulation",
               "arrow codes 0..3, loose codes 0..1, rectangular boards; probabilities are compared exactly (the rule game computes 1 - p in binary64 like the generator)",
               "Coq theorems are generic in the number operations (symbolic probabilities); the Python check uses the concrete binary64 values"]


# ------------------------------------------------------------------ the rules, written down independently
def rule_game(variant, L, W, arrows, rewards, loose, ptb, prb, plb):
    """states are tuples; returns (init, owner(s), reward(s), final(s), trans(s) -> [(label_or_prob, target)])"""
    LOST, WON = ("Lost",), ("Won",)

    def below(i, j):
        return ("Land", i + 1, j) if i + 1 < L else WON

    def owner(s):
        return {"Light": P2, "Down": P1, "LR": P1, "Free": P1}.get(s[0], PR)

    def reward(s):
        return rewards[s[1]][s[2]] if s[0] == "Light" else 0

    def final(s):
        return s == WON

    def trans(s):
        k = s[0]
        if k in ("Lost", "Won"):
            return [(1, s)]
        i, j = s[1], s[2]
        a = arrows[i][j]
        can_left, can_right, down_only = a in (0, 1), a in (1, 2), a == 3
        left, right = (j + W - 1) % W, (j + 1) % W
        if k == "Light":
            green = ("SigGreen", i, j) if variant == "C" else ("Down", i, j)
            yellow = ("SigYellow", i, j) if variant == "C" else ("LR", i, j)
            return [("Green", green)] + ([] if down_only else [("Yellow", yellow)])
        if k == "Down":
            return [("Down", below(i, j) if variant == "A" else ("TryDown", i, j))]
        if k == "LR":
            out = []
            if can_left:
                out.append(("Left", ("Land", i, left) if variant == "A" else ("TryLeft", i, j)))
            if can_right:
                out.append(("Right", ("Land", i, right) if variant == "A" else ("TryRight", i, j)))
            return out
        if k == "Free":
            return ([("Down", ("TryDown", i, j))] + ([("Left", ("TryLeft", i, j))] if can_left else [])
                    + ([("Right", ("TryRight", i, j))] if can_right else []))
        if k == "Land":
            if loose[i][j] == 1:
                return [(ptb, LOST), (1 - ptb, ("Light", i, j))]
            return [(1, ("Light", i, j))]
        if k == "TryDown":
            return [(prb, ("Land", i, j)), (1 - prb, below(i, j))]
        if k == "TryLeft":
            return [(prb, ("Land", i, j)), (1 - prb, ("Land", i, left))]
        if k == "TryRight":
            return [(prb, ("Land", i, j)), (1 - prb, ("Land", i, right))]
        if k == "SigGreen":
            return [(plb, ("Free", i, j)), (1 - plb, ("Down", i, j))]
        if k == "SigYellow":
            return [(plb, ("Free", i, j)), (1 - plb, ("LR", i, j))]
        raise ValueError(s)
    return ("Light", 0, 0), owner, reward, final, trans


def bisimilar(case, key, g):
    """partition refinement on the disjoint union of the reachable parts; returns None or a complaint"""
    variant = key[-1].upper()
    init, owner, reward, final, trans = rule_game(variant, case["L"], case["W"], case["moves"], case["rewards"],
                                                   case["loose"], case["ptb"], case["prb"], case["plb"])
    pl, rw, tl, fs = g["players"], g["rewards"], g["transition_list"], set(g["final_states"])
    n = len(pl)
    nodes = {}      # node -> (owner, reward, final, [(x, target)])
    todo = [("r", init), ("g", 0)]
    while todo:
        v = todo.pop()
        if v in nodes:
            continue
        if v[0] == "r":
            s = v[1]
            row = [(x, ("r", t)) for x, t in trans(s)]
            nodes[v] = (owner(s), reward(s), final(s), row)
        else:
            s = v[1]
            if not (isinstance(s, int) and 0 <= s < n) or len(rw) != n or len(tl) != n:
                return "%s: state index %r out of range / lists of different lengths" % (key, s)
            row = [(x, ("g", t)) for x, t in tl[s]]
            nodes[v] = (pl[s], rw[s], s in fs, row)
        todo.extend(t for _, t in row)
    block = {}
    ids = {}
    for v, (o, r, f, _) in nodes.items():
        block[v] = ids.setdefault((o, Fraction(r), f), len(ids))
    while True:
        sigs, ids = {}, {}
        for v, (o, r, f, row) in nodes.items():
            if o == PR:
                acc = {}
                for p, t in row:
                    acc[block[t]] = acc.get(block[t], 0) + Fraction(p)
                sig = (block[v], frozenset(acc.items()))
            else:
                sig = (block[v], frozenset((a, block[t]) for a, t in row))
            sigs[v] = ids.setdefault(sig, len(ids))
        if len(ids) == len(set(block.values())):
            break
        block = sigs
    if block[("r", init)] == block[("g", 0)]:
        return None
    # diagnosis only (the verdict above does not use the generator's numbering): walk both games in lock step
    # along the transition lists, following pairs that agree with the numbering group*L*W + i*W + j
    L, W = case["L"], case["W"]
    order = {"A": ["Light", "Down", "LR", "Land"],
             "B": ["Light", "Down", "LR", "Land", "TryDown", "TryLeft", "TryRight"],
             "C": ["Light", "Down", "LR", "Free", "Land", "TryDown", "TryLeft", "TryRight", "SigGreen", "SigYellow"]}[variant]

    def number(s):
        if s[0] == "Lost":
            return len(order) * L * W
        if s[0] == "Won":
            return len(order) * L * W + 1
        return order.index(s[0]) * L * W + s[1] * W + s[2]

    def name(k):
        if k >= len(order) * L * W:
            return ["Lost", "Won"][k - len(order) * L * W] if k - len(order) * L * W < 2 else "?"
        return "%s(%d,%d)" % (order[k // (L * W)], (k % (L * W)) // W, k % W)
    seen, todo = set(), [(init, 0)]
    while todo:
        s, k = todo.pop(0)
        if (s, k) in seen:
            continue
        seen.add((s, k))
        a, b = nodes[("r", s)], nodes[("g", k)]
        if (a[0], Fraction(a[1]), a[2]) != (b[0], Fraction(b[1]), b[2]):
            return "%s: rule state %s is (%s, reward %s, final %s) but state %d is (%s, reward %s, final %s)" % (
                key, s, a[0], a[1], a[2], k, b[0], b[1], b[2])
        if [x for x, _ in a[3]] != [x for x, _ in b[3]]:
            return "%s: rule state %s offers %s but state %d offers %s" % (key, s, [x for x, _ in a[3]], k, [x for x, _ in b[3]])
        for (x, t), (_, u) in zip(a[3], b[3]):
            if block[t] != block[u] and number(t[1]) != u[1]:
                return ("%s: by the rules, %r from %s leads to %s; in the file, state %d [%s] goes to state %d [%s], "
                        "which is not bisimilar to it") % (key, x, s, t[1], k, name(k), u[1], name(u[1]))
            if number(t[1]) == u[1]:
                todo.append((t[1], u[1]))
    return "%s: not bisimilar to the rule game from the initial state" % key


def item_check(arg):
    case, games = arg
    if "moves" not in case:
        return []
    bad = bc.well_shaped(games)
    if bad:
        return [bad]
    out = []
    for k in bc.KEYS:
        try:
            r = bisimilar(case, k, games[k])
        except Exception as e:   # noqa: BLE001
            r = "%s: malformed (%s: %s)" % (k, type(e).__name__, e)
        if r:
            out.append(r)
    return out


def check_items(ctx, lights):
    for it in lights:
        ctx.evaluations += 1
        c = it["case"]
        if "moves" not in c:
            ctx.harness_errors.append("no board for %s" % (bc.public(c),))
            continue
        ctx.count("%s:%dx%d" % (it["src"], c["L"], c["W"]) if c["L"] * c["W"] <= 4 else "%s:>4 tiles" % it["src"])
        if c["L"] * c["W"] >= 2:
            ctx.nontrivial.add(bc.case_key(c))
        if not it["has_games"]:
            r = it["res"]
            ctx.violation("no loadable three-game file was produced (%s)" % (r.get("exc") or r.get("read_exc") or r),
                          bc.public(c), impl=r)
        elif it.get("problems"):
            ctx.violation("; ".join(it["problems"][:3]), bc.public(c), src=it["src"])


def d3_regression(ctx):
    """the D3 witness (one-column board, game A) is kept as a regression input"""
    c = dict(L=2, W=1, moves=[[1], [1]], rewards=[[0], [0]], loose=[[0], [0]], ptb=0.1, prb=0.1, plb=0.1)
    lights = bc.process_batch(ctx, [("corpus", c, True, True)], "c08d3", "c08")
    check_items(ctx, lights)
    if lights[0].get("games"):
        ctx.sample(dict(board=bc.public(c), game_a_transitions=str(lights[0]["games"]["game_a"]["transition_list"])))


def run(ctx):
    import source_facts
    source_facts.check_layout(ctx, {'A': {'light': 0, 'robot_down': 1, 'robot_left_right': 2, 'prob': 3, 'total': 4, 'n_prob_groups': 1, 'n_robot_groups': 2}, 'B': {'light': 0, 'robot_down': 1, 'robot_left_right': 2, 'tile_break': 3, 'robot_down_break': 4, 'robot_left_break': 5, 'robot_right_break': 6, 'total': 7, 'n_prob_groups': 4, 'n_robot_groups': 2}, 'C': {'light': 0, 'robot_down': 1, 'robot_left_right': 2, 'robot_down_left_right': 3, 'tile_break': 4, 'robot_down_break': 5, 'robot_left_break': 6, 'robot_right_break': 7, 'light_red_break': 8, 'light_yellow_break': 9, 'total': 10, 'n_prob_groups': 6, 'n_robot_groups': 3}})
    import time
    t0 = time.time()
    d3_regression(ctx)
    nb = 0
    for batch in bc.case_batches(ctx, "c08"):
        lights = bc.process_batch(ctx, [(s, c, m, False) for s, c, m in batch], "c08_%d" % nb, "c08")
        check_items(ctx, lights)
        nb += 1
    ctx.notes.append("seconds for the board batches (implementation, bisimulation check, Coq): %.1f" % (time.time() - t0))
    entry = bc.build_entry_items(ctx, "c08e")
    check_items(ctx, bc.process_items(ctx, entry, "c08e", "c08", keep=False))
    bc.shutdown()


def replay(ctx, data):
    v = data.get("input") or (data.get("details") or [{}])[0].get("input")
    if v is None or "moves" not in v:
        print("nothing to replay (no failing board recorded)")
        return 1
    check_items(ctx, bc.process_batch(ctx, [("replay", v, True, False)], "c08r", "c08"))
    for x in ctx.violations:
        print("violation:", x["what"])
    for x in ctx.corr_breaks:
        print("model/implementation mismatch:", x["what"])
    bc.shutdown()
    return 1 if (ctx.violations or ctx.corr_breaks) else 0
