"""C04: reachability strategies list exactly the value-optimal actions."""
from common import enc, dec, P1, P2, PR
import solvecommon as sc, oracle_exact as ox, gen_games, impl

RULE = ("same families as C01 plus tie grids: one Player-1/Player-2 state with k<=3 (thorough 4) successors whose values "
        "come from a grid with exact ties and ties reached through different float sums; both modes. non-trivial = >3 "
        "states and a player state with >=2 actions; distinct by (description, mode)")
ASSUMPTIONS = ["arg-max theorem needs total-order laws of the comparisons: proved for exact rationals, holds on binary64 for non-NaN values",
               "'true values equal => both listed' only where the reach loop computes them exactly (exact family); otherwise K1"]

K1_WITNESS = dict(rewards=[0, 0, 0, 0], players=[P1, PR, PR, PR],
                  transition_list=[[("a", 1), ("b", 2)], [(1, 1)], [(0.9, 2), (0.1, 1)], [(1, 3)]], final_states=[1])


def tie_grids(ctx):
    """a player state whose successors are probabilistic states with chosen values"""
    from fractions import Fraction as Fr
    import itertools
    vals = [(Fr(0), None), (Fr(1), None), (Fr(1, 2), [Fr(1, 2)]), (Fr(1, 2), [Fr(1, 4), Fr(1, 4)]),
            (Fr(3, 10), [Fr(3, 10)]), (Fr(3, 10), [Fr(1, 10), Fr(2, 10)]), (Fr(3, 4), [Fr(1, 2), Fr(1, 4)]),
            # sums that land one ulp below / above the directly written value
            (Fr(8, 10), [Fr(8, 10)]), (Fr(8, 10), [Fr(7, 10), Fr(1, 10)]), (Fr(6, 10), [Fr(6, 10)]), (Fr(6, 10), [Fr(4, 10), Fr(2, 10)]),
            (Fr(9, 10), [Fr(9, 10)]), (Fr(9, 10), [Fr(6, 10), Fr(3, 10)]), (Fr(7, 10), [Fr(7, 10)]), (Fr(7, 10), [Fr(1, 10), Fr(6, 10)])]
    out = []
    kmax = 3 if ctx.quick else 4
    for kind in (P1, P2):
        for k in range(1, kmax + 1):
            combos = list(itertools.product(range(len(vals)), repeat=k))
            cap = 160 if ctx.quick else 2500
            if len(combos) > cap:
                combos = ctx.rng.sample(combos, cap)
            for combo in combos:
                n = k + 3
                F, S = k + 1, k + 2
                tl = [[(gen_games.ACTS[i], i + 1) for i in range(k)]]
                fr = [None]
                for c in combo:
                    v, parts = vals[c]
                    if parts is None:
                        tl.append([(1, F if v == 1 else S)]); fr.append([Fr(1)])
                    else:
                        ws = parts + [1 - sum(parts)]
                        tl.append([(w.numerator / w.denominator, F) for w in parts] + [(float(ws[-1]), S)])
                        fr.append(ws)
                tl += [[(1, F)], [(1, S)]]
                fr += [[Fr(1)], [Fr(1)]]
                g = dict(rewards=[0] * n, players=[kind] + [PR] * (k + 2), transition_list=tl, final_states=[F])
                out.append((g, dict(fr=fr, style="pattern")))
    return out


def strategies_of(r):
    return (r.out[1], r.out[3]) if r.op == "solve" else (r.out[1], r.out[0])


def check(ctx, recs):
    seen = {}
    budget = 100 if ctx.quick else 1000
    for r in recs:
        if not r.ok:
            continue
        g = r.game
        strats, probs = strategies_of(r)
        for i, row in enumerate(g["transition_list"]):
            k = g["players"][i]
            if k == PR:
                if strats[i] is not None:
                    ctx.violation("probabilistic state %d has a strategy %r" % (i, strats[i]), r.inp())
                continue
            vals = [round(probs[d], 6) for _, d in row]
            best = max([0] + vals) if k == P1 else min([1] + vals)
            exp = [a for (a, _), v in zip(row, vals) if v == best]
            if strats[i] != exp:
                ctx.violation("state %d (%s): strategy %r, optimal actions w.r.t. the reported values are %r" % (i, k, strats[i], exp),
                              r.inp(), probs=probs)
        key = sc.game_key(g)
        if key in seen and seen[key] != strats:
            ctx.violation("reachability strategies differ between pruning modes", r.inp(), a=strats, b=seen[key])
        if key in seen:
            continue
        seen[key] = strats
        if budget > 0 and sc.guard_of(g, r.meta) == "exact":
            v = ox.reach_values(g, r.meta)
            if v is None:
                continue
            budget -= 1
            ctx.count("oracle:exact")
            for i, row in enumerate(g["transition_list"]):
                k = g["players"][i]
                if k == PR:
                    continue
                tv = [v[d] for _, d in row]
                best = max(tv) if k == P1 else min(tv)
                exp = [a for (a, _), x in zip(row, tv) if x == best]
                if strats[i] != exp:
                    ctx.violation("state %d (%s): strategy %r, truly optimal actions %r" % (i, k, strats[i], exp), r.inp())


def known_k1(ctx):
    res = impl.run_cases([dict(op="reach", game=enc(K1_WITNESS), prune=False)], tag="c04k")[0]
    if "ok" in res and dec(res["ok"])[1][0] != ["a", "b"]:
        what = ("Player 1 choosing between a final state and a state reaching it through a 0.9 self-loop gets %r; both are worth 1"
                % dec(res["ok"])[1][0])
        if any(k.get("id") == "K1-C04" for k in ctx.known_witnesses()):
            ctx.known_hits.append(("K1-C04", what))
        else:
            ctx.violation(what, dict(game=enc(K1_WITNESS), prune=False, op="reach"))


def run(ctx):
    games = sc.standard_games(ctx, 150 if ctx.quick else 2500, 3, 9) + tie_grids(ctx)
    games += gen_games.mixed_games(ctx.rng, 60 if ctx.quick else 1000, 4, 9, styles=("ties",))
    games += gen_games.chain_tie_games()
    games += gen_games.extra_families(ctx.rng, games, 12 if ctx.quick else 150)
    recs = sc.run_games(ctx, games, limit=10, tag="c04")
    sc.correspondence(ctx, recs, "cmp_reachs", "c04")
    sc.padding_check(ctx, recs, ("reach",), 40 if ctx.quick else 400, "c04")
    sc.loglevel_check(ctx, recs, ("reach",), 25 if ctx.quick else 250, "c04")
    sc.optimize_check(ctx, recs, ("reach",), 25 if ctx.quick else 250, "c04")
    sc.resolve_check(ctx, recs, ("reach",), 30 if ctx.quick else 300, "c04")
    sc.late_edit_check(ctx, recs, ("reach",), 40 if ctx.quick else 300, "c04")
    check(ctx, recs)
    known_k1(ctx)


deep_search = run


def replay(ctx, data):
    v = sc.replay_input(data)
    if v is None:
        return 1
    res = impl.run_cases([dict(op=v.get("op", "solve"), game=v["game"], prune=v["prune"])])[0]
    print("implementation:", res)
    return 0
