"""C12: batch runs solve each game in isolation and report failures.
Implementation: conditionalrewards.run_games on dictionaries of 1-4 games (well-formed, malformed,
unsolvable) in all orders and subsets, the one-game dictionaries, and single solves on fresh copies.
Property predicates (Python, on the implementation's outputs): two entries per game in run order; every
entry equals (all fields, total_time removed) the entry of the run of that game alone; entries agree
with solving the game alone (failure protocol messages, empty results, strategies/values/counts).
Correspondence: the result dictionary equals the Coq model Batch.run_games on instance fops
(compared inside Coq, bit-exact)."""
import copy, itertools
from common import enc, dec, cgame, cstr, cstrat, cfloats, clist, game_key, NotRepresentable, P1, P2, PR
import coqrun, impl, gen_games
from props import c10

RULE = ("dictionaries built from pools of three (quick) / three and four (thorough) games - each well-formed "
        "(terminating families, figure 5.5, dead-successor patterns), malformed (missing transitions, successor "
        "or final index out of range, negative reward, short reward list) or unsolvable (initial state cannot "
        "reach a final state) - in EVERY order and subset, under independent names (including names that "
        "contain '_no_prune' without colliding); plus random 4-game dictionaries. non-trivial = a dictionary with "
        ">= 2 games of which at least one fails and one is solved; distinct by (names, games) in order. The K2 "
        "name-collision witness is a separate step")
ASSUMPTIONS = ["dict keeps insertion order and overwrites in place; copy.deepcopy yields a disjoint equal structure",
               "typed descriptions: rewards numbers, players strings, rows lists of 2-tuples (other malformed shapes are C09's)",
               "result keys do not collide (names_independent); the collision is known finding K2",
               "games whose reward loop terminates; total_time (wall clock) is not compared"]
HDR = ("From CR Require Import Model.Corr Model.Heap Model.Batch.\nFrom Coq Require Import String List Arith Bool ZArith.\n"
       "Import ListNotations.\nLocal Open Scope string_scope.\n")
SFX = "_no_prune"
NAMES = ["a", "b", "fig", "game 1", "x_no_prune", "no_prune", "_no_prune_", "A", "a_no_prunex", "zz_no_prune_no_prune",
         "g-3", "robot_A", "robot_B", "x_no", "1", "b_no_prun"]
FIELDS = ["n_states", "n_transitions", "n_iterations_reach", "n_iterations_rew", "reachability_strategies",
          "final_strategies", "msg", "rewards", "rew_min_reach", "probabilities", "prob_min_rew"]
ERR = "Error while solving the game: "


def independent(names):
    keys = [k for n in names for k in (n, n + SFX)]
    return len(set(keys)) == len(keys)


# ------------------------------------------------------------------ game pools
MALFORM_KINDS = ["missing", "succ-range", "final-range", "neg-reward", "short-rewards", "missing-last", "none-row", "tuple-row"]


def malform(rng, g, kind=None):
    g = copy.deepcopy(g)
    n = len(g["players"])
    kind = kind or rng.choice(["missing", "succ-range", "final-range", "neg-reward", "short-rewards", "missing-last", "none-row", "tuple-row"])
    if kind == "tuple-row":
        # the transitions of one state written as a tuple instead of a list (every transition in it is fine): a batch runner that
        # copies the description row by row must not 'repair' it on the way
        s = rng.randrange(n)
        g["transition_list"][s] = tuple(g["transition_list"][s])
        return g, kind
    if kind == "none-row":
        # a state whose transitions are not a sized collection (defect D6, repaired): judged by the solo-run
        # predicates only, the typed Coq model cannot represent it
        g["transition_list"][rng.randrange(n)] = rng.choice([None, 0])
    elif kind == "missing":
        g["transition_list"][rng.randrange(n)] = []
    elif kind == "missing-last":
        g["transition_list"][n - 1] = []
    elif kind == "succ-range":
        s = rng.randrange(n)
        row = g["transition_list"][s]
        k = rng.randrange(len(row))
        row[k] = (row[k][0], n + rng.choice([0, 1]))
    elif kind == "final-range":
        g["final_states"] = g["final_states"] + [n]
    elif kind == "neg-reward":
        g["rewards"][rng.randrange(n)] = rng.choice([-1, -0.5])
    else:
        g["rewards"] = g["rewards"][:-1]
    return g, kind


def unsolvable(rng, g):
    """a new absorbing non-final state, and the initial state can only go there"""
    g = copy.deepcopy(g)
    n = len(g["players"])
    g["players"].append(PR)
    g["rewards"].append(0)
    g["transition_list"].append([(1, n)])
    if g["players"][0] == PR:
        g["transition_list"][0] = [(0.5, n), (0.5, n)] if rng.random() < 0.5 else [(1, n)]
    else:
        g["transition_list"][0] = [(a, n) for a, _ in g["transition_list"][0]]
    return g


def pools(ctx, count):
    rng = ctx.rng
    wf = [gm[0] for gm in gen_games.mixed_games(rng, count, styles=("stopping", "exact"))
          if not c10.rewarded_player_cycle(gm[0])]
    wf += [gen_games.FIG55] + [gm[0] for gm in gen_games.pattern_games(2)]
    # games whose two modes differ only at an orphan state (no losing state, so every reported probability is positive)
    wf += [gm[0] for gm in gen_games.orphan_games(rng, max(6, count // 5))]
    tagged = []
    for g in wf:
        tagged.append((g, "well-formed"))
    for i, g in enumerate(rng.sample(wf, min(len(wf), max(4, count // 3)))):
        m, kind = malform(rng, g, MALFORM_KINDS[i % len(MALFORM_KINDS)])      # every kind, in turn
        tagged.append((m, "malformed:" + kind))
    for g in rng.sample(wf, min(len(wf), max(4, count // 4))):
        tagged.append((unsolvable(rng, g), "unsolvable"))
    # small handcrafted unsolvable games: Player 2 can avoid the final state
    tagged.append((dict(rewards=[0, 0, 0], players=[P2, PR, PR], transition_list=[[("f", 1), ("s", 2)], [(1, 1)], [(1, 2)]],
                        final_states=[1]), "unsolvable"))
    tagged.append((dict(rewards=[1, 0, 0], players=[PR, PR, PR], transition_list=[[(1, 2)], [(1, 1)], [(1, 2)]],
                        final_states=[1]), "unsolvable"))
    return tagged


def sibling(rng, g):
    """a well-formed game that differs from g by a small regrouping: the last transition of a player state moves to the
    front of the next state when that one belongs to the same player and the moved transition still leads strictly
    forward (so no cycle is created and the reward loop still terminates); the flattened list of transitions is
    unchanged. A cache or memo keyed on too little would confuse the two."""
    g2 = copy.deepcopy(g)
    n = len(g2["players"])
    cand = [s for s in range(n - 1) if g2["players"][s] == g2["players"][s + 1] and g2["players"][s] != PR
            and len(g2["transition_list"][s]) >= 2
            and g2["transition_list"][s][-1][1] > s + 1
            and all(d > s for _, d in g2["transition_list"][s]) and all(d > s + 1 for _, d in g2["transition_list"][s + 1])
            and g2["transition_list"][s][-1][0] not in [a for a, _ in g2["transition_list"][s + 1]]]
    if not cand:
        return None
    s = rng.choice(cand)
    t = g2["transition_list"][s].pop()
    g2["transition_list"][s + 1].insert(0, t)
    return g2


_TERM = {}


def terminates(g):
    """input-side screen for generated siblings: both solves return within 3 s of CPU (a non-stopping game is not a C12 input)"""
    key = game_key(g)
    if key not in _TERM:
        res = impl.run_cases([dict(op="solve", game=enc(g), prune=True, limit=3), dict(op="solve", game=enc(g), prune=False, limit=3)],
                             tag="c12t")
        _TERM[key] = all("timeout" not in r for r in res)
    return _TERM[key]


def pick_group(rng, tagged, k):
    """k games: at least one solvable; failures likely"""
    by = {}
    for g, t in tagged:
        by.setdefault(t.split(":")[0], []).append((g, t))
    out = []
    for i in range(k):
        c = rng.random()
        cls = "well-formed" if (i == 0 or c < 0.45) else ("malformed" if c < 0.75 else "unsolvable")
        out.append(rng.choice(by[cls]))
    # often one of the games gets a near-identical sibling in the same file (next to the original, not instead of it)
    if k >= 2 and rng.random() < 0.6:
        wf = [i for i, (g, t) in enumerate(out) if t == "well-formed"]
        rng.shuffle(wf)
        for i in wf:
            sib = sibling(rng, out[i][0])
            if sib is not None and not c10.rewarded_player_cycle(sib) and terminates(sib):
                j = rng.choice([x for x in range(k) if x != i])
                out[j] = (sib, "well-formed")
                break
    rng.shuffle(out)
    while True:
        names = rng.sample(NAMES, k)
        if independent(names):
            break
    return [(n, g, t) for n, (g, t) in zip(names, out)]


def ordered_subsets(items):
    for k in range(1, len(items) + 1):
        for sub in itertools.permutations(items, k):
            yield list(sub)


# ------------------------------------------------------------------ Coq emission
def cpyv(v, f):
    if v is None:
        return "PyNone"
    if isinstance(v, int) and not isinstance(v, bool) and v == 0:
        return "PyZero"
    if isinstance(v, list):
        return "(PyVal %s)" % f(v)
    raise NotRepresentable(v)


def centry(e):
    if sorted(e.keys()) != sorted(FIELDS):
        raise NotRepresentable(sorted(e.keys()))
    for k in ("n_states", "n_transitions", "n_iterations_reach", "n_iterations_rew"):
        if not isinstance(e[k], int) or e[k] < 0:
            raise NotRepresentable(e[k])
    return "(mkE %d %d %d %d %s %s %s %s %s %s %s)" % (
        e["n_states"], e["n_transitions"], e["n_iterations_reach"], e["n_iterations_rew"],
        cpyv(e["reachability_strategies"], cstrat), cpyv(e["final_strategies"], cstrat),
        cpyv(e["rewards"], cfloats), cpyv(e["rew_min_reach"], cfloats),
        cpyv(e["probabilities"], cfloats), cpyv(e["prob_min_rew"], cfloats), cstr(e["msg"]))


def cbatch(games, res):
    gl = clist(["(%s, %s)" % (cstr(n), cgame(g)) for n, g in games])
    if "timeout" in res:
        return "(%s, XBTimeout)" % gl
    if "exc" in res:
        return "(%s, XBExc %s)" % (gl, cstr(res["exc"]))
    return "(%s, XBOk %s)" % (gl, clist(["(%s, %s)" % (cstr(k), centry(v)) for k, v in dec(res["ok"])]))


# ------------------------------------------------------------------ property predicates
def empty_results(e):
    return (e["reachability_strategies"] is None and e["final_strategies"] is None and e["rewards"] is None
            and e["probabilities"] is None and e["n_iterations_reach"] == 0 and e["n_iterations_rew"] == 0
            and type(e["rew_min_reach"]) is int and e["rew_min_reach"] == 0
            and type(e["prob_min_rew"]) is int and e["prob_min_rew"] == 0)


def expected_entries(g, base):
    """what solving g alone says the two entries must be (None where the unpruned solve is needed but absent)"""
    n_states = len(g["players"])
    try:
        n_tr = sum(len(r) for r in g["transition_list"])
    except TypeError:
        n_tr = 0     # repaired D6: a non-sized row makes the count fall back to 0

    def solved(b):
        r = dec(b["ok"])
        return dict(n_states=n_states, n_transitions=n_tr, n_iterations_reach=r[4], n_iterations_rew=r[5],
                    reachability_strategies=r[1], final_strategies=r[0], msg="Game solved", rewards=r[2],
                    rew_min_reach=r[7], probabilities=r[3], prob_min_rew=r[6])

    def empty(msg):
        return dict(n_states=n_states, n_transitions=n_tr, n_iterations_reach=0, n_iterations_rew=0,
                    reachability_strategies=None, final_strategies=None, msg=msg, rewards=None,
                    rew_min_reach=0, probabilities=None, prob_min_rew=0)
    bp, bu = base[True], base[False]
    if "ok" in bp:
        e1 = solved(bp)
        if "ok" in bu:
            e2 = solved(bu)
        elif bu.get("exc") == "ValueError":
            e2 = empty(ERR + bu["msg"])
        else:
            e2 = None
    elif bp.get("exc") == "ValueError":
        e1, e2 = empty(ERR + bp["msg"]), empty("Game not solved")
    else:
        e1 = e2 = None
    return e1, e2


def same_entry(a, b):
    """all fields, exact (floats bit for bit: compared through the exact encoding)"""
    return enc(a) == enc(b)


def check_dict(ctx, games, res, solo, base, inp):
    """games: [(name, game, tag)]; returns True when every predicate holds"""
    if "ok" not in res:
        ctx.violation("run_games did not return a result dictionary: %s" %
                      ("time limit" if "timeout" in res else "%s: %s" % (res.get("exc"), res.get("msg"))), inp, impl=res)
        return False
    items = dec(res["ok"])
    d = dict(items)
    good = True
    keys = [k for n, _, _ in games for k in (n, n + SFX)]
    if [k for k, _ in items] != keys:
        ctx.violation("result keys %s are not the two entries per game in run order %s" % ([k for k, _ in items], keys),
                      inp, impl=[k for k, _ in items])
        good = False
    for n, g, tag in games:
        gk = game_key(g)
        for key, which in ((n, 0), (n + SFX, 1)):
            if key not in d:
                ctx.violation("no entry %r: game %r was not processed" % (key, n), inp)
                good = False
                continue
            e = d[key]
            s = solo.get((n, gk))
            if s is not None and "ok" in s:
                se = dict(dec(s["ok"])).get(key)
                if se is None or not same_entry(e, se):
                    ctx.violation("entry %r differs from the entry of the run of game %r alone" % (key, n), inp,
                                  entry=enc(e), alone=enc(se))
                    good = False
            exp = expected_entries(g, base[gk])[which]
            if exp is not None and not same_entry(e, exp):
                what = "failure protocol" if exp["msg"] != "Game solved" else "solved entry"
                ctx.violation("entry %r (%s) is not what solving the game alone gives: expected msg %r, got %r" %
                              (key, what, exp["msg"], e.get("msg")), inp, entry=enc(e), expected=enc(exp))
                good = False
            if exp is not None and exp["msg"] != "Game solved" and not empty_results(e):
                ctx.violation("entry %r of a failed game carries results" % key, inp, entry=enc(e))
                good = False
    return good


def k2_witness(ctx):
    g1 = dict(rewards=[1, 0, 0], players=[PR, PR, PR], transition_list=[[(0.5, 1), (0.5, 2)], [(1, 1)], [(1, 2)]],
              final_states=[1])
    g2 = dict(rewards=[0, 2, 0, 0], players=[P1, PR, PR, PR],
              transition_list=[[("x", 1), ("y", 3)], [(1, 2)], [(1, 2)], [(1, 3)]], final_states=[2])
    games = [("a", g1), ("a_no_prune", g2)]
    r = impl.run_cases([dict(op="run_games", games=enc(dict(games)))], tag="c12k")[0]
    ctx.evaluations += 1
    if "ok" in r and len(dec(r["ok"])) == 3:
        ctx.known_hits.append(("K2", "games named 'a' and 'a_no_prune' share the result key 'a_no_prune': 3 entries for 4 runs"))
    elif "ok" not in r:
        ctx.violation("run_games failed on the K2 witness", dict(games=enc(games)), impl=r)
    return games, r


def run(ctx):
    import source_facts
    source_facts.check_messages(ctx)
    tagged = pools(ctx, 60 if ctx.quick else 150)
    groups = []
    for _ in range(40 if ctx.quick else 80):
        groups.append(pick_group(ctx.rng, tagged, 3))
    if not ctx.quick:
        for _ in range(25):
            groups.append(pick_group(ctx.rng, tagged, 4))
    dicts = []
    for grp in groups:
        dicts += list(ordered_subsets(grp))
    for _ in range(60 if ctx.quick else 300):
        dicts.append(pick_group(ctx.rng, tagged, 4))
    # every (name, game) used: the run alone, and the two solves on fresh copies
    solo_keys, base_keys = {}, {}
    for dct in dicts:
        for n, g, t in dct:
            solo_keys.setdefault((n, game_key(g)), (n, g))
            base_keys.setdefault(game_key(g), g)
    # every batch and every solo run starts from freshly executed repository modules: state that leaks from one game
    # into the next inside a batch then shows up as a difference from the solo run
    jobs = [dict(op="run_games", games=enc({n: g for n, g, _ in dct}), fresh_modules=True) for dct in dicts]
    for i, j in enumerate(jobs):
        if i % 3 == 1:          # every third batch: the descriptions already carry a (stale) 'prune_states' key
            j["stale"] = [bool((i // 3 + k) % 2) for k in range(len(dicts[i]))]
    sk = list(solo_keys)
    jobs += [dict(op="run_games", games=enc({solo_keys[k][0]: solo_keys[k][1]}), fresh_modules=True) for k in sk]
    bk = list(base_keys)
    for k in bk:
        jobs += [dict(op="solve", game=enc(base_keys[k]), prune=True, fresh_modules=True),
                 dict(op="solve", game=enc(base_keys[k]), prune=False, fresh_modules=True)]
    res = impl.run_cases(jobs, limit=30, tag="c12")
    nd = len(dicts)
    solo = {k: r for k, r in zip(sk, res[nd:nd + len(sk)])}
    base = {}
    for i, k in enumerate(bk):
        base[k] = {True: res[nd + len(sk) + 2 * i], False: res[nd + len(sk) + 2 * i + 1]}
    terms, meta = [], []
    for i, (dct, r) in enumerate(zip(dicts, res[:nd])):
        ctx.evaluations += 1
        inp = dict(games=enc([[n, g] for n, g, _ in dct]))
        if jobs[i].get("stale"):
            inp["stale"] = jobs[i]["stale"]
            ctx.count("batch whose descriptions carry a stale prune_states key")
        tags = [t.split(":")[0] for _, _, t in dct]
        ctx.count("games=%d" % len(dct))
        for t in dct:
            ctx.count("game:" + t[2])
        fails = sum(1 for n, g, _ in dct if "ok" not in base[game_key(g)][True])
        if len(dct) >= 2 and 0 < fails < len(dct):
            ctx.nontrivial.add(game_key([[n, g] for n, g, _ in dct]))
            first_fail = min(i for i, (n, g, _) in enumerate(dct) if "ok" not in base[game_key(g)][True])
            ctx.count("failing game %s" % ("first" if first_fail == 0 else "last" if first_fail == len(dct) - 1 else "between"))
        check_dict(ctx, dct, r, solo, base, inp)
        if "ok" in r and r.get("intact") is False:
            ctx.corr_break("run_games changed the caller's game descriptions (model: every solve runs on a deep copy)", inp)
        try:
            terms.append(cbatch([(n, g) for n, g, _ in dct], r))
            meta.append(inp)
        except NotRepresentable as e:
            ctx.count("not-representable")
    # the K2 witness: reported as a known finding while it still shows; the model predicts it too
    kgames, kres = k2_witness(ctx)
    try:
        terms.append(cbatch(kgames, kres))
        meta.append(dict(games=enc([[n, g] for n, g in kgames])))
    except NotRepresentable:
        pass
    d0 = dicts[min(3, len(dicts) - 1)]
    ctx.sample(dict(games=[(n, t) for n, _, t in d0],
                    impl=[(k, v["msg"]) for k, v in dec(res[min(3, len(dicts) - 1)]["ok"])] if "ok" in res[min(3, len(dicts) - 1)] else None))
    body = lambda l: ("Definition cases : list batch_case := %s.\n"
                      "Eval vm_compute in (run_batch_cases cases).") % l
    bad, errs = coqrun.eval_case_files("c12", HDR, coqrun.chunked(terms, 10), body)
    ctx.corr_cases += len(terms)
    for b in bad:
        ctx.corr_break("the result dictionary differs from the model's run_games fops", meta[b])
    for e in errs:
        ctx.harness_errors.append("coqc failed on %s: %s" % (e[0], e[2][-500:]))
    ctx.notes.append("%d dictionaries (%d pools of 3-4 games in every order and subset), %d one-game runs, %d games solved alone" %
                     (nd, len(groups), len(sk), len(bk)))


def replay(ctx, data):
    v = data.get("input") or (data.get("details") or [{}])[0].get("input")
    if not v:
        print("no input recorded in", data.get("kind"))
        return 1
    games = [(n, g) for n, g in dec(v["games"])]
    jobs = [dict(op="run_games", games=enc(dict(games)), stale=v.get("stale"))]
    jobs += [dict(op="run_games", games=enc({n: g})) for n, g in games]
    for n, g in games:
        jobs += [dict(op="solve", game=enc(g), prune=True), dict(op="solve", game=enc(g), prune=False)]
    res = impl.run_cases(jobs, tag="c12r")
    k = len(games)
    solo = {(n, game_key(g)): r for (n, g), r in zip(games, res[1:1 + k])}
    base = {game_key(g): {True: res[1 + k + 2 * i], False: res[2 + k + 2 * i]} for i, (n, g) in enumerate(games)}
    print("dictionary:", [(n, g) for n, g in games])
    print("result:", [(kk, vv["msg"]) for kk, vv in dec(res[0]["ok"])] if "ok" in res[0] else res[0])
    ok = check_dict(ctx, [(n, g, "") for n, g in games], res[0], solo, base, v) if independent([n for n, _ in games]) else True
    for viol in ctx.violations:
        print("VIOLATED:", viol["what"])
    return 0 if ok else 1
