"""C15: random boards are reproducible, in range and honour their parameters; bad parameter sets
are refused with ValueError before anything is written. Model: Model/Params.v (gen_rnd_board over an
abstract random source, check_input, gen_main_F)."""
import math, random
from fractions import Fraction
from common import enc, dec, cf, cz, cstr, clist, cbool, cnats
import coqrun, impl

RULE = ("boards: seeds 0..large, sizes 1x1..12x12 (a few to 40x60), max_reward 1..60, loose probability from "
        "{tiny, 0.1, 0.3, 0.5, 0.9, 1-2^-53, random}, force-down on/off; each generated twice in one process "
        "(other use of random in between) and once more in a separate process. Shape decided by a Python "
        "predicate and by the Coq predicate board_shape_ok on the implementation's board; for boards up to "
        "6x6 the model gen_rnd_board is evaluated on the draws replayed from random.Random(seed) by the "
        "harness and compared entry by entry. check_input: all boundary values and random mixes through "
        "op call and through the command line (scratch cwd, inputs/ must stay empty). "
        "non-trivial = a board with at least 2 tiles, or a parameter set with exactly one range violated; "
        "distinct by full parameter tuple")
ASSUMPTIONS = ["the Mersenne Twister stream (random.seed / random / choices / randrange) is an oracle: the model takes "
               "the draws as arguments; the harness supplies them by replaying random.Random(seed) in its own process",
               "libm log is an oracle: the model's reward is the exact floor(-log2 y) on rationals; agreement with the "
               "float computation is observed on every replayed tile, not proved",
               "random.random() returning exactly 0.0 (probability 2^-53) is outside C15_shape (hypothesis 0 < u); "
               "theorem C15_zero_draw_exceeds shows the formula then yields max_reward + 1",
               "a NaN probability passes check_input (both comparisons are false) and is refused by round(nan) during name "
               "assembly, still before the file is opened; modelled in gen_main_F, the Q-level theorem has no NaN",
               "frequencies are reported as statistics (binomial z-score), alarm only beyond 6 sigma"]
HDR = ("From Coq Require Import String List Bool ZArith NArith QArith PrimFloat.\n"
       "From CR Require Import Model.Num Model.Outcome Model.Params Model.Corr.\n"
       "Import ListNotations.\nLocal Open Scope string_scope.\n")

MSG = ["The seed must be a nonnegative integer", "The width must be a positive integer",
       "The length must be a positive integer", "The failure probability of the robot must be a float in (0,1)",
       "The failure probability of the light must be a float in (0,1)",
       "The probability of a tile being loose must be a float in (0,1)",
       "The probability of a tile breaking must be a float in (0,1)", "The maximum reward must be a positive integer"]
ONE_M = 1 - 2.0 ** -53


# ------------------------------------------------------------------ independent predicates
def shape_problems(board, L, W, m, fd):
    out = []
    if not (isinstance(board, list) and len(board) == 3):
        return ["result is not a triple"]
    moves, rewards, loose = board
    for name, g in (("moves", moves), ("rewards", rewards), ("loose_tiles", loose)):
        if not isinstance(g, list) or len(g) != L:
            out.append("%s has %s rows, requested length %d" % (name, len(g) if isinstance(g, list) else "?", L))
            continue
        for row in g:
            if not isinstance(row, list) or len(row) != W:
                out.append("%s has a row of %s entries, requested width %d" % (name, len(row) if isinstance(row, list) else "?", W))
                break
            if any(type(v) is not int for v in row):
                out.append("%s has a non-integer entry" % name)
                break
    if out:
        return out
    if any(not 0 <= r <= m for row in rewards for r in row):
        out.append("a reward outside [0, %d]" % m)
    if any(t not in (0, 1) for row in loose for t in row):
        out.append("a loose flag outside {0,1}")
    allowed = (0, 1, 2, 3) if fd else (0, 1, 2)
    if any(a not in allowed for row in moves for a in row):
        out.append("an arrow outside %s" % (allowed,))
    if fd and any(3 not in row for row in moves):
        out.append("force-down set but a row has no down-only tile")
    if not fd and any(3 in row for row in moves):
        out.append("a down-only tile without force-down")
    return out


def bracket(y):
    """the k >= 0 with 2^-(k+1) < y <= 2^-k (exact, y a Fraction in (0,1])"""
    k = 0
    while y <= Fraction(1, 2):
        y *= 2
        k += 1
    return k


def replay_source(seed, L, W, fd):
    """the draws the generator consumes, from the harness's own Mersenne Twister"""
    rnd = random.Random()
    rnd.seed(seed)
    us = [rnd.random() for _ in range(2 * L * W)]
    ch, rr = [], []
    for _ in range(L):
        if fd:
            ch.append(rnd.choices([0, 1, 2, 3], [0.1, 0.5, 0.1, 0.3], k=W))
            rr.append(rnd.randrange(0, W))
        else:
            ch.append(rnd.choices([0, 1, 2], [0.2, 0.6, 0.2], k=W))
            rr.append(0)
    return us, ch, rr


def expected_from_draws(us, L, W, p, m):
    rewards, loose = [], []
    h = Fraction(1, 2 ** (m + 1))
    for i in range(L):
        rewards.append([])
        loose.append([])
        for j in range(W):
            u1, u2 = us[2 * (i * W + j)], us[2 * (i * W + j) + 1]
            rewards[i].append(bracket(h + Fraction(u1) * (1 - h)) if u1 > 0 else m + 1)
            loose[i].append(1 if u2 < p else 0)
    return rewards, loose


def violated(seed, w, l, prb, plb, plt, ptb, m):
    """independent re-statement of the documented ranges: indices of the violated ones, in the code's order"""
    tests = [seed >= 0, w >= 1, l >= 1, 0 < prb < 1, 0 < plb < 1, 0 < plt < 1, 0 < ptb < 1, m >= 1]
    return [k for k, t in enumerate(tests) if not t]


def accepted(*c):
    v = violated(*c)
    return v[0] if v else None


# ------------------------------------------------------------------ Coq terms
def cq(x):
    fr = Fraction(x)
    return "(Qmake %s %d)" % (cz(fr.numerator), fr.denominator)


def czz(k):
    return "(%d)%%Z" % k


def cfx(x):
    if x != x:
        return "nan"
    if x == math.inf:
        return "infinity"
    if x == -math.inf:
        return "neg_infinity"
    return cf(x)


def cboard(b):
    return "(%s, %s, %s)" % tuple(clist([cnats(row) for row in g]) for g in b)


def is_nat_board(b):
    return (isinstance(b, list) and len(b) == 3 and
            all(isinstance(g, list) and all(isinstance(r, list) and all(type(v) is int and v >= 0 for v in r) for r in g) for g in b))


# ------------------------------------------------------------------ generators
def gen_boards(ctx):
    rng = ctx.rng
    ps = [0.3, 0.1, 0.5, 0.9, 1e-9, ONE_M, 5e-324, 0.999]
    out = []
    for seed in (0, 1, 2, 47, 999132423, 2**32, 2**64 + 3, 10**30):
        for fd in (False, True):
            out.append((seed, 3, 3, 0.3, 6, fd))
    for (L, W) in ((1, 1), (1, 2), (2, 1), (1, 12), (12, 1), (5, 5)):
        for fd in (False, True):
            for m in (1, 6):
                out.append((rng.randrange(1000), L, W, rng.choice(ps), m, fd))
    for m in (1, 2, 10, 52, 53, 60, 200, 1022):
        out.append((rng.randrange(1000), 4, 4, 0.3, m, m % 2 == 0))
    n = 150 if ctx.quick else 2800
    for _ in range(n):
        out.append((rng.choice([rng.randrange(100), rng.randrange(10**12)]), rng.randint(1, 12), rng.randint(1, 12),
                    rng.choice(ps + [rng.random(), rng.random()]), rng.choice([1, 2, 3, 6, 6, 10, 30]), rng.random() < 0.5))
    for _ in range(3 if ctx.quick else 30):
        out.append((rng.randrange(10**6), rng.randint(20, 40), rng.randint(20, 60), rng.random(), 6, rng.random() < 0.5))
    return out


def gen_checks(ctx):
    rng = ctx.rng
    good = (0, 3, 3, 0.1, 0.1, 0.3, 0.1, 6)
    cases = [good]
    bvals = {0: [-1, -10**20, 0, 10**20], 1: [0, -1, 1, -5], 2: [0, -1, 1], 7: [0, -1, 1, -7]}
    for k in range(8):
        vals = bvals.get(k, [0.0, 1.0, -0.0, 5e-324, ONE_M, 1.0000000000000002, -1e-300, 2.0, -3.5, math.nan, math.inf, -math.inf])
        for v in vals:
            c = list(good)
            c[k] = v
            cases.append(tuple(c))
    ints = [-2, -1, 0, 1, 2, 5]
    fls = [-0.5, 0.0, 5e-324, 0.3, 0.5, ONE_M, 1.0, 1.5, math.nan, math.inf, -math.inf]
    for _ in range(250 if ctx.quick else 4000):
        nbad = rng.choice([0, 1, 1, 2, 3, 8])
        c = [rng.randrange(0, 50), rng.randint(1, 5), rng.randint(1, 5), rng.random() or 0.5, rng.random() or 0.5,
             rng.random() or 0.5, rng.random() or 0.5, rng.randint(1, 9)]
        for k in rng.sample(range(8), nbad):
            c[k] = rng.choice(ints) if k in (0, 1, 2, 7) else rng.choice(fls)
        cases.append(tuple(c))
    return cases


def cli_of(c, fd=False):
    seed, w, l, prb, plb, plt, ptb, m = c
    a = ["--seed=%d" % seed, "--width=%d" % w, "--length=%d" % l, "--max_reward=%d" % m,
         "--prob_robot_break=%r" % prb, "--prob_light_break=%r" % plb, "--prob_loose_tile=%r" % plt,
         "--prob_tile_break=%r" % ptb]
    return a + (["-f"] if fd else [])


def gen_cli(ctx):
    rng = ctx.rng
    good = (0, 2, 2, 0.1, 0.1, 0.3, 0.1, 6)
    out = []
    bnd = [(0, -1), (1, 0), (2, 0), (7, 0)]
    for k in (3, 4, 5, 6):
        bnd += [(k, 0.0), (k, 1.0), (k, math.nan), (k, math.inf), (k, -math.inf)]
    bnd += [(0, -5), (1, -1), (2, -3), (7, -1), (3, 1.5), (5, -0.25), (6, 1.0000000000000002)]
    for k, v in bnd:
        c = list(good)
        c[k] = v
        out.append((tuple(c), rng.random() < 0.5))
    for _ in range(8 if ctx.quick else 60):      # several ranges violated at once: the first one is reported
        c = list(good)
        for k in rng.sample(range(8), rng.randint(2, 4)):
            c[k] = rng.choice([-1, 0]) if k in (0, 1, 2, 7) else rng.choice([0.0, 1.0, -2.0, 7.0, math.nan])
        out.append((tuple(c), rng.random() < 0.5))
    for _ in range(6 if ctx.quick else 40):      # accepted neighbours of the boundaries
        c = (rng.choice([0, 1]), rng.choice([1, 2]), rng.choice([1, 2]), rng.choice([5e-324, 0.5, ONE_M]),
             rng.choice([1e-9, 0.25]), rng.choice([0.004, 0.3, ONE_M]), rng.choice([0.5, 0.996]), rng.choice([1, 2, 1022]))
        out.append((c, rng.random() < 0.5))
    return out


def cli_honours_parameters(ctx):
    """the command line generates exactly the board of the parameters it was given: the file it writes is the file the API
    writes for gen_rnd_board(seed, length, width, t, m, f) and the same break probabilities - also when a probability is not a
    whole percent (the file name is percent-granular, the board and the games are not)"""
    import ast
    rng = ctx.rng
    # large boards for the extreme loose-tile probabilities: 1600 tiles make a 0.004 difference in the probability visible
    sets = [(5, 40, 40, 0.125, 4, False, 0.215, 0.125, 0.335), (9, 40, 40, 0.004, 6, True, 0.0051, 0.004, 0.996),
            (11, 40, 40, 0.996, 2, False, 0.5049, 0.9949, 0.0049), (0, 3, 3, 0.3, 6, False, 0.1, 0.1, 0.1)]
    for _ in range(3 if ctx.quick else 25):
        sets.append((rng.randrange(10 ** 6), rng.randint(3, 7), rng.randint(3, 7),
                     min(max(round(rng.uniform(0.001, 0.999), rng.choice([2, 3, 4])), 0.001), 0.999),   # rounding must not leave (0,1)
                     rng.choice([1, 3, 6, 9]), rng.random() < 0.5, round(rng.uniform(0.001, 0.999), 4), round(rng.uniform(0.001, 0.999), 3),
                     round(rng.uniform(0.001, 0.999), 4)))
    jobs = []
    for (seed, L, W, t, m, fd, ptb, prb, plb) in sets:
        jobs.append(dict(op="gen_cli", want_text=True, limit=60,
                         argv=["-s", str(seed), "-l", str(L), "-w", str(W), "-t", repr(t), "-m", str(m), "-r", repr(ptb), "-p", repr(prb),
                               "-q", repr(plb)] + (["-f"] if fd else [])))
        jobs.append(dict(op="api_text", args=enc([seed, L, W, t, m, fd, ptb, prb, plb]), limit=60))
    res = impl.run_cases(jobs, limit=60, tag="c15cli")
    for k, par in enumerate(sets):
        a, b = res[2 * k], res[2 * k + 1]
        ctx.evaluations += 1
        ctx.count("cli-vs-api")
        inp = dict(argv=jobs[2 * k]["argv"])
        if "text" not in a or "text" not in b:
            ctx.violation("accepted parameters, but the command line wrote %s and the API %s" % (a.get("files"), b.get("exc") or "a file"), inp, impl=str(a)[:300])
            continue
        ctx.nontrivial.add(("cli-vs-api",) + tuple(repr(x) for x in par))
        if a["text"] != b["text"]:
            try:
                da, db = ast.literal_eval(a["text"]), ast.literal_eval(b["text"])
                where = [k2 for k2 in db if da.get(k2) != db[k2]]
            except Exception:   # noqa: BLE001
                where = ["?"]
            ctx.violation("the command line's file is not the one the API writes for gen_rnd_board(seed=%d, length=%d, width=%d, "
                          "prob_loose_tile=%r, max_reward=%d, force_down=%s) with break probabilities tile %r robot %r light %r "
                          "(differs in %s)" % (par[0], par[1], par[2], par[3], par[4], par[5], par[6], par[7], par[8], where), inp)


# ------------------------------------------------------------------ run
def run(ctx):
    import mt_corr
    mt_corr.run(ctx)      # CPython's random module and gen_rnd_board against the Coq model of MT19937 (Model/MT.v)
    boards = gen_boards(ctx)
    checks = gen_checks(ctx)
    clis = gen_cli(ctx)
    bjobs = [dict(op="board", args=enc([s, L, W, p, m, fd]), limit=60) for (s, L, W, p, m, fd) in boards]
    jobs = bjobs + [dict(op="call", module="roberta_generator", func="check_input", args=enc(list(c))) for c in checks]
    jobs += [dict(op="gen_cli", argv=cli_of(c, fd), limit=60, bare=accepted(*c) is not None) for c, fd in clis]
    jobs.append(dict(op="gen_cli", argv=["-m", "1023"], limit=60))
    res = impl.run_cases(jobs, limit=30, tag="c15")
    res2 = impl.run_cases(list(reversed(bjobs)), limit=30, tag="c15b")[::-1]   # separate worker processes
    rb = res[:len(boards)]
    rc = res[len(boards):len(boards) + len(checks)]
    rl = res[len(boards) + len(checks):len(boards) + len(checks) + len(clis)]
    rover = res[-1]

    # ---- boards
    sterms, smeta, mterms, mmeta = [], [], [], []
    nmodel = 60 if ctx.quick else 500
    for (par, r, r2) in zip(boards, rb, res2):
        s, L, W, p, m, fd = par
        inp = dict(seed=s, length=L, width=W, prob_loose_tile=p.hex(), max_reward=m, force_down=fd)
        ctx.evaluations += 1
        ctx.count("board:%s%s" % ("<=6x6" if L <= 6 and W <= 6 else ("<=12x12" if L <= 12 and W <= 12 else "large"), ",fd" if fd else ""))
        if "ok" not in r:
            ctx.violation("gen_rnd_board raised %s on an accepted parameter set" % (r.get("exc") or "timeout"), inp, impl=r)
            continue
        b = dec(r["ok"])
        if L * W >= 2:
            ctx.nontrivial.add(par)
        if dec(r["again"]) != b:
            ctx.violation("the same seed and parameters gave two different boards in one process", inp, impl=b, again=dec(r["again"]))
        if "ok" not in r2 or dec(r2["ok"]) != b:
            ctx.violation("the same seed and parameters gave a different board in a second process", inp, impl=b, second=r2)
        probs = shape_problems(b, L, W, m, fd)
        for pr in probs:
            ctx.violation("board: " + pr, inp, impl=b)
        if is_nat_board(b) and L * W <= 150:
            sterms.append("(%d, %d, %d, %s, %s, %s)" % (L, W, m, cbool(fd), cboard(b), cbool(not probs)))
            smeta.append((inp, b, probs))
        # honour the parameters: replay the stream
        us, ch, rr = replay_source(s, L, W, fd)
        erew, eloose = expected_from_draws(us, L, W, p, m)
        if not probs:
            if b[2] != eloose:
                ctx.violation("a tile is loose although its draw is not below the requested probability (or the converse)", inp, impl=b[2], expected=eloose)
            if b[1] != erew:
                ctx.violation("a reward differs from floor(-log2 y) of its draw", inp, impl=b[1], expected=erew)
        if L <= 6 and W <= 6 and len(mterms) < nmodel and is_nat_board(b) and all(u > 0 for u in us):
            mterms.append("(%d, %d, %d, %s, %s, %s, %s, %s, %s)" % (
                L, W, m, cbool(fd), cq(p), clist([cq(u) for u in us]), clist([cnats(x) for x in ch]), cnats(rr), cboard(b)))
            mmeta.append((inp, b))
    if smeta:
        ctx.sample(dict(args=smeta[0][0], board=smeta[0][1]))
    T3 = "(list (list nat) * list (list nat) * list (list nat))"
    sbody = lambda l: ("Definition cases : list (nat * nat * nat * bool * %s * bool) := %s.\n"
                       "Eval vm_compute in (idx_where (fun c => match c with (L, W, m, fd, b, expect) => "
                       "negb (Bool.eqb (board_shape_ok L W m fd b) expect) end) cases).") % (T3, l)
    bad, errs = coqrun.eval_case_files("c15s", HDR, coqrun.chunked(sterms, 100), sbody)
    ctx.corr_cases += len(sterms)
    for k in bad:
        inp, b, probs = smeta[k]
        if probs:
            ctx.corr_break("the Coq predicate board_shape_ok accepts a board the Python predicate rejects (%s)" % probs, inp, impl=b)
        else:
            ctx.violation("board rejected by the Coq predicate board_shape_ok", inp, impl=b)
    mbody = lambda l: (
        "Definition cases : list (nat * nat * nat * bool * Q * list Q * list (list nat) * list nat * %s) := %s.\n"
        "Definition grid_eqb := list_eqb (list_eqb Nat.eqb).\n"
        "Eval vm_compute in (idx_where (fun c => match c with (L, W, m, fd, p, us, ch, rr, (mv, rw, lo)) =>\n"
        "  match gen_rnd_board (fun n => nth n us 0%%Q) (fun i => nth i ch []) (fun i => nth i rr 0) L W p m fd with\n"
        "  (mv', rw', lo') => negb (grid_eqb mv mv' && grid_eqb rw rw' && grid_eqb lo lo') end end) cases).") % (T3, l)
    bad, errs2 = coqrun.eval_case_files("c15m", HDR, coqrun.chunked(mterms, 40), mbody)
    ctx.corr_cases += len(mterms)
    for k in bad:
        ctx.corr_break("model gen_rnd_board on the replayed draws and the implementation's board disagree", mmeta[k][0], impl=mmeta[k][1])

    # ---- loose-tile frequency and reward distribution (statistics)
    stat_jobs, stat_meta = [], []
    for p in (0.1, 0.3, 0.5, 0.9):
        for k in range(2 if ctx.quick else 8):
            seed = ctx.rng.randrange(10**9)
            stat_jobs.append(dict(op="board", args=enc([seed, 125, 100, p, 6, k % 2 == 1]), limit=120))
            stat_meta.append(p)
    sres = impl.run_cases(stat_jobs, limit=120, tag="c15f")
    agg = {}
    hist = {}
    for p, r in zip(stat_meta, sres):
        if "ok" not in r:
            ctx.violation("gen_rnd_board failed on a 125x100 board: %s" % r, dict(prob=p))
            continue
        b = dec(r["ok"])
        n, k = agg.get(p, (0, 0))
        agg[p] = (n + sum(len(row) for row in b[2]), k + sum(sum(row) for row in b[2]))
        for row in b[1]:
            for v in row:
                hist[v] = hist.get(v, 0) + 1
        ctx.evaluations += 1
    for p, (n, k) in sorted(agg.items()):
        z = (k - n * p) / math.sqrt(n * p * (1 - p))
        ctx.notes.append("loose-tile frequency: p=%.2f tiles=%d loose=%d (%.4f) z=%+.2f sigma" % (p, n, k, k / n, z))
        ctx.count("freq-tiles", n)
        if abs(z) > 6:
            ctx.violation("loose tiles occur with frequency %.4f over %d tiles, requested %.2f (%.1f sigma)" % (k / n, n, p, z),
                          dict(prob=p, tiles=n, loose=k))
    tot = sum(hist.values())
    if tot:
        ctx.notes.append("reward histogram over %d tiles (max_reward 6): %s" % (tot, sorted(hist.items())))
        # geometric law up to the offset: P(reward >= 1) is a little below 1/2
        n1 = sum(v for k, v in hist.items() if k >= 1)
        q = (0.5 - 2.0 ** -7) / (1 - 2.0 ** -7)
        z = (n1 - tot * q) / math.sqrt(tot * q * (1 - q))
        ctx.notes.append("P(reward >= 1) = %.4f, formula gives %.4f, z=%+.2f sigma" % (n1 / tot, q, z))
        if abs(z) > 6:
            ctx.violation("rewards do not follow the formula's distribution (%.1f sigma)" % z, dict(tiles=tot, hist=sorted(hist.items())))

    # ---- check_input through op call
    cterms, cmeta = [], []
    for c, r in zip(checks, rc):
        ctx.evaluations += 1
        nan = any(isinstance(v, float) and v != v for v in c)
        inp = dict(args=[v.hex() if isinstance(v, float) else v for v in c])
        if "ok" in r:
            got = None
        elif r.get("exc") == "ValueError":
            got = r.get("msg")
        else:
            ctx.violation("check_input raised %s, not ValueError" % r.get("exc", "timeout"), inp, impl=r)
            continue
        first = accepted(*c)
        nviol = len(violated(*c))
        ctx.count("check_input:%d-violated" % nviol)
        if nviol == 1:
            ctx.nontrivial.add(c if not nan else tuple(repr(v) for v in c))
        if not nan:
            # (NaN is judged at the command-line level: it passes check_input and is refused later)
            want = None if first is None else MSG[first]
            if got != want:
                ctx.violation("check_input %s, the documented ranges say %s" % (
                    "accepted" if got is None else "refused with '%s'" % got,
                    "accept" if want is None else "refuse with '%s'" % want), inp, impl=got)
        cterms.append("(%s, %s, %s, %s, %s, %s)" % (czz(c[0]), czz(c[1]), czz(c[2]), clist([cfx(float(v)) for v in c[3:7]]), czz(c[7]),
                                                "None" if got is None else "(Some %s)" % cstr(got)))
        cmeta.append((inp, got))
    cbody = lambda l: (
        "Definition cases : list (Z * Z * Z * list float * Z * option string) := %s.\n"
        "Definition run (c : Z * Z * Z * list float * Z * option string) : bool :=\n"
        "  match c with (s, w, l, [a; b; t; d], m, x) =>\n"
        "    match check_input_F s w l a b t d m, x with\n"
        "    | Ok _, None => true | ValueErr e, Some e' => String.eqb e e' | _, _ => false end\n"
        "  | _ => false end.\n"
        "Eval vm_compute in (idx_where (fun c => negb (run c)) cases).") % l
    bad, errs3 = coqrun.eval_case_files("c15c", HDR, coqrun.chunked(cterms, 400), cbody)
    ctx.corr_cases += len(cterms)
    for k in bad:
        ctx.corr_break("model check_input and roberta_generator.check_input disagree", cmeta[k][0], impl=cmeta[k][1])

    cli_honours_parameters(ctx)

    # ---- the command line
    lterms, lmeta = [], []
    for (c, fd), r in zip(clis, rl):
        ctx.evaluations += 1
        inp = dict(argv=cli_of(c, fd))
        first = accepted(*c)
        ctx.count("cli:" + ("accepted" if first is None else "range-%d" % first))
        ctx.nontrivial.add(tuple(repr(v) for v in c) + (fd,))
        last = (r.get("stderr") or "").strip().split("\n")[-1]
        files = r.get("files") or []
        if first is not None:
            if r.get("rc") == 0 or "ValueError" not in (r.get("stderr") or ""):
                ctx.violation("a parameter set outside the documented ranges was not refused with ValueError "
                              "(exit status %s, stderr ends '%s')" % (r.get("rc"), last[:200]), inp, impl=r)
            if files or r.get("extra"):
                ctx.violation("a refused parameter set left files behind: %s" % (files or r.get("extra")), inp, impl=r)
            obs = "(XVal %s)" % cstr(last[len("ValueError: "):]) if last.startswith("ValueError: ") else "(XExc %s)" % cstr(last.split(":")[0][:60])
        else:
            if r.get("rc") != 0 or len(files) != 1:
                ctx.violation("an accepted parameter set did not produce exactly one file (exit status %s, '%s')" % (r.get("rc"), last[:200]), inp, impl=r)
                continue
            obs = "(XPath %s)" % cstr(files[0][0])
        lterms.append("(%s, %s, %s, %s, %s, %s, %s)" % (czz(c[0]), czz(c[1]), czz(c[2]), czz(c[7]),
                                                    clist([cfx(float(c[5])), cfx(float(c[6])), cfx(float(c[3])), cfx(float(c[4]))]),
                                                    cbool(fd), obs))
        lmeta.append((inp, obs))
    lbody = lambda l: (
        "Inductive obs := XVal (m : string) | XExc (c : string) | XPath (p : string).\n"
        "Definition cases : list (Z * Z * Z * Z * list float * bool * obs) := %s.\n"
        "Definition run (c : Z * Z * Z * Z * list float * bool * obs) : bool :=\n"
        "  match c with (s, w, l, m, [plt; ptb; prb; plb], fd, x) =>\n"
        "    match gen_main_F s w l m plt ptb prb plb fd, x with\n"
        "    | Ok p, XPath p' => String.eqb p p' | ValueErr e, XVal e' => String.eqb e e'\n"
        "    | Crash e, XExc e' => String.eqb e e' | _, _ => false end\n"
        "  | _ => false end.\n"
        "Eval vm_compute in (idx_where (fun c => negb (run c)) cases).") % l
    bad, errs4 = coqrun.eval_case_files("c15l", HDR, coqrun.chunked(lterms, 200), lbody)
    ctx.corr_cases += len(lterms)
    for k in bad:
        ctx.corr_break("model gen_main_F and the command line's outcome disagree", lmeta[k][0], impl=lmeta[k][1])

    # ---- accepted by check_input, yet the generator cannot run: 2.0**(max_reward+1) overflows from 1023 on
    ctx.evaluations += 1
    if rover.get("rc") not in (0, None) and "OverflowError" in (rover.get("stderr") or "") and not rover.get("files"):
        what = ("max_reward >= 1023 passes check_input but gen_rnd_board raises OverflowError "
                "(2.0**(max_reward+1)); nothing is written")
        if any(k.get("id") == "K3" for k in ctx.known_witnesses()):
            ctx.known_hits.append(("K3", what))
        else:
            ctx.violation("an accepted parameter set produces no board: " + what, dict(argv=["-m", "1023"]), impl=rover)
    elif rover.get("rc") != 0:
        ctx.violation("max_reward 1023: unexpected failure %s" % str(rover)[:300], dict(argv=["-m", "1023"]), impl=rover)
    for e in errs + errs2 + errs3 + errs4:
        ctx.harness_errors.append("coqc failed on %s: %s" % (e[0], e[2][-500:]))


def replay(ctx, data):
    v = data.get("input") or (data.get("details") or [{}])[0].get("input") or {}
    if "seed" in v:
        p = float.fromhex(v["prob_loose_tile"])
        a = [v["seed"], v["length"], v["width"], p, v["max_reward"], v["force_down"]]
        r = impl.run_cases([dict(op="board", args=enc(a), limit=120)])[0]
        print("gen_rnd_board%r ->" % (tuple(a),), str(r)[:1500])
        if "ok" not in r:
            return 1
        b = dec(r["ok"])
        us, _, _ = replay_source(a[0], a[1], a[2], a[5])
        erew, eloose = expected_from_draws(us, a[1], a[2], p, a[4])
        bad = shape_problems(b, a[1], a[2], a[4], a[5]) or dec(r["again"]) != b or b[1] != erew or b[2] != eloose
        return 1 if bad else 0
    if "args" in v:
        c = [float.fromhex(x) if isinstance(x, str) else x for x in v["args"]]
        r = impl.run_cases([dict(op="call", module="roberta_generator", func="check_input", args=enc(c))])[0]
        first = accepted(*c)
        print("check_input%r ->" % (tuple(c),), r, " documented:", "accept" if first is None else MSG[first])
        got = None if "ok" in r else r.get("msg")
        return 0 if got == (None if first is None else MSG[first]) and r.get("exc", "ValueError") == "ValueError" else 1
    if "argv" in v:
        r = impl.run_cases([dict(op="gen_cli", argv=v["argv"], limit=60)])[0]
        print("python roberta_generator.py %s ->" % " ".join(v["argv"]), r)
        return 0 if (r.get("rc") != 0 and "ValueError" in r.get("stderr", "") and not r.get("files")) or \
                    (r.get("rc") == 0 and len(r.get("files", [])) == 1) else 1
    print("nothing to replay")
    return 1
