"""Build the Coq development and evaluate generated case files with vm_compute."""
import fcntl, os, re, subprocess, time
from concurrent.futures import ThreadPoolExecutor
from common import BUILD, COQ

CASES = os.path.join(BUILD, "cases")
COQC_TIMEOUT = 900


def build(targets=None, jobs=16):
    """full .vo build (never -vos); returns (ok, log)"""
    os.makedirs(BUILD, exist_ok=True)
    with open(os.path.join(BUILD, ".lock"), "w") as lk:
        fcntl.flock(lk, fcntl.LOCK_EX)
        import mk_coqproject
        mk_coqproject.main()
        if not os.path.exists(os.path.join(COQ, "Makefile")) or \
           os.path.getmtime(os.path.join(COQ, "Makefile")) < os.path.getmtime(os.path.join(COQ, "_CoqProject")):
            subprocess.run(["coq_makefile", "-f", "_CoqProject", "-o", "Makefile"], cwd=COQ,
                           stdout=subprocess.PIPE, stderr=subprocess.STDOUT)
        cmd = ["timeout", "3000", "make", "-j%d" % jobs] + (targets or [])
        p = subprocess.run(cmd, cwd=COQ, stdout=subprocess.PIPE, stderr=subprocess.STDOUT, text=True)
        return p.returncode == 0, p.stdout


def coqc_file(path, timeout=COQC_TIMEOUT):
    """compile one generated file against the built library; returns (rc, stdout+stderr)"""
    try:
        p = subprocess.run(["timeout", str(timeout), "coqc", "-Q", COQ, "CR", "-w", "-all", path],
                           stdout=subprocess.PIPE, stderr=subprocess.STDOUT, text=True,
                           cwd=os.path.dirname(path))
        return p.returncode, p.stdout
    except Exception as e:   # noqa: BLE001
        return 99, str(e)


_NATLIST = re.compile(r"=\s*\[([0-9;\s]*)\]\s*:\s*list nat", re.S)


def parse_natlists(out):
    res = []
    for m in _NATLIST.finditer(out):
        body = m.group(1).strip()
        res.append([int(x) for x in body.replace("\n", " ").split(";") if x.strip()] if body else [])
    return res


def eval_case_files(tag, header, chunks, body_of_chunk, jobs=16, timeout=COQC_TIMEOUT):
    """chunks: list of lists of case terms. body_of_chunk(list_term) -> Coq text that ends with one
    'Eval vm_compute in (<list nat of bad indices>).'  Returns (bad_global_indices, errors)."""
    os.makedirs(CASES, exist_ok=True)
    paths = []
    offs = []
    off = 0
    for k, ch in enumerate(chunks):
        p = os.path.join(CASES, "%s_%d_%d.v" % (tag, os.getpid(), k))
        with open(p, "w") as f:
            f.write(header + "\n")
            f.write(body_of_chunk("[" + ";\n ".join(ch) + "]") + "\n")
        paths.append(p)
        offs.append(off)
        off += len(ch)
    with ThreadPoolExecutor(max_workers=jobs) as ex:
        outs = list(ex.map(lambda p: coqc_file(p, timeout), paths))
    bad, errors = [], []
    for p, o, (rc, out) in zip(paths, offs, outs):
        lists = parse_natlists(out)
        if rc != 0 or len(lists) != 1:
            errors.append((p, rc, out[-2000:]))
        else:
            bad.extend(o + i for i in lists[0])
            _cleanup(p)
    return bad, errors


def _cleanup(p):
    base = p[:-2]
    d, b = os.path.split(base)
    for q in (base + ".v", base + ".vo", base + ".vok", base + ".vos", base + ".glob",
              os.path.join(d, "." + b + ".aux")):
        try:
            os.remove(q)
        except OSError:
            pass


def chunked(items, size):
    return [items[i:i + size] for i in range(0, len(items), size)] or []
