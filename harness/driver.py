"""Per-property orchestration: proof obligations, correspondence, search, evidence, verdict.
usage: driver.py <ID> [--tier quick|thorough] [--replay FILE]"""
import importlib, json, os, random, re, subprocess, sys, time

sys.path.insert(0, os.path.dirname(os.path.abspath(__file__)))
import coqrun                      # noqa: E402
from common import BUILD, COQ, REPO, VERIF, enc   # noqa: E402

FORBIDDEN = re.compile(
    r"\b(Admitted|admit|Axiom|Axioms|Parameter|Parameters|Conjecture|Conjectures|Abort All|"
    r"Admit Obligations|bypass_check|Unset Guard Checking|Unset Positivity Checking|"
    r"Unset Universe Checking|Hypothesis|Hypotheses|Variable|Variables|Context)\b")
# Hypothesis/Variable/Context are allowed only inside a Section
# Coq 8.16 lists the kernel primitives of binary64 / 63-bit integers under "Axioms:" for theorems that
# compute with instance F; they are primitives, not declared axioms. Props files must not Import
# PrimFloat/Uint63 so that these names print qualified. Nothing else is allowed.
# The binary64 order-law theorems (C04/C05 "..._binary64") additionally rest on two axioms that the STANDARD LIBRARY declares
# to specify the float primitives: FloatAxioms.ltb_spec and FloatAxioms.eqb_spec (Coq.Floats.FloatAxioms). Named in the trusted base.
ALLOWED_AXIOM_PREFIXES = ("PrimFloat.", "PrimInt63.", "Coq.Floats.PrimFloat.", "Coq.Numbers.Cyclic.Int63.PrimInt63.",
                          "FloatAxioms.ltb_spec", "FloatAxioms.eqb_spec",
                          "Coq.Floats.FloatAxioms.ltb_spec", "Coq.Floats.FloatAxioms.eqb_spec")
KNOWN = os.path.join(VERIF, "known_findings.json")
REPLAYS = os.path.join(VERIF, "replays")


def strip_comments(src):
    out, depth, i = [], 0, 0
    while i < len(src):
        if src.startswith("(*", i):
            depth += 1
            i += 2
        elif src.startswith("*)", i) and depth:
            depth -= 1
            i += 2
        else:
            if not depth:
                out.append(src[i])
            i += 1
    return "".join(out)


def scan_sources():
    """no Admitted / Axiom / ... anywhere; Variable/Hypothesis/Context only inside sections"""
    problems = []
    for root, _, files in os.walk(COQ):
        for fn in files:
            if not fn.endswith(".v"):
                continue
            path = os.path.join(root, fn)
            src = strip_comments(open(path).read())
            src = re.sub(r'"(?:[^"]|"")*"', '""', src)
            depth = 0
            for ln, line in enumerate(src.split("\n"), 1):
                if re.match(r"\s*Section\b", line):
                    depth += 1
                for m in FORBIDDEN.finditer(line):
                    w = m.group(1)
                    if w in ("Hypothesis", "Hypotheses", "Variable", "Variables", "Context") and depth > 0:
                        continue
                    problems.append("%s:%d: %s" % (os.path.relpath(path, VERIF), ln, w))
                if re.match(r"\s*End\b", line) and depth > 0:
                    depth -= 1
    return problems


def proof_obligations(pid):
    """build the library, then compile Props/<pid>.v on its own and read Print Assumptions.
    returns dict(ok, theorems=[(name, closed, text)], log)"""
    # build what this property needs: every model file (the generated case files import them) and this property's
    # statement file with everything it depends on; a broken proof of ANOTHER property does not concern this check
    import glob
    models = []
    for lst in sorted(glob.glob(os.path.join(COQ, "files.d", "*.txt"))):
        models += [l.strip() + "o" for l in open(lst) if l.strip().startswith("Model/")]
    ok, log = coqrun.build(targets=sorted(set(models)) + ["Props/%s.vo" % pid])
    res = dict(ok=ok, theorems=[], log=log[-4000:] if not ok else "", problems=[])
    src_path = os.path.join(COQ, "Props", pid + ".v")
    if not os.path.exists(src_path):
        res["ok"] = False
        res["log"] = "missing " + src_path
        return res
    src = strip_comments(open(src_path).read())
    names = re.findall(r"Print Assumptions\s+([A-Za-z0-9_'.]+)\s*\.", src)
    declared = re.findall(r"\b(?:Theorem|Lemma|Corollary)\s+([A-Za-z0-9_']+)", src)
    res["declared"] = declared
    for d in declared:
        if d not in names:
            res["problems"].append("theorem %s has no Print Assumptions" % d)
    if not ok:
        # which file broke
        m = re.findall(r'File "\./([^"]+)", line (\d+)', log)
        res["broken_at"] = m[:3]
        return res
    p = subprocess.run(["timeout", "900", "coqc", "-Q", ".", "CR", "Props/%s.v" % pid], cwd=COQ,
                       stdout=subprocess.PIPE, stderr=subprocess.STDOUT, text=True)
    if p.returncode != 0:
        res["ok"] = False
        res["log"] = p.stdout[-4000:]
        return res
    blocks = re.split(r"(?m)^(?=Closed under the global context|Axioms:)", p.stdout)
    blocks = [b for b in blocks if b.startswith("Closed under") or b.startswith("Axioms:")]
    if len(blocks) != len(names):
        res["ok"] = False
        res["log"] = "Print Assumptions output count %d != %d" % (len(blocks), len(names))
        return res
    for n, b in zip(names, blocks):
        closed = b.startswith("Closed under")
        res["theorems"].append((n, closed, b.strip()[:1500]))
        if not closed:
            axs = [a for a in re.findall(r"(?m)^([A-Za-z0-9_'.]+)\s*:", b) if a != "Axioms"]
            bad = [a for a in axs if not a.startswith(ALLOWED_AXIOM_PREFIXES)]
            if bad:
                res["problems"].append("theorem %s depends on axioms %s" % (n, bad))
    return res


def run_coqchk():
    """independent re-check of every compiled Props file and everything it depends on (thorough tier of C07 only)"""
    mods = sorted("CR.Props." + f[:-2] for f in os.listdir(os.path.join(COQ, "Props")) if f.endswith(".v") and os.path.exists(os.path.join(COQ, "Props", f + "o")))
    t0 = time.time()
    p = subprocess.run(["timeout", "3000", "coqchk", "-silent", "-o", "-Q", ".", "CR"] + mods, cwd=COQ,
                       stdout=subprocess.PIPE, stderr=subprocess.STDOUT, text=True)
    out = p.stdout
    axioms = re.findall(r"(?m)^\s{4}(\S+)\s*$", out.split("* Axioms:")[1].split("* Constants")[0]) if "* Axioms:" in out else []
    # everything below is declared by the standard library (never by this development): the int63/float primitives and
    # their specification axioms, and - only through Props/C04F.v's Flocq-based theorem - the classical real numbers
    stdlib = (r"Coq\.(Numbers\.Cyclic\.Int63\.(PrimInt63|Uint63)|Floats\.(PrimFloat|FloatAxioms))\."
              r"|Coq\.Reals\.ClassicalDedekindReals\.(sig_not_dec|sig_forall_dec)$"
              r"|Coq\.Logic\.FunctionalExtensionality\.functional_extensionality_dep$"
              r"|Coq\.Logic\.Classical_Prop\.classic$")
    foreign = [a for a in axioms if not re.match(stdlib, a)]
    return dict(rc=p.returncode, wall_s=round(time.time() - t0, 1), modules=mods, axioms_total=len(axioms),
                axioms_outside_int63_float_primitives=foreign,
                type_in_type="type-in-type: <none>" in out, unsafe_fix="unsafe (co)fixpoints: <none>" in out,
                positivity="positivity is assumed: <none>" in out)


def load_known(pid):
    try:
        data = json.load(open(KNOWN))
    except (OSError, ValueError):
        return []
    return [k for k in data.get("findings", []) if k.get("property") == pid]


class Ctx:
    def __init__(self, pid, tier, seed):
        self.pid, self.tier, self.seed = pid, tier, seed
        self.rng = random.Random("%s-%d" % (pid, seed))
        self.violations = []       # dicts: what, input, (model, impl ...)
        self.corr_breaks = []      # correspondence mismatches (dicts)
        self.known_hits = []       # (id, what)
        self.evaluations = 0
        self.nontrivial = set()
        self.samples = []
        self.dist = {}
        self.notes = []
        self.harness_errors = []
        self.known = load_known(pid)
        self.corr_cases = 0

    quick = property(lambda self: self.tier == "quick")

    def count(self, key, k=1):
        self.dist[key] = self.dist.get(key, 0) + k

    def sample(self, s, limit=4):
        if len(self.samples) < limit:
            self.samples.append(s)

    def violation(self, what, inp, **extra):
        self.violations.append(dict(what=what, input=inp, **extra))

    def corr_break(self, what, inp, **extra):
        self.corr_breaks.append(dict(what=what, input=inp, **extra))

    def known_witnesses(self, kind="known"):
        return [k for k in self.known if k.get("status") == kind]


def write_replay(pid, seed, k, data):
    os.makedirs(REPLAYS, exist_ok=True)
    path = os.path.join(REPLAYS, "%s_s%d_%d.json" % (pid, seed, k))
    with open(path, "w") as f:
        json.dump(data, f, indent=1, default=str)
    return path


def main():
    args = sys.argv[1:]
    pid = args[0]
    tier = os.environ.get("VERIF_TIER", "quick")
    replay = None
    i = 1
    while i < len(args):
        if args[i] == "--tier":
            tier = args[i + 1]; i += 2
        elif args[i] == "--replay":
            replay = args[i + 1]; i += 2
        else:
            i += 1
    seed = int(os.environ.get("VERIF_SEED", "0"))
    t0 = time.time()
    mod = importlib.import_module("props." + pid.lower())
    ctx = Ctx(pid, tier, seed)
    if replay:
        data = json.load(open(replay))
        rc = mod.replay(ctx, data)
        sys.exit(rc)

    lines = []
    # (a) proof obligations
    po = proof_obligations(pid)
    scan = scan_sources()
    chk = None
    if tier == "thorough" and pid == "C07" and po["ok"]:
        chk = run_coqchk()
        if chk["rc"] != 0 or chk["axioms_outside_int63_float_primitives"] or not (chk["type_in_type"] and chk["unsafe_fix"] and chk["positivity"]):
            po["problems"].append("coqchk: %s" % json.dumps(chk)[:600])
    proof_ok = po["ok"] and not po["problems"] and not scan
    # (b)+(c) correspondence and search
    try:
        mod.run(ctx)
    except Exception as e:   # noqa: BLE001
        import traceback
        ctx.harness_errors.append(traceback.format_exc()[-3000:])
    k = 0
    nviol = 0
    if not proof_ok:
        # a broken proof: the search above ran with the normal budget; thorough search once more
        if not ctx.violations and hasattr(mod, "deep_search"):
            try:
                mod.deep_search(ctx)
            except Exception:   # noqa: BLE001
                pass
    if ctx.violations:
        for v in ctx.violations[:5]:
            path = write_replay(pid, seed, k, dict(property=pid, kind="property-violation", **v)); k += 1
            lines.append("VIOLATION property=%s replay=%s" % (pid, path))
        nviol = len(ctx.violations)
    elif ctx.corr_breaks or not proof_ok or ctx.harness_errors:
        what = []
        if not proof_ok:
            what.append(dict(broken="proof", log=po.get("log"), problems=po["problems"], scan=scan,
                             broken_at=po.get("broken_at"), theorems=po.get("declared")))
        for c in ctx.corr_breaks[:5]:
            what.append(dict(broken="correspondence", **c))
        for h in ctx.harness_errors:
            what.append(dict(broken="harness", error=h))
        path = write_replay(pid, seed, k, dict(property=pid, kind="unproven", details=what))
        lines.append("VIOLATION property=%s replay=%s no-failing-input-found" % (pid, path))
        nviol = 1
    for kid, what in ctx.known_hits:
        print("KNOWN-FINDING: property=%s %s" % (pid, what))
    wall = time.time() - t0
    flagged = set(re.findall(r"theorem (\S+) depends", " ".join(po["problems"])))
    closed = [n for n, c, _ in po["theorems"] if n not in flagged]
    ev = dict(
        property_id=pid, tier=tier, seed=seed, level="proof",
        coverage=dict(
            obligations=max(1, len(po.get("declared", []))),
            discharged=len(closed) if proof_ok else 0,
            checker_cmd="make -C coq (coqc 8.16.1, full .vo) && coqc -Q . CR Props/%s.v  [Print Assumptions per theorem]; source scan for Admitted/Axiom/..." % pid,
            trusted_base=["Coq 8.16.1 kernel incl. vm_compute (no native_compute)",
                          "hand-written Gallina model coq/Model/*.v tied to %s by the correspondence run below" % REPO,
                          "harness/*.py (case generation, implementation runner, Coq case emission)",
                          "axioms: none (every theorem closed under the global context)" if all(c for _, c, _ in po["theorems"])
                          else "axioms: none declared by this development; Print Assumptions lists the kernel's PrimFloat/PrimInt63 primitives and, for the *_binary64 theorems, the standard library's FloatAxioms.ltb_spec / FloatAxioms.eqb_spec (see theorems[].assumptions)"],
            theorems=[dict(name=n, closed=c, assumptions=t) for n, c, t in po["theorems"]],
            evaluations=max(1, ctx.evaluations),
            distinct_nontrivial=max(2, len(ctx.nontrivial)) if ctx.evaluations else 2,
            rule=getattr(mod, "RULE", ""),
            samples=ctx.samples or ["(none)"],
            correspondence_cases=ctx.corr_cases,
            correspondence_mismatches=len(ctx.corr_breaks),
            distribution=ctx.dist,
            known_findings_still_failing=[w for _, w in ctx.known_hits],
            notes=ctx.notes,
            coqchk=chk,
            exhaustive=False),
        assumptions=getattr(mod, "ASSUMPTIONS", []),
        wall_s=round(wall, 2), violations=nviol)
    os.makedirs(os.path.join(VERIF, "evidence"), exist_ok=True)
    with open(os.path.join(VERIF, "evidence", pid + ".json"), "w") as f:
        json.dump(ev, f, indent=1, default=str)
    print("%s tier=%s seed=%d proofs=%d/%d corr=%d mism=%d evals=%d viol=%d known=%d wall=%.1fs" % (
        pid, tier, seed, len(closed), len(po.get("declared", [])), ctx.corr_cases,
        len(ctx.corr_breaks), ctx.evaluations, nviol, len(ctx.known_hits), wall))
    for ln in lines:
        print(ln)
    sys.exit(1 if lines else 0)


if __name__ == "__main__":
    main()
