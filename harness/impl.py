"""Run cases through the implementation in parallel child processes."""
import json, os, subprocess, tempfile
from concurrent.futures import ThreadPoolExecutor
from common import BUILD, PY, REPO, VERIF

WORKER = os.path.join(VERIF, "harness", "impl_worker.py")


def _run_once(k, chunk, limit, tag, attempt, pyflags=()):
    d = os.path.join(BUILD, "impl")
    os.makedirs(d, exist_ok=True)
    fin = os.path.join(d, "%s_%d_%d_%d.in" % (tag, os.getpid(), k, attempt))
    fout = fin[:-3] + ".out"
    with open(fin, "w") as f:
        for c in chunk:
            f.write(json.dumps(c) + "\n")
    env = dict(os.environ, PYTHONPATH=REPO, PYTHONHASHSEED="0", PYTHONDONTWRITEBYTECODE="1")
    total = 6 * sum(c.get("limit", limit) for c in chunk) + 120     # wall clock; per-case limits are CPU time
    try:
        subprocess.run([PY] + list(pyflags) + [WORKER, REPO, fin, fout, str(limit)], env=env, timeout=total,
                       stdout=subprocess.PIPE, stderr=subprocess.PIPE, cwd=d)
    except subprocess.TimeoutExpired:
        pass
    res = []
    if os.path.exists(fout):
        with open(fout) as f:
            for line in f:
                try:
                    res.append(json.loads(line))
                except ValueError:
                    break
    for p in (fin, fout):
        try:
            os.remove(p)
        except OSError:
            pass
    return res


def _run_chunk(args):
    k, chunk, limit, tag, pyflags = args
    res = []
    attempt = 0
    retried = set()
    while len(res) < len(chunk):
        part = _run_once(k, chunk[len(res):], limit, tag, attempt, pyflags)
        res.extend(part)
        attempt += 1
        if len(res) < len(chunk):
            # the worker died on this case (killed under memory pressure, hard crash, uninterruptible hang):
            # try that one case once more on its own before calling it a failure
            i = len(res)
            if i not in retried:
                retried.add(i)
                alone = _run_once(k, [chunk[i]], limit, tag + "r", attempt, pyflags)
                attempt += 1
                if alone:
                    res.append(alone[0])
                    continue
            res.append({"timeout": True, "worker_died": True})
    return k, res


def run_cases(cases, limit=20.0, jobs=16, tag="c", pyflags=()):
    """cases: list of dicts with an 'op' key. Returns results in order. pyflags: interpreter options for the child
    processes (e.g. ("-O",): the implementation with assertions compiled away)."""
    if not cases:
        return []
    nchunks = min(jobs, max(1, len(cases) // 8))
    chunks = [[] for _ in range(nchunks)]
    where = []
    for i, c in enumerate(cases):
        chunks[i % nchunks].append(c)
        where.append((i % nchunks, len(chunks[i % nchunks]) - 1))
    with ThreadPoolExecutor(max_workers=nchunks) as ex:
        done = dict(ex.map(_run_chunk, [(k, ch, limit, tag, tuple(pyflags)) for k, ch in enumerate(chunks)]))
    return [done[k][j] for k, j in where]
