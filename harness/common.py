"""Shared helpers: paths, exact JSON encoding of Python values, Coq term emission."""
import json, math, os, sys

VERIF = os.path.dirname(os.path.dirname(os.path.abspath(__file__)))
REPO = os.environ.get("VERIF_REPO", "/repo")
BUILD = os.path.join(VERIF, "build")
COQ = os.path.join(VERIF, "coq")
PY = "/venv/bin/python"
P1, P2, PR = "Player 1", "Player 2", "Probabilistic"
KINDS = {P1: "P1", P2: "P2", PR: "PR"}


# ---------------------------------------------------------------- exact JSON encoding
def enc(v):
    """Python value -> JSON-able structure, exact (floats as hex)."""
    if v is None or isinstance(v, bool) or isinstance(v, str):
        return v
    if isinstance(v, int):
        return {"i": str(v)}
    if isinstance(v, float):
        return {"f": v.hex()}
    if isinstance(v, tuple):
        return {"t": [enc(x) for x in v]}
    if isinstance(v, list):
        return [enc(x) for x in v]
    if isinstance(v, dict):
        return {"d": [[enc(k), enc(x)] for k, x in v.items()]}
    import fractions, decimal
    if isinstance(v, fractions.Fraction):
        return {"q": "%d/%d" % (v.numerator, v.denominator)}
    if isinstance(v, decimal.Decimal):
        return {"dc": str(v)}
    return {"o": type(v).__name__}


def dec(j):
    if j is None or isinstance(j, bool) or isinstance(j, str):
        return j
    if isinstance(j, list):
        return [dec(x) for x in j]
    if "i" in j:
        return int(j["i"])
    if "f" in j:
        return float.fromhex(j["f"])
    if "t" in j:
        return tuple(dec(x) for x in j["t"])
    if "d" in j:
        return {dec(k): dec(x) for k, x in j["d"]}
    if "q" in j:
        import fractions
        return fractions.Fraction(j["q"])
    if "dc" in j:
        import decimal
        return decimal.Decimal(j["dc"])
    if "o" in j:
        return ("<object>", j["o"])
    raise ValueError(j)


# ---------------------------------------------------------------- Coq emission
class NotRepresentable(Exception):
    pass


def fdec(x):
    """number -> (mantissa, exponent) with x == m * 2**e exactly; ints must be exact in binary64."""
    if isinstance(x, bool):
        x = int(x)
    if isinstance(x, int):
        f = float(x)
        if int(f) != x:
            raise NotRepresentable(x)
        x = f
    if x != x or x in (math.inf, -math.inf):
        raise NotRepresentable(x)
    if x == 0:
        return (0, 0)
    m, e = math.frexp(x)
    return (int(m * (1 << 53)), e - 53)


def cf(x):
    m, e = fdec(x)
    return "(F %s %s)" % (cz(m), cz(e))


def cz(k):
    return "(%d)" % k if k < 0 else "%d" % k


def cstr(s):
    for ch in s:
        if ord(ch) > 126 or ord(ch) < 32:
            raise NotRepresentable(s)
    return '"' + s.replace('"', '""') + '"'


def clist(items):
    return "[" + "; ".join(items) + "]"


def cbool(b):
    return "true" if b else "false"


def cnats(l):
    return clist(["%d" % x for x in l])


def ctrans(kind, t):
    x, d = t
    if kind == PR:
        return "(mkT \"\" %s %d)" % (cf(x), d)
    return "(mkT %s (F 0 0) %d)" % (cstr(x), d)


def cgame(g):
    """typed game term; raises NotRepresentable when the description is outside the typed universe"""
    try:
        players = [KINDS[p] for p in g["players"]]
    except KeyError as e:
        raise NotRepresentable(e)
    tl = []
    for i, row in enumerate(g["transition_list"]):
        if not isinstance(row, list) or any(not (isinstance(t, tuple) and len(t) == 2) for t in row):
            raise NotRepresentable(row)
        kind = g["players"][i] if i < len(g["players"]) else PR
        tl.append(clist([ctrans(kind, t) for t in row]))
    for f in g["final_states"]:
        if f < 0:
            raise NotRepresentable(f)
    return "(mkG %s %s %s %s)" % (clist([cf(r) for r in g["rewards"]]), clist(players),
                                  clist(tl), cnats(g["final_states"]))


def cstrat(s):
    return clist(["None" if a is None else "(Some %s)" % clist([cstr(x) for x in a]) for a in s])


def cfloats(l):
    return clist([cf(x) for x in l])


def cxout(res, players):
    """implementation outcome (dict from impl_worker) -> Coq xout term"""
    if "timeout" in res:
        return "XTimeout"
    if "exc" in res:
        if res["exc"] == "ValueError":
            return "(XVal %s)" % cstr(res["msg"])
        return "(XExc %s)" % cstr(res["exc"])
    r = res["ok"]
    pruned = []
    for i, row in enumerate(res.get("pruned") or []):
        pruned.append(clist([ctrans(players[i], t) for t in row]))
    return "(XOk (mkX %s %s %s %s %d %d %s %s %s))" % (
        cstrat(r[0]), cstrat(r[1]), cfloats(r[2]), cfloats(r[3]), r[4], r[5],
        cfloats(r[6]), cfloats(r[7]), clist(pruned))


def cxreach(res):
    if "timeout" in res:
        return "XRTimeout"
    if "exc" in res:
        if res["exc"] == "ValueError":
            return "(XRVal %s)" % cstr(res["msg"])
        return "(XRExc %s)" % cstr(res["exc"])
    p, s, it = res["ok"]
    return "(XROk %s %s %d)" % (cfloats(p), cstrat(s), it)


def game_key(g):
    return json.dumps(enc(g), sort_keys=True)
