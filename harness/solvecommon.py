"""Shared machinery of the solver properties (C01-C06, C13, C14): run games through the implementation,
compare with the Coq model on the observables of one property, exact-oracle guards."""
from fractions import Fraction as Fr
from common import enc, dec, cgame, cbool, cxout, cxreach, game_key, P1, P2, PR, NotRepresentable
import coqrun, impl, gen_games, oracle_exact as ox

HDR = ("From CR Require Import Model.Corr.\nFrom Coq Require Import List ZArith String.\n"
       "Import ListNotations.\nOpen Scope string_scope.\n")
NOSOL = "The game has no solution. The initial state has a reach probability of 0."
THR = 1e-6


class Rec:
    """one implementation run"""
    __slots__ = ("game", "meta", "prune", "op", "res", "ok", "out", "pruned")

    def __init__(self, game, meta, prune, op, res):
        self.game, self.meta, self.prune, self.op, self.res = game, meta, prune, op, res
        self.ok = "ok" in res
        self.out = dec(res["ok"]) if self.ok else None
        self.pruned = dec(res.get("pruned")) if self.ok and res.get("pruned") is not None else None

    def inp(self):
        return dict(game=enc(self.game), game_repr=repr(self.game), prune=self.prune, op=self.op, style=self.meta.get("style"),
                    share=bool(self.meta.get("share")), full=bool(self.meta.get("full")))

    def describe(self):
        if self.ok:
            return "ok"
        if "timeout" in self.res:
            return "timeout"
        return "%s: %s" % (self.res.get("exc"), self.res.get("msg"))


def standard_games(ctx, n_random, nmin=3, nmax=9, kmax=3, styles=None):
    games = [(gen_games.FIG55, gen_games.FIG55_META)] + corpus_games()
    games += gen_games.pattern_games(kmax)
    games += gen_games.mixed_games(ctx.rng, n_random, nmin, nmax,
                                   styles or ("stopping", "exact", "cyclic", "players", "tiny"))
    return games


def corpus_games():
    """minimised inputs of the repaired defects and shapes around them (kept forever, run first)"""
    out = []
    for row in ([(0.25, 1), (0.25, 2), (0.5, 3)], [(0.25, 1), (0.5, 3), (0.25, 2)],
                [(0.5, 3), (0.25, 1), (0.25, 2)], [(0.25, 1), (0.25, 2), (0.25, 4), (0.25, 3)]):
        n = 5
        tl = [row, [(1, 1)], [(1, 2)], [(1, 3)], [(1, 4)]]
        g = dict(rewards=[1, 0, 0, 0, 0], players=[PR] * n, transition_list=tl, final_states=[3])
        fr = [[Fr(p).limit_denominator(8) for p, _ in row]] + [[Fr(1)]] * 4
        out.append((g, dict(fr=fr, style="corpus")))
    # the initial state reaches the final state directly with a probability around the solver's threshold
    for pz in (1e-7, 9e-7, 1e-6, 1.1e-6, 1e-5):
        out.append((dict(rewards=[1, 0, 0], players=[PR, PR, PR],
                         transition_list=[[(pz, 1), (1 - pz, 2)], [(1, 1)], [(1, 2)]], final_states=[1]),
                    dict(fr=[[Fr(pz), 1 - Fr(pz)], [Fr(1)], [Fr(1)]], style="corpus", guard="any")))
    # the initial state is itself final: absorbing, and with outgoing transitions
    out.append((dict(rewards=[0, 0], players=[PR, PR], transition_list=[[(1, 0)], [(1, 1)]], final_states=[0]),
                dict(fr=[[Fr(1)], [Fr(1)]], style="corpus")))
    out.append((dict(rewards=[0, 0, 0], players=[P1, PR, PR],
                     transition_list=[[("a", 1), ("b", 2)], [(1, 1)], [(1, 2)]], final_states=[0, 1]),
                dict(fr=[None, [Fr(1)], [Fr(1)]], style="cyclic")))
    # 'patient' games: legal stopping games whose loops need more than 10 000 sweeps (a self-loop left with probability
    # 5e-4). The error form of the claims does not apply (K1: guard 'any'); the residual and structural predicates do, and
    # a loop that gives up early leaves a residual far above the threshold.
    out.append((dict(rewards=[0, 1, 5, 0, 0], players=[P1, PR, PR, PR, PR],
                     transition_list=[[("slow", 1), ("fast", 2)], [(0.9995, 1), (0.0004, 3), (0.0001, 4)], [(0.5, 3), (0.5, 4)],
                                      [(1, 3)], [(1, 4)]], final_states=[3]),
                dict(fr=[None, [Fr(9995, 10000), Fr(4, 10000), Fr(1, 10000)], [Fr(1, 2), Fr(1, 2)], [Fr(1)], [Fr(1)]],
                     style="corpus", guard="any", patient=True)))
    out.append((dict(rewards=[0, 0, 2, 0, 0], players=[P2, PR, PR, PR, PR],
                     transition_list=[[("wait", 1), ("go", 2)], [(0.9995, 1), (0.0005, 3)], [(0.75, 3), (0.25, 4)],
                                      [(1, 3)], [(1, 4)]], final_states=[3]),
                dict(fr=[None, [Fr(9995, 10000), Fr(5, 10000)], [Fr(3, 4), Fr(1, 4)], [Fr(1)], [Fr(1)]],
                     style="corpus", guard="any", patient=True)))
    # a game in which 'rewards under minimal reachability' DEcreases late in the iteration (Player 2's reachability strategy stays
    # on a cycle its reward strategy leaves; a Player-1 state with reach-tied actions whose reward-optimal action flips late):
    # a stopping test that looks at signed instead of absolute changes stops here before the diagnostic has settled
    X, FIN, SNK = 11, 13, 14
    H = Fr(1, 100)
    rows = [[("go", X)], [(0.9, X), (0.08, FIN), (0.02, SNK)], [(1.0, X)], [(0.9, X), (0.08, 4), (0.02, SNK)], [(1.0, 5)], [(1.0, 6)],
            [(1.0, 7)], [(1.0, FIN)], [("cheap", 2), ("dear", 1)], [("A", 8), ("B", 3)], [(0.9, 9), (0.09, FIN), (0.01, SNK)],
            [("stay", 10), ("leave", 12)], [(1.0, FIN)], [(1.0, FIN)], [(1.0, SNK)]]
    kinds = [P1, PR, PR, PR, PR, PR, PR, PR, P2, P1, PR, P2, PR, PR, PR]
    out.append((dict(rewards=[0, 5000, 1, 0, 0, 0, 0, 1000, 0, 0, 2, 1, 1, 0, 0], players=kinds, transition_list=rows, final_states=[FIN]),
                dict(fr=[[Fr(w).limit_denominator(100) for w, _ in row] if kd == PR else None for kd, row in zip(kinds, rows)],
                     style="corpus", guard="any")))
    # ... and one needing a few hundred thousand sweeps (self-loop left with probability 5e-5), three states only
    out.append((dict(rewards=[1, 0, 0], players=[PR, PR, PR],
                     transition_list=[[(0.99995, 0), (0.00004, 1), (0.00001, 2)], [(1, 1)], [(1, 2)]], final_states=[1]),
                dict(fr=[[Fr(99995, 100000), Fr(4, 100000), Fr(1, 100000)], [Fr(1)], [Fr(1)]], style="corpus", guard="any", patient=True)))
    # a live successor entered with a minute probability next to a dead one (the surviving mass is far below any
    # 'is it zero?' tolerance, but it is not zero: the branch stays and is rescaled to 1), and dead successors entered
    # with probability exactly 0.0 (nothing to rescale, but they must go all the same)
    for w in (1e-13, 1e-200):
        out.append((dict(rewards=[0, 2, 13, 0, 0], players=[PR, PR, PR, PR, PR],
                         transition_list=[[(0.5, 1), (0.5, 3)], [(w, 2), (1 - w, 4)], [(1, 3)], [(1, 3)], [(1, 4)]], final_states=[3]),
                    dict(fr=[[Fr(1, 2), Fr(1, 2)], [Fr(w), Fr(1 - w)], [Fr(1)], [Fr(1)], [Fr(1)]], style="corpus")))
    for row in ([(0.0, 4), (1.0, 2)], [(0.5, 2), (0.0, 4), (0.5, 5), (0.0, 4)], [(0.0, 4), (0.0, 4), (1, 5)],
                # ... and a zero-weight transition into a LIVE state: it is not dead, so it stays, in place, with weight 0
                [(0.0, 5), (0.5, 2), (0.5, 4)], [(0.5, 2), (0.0, 5), (0.5, 4)], [(0.0, 5), (1.0, 2)]):
        out.append((dict(rewards=[0, 1, 3, 0, 0, 5], players=[P1, PR, PR, PR, PR, PR],
                         transition_list=[[("a", 1), ("b", 3)], row, [(1, 3)], [(1, 3)], [(1, 4)], [(1, 3)]], final_states=[3]),
                    dict(fr=[None, [Fr(x) for x, _ in row], [Fr(1)], [Fr(1)], [Fr(1)], [Fr(1)]], style="corpus")))
    # binary64 weights that do not add up to exactly 1.0 (0.7+0.2+0.1 = 0.9999999999999999) at a state with no dead successor:
    # nothing is to be rescaled there, whatever the sum
    for ws in ((0.7, 0.2, 0.1), (0.1, 0.2, 0.7), (0.6, 0.3, 0.1)):
        out.append((dict(rewards=[1, 2, 4, 8, 0, 0], players=[PR, PR, PR, PR, PR, PR],
                         transition_list=[[(ws[0], 1), (ws[1], 2), (ws[2], 3)], [(0.5, 4), (0.5, 5)], [(1, 4)], [(0.25, 4), (0.75, 2)],
                                          [(1, 4)], [(1, 5)]], final_states=[4]),
                    dict(fr=[[Fr(w) for w in ws], [Fr(1, 2), Fr(1, 2)], [Fr(1)], [Fr(1, 4), Fr(3, 4)], [Fr(1)], [Fr(1)]], style="corpus")))
    # Player 1 with two adjacent dead successors
    g = dict(rewards=[1, 0, 0, 0, 0], players=[P1, PR, PR, PR, PR],
             transition_list=[[("a", 1), ("b", 2), ("c", 3)], [(1, 1)], [(1, 2)], [(1, 3)], [(1, 4)]], final_states=[3])
    out.append((g, dict(fr=[None] + [[Fr(1)]] * 4, style="corpus")))
    return out


def run_games(ctx, games, modes=(True, False), limit=10, tag="s"):
    """full solve for styles whose reward loop terminates, reachability-only otherwise"""
    jobs, info = [], []
    for g, m in games:
        for prune in modes:
            if m["style"] in gen_games.TERMINATING or m.get("full"):
                jobs.append(dict(op="solve", game=enc(g), prune=prune, share=bool(m.get("share"))))
                info.append((g, m, prune, "solve"))
            else:
                jobs.append(dict(op="reach", game=enc(g), prune=prune))
                info.append((g, m, prune, "reach"))
    res = impl.run_cases(jobs, limit=limit, tag=tag)
    recs = [Rec(g, m, p, op, r) for (g, m, p, op), r in zip(info, res)]
    for r in recs:
        ctx.evaluations += 1
        ctx.count("style:%s" % r.meta["style"])
        ctx.count("outcome:%s" % ("ok" if r.ok else r.describe()[:40]))
        ctx.count("states:%d" % len(r.game["players"]))
        if len(r.game["players"]) > 3 and any(len(row) > 1 for row in r.game["transition_list"]):
            ctx.nontrivial.add((game_key(r.game), r.prune))
    if recs:
        r0 = recs[min(2, len(recs) - 1)]
        ctx.sample(dict(game=str(r0.game), prune=r0.prune, outcome=r0.describe(),
                        result=str(r0.out)[:400] if r0.ok else None))
    return recs


def correspondence(ctx, recs, cmp_name, tag, chunk=120):
    """model vs implementation on the observables selected by cmp_name (a Corr.v comparison)"""
    for op, runner, typ in (("solve", "run_solve_cases %s" % cmp_name, "solve_case"),
                            ("reach", "run_reach_cases", "reach_case")):
        terms, idx = [], []
        for k, r in enumerate(recs):
            if r.op != op:
                continue
            if "timeout" in r.res:
                ctx.count("impl-timeout (not sent to the model)")
                continue
            if r.ok and max(r.out[4], r.out[5]) > 4000 if op == "solve" else (r.ok and r.out[2] > 4000):
                ctx.count("more than 4000 sweeps (not sent to the model)")
                continue
            try:
                if op == "solve":
                    res = dict(r.res)
                    if r.ok:
                        res["ok"], res["pruned"] = r.out, r.pruned
                    x = cxout(res, r.game["players"])
                else:
                    res = dict(r.res)
                    if r.ok:
                        res["ok"] = r.out
                    x = cxreach(res)
                terms.append("(%s, %s, %s)" % (cgame(r.game), cbool(r.prune), x))
                idx.append(k)
            except NotRepresentable:
                ctx.count("not-representable")
        if not terms:
            continue
        body = (lambda typ, runner: (lambda l: "Definition cases : list %s := %s.\nEval vm_compute in (%s cases)." % (typ, l, runner)))(typ, runner)
        bad, errs = coqrun.eval_case_files(tag + op, HDR, coqrun.chunked(terms, chunk), body)
        ctx.corr_cases += len(terms)
        for b in bad:
            r = recs[idx[b]]
            r.meta = dict(r.meta, mismatch=True)       # the search for a failing input looks at these first (mismatch_first)
            ctx.corr_break("model and implementation differ on %s (%s)" % (cmp_name if op == "solve" else "reachability run", r.describe()),
                           r.inp(), impl=str(r.out)[:1500] if r.ok else r.res)
        for e in errs:
            ctx.harness_errors.append("coqc failed on %s: %s" % (e[0], e[2][-600:]))


# ------------------------------------------------------------------ guards (computed from the INPUT)
def guard_of(game, meta):
    """'exact' | 'cond' | 'any' — the strongest family of claims that is sound for this input"""
    st = meta["style"]
    if meta.get("guard"):
        return meta["guard"]
    if st in ("exact", "ties", "pattern", "corpus"):
        return "exact"
    if st != "tiny":
        # the a-priori bound of C01_error_bound / C02_error_bound: error <= threshold * T, with T the largest expected number
        # of steps to absorption over all strategy pairs (an absorption-time certificate); None when some pair never absorbs
        T = ox.max_steps(game, meta)
        if T is not None and THR * float(T) <= 5e-5:
            return "cond"
    return "any"


def paths_to_final(game):
    n = len(game["players"])
    preds = {}
    for u, row in enumerate(game["transition_list"]):
        for _, v in row:
            preds.setdefault(v, []).append(u)
    seen = set(game["final_states"])
    todo = list(seen)
    while todo:
        v = todo.pop()
        for u in preds.get(v, []):
            if u not in seen:
                seen.add(u)
                todo.append(u)
    return seen


def replay_input(data):
    """the concrete input stored in a replay file, or None (a replay that only names a broken theorem/correspondence)"""
    if data.get("input"):
        return data["input"]
    for d in data.get("details") or []:
        if d.get("input"):
            return d["input"]
    print("this replay names what no longer checks but carries no concrete input:")
    for d in data.get("details") or []:
        print("  -", d.get("broken"), (d.get("what") or d.get("problems") or d.get("error") or "")[:300] if not isinstance(d.get("problems"), list) else d.get("problems"))
    return None


# ---------------------------------------------------------------------------------------------------------------
# Padding: the same game with PAD isolated states inserted after the initial state, so that every other state number
# lies above CPython's small-int cache and above the table sizes of small sets. The inserted states are probabilistic
# self-loops with reward 0: they are not final, reach nothing, are reached by nothing, and keep the relative order
# of the real states, so every sweep visits the real states in the same order and the results must be the ones of
# the unpadded game. The unpadded run is what the Coq model is compared with; the padded run goes through the
# implementation only (unary state numbers make the model slow above ~300 states).
PAD = 300
FIELDS = {"final": 0, "reach": 1, "rewards": 2, "probs": 3, "erm": 6, "ermr": 7}


def pad_game(g, pad=PAD):
    sh = lambda d: d if d == 0 else d + pad     # noqa: E731
    tl = g["transition_list"]
    return dict(players=[g["players"][0]] + [PR] * pad + list(g["players"][1:]),
                rewards=[g["rewards"][0]] + [0] * pad + list(g["rewards"][1:]),
                transition_list=[[(x, sh(d)) for x, d in tl[0]]] + [[(1, k)] for k in range(1, pad + 1)]
                + [[(x, sh(d)) for x, d in row] for row in tl[1:]],
                final_states=[sh(f) for f in g["final_states"]])


def _unpad(lst, pad=PAD):
    return [lst[0]] + list(lst[pad + 1:])


def _close(a, b):
    return a == b or (isinstance(a, (int, float)) and isinstance(b, (int, float)) and abs(a - b) <= 1e-9 * max(1.0, abs(a), abs(b)))


def padding_check(ctx, recs, fields, count, tag):
    """metamorphic check through the implementation: `fields` (names in FIELDS, or 'pruned') of the padded game's
    result against the unpadded one's. Numbers are compared up to 1e-9 relative (a rewrite may legitimately change the
    order of a floating-point sum); strategy lists only when every number agrees bit for bit."""
    pool = [r for r in recs if "timeout" not in r.res and len(r.game["players"]) >= 2
            and all(isinstance(row, list) for row in r.game["transition_list"])]
    ctx.rng.shuffle(pool)
    pool = pool[:count]
    jobs = [dict(op=r.op, game=enc(pad_game(r.game)), prune=r.prune, share=bool(r.meta.get("share"))) if r.op == "solve"
            else dict(op="reach", game=enc(pad_game(r.game)), prune=r.prune) for r in pool]
    res = impl.run_cases(jobs, limit=20, tag=tag + "pad")
    for r, x in zip(pool, res):
        ctx.evaluations += 1
        ctx.count("padded (+%d isolated states)" % PAD)
        if "timeout" in x:
            continue
        pr = Rec(pad_game(r.game), r.meta, r.prune, r.op, x)
        inp = pr.inp()
        if r.ok != pr.ok:
            ctx.violation("padding the description with %d isolated states changes the outcome: %s, unpadded %s"
                          % (PAD, pr.describe(), r.describe()), inp)
            continue
        if not r.ok:
            if (r.res.get("exc"), r.res.get("msg")) != (x.get("exc"), x.get("msg")):
                ctx.violation("padding changes the error: %s, unpadded %s" % (pr.describe(), r.describe()), inp)
            continue
        if r.op == "reach":
            pairs = [("probs", _unpad(pr.out[0]), r.out[0]), ("reach", _unpad(pr.out[1]), r.out[1])]
        else:
            pairs = [(f, _unpad(pr.out[FIELDS[f]]), r.out[FIELDS[f]]) for f in FIELDS]
        numeric = [p for p in pairs if p[0] in ("probs", "rewards", "erm", "ermr")]
        exact = all(a == b for _, a, b in numeric)
        for f, a, b in pairs:
            if f not in fields:
                continue
            if f in ("final", "reach") and not exact:
                continue
            for s, (u, v) in enumerate(zip(a, b)):
                if not (_close(u, v) if f not in ("final", "reach") else u == v):
                    ctx.violation("padding the description with %d isolated states (state numbers above 256) changes %s of "
                                  "state %d: %r, unpadded %r" % (PAD, f, s, u, v), inp)
                    break
        if "pruned" in fields and r.pruned is not None and pr.pruned is not None:
            a = [[(w, d if d == 0 else d - PAD) for w, d in row] for row in _unpad(pr.pruned)]
            for s, (u, v) in enumerate(zip(a, r.pruned)):
                if [d for _, d in u] != [d for _, d in v] or not all(_close(p, q) for (p, _), (q, _) in zip(u, v)):
                    ctx.violation("padding the description with %d isolated states changes the conditioned transitions of "
                                  "state %d: %r, unpadded %r" % (PAD, s, u, v), inp)
                    break


def loglevel_check(ctx, recs, fields, count, tag):
    """the same solve with the root logger at DEBUG (what `conditionalrewards.py -l DEBUG` sets): the solver's loops then
    execute their logging branches too; the fields of this property must come out bit for bit the same"""
    pool = [r for r in recs if r.op == "solve" and "timeout" not in r.res
            and all(isinstance(row, list) for row in r.game["transition_list"])]
    ctx.rng.shuffle(pool)
    pool = pool[:count]
    res = impl.run_cases([dict(op="solve", game=enc(r.game), prune=r.prune, share=bool(r.meta.get("share")), debug=True) for r in pool],
                         limit=20, tag=tag + "dbg")
    for r, x in zip(pool, res):
        ctx.evaluations += 1
        ctx.count("re-run at log level DEBUG")
        if "timeout" in x:
            continue
        d = Rec(r.game, r.meta, r.prune, r.op, x)
        inp = dict(r.inp(), log_level="DEBUG")
        if r.ok != d.ok or (not r.ok and (r.res.get("exc"), r.res.get("msg")) != (x.get("exc"), x.get("msg"))):
            ctx.violation("at log level DEBUG the outcome is %s, otherwise %s" % (d.describe(), r.describe()), inp)
            continue
        if not r.ok:
            continue
        for f in fields:
            a, b = (d.pruned, r.pruned) if f == "pruned" else (d.out[FIELDS[f]], r.out[FIELDS[f]])
            if a != b:
                ctx.violation("at log level DEBUG %s comes out as %r, otherwise %r" % (f, a, b), inp)
                break


def resolve_check(ctx, recs, fields, count, tag):
    """the same description solved again: (a) through ONE StochasticGame object, first in the other mode and then in this
    one; (b) through a fresh object on the same dictionaries after an earlier solve in the other mode. The second solve must
    report, bit for bit, what a single solve on a fresh copy reports for the fields of this property."""
    pool = [r for r in recs if r.op == "solve" and "timeout" not in r.res
            and all(isinstance(row, list) for row in r.game["transition_list"])]
    ctx.rng.shuffle(pool)
    pool = pool[:count]
    jobs = []
    for k, r in enumerate(pool):
        fresh = bool(k % 2)
        jobs.append(dict(op="solve_seq", game=enc(r.game), steps=[[not r.prune, fresh], [r.prune, fresh]], share=bool(r.meta.get("share"))))
    res = impl.run_cases(jobs, limit=30, tag=tag + "again")
    for k, (r, x) in enumerate(zip(pool, res)):
        ctx.evaluations += 1
        how = "a fresh object on the same dictionaries" if k % 2 else "the same StochasticGame object"
        ctx.count("second solve (%s)" % how)
        steps = x.get("steps") or []
        if len(steps) != 2 or "timeout" in x or any("timeout" in st for st in steps):
            continue
        d = Rec(r.game, r.meta, r.prune, "solve", steps[1])
        inp = dict(r.inp(), steps=jobs[k]["steps"])
        if r.ok != d.ok or (not r.ok and (r.res.get("exc"), r.res.get("msg")) != (steps[1].get("exc"), steps[1].get("msg"))):
            ctx.violation("solved a second time through %s (after a solve in the other mode) the outcome is %s; a single solve gives %s"
                          % (how, d.describe(), r.describe()), inp)
            continue
        if not r.ok:
            continue
        for f in fields:
            a, b = (d.pruned, r.pruned) if f == "pruned" else (d.out[FIELDS[f]], r.out[FIELDS[f]])
            if a != b:
                ctx.violation("solved a second time through %s (after a solve in the other mode) %s comes out as %r; a single solve gives %r"
                              % (how, f, a, b), inp)
                break


def expected_rows(r):
    """the conditioned transition lists as the PROPERTY TEXT defines them, computed from the description and the implementation's
    own reported values (not from its node lists): Player 1 keeps its reachability-optimal actions, with pruning Player 1 and
    probabilistic states drop successors whose reported probability is 0 and probabilistic survivors are rescaled; Player 2 keeps
    everything (states dropped as unreachable are the caller's business: they show as an empty list in r.pruned)"""
    g, out = r.game, r.out
    reach_strats, probs = out[1], out[3]
    exp = []
    for i, row in enumerate(g["transition_list"]):
        k = g["players"][i]
        row = [tuple(t) for t in row if t[0] in (reach_strats[i] or [])] if k == P1 else [tuple(t) for t in row]
        if r.prune and k in (P1, PR):
            al = [t for t in row if probs[t[1]] != 0]
            if k == PR and len(al) != len(row):
                tot = 0
                for p, _ in al:
                    tot += p
                al = [(p / tot, d) for p, d in al] if tot != 0 else al
            row = al
        exp.append(row)
    return exp


def late_edit_check(ctx, recs, fields, count, tag):
    """the description is edited between building the StochasticGame and calling solve() (one more final state appended to the
    list the caller still owns): the result must be the one of a game built from the edited description"""
    pool = [r for r in recs if r.op == "solve" and r.ok and isinstance(r.game["final_states"], list)
            and len(set(r.game["final_states"])) < len(r.game["players"])
            and all(isinstance(row, list) for row in r.game["transition_list"])]
    ctx.rng.shuffle(pool)
    pool = pool[:count]
    jobs, extras = [], []
    for r in pool:
        extra = ctx.rng.choice([s for s in range(len(r.game["players"])) if s not in r.game["final_states"]])
        extras.append(extra)
        g2 = dict(r.game, final_states=list(r.game["final_states"]) + [extra])
        if len(jobs) % 4 == 2:
            # every second case: solve, redirect one transition to that state in place, solve again through the same object
            cand = [(s, k) for s, row in enumerate(r.game["transition_list"]) for k in range(len(row)) if row[k][1] != extra]
            # preferably revive a dead state: one of ITS transitions now leads to a final state, so the set of states that can
            # reach a final state grows between the two solves
            probs = r.out[FIELDS["probs"]]
            dead = [(s, k) for s, k in cand if probs[s] == 0 and s not in r.game["final_states"]]
            if dead:
                cand = dead
                extra = r.game["final_states"][0]
                cand = [(s, k) for s, k in cand if r.game["transition_list"][s][k][1] != extra] or cand
            if cand:
                s, k = ctx.rng.choice(cand)
                tl2 = [list(row) for row in r.game["transition_list"]]
                tl2[s][k] = (tl2[s][k][0], extra)
                g2 = dict(r.game, transition_list=tl2)
                extras[-1] = ("redirect", s, k, extra)
                jobs.append(dict(op="solve_late", game=enc(r.game), prune=r.prune, redirect=[s, k, extra]))
                jobs.append(dict(op="solve", game=enc(g2), prune=r.prune))
                continue
        jobs.append(dict(op="solve_late", game=enc(r.game), prune=r.prune, extra=extra))
        jobs.append(dict(op="solve", game=enc(g2), prune=r.prune))
    res = impl.run_cases(jobs, limit=10, tag=tag + "late")
    for k, r in enumerate(pool):
        a, b = res[2 * k], res[2 * k + 1]
        ctx.evaluations += 1
        ctx.count("final state added between construction and solve")
        if "timeout" in a or "timeout" in b:
            continue
        ra, rb = Rec(r.game, r.meta, r.prune, "solve", a), Rec(r.game, r.meta, r.prune, "solve", b)
        inp = dict(r.inp(), final_state_added_after_construction=extras[k])
        if ra.ok != rb.ok or (not ra.ok and (a.get("exc"), a.get("msg")) != (b.get("exc"), b.get("msg"))):
            ctx.violation("description edited (%s) after the StochasticGame was built: outcome %s; built from the edited description: %s"
                          % (extras[k], ra.describe(), rb.describe()), inp)
            continue
        if not ra.ok:
            continue
        for f in fields:
            x, y = (ra.pruned, rb.pruned) if f == "pruned" else (ra.out[FIELDS[f]], rb.out[FIELDS[f]])
            if x != y:
                ctx.violation("description edited (%s: a final state appended, or a transition redirected after a first solve) after the "
                              "StochasticGame was built: %s comes out as %r; built from the edited description: %r" % (extras[k], f, x, y), inp)
                break


def mismatch_first(recs):
    """where model and implementation disagree is where a failing input is most likely: budgeted oracles go there first"""
    return sorted(recs, key=lambda r: 0 if r.meta.get("mismatch") else 1)


def optimize_check(ctx, recs, fields, count, tag):
    """the same solves in an interpreter started with -O (assert statements compiled away, __debug__ false): the fields of this
    property must come out bit for bit the same - nothing the solver needs may live in an assert"""
    pool = [r for r in recs if r.op == "solve" and "timeout" not in r.res
            and all(isinstance(row, list) for row in r.game["transition_list"])]
    ctx.rng.shuffle(pool)
    pool = pool[:count]
    res = impl.run_cases([dict(op="solve", game=enc(r.game), prune=r.prune, share=bool(r.meta.get("share"))) for r in pool],
                         limit=20, tag=tag + "opt", pyflags=("-O",))
    for r, x in zip(pool, res):
        ctx.evaluations += 1
        ctx.count("re-run under python -O")
        if "timeout" in x:
            continue
        d = Rec(r.game, r.meta, r.prune, r.op, x)
        inp = dict(r.inp(), interpreter="python -O")
        if r.ok != d.ok or (not r.ok and (r.res.get("exc"), r.res.get("msg")) != (x.get("exc"), x.get("msg"))):
            ctx.violation("under python -O the outcome is %s, otherwise %s" % (d.describe(), r.describe()), inp)
            continue
        if not r.ok:
            continue
        for f in fields:
            a, b = (d.pruned, r.pruned) if f == "pruned" else (d.out[FIELDS[f]], r.out[FIELDS[f]])
            if a != b:
                ctx.violation("under python -O %s comes out as %r, otherwise %r" % (f, a, b), inp)
                break
