"""Runs the real code from the repository under test on a file of cases (one JSON object per
line) and writes one JSON result per line. Started as a child process by impl.py.
usage: impl_worker.py REPO IN OUT LIMIT_SECONDS"""
import copy, io, json, os, signal, sys, contextlib

repo, fin, fout, limit = sys.argv[1], sys.argv[2], sys.argv[3], float(sys.argv[4])
sys.path.insert(0, repo)
sys.path.insert(1, os.path.dirname(os.path.abspath(__file__)))
sys.setrecursionlimit(1000)   # CPython's default, stated explicitly
from common import enc, dec   # noqa: E402
import tad                    # noqa: E402
import reverse_dfs as rdfs    # noqa: E402


class CaseTimeout(BaseException):
    pass


def _alarm(signum, frame):
    raise CaseTimeout()


# per-case limits count the worker's own CPU time (ITIMER_PROF), so a loaded machine does not turn slow cases into
# time-outs; a wall-clock limit on the whole worker (impl.py) still bounds blocking hangs
signal.signal(signal.SIGPROF, _alarm)

# snapshot of every node's next_states at the moment the reward loop starts (harness-side
# wrapper around the public method; nothing in the repository is changed)
_snap = {}
_orig_str = tad.Solver.solve_total_rewards


def _wrapped(self):
    _snap["pruned"] = [list(s.next_states) for s in self.state_list]
    return _orig_str(self)


tad.Solver.solve_total_rewards = _wrapped


def exc_info(e):
    return {"exc": type(e).__name__, "msg": str(e)}


def do_solve(game, prune, obj=None):
    _snap.clear()
    try:
        sg = obj if obj is not None else tad.StochasticGame(prune_states=prune, **game)
        if obj is not None:
            sg.prune_states = prune
        r = sg.solve()
        res = {"ok": enc(list(r)), "pruned": enc(_snap.get("pruned"))}
        # the caller is free to edit what it was handed back: a later solve must not see those edits
        for part in r:
            if isinstance(part, list):
                for x in part:
                    if isinstance(x, list):
                        x.append("edited by the caller")
                del part[:]
        return res
    except Exception as e:   # noqa: BLE001
        return exc_info(e)


def share_rows(game):
    """the same description spelt with ONE list object for all states whose transition lists are equal
    (legal Python, equal by value): results must not depend on the spelling"""
    tl = game.get("transition_list")
    if isinstance(tl, list):
        seen = {}
        for i, row in enumerate(tl):
            if isinstance(row, list):
                tl[i] = seen.setdefault(repr(row), row)
    return game


def op_solve(c):
    if c.get("debug"):
        # the command line's --log_level DEBUG: the solver's loops then run their logging branches as well
        import logging
        root = logging.getLogger()
        old = root.level
        root.setLevel(logging.DEBUG)
        try:
            return op_solve(dict(c, debug=False))
        finally:
            root.setLevel(old)
    game = dec(c["game"])
    if c.get("share"):
        game = share_rows(game)
    before = copy.deepcopy(game)
    ids = [id(x) for x in game["transition_list"]] if isinstance(game.get("transition_list"), list) else None
    res = do_solve(game, c["prune"])
    res["intact"] = (game == before)
    if ids is not None:
        res["same_objects"] = ids == [id(x) for x in game["transition_list"]]
    if not res["intact"]:
        res["after"] = enc(game)
    return res


def op_solve_late(c):
    """the caller builds the StochasticGame, THEN adds a final state to the final_states list it still owns, then solves:
    the solve is about the description as it stands when solve() is called"""
    game = dec(c["game"])
    try:
        sg = tad.StochasticGame(prune_states=c["prune"], **game)
    except Exception as e:   # noqa: BLE001
        return exc_info(e)
    if c.get("redirect"):
        # ... or: solves once, redirects one transition of its description in place, and solves again through the same object
        do_solve(game, c["prune"], sg)
        s, k, d = c["redirect"]
        row = game["transition_list"][s]
        row[k] = (row[k][0], d)
        return do_solve(game, c["prune"], sg)
    game["final_states"].append(c["extra"])
    return do_solve(game, c["prune"], sg)


def op_reach(c):
    """the reachability half of solve(), through the public API in the order solve() uses"""
    game = dec(c["game"])
    try:
        sg = tad.StochasticGame(prune_states=c["prune"], **game)
        sg.check_game()
        sl = sg.init_states()
        thr = float.fromhex(c["threshold"]) if c.get("threshold") else 10**(-6)
        solver = tad.Solver(threshold=thr, state_list=sl)
        strats, it = solver.solve_reachability(sg.transition_list, sg.final_states, sg.prune_states)
        return {"ok": enc([[s.reach_probability for s in sl], strats, it])}
    except Exception as e:   # noqa: BLE001
        return exc_info(e)


def op_solve_seq(c):
    """a sequence of solves on one description: each step (prune, fresh_object)"""
    game = dec(c["game"])
    if c.get("share"):
        game = share_rows(game)
    before = copy.deepcopy(game)
    ids = [id(x) for x in game["transition_list"]] if isinstance(game.get("transition_list"), list) else None
    out = []
    obj = None
    for prune, fresh in c["steps"]:
        if fresh or obj is None:
            try:
                obj = tad.StochasticGame(prune_states=prune, **game)
            except Exception as e:   # noqa: BLE001
                out.append(exc_info(e))
                continue
        r = do_solve(game, prune, obj)
        r["intact"] = (game == before)
        if ids is not None and isinstance(game.get("transition_list"), list) and ids != [id(x) for x in game["transition_list"]]:
            # equal by value, but the caller's outer list now holds OTHER row objects: the description was written to
            r["intact"] = False
            r["rows_replaced"] = True
        if not r["intact"]:
            r["after"] = enc(game)
        out.append(r)
    return {"steps": out}


def op_rdfs(c):
    try:
        return {"ok": enc(rdfs.reverse_dfs(dec(c["tl"]), dec(c["finals"])))}
    except Exception as e:   # noqa: BLE001
        return exc_info(e)


def op_rdfs_seq(c):
    """reverse_dfs on a list, then the caller adds a transition to one of ITS rows in place, then reverse_dfs on the same list again"""
    tl, finals = dec(c["tl"]), dec(c["finals"])
    try:
        first = rdfs.reverse_dfs(tl, finals)
        u, t = dec(c["edit"])
        tl[u].append(t)
        return {"first": enc(first), "ok": enc(rdfs.reverse_dfs(tl, finals))}
    except Exception as e:   # noqa: BLE001
        return exc_info(e)


def op_rtable(c):
    try:
        d = rdfs.reverse_transition_list(dec(c["tl"]))
        return {"ok": enc(sorted([k, v] for k, v in d.items()))}
    except Exception as e:   # noqa: BLE001
        return exc_info(e)


def op_run_games(c):
    import conditionalrewards as cr
    games = dec(c["games"])
    if c.get("stale"):
        # descriptions that already carry a 'prune_states' key (run_games itself leaves one behind in the caller's
        # dictionaries, so a file's games run twice in one session have it): the batch must set the mode itself
        for g, v in zip(games.values(), c["stale"]):
            if isinstance(g, dict):
                g["prune_states"] = v
    before = copy.deepcopy(games)
    try:
        with contextlib.redirect_stderr(io.StringIO()):
            res = cr.run_games(games)
    except Exception as e:   # noqa: BLE001
        return exc_info(e)
    for v in res.values():
        v.pop("total_time", None)
    for g in before.values():
        if isinstance(g, dict):
            g.pop("prune_states", None)
    for g in games.values():
        if isinstance(g, dict):
            g.pop("prune_states", None)
    return {"ok": enc([[k, v] for k, v in res.items()]), "intact": games == before}


def op_report(c):
    """run_games + save_results_to_file in a scratch directory; returns the report text"""
    import conditionalrewards as cr
    import tempfile
    games = dec(c["games"])
    cwd = os.getcwd()
    with tempfile.TemporaryDirectory(dir=c["scratch"]) as d:
        os.makedirs(os.path.join(d, "outputs"))
        os.makedirs(os.path.join(d, "inputs"))
        os.chdir(d)
        try:
            with contextlib.redirect_stderr(io.StringIO()):
                if "text" in c:
                    with open(c["path"], "w") as f:
                        f.write(c["text"])
                    games = cr.read_dict_from_file(c["path"])
                if c.get("stale_out"):
                    # a report of an earlier, bigger run under the name this run's report must get
                    with open(os.path.join("outputs", c["stale_out"]), "w") as f:
                        f.write("stale report of an earlier run\n" * 500)
                res = cr.run_games(games)
                # what the batch run produced, before the writer gets a chance to touch it
                snap = copy.deepcopy(res)
                cr.save_results_to_file(res, c["path"])
            files = sorted(os.listdir("outputs"))
            text = open(os.path.join("outputs", files[0])).read() if files else None
            for v in list(res.values()) + list(snap.values()):
                v.pop("total_time", None)
            return {"ok": enc([[k, v] for k, v in snap.items()]), "files": files, "text": text,
                    "writer_changed_results": res != snap,
                    "read": enc(games) if "text" in c else None}
        except Exception as e:   # noqa: BLE001
            return exc_info(e)
        finally:
            os.chdir(cwd)


def op_call(c):
    """generic: module.function(*args) -> encoded result"""
    import importlib
    mod = importlib.import_module(c["module"])
    try:
        r = getattr(mod, c["func"])(*dec(c["args"]))
        return {"ok": enc(r)}
    except Exception as e:   # noqa: BLE001
        return exc_info(e)


def op_board(c):
    """gen_rnd_board, twice with other use of random in between"""
    import random
    import roberta_generator as rg
    a = dec(c["args"])
    try:
        b1 = rg.gen_rnd_board(*a)
        first = enc(list(b1))
        # the caller edits the board it was given (in place), uses random for something else, and asks for the same
        # seed and parameters again: it must get the original board, not its own edits
        for part in b1:
            for row in part:
                for j in range(len(row)):
                    row[j] = 99
                row.append(7)
        random.random(); random.seed(12345); random.random()
        b2 = rg.gen_rnd_board(*a)
        return {"ok": first, "again": enc(list(b2))}
    except Exception as e:   # noqa: BLE001
        return exc_info(e)


def op_write_robots(c):
    """write_robots into a scratch dir and read the file back with the solver's reader"""
    import roberta_generator as rg
    import conditionalrewards as cr
    import tempfile
    a = dec(c["args"])   # length, width, moves, rewards, loose, ptb, prb, plb
    with tempfile.TemporaryDirectory(dir=c["scratch"]) as d:
        fn = os.path.join(d, "g.py")
        try:
            # the same board OBJECTS are written twice (one hand board for several settings is ordinary use);
            # what is checked is the SECOND file, and that it equals the first
            before = copy.deepcopy(a)
            rg.write_robots(os.path.join(d, "first.py"), *a)
            # the target already exists and is LONGER than what is about to be written (an earlier, bigger board under
            # the same name): it must be replaced, not overwritten from the start
            with open(fn, "w") as f:
                f.write(open(os.path.join(d, "first.py")).read() + "# stale tail of an earlier file\n" * 400)
            rg.write_robots(fn, *a)
            text = open(fn).read()
            games = cr.read_dict_from_file(fn)
            return {"ok": enc(games), "text": text, "first_same": open(os.path.join(d, "first.py")).read() == text,
                    "args_intact": a == before}
        except Exception as e:   # noqa: BLE001
            return exc_info(e)


OPS = {"solve": op_solve, "solve_late": op_solve_late, "reach": op_reach, "solve_seq": op_solve_seq, "rdfs": op_rdfs, "rdfs_seq": op_rdfs_seq, "rtable": op_rtable,
       "run_games": op_run_games, "report": op_report, "call": op_call, "board": op_board,
       "write_robots": op_write_robots}

# plug-in operations: harness/ops_*.py, each defining OPS = {"name": function(case) -> dict}
import glob as _glob, importlib as _importlib
for _p in sorted(_glob.glob(os.path.join(os.path.dirname(os.path.abspath(__file__)), "ops_*.py"))):
    _m = _importlib.import_module(os.path.basename(_p)[:-3])
    OPS.update(getattr(_m, "OPS", {}))

def _fresh_modules():
    """re-execute the repository's modules: module-level state (caches, counters) starts empty, as in a new interpreter"""
    global tad, rdfs, _orig_str
    import importlib
    for name in ("reverse_dfs", "tad", "conditionalrewards", "roberta_generator", "stochastic_game_from_roborta_board"):
        if name in sys.modules:
            importlib.reload(sys.modules[name])
    tad = sys.modules["tad"]
    rdfs = sys.modules["reverse_dfs"]
    _orig_str = tad.Solver.solve_total_rewards

    def _w(self):
        _snap["pruned"] = [list(s.next_states) for s in self.state_list]
        return _orig_str(self)
    tad.Solver.solve_total_rewards = _w


with open(fin) as f, open(fout, "w") as g:
    for line in f:
        c = json.loads(line)
        if c.get("fresh_modules"):
            _fresh_modules()
        if c.get("scratch"):
            os.makedirs(c["scratch"], exist_ok=True)
        signal.setitimer(signal.ITIMER_PROF, c.get("limit", limit))
        try:
            r = OPS[c["op"]](c)
        except CaseTimeout:
            r = {"timeout": True}
        except RecursionError as e:
            r = exc_info(e)
        except Exception as e:   # noqa: BLE001  an operation's own scaffolding failed: report it, keep the worker alive
            r = dict(exc_info(e), op_scaffolding_error=True)
        finally:
            signal.setitimer(signal.ITIMER_PROF, 0)
        g.write(json.dumps(r) + "\n")
        g.flush()
