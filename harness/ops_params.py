"""Plug-in implementation operations for C17 / C15 / C16 (loaded by impl_worker.py).
Everything runs the code of the repository under test (sys.argv[1] of the worker) in a scratch
directory below build/; nothing in the repository is touched."""
import os, shutil, subprocess, sys, tempfile

from common import BUILD, enc, dec

REPO = sys.argv[1] if len(sys.argv) > 1 else "/repo"
SCRATCH = os.path.join(BUILD, "scratch")


def _scratch():
    os.makedirs(SCRATCH, exist_ok=True)
    d = tempfile.mkdtemp(dir=SCRATCH)
    os.makedirs(os.path.join(d, "inputs"))
    os.makedirs(os.path.join(d, "outputs"))
    return d


def _listing(d):
    out = []
    for sub in ("inputs", "outputs"):
        for root, _, files in os.walk(os.path.join(d, sub)):
            for fn in sorted(files):
                p = os.path.join(root, fn)
                out.append([os.path.relpath(p, d), os.path.getsize(p)])
    extra = sorted(x for x in os.listdir(d) if x not in ("inputs", "outputs"))
    return sorted(out), extra


def op_gen_cli(c):
    """python roberta_generator.py <argv...> in a scratch cwd with an empty inputs/ directory.
    returns exit status, stderr tail, the files created (relative path, size)"""
    d = _scratch()
    try:
        if c.get("bare"):
            # an empty working directory: a refused run must leave it empty (nothing is written, no folder is made)
            shutil.rmtree(os.path.join(d, "inputs")); shutil.rmtree(os.path.join(d, "outputs"))
        env = dict(os.environ, PYTHONPATH=REPO, PYTHONHASHSEED="0", PYTHONDONTWRITEBYTECODE="1")
        p = subprocess.run([sys.executable, os.path.join(REPO, "roberta_generator.py")] + list(c["argv"]),
                           cwd=d, env=env, stdout=subprocess.PIPE, stderr=subprocess.PIPE, text=True)
        files, extra = _listing(d)
        if c.get("bare"):
            extra = sorted(os.listdir(d))
        res = {"rc": p.returncode, "stderr": p.stderr[-600:], "files": files, "extra": extra}
        if c.get("want_text") and len(files) == 1:
            res["text"] = open(os.path.join(d, files[0][0])).read()
        return res
    finally:
        shutil.rmtree(d, ignore_errors=True)


def op_gen_main_seq(c):
    """roberta_generator.main() several times in ONE process (a driver that sets sys.argv per board), in a scratch cwd;
    per call: exit status and the files that appeared"""
    import roberta_generator as rg
    d = _scratch()
    cwd, old_argv = os.getcwd(), sys.argv
    os.chdir(d)
    out, seen = [], set()
    import logging
    old_level = logging.getLogger().level
    if c.get("debug"):
        logging.getLogger().setLevel(logging.DEBUG)       # what conditionalrewards.set_logger("d") leaves behind in a process
    try:
        for argv in c["argvs"]:
            sys.argv = ["roberta_generator.py"] + list(argv)
            rc, err = 0, ""
            try:
                rg.main()
            except SystemExit as e:
                rc = e.code or 0
            except Exception as e:   # noqa: BLE001
                rc, err = 1, "%s: %s" % (type(e).__name__, e)
            files, extra = _listing(d)
            out.append({"rc": rc, "stderr": err, "files": [f for f in files if f[0] not in seen], "extra": extra})
            seen |= set(f[0] for f in files)
        return {"seq": out}
    finally:
        logging.getLogger().setLevel(old_level)
        sys.argv = old_argv
        os.chdir(cwd)
        shutil.rmtree(d, ignore_errors=True)


def op_api_text(c):
    """the file the API writes for the same parameters: write_robots(gen_rnd_board(seed, length, width, t, m, f), r, p, q)"""
    import roberta_generator as rg
    seed, length, width, t, m, f, ptb, prb, plb = dec(c["args"])
    d = _scratch()
    try:
        moves, rewards, loose = rg.gen_rnd_board(seed, length, width, t, m, f)
        fn = os.path.join(d, "api.py")
        rg.write_robots(fn, length, width, moves, rewards, loose, ptb, prb, plb)
        return {"text": open(fn).read(), "loose": enc(loose)}
    except Exception as e:   # noqa: BLE001
        return {"exc": type(e).__name__, "msg": str(e)}
    finally:
        shutil.rmtree(d, ignore_errors=True)


def op_manual_name(c):
    """stochastic_game_from_roborta_board.create_sg_from_board in a scratch cwd; the files created"""
    import stochastic_game_from_roborta_board as sgb
    d = _scratch()
    cwd = os.getcwd()
    os.chdir(d)
    try:
        sgb.create_sg_from_board(*dec(c["args"]))
        files, extra = _listing(d)
        return {"ok": True, "files": files, "extra": extra}
    except Exception as e:   # noqa: BLE001
        return {"exc": type(e).__name__, "msg": str(e)}
    finally:
        os.chdir(cwd)
        shutil.rmtree(d, ignore_errors=True)


def op_solver_cli(c):
    """python conditionalrewards.py -f inputs/<name> [-s] in a scratch cwd holding that input file"""
    d = _scratch()
    try:
        path = os.path.join(d, c["path"])
        os.makedirs(os.path.dirname(path), exist_ok=True)
        if c.get("link_to"):
            # the file given to -f is a symbolic link to a file of another name: the report is named after what was given
            with open(os.path.join(os.path.dirname(path), c["link_to"]), "w") as f:
                f.write(c["text"])
            os.symlink(c["link_to"], path)
        else:
            with open(path, "w") as f:
                f.write(c["text"])
        for rel, text in (c.get("decoys") or {}).items():
            # other files lying around in the working directory (e.g. one of the same name under inputs/): not what -f names
            os.makedirs(os.path.dirname(os.path.join(d, rel)) or d, exist_ok=True)
            with open(os.path.join(d, rel), "w") as f:
                f.write(text)
        env = dict(os.environ, PYTHONPATH=REPO, PYTHONHASHSEED="0", PYTHONDONTWRITEBYTECODE="1")
        p = subprocess.run([sys.executable, os.path.join(REPO, "conditionalrewards.py")] + list(c["argv"]),
                           cwd=d, env=env, stdout=subprocess.PIPE, stderr=subprocess.PIPE, text=True)
        outs = {}
        for fn in sorted(os.listdir(os.path.join(d, "outputs"))):
            outs[fn] = open(os.path.join(d, "outputs", fn)).read()
        return {"rc": p.returncode, "stderr": p.stderr[-600:], "outputs": outs}
    finally:
        shutil.rmtree(d, ignore_errors=True)


def op_read_twice(c):
    """read_dict_from_file on one path twice in one process; in between the file is replaced by ANOTHER text of the same length and
    its modification time is put back (a timestamp-preserving copy): the second read is about the file as it is then"""
    import conditionalrewards as cr
    d = _scratch()
    try:
        p = os.path.join(d, "inputs", "same_path.py")
        with open(p, "w") as f:
            f.write(c["first"])
        st = os.stat(p)
        r1 = cr.read_dict_from_file(p)
        with open(p, "w") as f:
            f.write(c["second"])
        os.utime(p, ns=(st.st_atime_ns, st.st_mtime_ns))
        r2 = cr.read_dict_from_file(p)
        return {"first": enc(r1), "ok": enc(r2)}
    except BaseException as e:   # noqa: BLE001
        if type(e).__name__ == "CaseTimeout":
            raise
        return {"exc": type(e).__name__, "msg": str(e)[:300]}
    finally:
        shutil.rmtree(d, ignore_errors=True)


def op_read_dict(c):
    """read_dict_from_file on a repository input (path relative to the repository) or on a text"""
    import conditionalrewards as cr
    try:
        if "text" in c:
            d = _scratch()
            try:
                p = os.path.join(d, "inputs", c.get("name", "x.py"))
                with open(p, "w") as f:
                    f.write(c["text"])
                r = cr.read_dict_from_file(p)
            finally:
                shutil.rmtree(d, ignore_errors=True)
        else:
            r = cr.read_dict_from_file(os.path.join(REPO, c["file"]))
        return {"ok": enc(r)}
    except BaseException as e:   # noqa: BLE001  (eval can raise anything, incl. SyntaxError)
        if type(e).__name__ == "CaseTimeout":
            raise
        return {"exc": type(e).__name__, "msg": str(e)[:300]}


OPS = {"read_twice": op_read_twice, "gen_cli": op_gen_cli, "gen_main_seq": op_gen_main_seq, "api_text": op_api_text, "manual_name": op_manual_name, "solver_cli": op_solver_cli,
       "read_dict": op_read_dict}
