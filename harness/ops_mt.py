"""Plug-in implementation operation for the Mersenne-Twister correspondence (loaded by impl_worker.py).
Runs the REAL `random` module - the module-level functions roberta_generator.py itself calls - on a script.

case: {"op": "mt_script", "seed_hex": "0x...", "steps": [step, ...]} (hexadecimal: seeds of thousands of digits are
beyond the interpreter's int/str conversion limit) with step one of
  ["random", n]                                   n calls of random.random()
  ["choices", enc(population), enc(weights), k]   random.choices(population, weights, k=k)
  ["randrange", enc(n)]                           random.randrange(0, n)
  ["getrandbits", k]                              random.getrandbits(k)
result: {"ok": [r, ...]} with r = enc(list of floats) / enc(list) / enc(int), or {"exc": class, "msg": text} in place of
one result when that call raised (the script goes on: CPython raises before drawing anything in these calls)."""
import random

from common import enc, dec


def op_mt_script(c):
    random.seed(int(c["seed_hex"], 16))
    out = []
    for st in c["steps"]:
        try:
            if st[0] == "random":
                out.append(enc([random.random() for _ in range(st[1])]))
            elif st[0] == "choices":
                out.append(enc(random.choices(dec(st[1]), dec(st[2]), k=st[3])))
            elif st[0] == "randrange":
                out.append(enc(random.randrange(0, dec(st[1]))))
            elif st[0] == "getrandbits":
                out.append(enc(random.getrandbits(st[1])))
            else:
                out.append({"exc": "BadStep", "msg": str(st[0])})
        except Exception as e:   # noqa: BLE001
            out.append({"exc": type(e).__name__, "msg": str(e)})
    return {"ok": out}


OPS = {"mt_script": op_mt_script}
