"""Correspondence of Model/MT.v (CPython's random module, bit-exact) with the real `random` module and with
roberta_generator.gen_rnd_board. Helper of the C15 check: `import mt_corr; mt_corr.run(ctx)`.

(a) random.seed(s) followed by 700 calls of random.random() (the 624-word block is regenerated three times: draws
    1, 625 and 1249 of the 1400 32-bit outputs), compared float by float inside Coq; the same evaluation checks that the
    model's float (a*67108864.0+b)*(1.0/9007199254740992.0) equals the exact (a*2^26+b) * 2^-53;
(b) scripts mixing random / choices (the generator's two weight vectors and arbitrary float weights, including the
    three ValueErrors) / randrange(0, n) (n up to 10^30: getrandbits beyond 32 bits; empty ranges) / getrandbits(k);
(c) gen_rnd_board through op "board": moves, rewards and loose tiles against gen_rnd_board_mt, rewards through the
    exact floor(-log2 y) on the float the code hands to math.log.
All model evaluation happens in Coq (vm_compute); nothing here re-implements the generator."""
import math
from common import enc, dec, cf, cz, cstr, clist, cbool, cnats
import coqrun, impl

RULE = ("MT model: seeds 0, 1, 2^32-1, 2^32, 2^64+3, 200-bit, 624- and 700-word seeds, a negative seed and random seeds of "
        "8..200 bits; 700 random() per seed; scripts of 12..30 calls; boards 0x0..6x6, max_reward 1..1022, both force-down values")
ASSUMPTIONS = ["libm log is still an oracle: the model's reward is floor(-log2 y) read off the mantissa/exponent of the "
               "binary64 y the code passes to math.log; agreement with floor(-log(y)/log(2.0)) is observed on every compared "
               "tile (they can differ only for y equal to, or a few ulps above, a power of two)",
               "randrange's rejection loop is unbounded in CPython; the model gives up after 200 rounds (OutOfFuel, "
               "probability < 2^-200 per call) and that outcome never counts as agreement",
               "choices is modelled for float weights (the generator's case); int or Fraction weights are outside the model"]

HDR = ("From Coq Require Import String List Bool ZArith NArith PrimFloat.\n"
       "From CR Require Import Model.Num Model.Outcome Model.Params Model.MT Model.Corr.\n"
       "Import ListNotations.\nLocal Open Scope string_scope.\n")

W_FD = [0.1, 0.5, 0.1, 0.3]
W_NOFD = [0.2, 0.6, 0.2]
ONE_M = 1 - 2.0 ** -53


def czz(k):
    """Z literal; hexadecimal, so that seeds of thousands of digits pass Python's int/str conversion limit"""
    return "(%s0x%x)%%Z" % ("-" if k < 0 else "", abs(k))


def hexint(k):
    return ("-" if k < 0 else "") + hex(abs(k))


def cfx(x):
    if x != x:
        return "nan"
    if x == math.inf:
        return "infinity"
    if x == -math.inf:
        return "neg_infinity"
    return cf(x)


def cfl(xs):
    return clist([cfx(x) for x in xs])


# ------------------------------------------------------------------ (a) streams
def stream_seeds(ctx):
    rng = ctx.rng
    fixed = [0, 1, 2, 42, 2**31, 2**32 - 1, 2**32, 2**32 + 1, 2**64 + 3, 2**64 - 1, 2**40 + 5,
             rng.getrandbits(200) | (1 << 199), rng.getrandbits(624 * 32) | (1 << (624 * 32 - 1)),
             rng.getrandbits(700 * 32) | (1 << (700 * 32 - 1)), -5, 999132423, 10**30]
    n = 40 if ctx.quick else 240
    while len(fixed) < n:
        fixed.append(rng.getrandbits(rng.choice([8, 16, 31, 32, 33, 63, 64, 65, 100, 200])))
    return fixed


STREAM_BODY = (
    "Definition cases : list (Z * list float) := %s.\n"
    "Fixpoint randoms_ok (xs : list float) (st : mtstate) : bool :=\n"
    "  match xs with [] => true | x :: r =>\n"
    "    let '(a, b, st') := random_ab st in\n"
    "    feq (ab_float a b) x && feq (mkf (Z.of_N (ab_num a b)) (-53)) x && randoms_ok r st' end.\n"
    "Eval vm_compute in (idx_where (fun c => negb (randoms_ok (snd c) (seed_Z (fst c)))) cases).")


# ------------------------------------------------------------------ (b) scripts
def gen_script(ctx):
    rng = ctx.rng
    steps = []
    for _ in range(rng.randint(12, 30)):
        t = rng.random()
        if t < 0.15:
            steps.append(["random", rng.randint(1, 5)])
        elif t < 0.45:
            fd = rng.random() < 0.5
            steps.append(["choices", [0, 1, 2, 3] if fd else [0, 1, 2], W_FD if fd else W_NOFD, rng.randint(0, 12)])
        elif t < 0.6:
            n = rng.randint(1, 6)
            ws = [rng.choice([0.0, 0.25, 1.0, 1e-300, 3.5, rng.random(), rng.random() * 1e6, -0.125]) for _ in range(n)]
            steps.append(["choices", [rng.randrange(9) for _ in range(n)], ws, rng.randint(0, 6)])
        elif t < 0.66:
            bad = rng.choice(["len", "zero", "inf", "nan", "neg", "empty"])
            if bad == "len":
                steps.append(["choices", [0, 1, 2], [0.5, 0.5], 3])
            elif bad == "zero":
                steps.append(["choices", [0, 1], [0.0, 0.0], 2])
            elif bad == "inf":
                steps.append(["choices", [0, 1], [1.0, math.inf], 2])
            elif bad == "nan":
                steps.append(["choices", [0, 1, 2], [1.0, math.nan, 1.0], 2])
            elif bad == "neg":
                steps.append(["choices", [4, 5], [1.0, -3.0], 1])
            else:
                steps.append(["choices", [], [], 2])
        elif t < 0.9:
            n = rng.choice([1, 1, 2, 3, 4, 5, 6, 7, 8, 12, 100, 2**31, 2**32 - 1, 2**32, 2**32 + 1, 2**40 + 17,
                            2**64 + 1, 10**30, rng.randint(1, 40), 0, -3])
            steps.append(["randrange", n])
        else:
            steps.append(["getrandbits", rng.choice([0, 1, 2, 5, 31, 32, 33, 63, 64, 65, 100])])
    return steps


def enc_steps(steps):
    out = []
    for s in steps:
        if s[0] == "choices":
            out.append(["choices", enc(s[1]), enc(s[2]), s[3]])
        elif s[0] == "randrange":
            out.append(["randrange", enc(s[1])])
        else:
            out.append(list(s))
    return out


def cexp(r, ok):
    if isinstance(r, dict) and "exc" in r:
        if r["exc"] == "ValueError":
            return "(EVal _ %s)" % cstr(r["msg"])
        return "(EExc _ %s)" % cstr(r["exc"])
    return "(EOk %s)" % ok(dec(r))


def cstep(s, r):
    if s[0] == "random":
        return "(SRandom %s)" % cfl(dec(r))
    if s[0] == "choices":
        return "(SChoices %s %s %d %s)" % (cnats(s[1]), cfl(s[2]), s[3], cexp(r, cnats))
    if s[0] == "randrange":
        return "(SRandrange %s %s)" % (czz(s[1]), cexp(r, czz))
    return "(SBits %d %s)" % (s[1], cexp(r, czz))


SCRIPT_BODY = (
    "Inductive exp (A : Type) := EOk (a : A) | EVal (msg : string) | EExc (cls : string).\n"
    "Arguments EOk {A}.\n"
    "Inductive step :=\n"
    "| SRandom (xs : list float)\n"
    "| SChoices (pop : list nat) (ws : list float) (k : nat) (e : exp (list nat))\n"
    "| SRandrange (n : Z) (e : exp Z)\n"
    "| SBits (k : N) (e : exp Z).\n"
    "Definition agree {A} (eq : A -> A -> bool) (o : outcome A) (e : exp A) : bool :=\n"
    "  match o, e with\n"
    "  | Ok a, EOk b => eq a b | ValueErr m, EVal _ m' => String.eqb m m' | Crash c, EExc _ c' => String.eqb c c'\n"
    "  | _, _ => false end.\n"
    "Fixpoint randoms_chk (xs : list float) (st : mtstate) : bool * mtstate :=\n"
    "  match xs with [] => (true, st) | x :: r =>\n"
    "    let (u, st1) := random st in let (ok, st2) := randoms_chk r st1 in (feq u x && ok, st2) end.\n"
    "Definition split_state {A} (o : outcome (A * mtstate)) (st : mtstate) : outcome A * mtstate :=\n"
    "  match o with Ok (a, st') => (Ok a, st') | ValueErr m => (ValueErr m, st) | Crash c => (Crash c, st)\n"
    "  | OutOfFuel => (OutOfFuel, st) end.\n"
    "Fixpoint run (ss : list step) (st : mtstate) : bool :=\n"
    "  match ss with\n"
    "  | [] => true\n"
    "  | SRandom xs :: r => let (ok, st') := randoms_chk xs st in ok && run r st'\n"
    "  | SChoices pop ws k e :: r =>\n"
    "    let (o, st') := split_state (choices pop ws k st) st in agree (list_eqb Nat.eqb) o e && run r st'\n"
    "  | SRandrange n e :: r =>\n"
    "    let (o, st') := split_state (randrange0 n st) st in\n"
    "    agree Z.eqb (match o with Ok v => Ok (Z.of_N v) | ValueErr m => ValueErr m | Crash c => Crash c | OutOfFuel => OutOfFuel end) e\n"
    "    && run r st'\n"
    "  | SBits k e :: r => let (v, st') := getrandbits k st in agree Z.eqb (Ok (Z.of_N v)) e && run r st'\n"
    "  end.\n"
    "Definition cases : list (Z * list step) := %s.\n"
    "Eval vm_compute in (idx_where (fun c => negb (run (snd c) (seed_Z (fst c)))) cases).")


# ------------------------------------------------------------------ (c) boards
def gen_boards(ctx):
    rng = ctx.rng
    ps = [0.3, 0.1, 0.5, 0.9, 1e-9, ONE_M, 5e-324, 0.999]
    out = []
    for seed in (0, 1, 2**32 - 1, 2**32, 2**64 + 3, rng.getrandbits(200) | (1 << 199)):
        for fd in (False, True):
            out.append((seed, 3, 3, 0.3, 6, fd))
    for (L, W) in ((1, 1), (1, 6), (6, 1), (6, 6), (2, 5)):
        for fd in (False, True):
            out.append((rng.randrange(1000), L, W, rng.choice(ps), rng.choice([1, 6]), fd))
    for m in (1, 2, 10, 52, 53, 60, 200, 1022):
        out.append((rng.randrange(10**6), rng.randint(1, 4), rng.randint(1, 4), 0.3, m, m % 2 == 0))
    # outside check_input's ranges but inside gen_rnd_board's domain, and its two ways of raising
    out += [(7, 0, 3, 0.3, 6, True), (7, 2, 0, 0.3, 6, False), (7, 2, 0, 0.3, 6, True), (7, 1, 1, 0.3, 1023, False),
            (7, 0, 2, 0.3, 1023, True), (3, 2, 2, 1.5, 6, True), (3, 2, 2, -0.5, 6, False)]
    n = 60 if ctx.quick else 600
    while len(out) < n:
        out.append((rng.choice([rng.randrange(100), rng.randrange(10**12), rng.getrandbits(70)]), rng.randint(1, 6),
                    rng.randint(1, 6), rng.choice(ps + [rng.random(), rng.random()]),
                    rng.choice([1, 2, 3, 6, 6, 10, 30]), rng.random() < 0.5))
    return out


def cboard(b):
    mv, rw, lo = b
    return "(%s, %s, %s)" % (clist([cnats(r) for r in mv]), clist([clist([czz(v) for v in r]) for r in rw]),
                             clist([cnats(r) for r in lo]))


def is_board(b):
    return (isinstance(b, list) and len(b) == 3 and
            all(isinstance(g, list) and all(isinstance(r, list) and all(type(v) is int for v in r) for r in g) for g in b) and
            all(v >= 0 for g in (b[0], b[2]) for r in g for v in r))


BOARD_BODY = (
    "Definition B := (list (list nat) * list (list Z) * list (list nat))%%type.\n"
    "Inductive bexp := BOk (b : B) | BVal (msg : string) | BExc (cls : string).\n"
    "Definition cases : list (Z * nat * nat * float * nat * bool * bexp) := %s.\n"
    "Definition geq := list_eqb (list_eqb Nat.eqb).\n"
    "Definition run (c : Z * nat * nat * float * nat * bool * bexp) : bool :=\n"
    "  match c with (s, L, W, p, m, fd, x) =>\n"
    "    match gen_rnd_board_mt s L W p m fd, x with\n"
    "    | Ok (mv, rw, lo), BOk (mv', rw', lo') => geq mv mv' && list_eqb (list_eqb Z.eqb) rw rw' && geq lo lo'\n"
    "    | ValueErr e, BVal e' => String.eqb e e' | Crash e, BExc e' => String.eqb e e' | _, _ => false end end.\n"
    "Eval vm_compute in (idx_where (fun c => negb (run c)) cases).")


def board_input(par):
    s, L, W, p, m, fd = par
    return dict(seed=s, length=L, width=W, prob_loose_tile=p.hex(), max_reward=m, force_down=fd)


# ------------------------------------------------------------------ run
def run(ctx):
    seeds = stream_seeds(ctx)
    nscripts = 40 if ctx.quick else 400
    scripts = [(ctx.rng.choice(seeds[:12] + [ctx.rng.getrandbits(64)]), gen_script(ctx)) for _ in range(nscripts)]
    boards = gen_boards(ctx)
    jobs = [dict(op="mt_script", seed_hex=hexint(s), steps=[["random", 700]], limit=30) for s in seeds]
    jobs += [dict(op="mt_script", seed_hex=hexint(s), steps=enc_steps(st), limit=30) for s, st in scripts]
    jobs += [dict(op="board", args=enc(list(par)), limit=60) for par in boards]
    res = impl.run_cases(jobs, limit=30, tag="mtc")
    rs, rsc, rb = res[:len(seeds)], res[len(seeds):len(seeds) + len(scripts)], res[len(seeds) + len(scripts):]
    errs = []

    # (a)
    terms, meta = [], []
    for s, r in zip(seeds, rs):
        ctx.evaluations += 1
        ctx.count("mt:stream")
        if "ok" not in r or not isinstance(r["ok"], list) or isinstance(r["ok"][0], dict):
            ctx.harness_errors.append("mt_script failed for seed %s: %s" % (hexint(s), str(r)[:300]))
            continue
        xs = dec(r["ok"][0])
        terms.append("(%s, %s)" % (czz(s), cfl(xs)))
        meta.append(dict(mt_seed=hexint(s), steps=[["random", 700]]))
    bad, e = coqrun.eval_case_files("mta", HDR, coqrun.chunked(terms, 3), lambda l: STREAM_BODY % l)
    errs += e
    ctx.corr_cases += len(terms)
    for k in bad:
        ctx.corr_break("model random() stream (seed_Z / genrand / ab_float) and random.seed(s); random.random() x 700 disagree",
                       meta[k])

    # (b)
    terms, meta = [], []
    for (s, st), r in zip(scripts, rsc):
        ctx.evaluations += 1
        if "ok" not in r or len(r["ok"]) != len(st):
            ctx.harness_errors.append("mt_script failed for seed %s: %s" % (hexint(s), str(r)[:300]))
            continue
        for x, y in zip(st, r["ok"]):
            ctx.count("mt:%s%s" % (x[0], ":raises" if isinstance(y, dict) and "exc" in y else ""))
        terms.append("(%s, %s)" % (czz(s), clist([cstep(x, y) for x, y in zip(st, r["ok"])])))
        meta.append((dict(mt_seed=hexint(s), steps=enc_steps(st)), r["ok"]))
    bad, e = coqrun.eval_case_files("mtb", HDR, coqrun.chunked(terms, 4), lambda l: SCRIPT_BODY % l)
    errs += e
    ctx.corr_cases += len(terms)
    for k in bad:
        ctx.corr_break("model choices / randrange0 / getrandbits / random and the random module disagree on a script",
                       meta[k][0], impl=meta[k][1])

    # (c)
    terms, meta = [], []
    for par, r in zip(boards, rb):
        s, L, W, p, m, fd = par
        ctx.evaluations += 1
        if "ok" in r:
            b = dec(r["ok"])
            if not is_board(b):
                ctx.corr_break("gen_rnd_board returned something that is not three grids of ints", board_input(par), impl=b)
                continue
            x = "(BOk %s)" % cboard(b)
            ctx.count("mt:board%s" % (",fd" if fd else ""))
            if L * W >= 2:
                ctx.nontrivial.add(("mt",) + par)
        elif r.get("exc") == "ValueError":
            x = "(BVal %s)" % cstr(r.get("msg", ""))
            ctx.count("mt:board:raises")
        elif r.get("exc"):
            x = "(BExc %s)" % cstr(r["exc"])
            ctx.count("mt:board:raises")
        else:
            ctx.harness_errors.append("op board gave no result for %r: %s" % (par, str(r)[:300]))
            continue
        terms.append("(%s, %d, %d, %s, %d, %s, %s)" % (czz(s), L, W, cfx(p), m, cbool(fd), x))
        meta.append((board_input(par), r))
    bad, e = coqrun.eval_case_files("mtc", HDR, coqrun.chunked(terms, 5), lambda l: BOARD_BODY % l)
    errs += e
    ctx.corr_cases += len(terms)
    for k in bad:
        ctx.corr_break("model gen_rnd_board_mt (Mersenne Twister inside Coq, exact floor(-log2 y)) and gen_rnd_board disagree",
                       meta[k][0], impl=meta[k][1])
    for e in errs:
        ctx.harness_errors.append("coqc failed on %s: %s" % (e[0], e[2][-500:]))


def replay(ctx, data):
    """re-run one recorded script (input has mt_seed/steps) through the real module and the model; 0 = they agree"""
    v = data.get("input") or (data.get("details") or [{}])[0].get("input") or {}
    if "mt_seed" not in v:
        return None
    s = int(v["mt_seed"], 16)
    r = impl.run_cases([dict(op="mt_script", seed_hex=v["mt_seed"], steps=v["steps"], limit=60)])[0]
    print("random.seed(%s); %s ->" % (v["mt_seed"], str(v["steps"])[:300]), str(r)[:1500])
    if "ok" not in r:
        return 1
    steps = [[st[0], dec(st[1]), dec(st[2]), st[3]] if st[0] == "choices" else
             ([st[0], dec(st[1])] if st[0] == "randrange" else list(st)) for st in v["steps"]]
    term = "(%s, %s)" % (czz(s), clist([cstep(x, y) for x, y in zip(steps, r["ok"])]))
    bad, errs = coqrun.eval_case_files("mtr", HDR, [[term]], lambda l: SCRIPT_BODY % l)
    print("model disagrees" if bad else "model agrees", errs or "")
    return 1 if bad or errs else 0
