"""Game generators. Every random choice comes from the rng passed in (seeded from VERIF_SEED).
A generated case is (game, meta): game is the plain description handed to the implementation,
meta['fr'] the intended rational probabilities (Fractions) for the exact oracle, meta['style']
the family, meta['guard'] the strongest claim family the input belongs to (exact/cond/any)."""
import itertools
from fractions import Fraction as Fr
from common import P1, P2, PR

ACTS = ["a", "b", "c", "d", "e", "alfa", "beta", "go", "stay", " ", ""]   # "" is a legal (falsy) label


def _weights(rng, m, dens):
    den = rng.choice(dens)
    while den < m:
        den *= 2
    cuts = sorted(rng.sample(range(1, den), m - 1)) if m > 1 else []
    parts = [b - a for a, b in zip([0] + cuts, cuts + [den])]
    return [Fr(p, den) for p in parts]


def _fl(fr):
    return fr.numerator if fr.denominator == 1 else fr.numerator / fr.denominator


def gen_game(rng, n, style):
    """n >= 3 states. canonical layout: 0..n-3 regular, n-2 = F (final, absorbing), n-1 = sink;
    then a random renumbering that keeps state 0 first."""
    assert n >= 3
    F, S = n - 2, n - 1
    players, tl, frs, rew = [], [], [], []
    dens = [2, 4, 8] if style == "exact" else ([2] if style == "ties" else [2, 3, 4, 5, 8, 10])
    for s in range(n - 2):
        k = rng.choice([P1, P2, P1, PR] if style == "players" else ([P1, P2, P2, PR] if style == "ties" else [P1, P2, PR, PR]))
        players.append(k)
        r = rng.choice([0, 0, 1, 2, 3, 5]) if rng.random() < 0.85 else rng.choice([0.5, 5 / 3, 2.25, 10])
        rew.append(r)
        m = rng.choice([1, 2, 2, 3, 3, 4])
        if style == "ties":
            # mostly deterministic, forward-only: reach values are 0, 1/2, 1, ... so Player-2/Player-1 states see many
            # exact reachability ties while rewards differ (exercises the tie handling of strategies and diagnostics)
            m = (1 if rng.random() < 0.6 else 2) if k == PR else rng.choice([2, 2, 3])
        fwd = list(range(s + 1, n))
        if k == PR:
            if style in ("stopping", "exact", "ties"):
                ds = [rng.choice(fwd)] + [rng.choice(fwd) if style in ("exact", "ties") else rng.randrange(0, n)
                                          for _ in range(m - 1)]
                rng.shuffle(ds)
            else:
                ds = [rng.randrange(0, n) for _ in range(m)]
            if style == "tiny" and m >= 2 and rng.random() < 0.5:
                eps = rng.choice([Fr(1, 10**7), Fr(1, 10**8), Fr(3, 10**7)])
                ws = [eps] + _weights(rng, m - 1, dens)
                ws = [ws[0]] + [w * (1 - eps) for w in ws[1:]]
            else:
                ws = _weights(rng, m, dens)
            frs.append(ws)
            tl.append([(_fl(w), d) for w, d in zip(ws, ds)])
        else:
            if style in ("stopping", "ties"):
                ds = [rng.choice(fwd) for _ in range(m)]
            elif style == "exact":
                ds = []
                for _ in range(m):
                    c = rng.random()
                    if c < 0.15:
                        ds.append(s)                       # self-loop (player-only end component)
                    elif c < 0.3 and s > 0 and players[s - 1] != PR:
                        ds.append(s - 1)                   # 2-cycle among player states
                    else:
                        ds.append(rng.choice(fwd))
            else:
                ds = [rng.randrange(0, n) for _ in range(m)]
            if any(d <= s for d in ds):
                rew[-1] = 0     # a player state on a cycle carries no reward (keeps the game stopping)
                if s > 0 and (s - 1) in ds:
                    rew[s - 1] = 0
            acts = rng.sample(ACTS, m)
            frs.append(None)
            tl.append([(a, d) for a, d in zip(acts, ds)])
    players += [PR, PR]
    rew += [0, 0]
    tl += [[(1, F)], [(1, S)]]
    frs += [[Fr(1)], [Fr(1)]]
    finals = [F]
    if style in ("cyclic", "players", "tiny") and n > 4 and rng.random() < 0.25:
        extra = rng.randrange(1, n - 2)
        finals = [extra, F] if rng.random() < 0.5 else [F, extra]
        if rng.random() < 0.3:
            finals.append(F)    # repetition
    if style not in ("stopping", "exact", "ties") and rng.random() < 0.12:
        # the initial state itself is final and not absorbing (legal for the reachability claims; the reward
        # claims C02/C06/C14 quantify over games whose final states are absorbing)
        finals = [0] + finals if rng.random() < 0.5 else finals + [0]
    game = dict(rewards=rew, players=players, transition_list=tl, final_states=finals)
    meta = dict(fr=frs, style=style)
    perm = list(range(1, n))
    rng.shuffle(perm)
    perm = [0] + perm
    return rename(game, meta, perm)


def rename(game, meta, perm, acts=None, orders=None):
    """state s becomes perm[s]; optional per-state transition orders and action renaming"""
    n = len(perm)
    inv = [0] * n
    for s, t in enumerate(perm):
        inv[t] = s
    tl, frs, rew, players = [None] * n, [None] * n, [None] * n, [None] * n
    for s in range(n):
        row = [(acts.get(x, x) if (acts and isinstance(x, str)) else x, perm[d])
               for x, d in game["transition_list"][s]]
        fr = meta["fr"][s]
        if orders and orders.get(s):
            o = orders[s]
            row = [row[i] for i in o]
            fr = [fr[i] for i in o] if fr else fr
        tl[perm[s]] = row
        frs[perm[s]] = fr
        rew[perm[s]] = game["rewards"][s]
        players[perm[s]] = game["players"][s]
    g = dict(rewards=rew, players=players, transition_list=tl,
             final_states=[perm[f] for f in game["final_states"]])
    m = dict(meta)
    m["fr"] = frs
    return g, m


def pattern_games(kmax):
    """one state with k successors in every dead/alive pattern, both kinds, in a host game"""
    out = []
    for kind in (P1, PR):
        for k in range(1, kmax + 1):
            for pat in itertools.product([0, 1], repeat=k):
                # states: 0 = the node; 1..k successors; k+1 = F ; k+2 = sink
                F, S = k + 1, k + 2
                succ = list(range(1, k + 1))
                if kind == PR:
                    ws = [Fr(i + 1, k * (k + 1) // 2) for i in range(k)]
                    row = [(_fl(w), d) for w, d in zip(ws, succ)]
                    fr0 = ws
                else:
                    row = [(ACTS[i], d) for i, d in enumerate(succ)]
                    fr0 = None
                tl = [row] + [[(1, F if alive else S)] for alive in pat] + [[(1, F)], [(1, S)]]
                g = dict(rewards=[1] + [i for i in range(k)] + [0, 0],
                         players=[kind] + [PR] * k + [PR, PR], transition_list=tl, final_states=[F])
                out.append((g, dict(fr=[fr0] + [[Fr(1)]] * (k + 2), style="pattern")))
    return out


def zero_rewards(game):
    g = dict(game)
    g["rewards"] = [0] * len(game["rewards"])
    return g


def chain_tie_games():
    """a Player-1 / Player-2 root with three successors whose (exact, one-sweep) reachability values chain-tie around a rounding
    boundary: a and b agree to 6 digits, b and c differ by less than 5e-7, a and c round differently. 'Equal after rounding' is an
    equivalence; 'within half a unit of the running best' is not, and then the listed set depends on the order of the row."""
    import itertools
    out = []
    for base in (0.5, 0.25, 0.9):
        vals = [base, base + 4e-7, base + 8e-7]
        for kind in ("Player 1", "Player 2"):
            for order in itertools.permutations(range(3)):
                acts = ["a", "b", "c"]
                F, S = 4, 5
                tl = [[(acts[i], 1 + i) for i in order]] + [[(vals[i], F), (1 - vals[i], S)] for i in range(3)] + [[(1, F)], [(1, S)]]
                fr = [None] + [[Fr(vals[i]), Fr(1 - vals[i])] for i in range(3)] + [[Fr(1)], [Fr(1)]]
                out.append((dict(rewards=[0, 1, 100, 3, 0, 0], players=[kind, "Probabilistic", "Probabilistic", "Probabilistic",
                                                                         "Probabilistic", "Probabilistic"],
                                 transition_list=tl, final_states=[F]), dict(fr=fr, style="pattern")))
    return out


def minreach_games():
    """Player 2 at the root has two reachability-TIED actions; one leads to a second Player-2 state whose reachability-minimal
    action is the dear one and whose reward-minimal action is the cheap one, the other to a plain state in between. 'Rewards
    under minimal reachability' at the root is the cheaper CONTINUATION UNDER THE REACHABILITY STRATEGIES (5), not the
    continuation of the successor with the smaller expected reward (10). All row orders, two reward scales."""
    import itertools
    out = []
    F, S = 5, 6
    for scale in (1, 7):
        for o0, o1 in itertools.product(((0, 1), (1, 0)), repeat=2):
            r0 = [("a", 1), ("b", 2)]
            r1 = [("x", 3), ("y", 4)]
            tl = [[r0[i] for i in o0], [r1[i] for i in o1], [(0.5, F), (0.5, S)], [(0.5, F), (0.5, S)], [(1, F)], [(1, F)], [(1, S)]]
            fr = [None, None, [Fr(1, 2), Fr(1, 2)], [Fr(1, 2), Fr(1, 2)], [Fr(1)], [Fr(1)], [Fr(1)]]
            out.append((dict(rewards=[0, 0, 5 * scale, 10 * scale, 1 * scale, 0, 0],
                             players=["Player 2", "Player 2"] + ["Probabilistic"] * 5, transition_list=tl, final_states=[F]),
                        dict(fr=fr, style="pattern")))
    return out


def offset_tie_games():
    """a Player-1 / Player-2 root whose successors reach the final state surely and collect large rewards that differ by little in
    RELATIVE terms but by far more than 1e-6 absolutely (1e10, 1e10+1, 1e10+2; 2e6, 2e6+1/1024): every order of the row. They are
    different values - a comparison with a relative tolerance calls them equal. The successors also differ in what they collect
    afterwards, so following the wrong one shows in the diagnostics too."""
    import itertools
    out = []
    for vals in ((1e10, 1e10 + 1, 1e10 + 2), (2e6, 2e6 + 1 / 1024), (3e9 + 1, 3e9)):
        for kind in ("Player 1", "Player 2"):
            for perm in itertools.permutations(vals):
                k = len(perm)
                F, S = 2 * k + 1, 2 * k + 2
                tl = [[("act%d" % i, 1 + i) for i in range(k)]]
                tl += [[(0.5, 1 + k + i), (0.5, F)] for i in range(k)]                 # successor i: reward perm[i], then a coin
                tl += [[(1, F)] if i % 2 == 0 else [(0.5, F), (0.5, S)] for i in range(k)]   # ... into a state worth i (some lose)
                tl += [[(1, F)], [(1, S)]]
                fr = [None] + [[Fr(1, 2), Fr(1, 2)]] * k + [[Fr(1)] if i % 2 == 0 else [Fr(1, 2), Fr(1, 2)] for i in range(k)] + [[Fr(1)], [Fr(1)]]
                out.append((dict(rewards=[0] + [float(v) for v in perm] + [float(i) for i in range(k)] + [0, 0],
                                 players=[kind] + ["Probabilistic"] * (2 * k + 2), transition_list=tl, final_states=[F]),
                            dict(fr=fr, style="pattern")))
    return out


def dup_label_games(games, rng, count):
    """for `count` of the given games: a player state with two or more actions gets the SAME label on its first two transitions
    (the rules ask for a string per action, not for distinct strings): the solver works with transitions, so both stay separate
    moves; the oracle that keys on labels is switched off for them (guard 'any'), model and predicates are not"""
    out = []
    def acyclic(g):
        # no cycle except absorbing self-loops: with two moves under one label Player 1 keeps moves it would otherwise have cut,
        # and on a cyclic game that can leave a rewarded loop without exit in the conditioned game (the reward loop then
        # diverges, as for any non-stopping game: K4) - such descriptions are not inputs of the termination claims
        n = len(g["players"])
        succ = [[d for _, d in row if d != s] for s, row in enumerate(g["transition_list"])]
        color = [0] * n
        for r0 in range(n):
            if color[r0]:
                continue
            stack = [(r0, iter(succ[r0]))]
            color[r0] = 1
            while stack:
                v, it = stack[-1]
                nxt = next(it, None)
                if nxt is None:
                    color[v] = 2
                    stack.pop()
                elif color[nxt] == 1:
                    return False
                elif color[nxt] == 0:
                    color[nxt] = 1
                    stack.append((nxt, iter(succ[nxt])))
        return True
    pool = [gm for gm in games if not gm[1].get("patient") and acyclic(gm[0])
            and any(p != "Probabilistic" and len(row) >= 2 and row[0][1] != row[1][1]
                    for p, row in zip(gm[0]["players"], gm[0]["transition_list"]))]
    rng.shuffle(pool)
    for g, m in pool[:count]:
        tl = [list(r) for r in g["transition_list"]]
        cand = [i for i, (p, row) in enumerate(zip(g["players"], tl)) if p != "Probabilistic" and len(row) >= 2 and row[0][1] != row[1][1]]
        for i in cand[:2]:
            tl[i][1] = (tl[i][0][0], tl[i][1][1])
        out.append((dict(g, transition_list=tl), dict(m, guard="any", dup_labels=True)))
    return out


def extra_families(rng, base, count):
    """the families that came out of the seeded-change rounds, `count` games each, derived from `base` (games whose reward
    loop terminates): orphan states without a losing state; twins spelt with a shared list object (same owner / other
    owner); two final states listed in descending order"""
    base = [gm for gm in base if gm[1].get("style") in ("stopping", "exact")]
    huge = []
    for g, m in orphan_games(rng, count):
        # the same kind of acyclic game with rewards of the order 1e21 (exact binary64 values): far beyond sys.maxsize
        huge.append((dict(g, rewards=[float(x) * 2.0 ** 70 for x in g["rewards"]]), dict(m, huge=True)))
    for g, m in orphan_games(rng, count):
        # large rewards that differ by single units (1e10 + 0, 1, 2, 5): exactly representable, and different - a comparison
        # with a RELATIVE tolerance would call them equal
        huge.append((dict(g, rewards=[float(10 ** 10 + x) if x > 0 else 0.0 for x in g["rewards"]]), dict(m, offset=True)))
    return (orphan_games(rng, count) + twin_games(base, rng, count) + twin_games(base, rng, count, cross=True)
            + two_final_games(base, rng, count) + huge + dup_label_games(base + orphan_games(rng, count), rng, count))


def orphan_games(rng, count):
    """small acyclic games WITHOUT a losing state (every state reaches the final state with probability 1, so the
    smallest reported probability is positive) that also contain one or two 'orphan' states: Player-2 / probabilistic
    states with a positive reward and real transitions that no transition points to. With pruning they are emptied,
    without pruning they keep their value - the two modes of such a game differ only there."""
    out = []
    for _ in range(count):
        k = rng.randint(2, 5)                       # inner states 1..k, then F = k+1, then the orphans
        n = k + 2
        F = k + 1
        players, rewards, tl = [], [], []
        for s in range(k + 1):
            kind = "Player 1" if s == 0 and rng.random() < 0.6 else rng.choice(["Player 1", "Player 2", "Probabilistic"])
            later = list(range(s + 1, F + 1))
            m = min(len(later), rng.randint(1, 3))
            ds = rng.sample(later, m)
            if kind == "Probabilistic":
                ws = [[1.0], [0.5, 0.5], [0.25, 0.5, 0.25]][m - 1]
                tl.append(list(zip(ws, ds)))
            else:
                tl.append(list(zip(rng.sample(ACTS[:9], m), ds)))
            players.append(kind)
            rewards.append(rng.choice([0, 1, 2, 5]))
        players.append("Probabilistic"); rewards.append(0); tl.append([(1, F)])
        for _o in range(rng.randint(1, 2)):
            kind = rng.choice(["Player 2", "Probabilistic"])
            ds = rng.sample(range(1, F + 1), min(2, F))
            tl.append(list(zip([0.5, 0.5][:len(ds)] if len(ds) == 2 else [1.0], ds)) if kind == "Probabilistic"
                      else list(zip(rng.sample(ACTS[:9], len(ds)), ds)))
            players.append(kind); rewards.append(rng.choice([1, 3, 5]))
        fr = [[Fr(w) for w, _ in row] if kd == "Probabilistic" else None for kd, row in zip(players, tl)]
        out.append((dict(players=players, rewards=rewards, transition_list=tl, final_states=[F]),
                    dict(style="corpus", orphan=True, fr=fr)))
    return out


def twin_games(games, rng, count, cross=False):
    """for `count` of the given (game, meta): append a state t' that copies the owner and the transition list of a
    non-Player-1 state t (cross=True: of a player state, the copy owned by the other player), has reward 0 and no predecessor (variant 0), or whose only predecessor is a further new
    predecessor-less probabilistic state (variant 1: t' is dropped in the second round of prune_states). meta gets
    share=True: the harness spells the description with ONE list object for equal rows, so a solver that empties a
    dropped state's list in place would empty t's as well."""
    out = []
    ok = (lambda p: p != "Probabilistic") if cross else (lambda p: p != "Player 1")
    pool = [gm for gm in games if any(ok(p) and row for p, row in zip(gm[0]["players"], gm[0]["transition_list"]))]
    rng.shuffle(pool)
    for k, (g, m) in enumerate(pool[:count]):
        cand = [i for i, (p, row) in enumerate(zip(g["players"], g["transition_list"])) if ok(p) and row]
        t = rng.choice(cand)
        owner = g["players"][t]
        h = dict(players=list(g["players"]) + [owner], rewards=list(g["rewards"]) + [0],
                 transition_list=[list(r) for r in g["transition_list"]] + [list(g["transition_list"][t])],
                 final_states=list(g["final_states"]))
        mm = dict(m, share=True, twin=t)
        if "fr" in mm:
            mm["fr"] = list(mm["fr"]) + [mm["fr"][t]]
        if k % 2:
            n = len(h["players"])
            h["players"].append("Probabilistic"); h["rewards"].append(0); h["transition_list"].append([(1, n - 1)])
            if "fr" in mm:
                mm["fr"] = mm["fr"] + [[Fr(1)]]
        if cross:
            # the copy belongs to the OTHER player: one list object then serves a Player-1 and a Player-2 state
            h["players"][len(g["players"])] = "Player 2" if owner == "Player 1" else "Player 1"
        out.append((h, mm))
    return out


def two_final_games(games, rng, count):
    """for `count` of the given (game, meta): add a second, absorbing final state with the LARGEST number, redirect one
    transition of a probabilistic state to it, and list the final states in DESCENDING order (sometimes with a
    repetition): a legal description whose final_states a careless in-place sort would reorder."""
    out = []
    pool = list(games)
    rng.shuffle(pool)
    for g, m in pool[:count]:
        n = len(g["players"])
        fs = list(g["final_states"])
        tl = [list(r) for r in g["transition_list"]]
        cand = [i for i in range(n) if g["players"][i] == "Probabilistic" and i not in fs and len(tl[i]) >= 2]
        if cand:
            i = rng.choice(cand)
            k = rng.randrange(len(tl[i]))
            tl[i][k] = (tl[i][k][0], n)
        tl.append([(1, n)])
        finals = [n] + sorted(set(fs), reverse=True)
        if rng.random() < 0.3:
            finals.append(n)
        h = dict(players=list(g["players"]) + ["Probabilistic"], rewards=list(g["rewards"]) + [0], transition_list=tl,
                 final_states=finals)
        mm = dict(m)
        if "fr" in mm:
            mm["fr"] = list(mm["fr"]) + [[Fr(1)]]
        out.append((h, mm))
    return out


TERMINATING = ("stopping", "exact", "ties", "pattern", "corpus")   # styles whose reward loop must terminate

def pattern_games3(kmax, tiny=1e-7):
    """like pattern_games, but each successor is dead (0), alive (reaches F surely) or barely alive (reaches F
    with probability `tiny`, far below the solver's threshold and its 6-digit rounding). Variants: the pattern node is
    the initial state, or hosted behind an initial coin flip (0.5 -> F, 0.5 -> node), which forces a second sweep so
    that the node's own tiny value is actually computed and the game is solvable; hosted patterns also come with
    Player-2 successors (which pruning never empties, so a dead one keeps its reward)."""
    out = []
    for hosted, succ_kind in ((False, PR), (True, PR), (True, P2)):
        for kind in (P1, PR):
            for k in range(1, kmax + 1):
                for pat in itertools.product([0, 1, 2], repeat=k):
                    if 2 not in pat:
                        continue
                    o = 1 if hosted else 0            # index of the pattern node
                    nt = sum(1 for a in pat if a == 2) if succ_kind == P2 else 0   # helper tiny states
                    F, S = o + k + nt + 1, o + k + nt + 2
                    succ = list(range(o + 1, o + k + 1))
                    if kind == PR:
                        ws = [Fr(i + 1, k * (k + 1) // 2) for i in range(k)]
                        row, fr0 = [(_fl(w), d) for w, d in zip(ws, succ)], ws
                    else:
                        row, fr0 = [(ACTS[i], d) for i, d in enumerate(succ)], None
                    tl, fr, players = [row], [fr0], [kind]
                    helper = o + k + 1
                    helpers = []
                    for a in pat:
                        if succ_kind == PR:
                            players.append(PR)
                            if a == 2:
                                tl.append([(tiny, F), (1 - tiny, S)]); fr.append([Fr(tiny), 1 - Fr(tiny)])
                            else:
                                tl.append([(1, F if a else S)]); fr.append([Fr(1)])
                        else:
                            players.append(P2)
                            fr.append(None)
                            if a == 2:
                                tl.append([("x", helper)]); helpers.append(helper); helper += 1
                            else:
                                tl.append([("x", F if a else S)])
                    for _ in helpers:
                        players.append(PR); tl.append([(tiny, F), (1 - tiny, S)]); fr.append([Fr(tiny), 1 - Fr(tiny)])
                    tl += [[(1, F)], [(1, S)]]
                    fr += [[Fr(1)], [Fr(1)]]
                    players += [PR, PR]
                    rew = [1] + [i + 1 for i in range(k)] + [0] * nt + [0, 0]
                    if hosted:
                        tl = [[(0.5, F), (0.5, 1)]] + tl
                        fr = [[Fr(1, 2), Fr(1, 2)]] + fr
                        rew = [0] + rew
                        players = [PR] + players
                    g = dict(rewards=rew, players=players, transition_list=tl, final_states=[F])
                    out.append((g, dict(fr=fr, style="tinypattern", full=True, guard="cond")))
                    if hosted:
                        # the same game with the inner states numbered in reverse: the in-place sweep then sees the
                        # successors' values before the node's own update, so the node's tiny value is computed
                        n = len(players)
                        perm = [0] + [n - 2 - s for s in range(1, n - 2)] + [n - 2, n - 1]
                        out.append(rename(g, dict(fr=fr, style="tinypattern", full=True, guard="cond"), perm))
    return out


FIG55 = dict(
    rewards=[0, 2, 5 / 3, 0, 0, 0, 0, 0],
    players=[P1, P2, P2, PR, PR, PR, PR, PR],
    transition_list=[[("alfa", 1), ("beta", 2)], [(" ", 3)], [(" ", 4)],
                     [(0.5, 5), (0.5, 6)], [(0.75, 6), (0.25, 7)], [(1, 5)], [(1, 6)], [(1, 7)]],
    final_states=[6])
FIG55_META = dict(fr=[None, None, None, [Fr(1, 2), Fr(1, 2)], [Fr(3, 4), Fr(1, 4)], [Fr(1)], [Fr(1)], [Fr(1)]],
                  style="corpus")


def mixed_games(rng, count, nmin=3, nmax=9, styles=("stopping", "exact", "cyclic", "players", "tiny")):
    out = []
    for i in range(count):
        st = styles[i % len(styles)]
        out.append(gen_game(rng, rng.randint(nmin, nmax), st))
    return out
