"""Plug-in operations for the board generator checks (C08, C11): the command-line entry point and
the manual entry point, each run in a scratch working directory that has an inputs/ directory."""
import os, subprocess, sys, tempfile

_repo = sys.argv[1] if len(sys.argv) > 1 else "/repo"
from common import enc, dec   # noqa: E402


def _collect(d):
    """what a run left behind in scratch dir d: file list, the single file's text and the
    dictionary the solver's reader loads from it"""
    import conditionalrewards as cr
    inp = os.path.join(d, "inputs")
    files = sorted(os.listdir(inp)) if os.path.isdir(inp) else []
    top = sorted(x for x in os.listdir(d) if x != "inputs")
    out = {"files": files, "top": top}
    if len(files) == 1:
        path = os.path.join(inp, files[0])
        out["text"] = open(path).read()
        try:
            games = cr.read_dict_from_file(path)
            out["read"] = enc(games)
            out["read_type"] = type(games).__name__
        except Exception as e:   # noqa: BLE001
            out["read_exc"] = {"exc": type(e).__name__, "msg": str(e)}
    return out


def op_rg_cli(c):
    """python roberta_generator.py <argv> in a scratch cwd"""
    os.makedirs(c["scratch"], exist_ok=True)
    with tempfile.TemporaryDirectory(dir=c["scratch"]) as d:
        os.makedirs(os.path.join(d, "inputs"))
        env = dict(os.environ, PYTHONPATH=_repo, PYTHONHASHSEED="0", PYTHONDONTWRITEBYTECODE="1")
        try:
            p = subprocess.run([sys.executable, os.path.join(_repo, "roberta_generator.py")] + list(c["argv"]),
                               cwd=d, env=env, stdout=subprocess.PIPE, stderr=subprocess.PIPE, text=True,
                               timeout=c.get("cli_limit", 120))
        except subprocess.TimeoutExpired:
            return {"timeout": True}
        out = _collect(d)
        out.update(rc=p.returncode, stderr=p.stderr[-600:], stdout=p.stdout[-300:])
        return out


def op_rg_manual(c):
    """stochastic_game_from_roborta_board.create_sg_from_board in a scratch cwd"""
    import stochastic_game_from_roborta_board as m
    a = dec(c["args"])   # moves, rewards, loose, prob_robot_break, prob_light_break, prob_tile_break
    os.makedirs(c["scratch"], exist_ok=True)
    cwd = os.getcwd()
    with tempfile.TemporaryDirectory(dir=c["scratch"]) as d:
        os.makedirs(os.path.join(d, "inputs"))
        os.chdir(d)
        try:
            try:
                import copy
                before = copy.deepcopy(a)
                m.create_sg_from_board(*a)
                first = _collect(d).get("text")
                inp = os.path.join(d, "inputs")
                for fn in os.listdir(inp):          # the file of an earlier, bigger board under the same name
                    with open(os.path.join(inp, fn), "a") as f:
                        f.write("# stale tail of an earlier file\n" * 400)
                m.create_sg_from_board(*a)          # same board objects again: same file again
                out = {"rc": 0, "args_intact": a == before}
                out["first_same"] = first == _collect(d).get("text")
            except Exception as e:   # noqa: BLE001
                out = {"rc": 1, "exc": type(e).__name__, "msg": str(e)}
        finally:
            os.chdir(cwd)
        out.update(_collect(d))
        return out


OPS = {"rg_cli": op_rg_cli, "rg_manual": op_rg_manual}
