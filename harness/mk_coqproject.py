"""Regenerates coq/_CoqProject from coq/files.d/*.txt (one list per owner; a file is listed only
once it compiles). Rewrites the file only when the content changes."""
import glob, os
COQ = os.path.join(os.path.dirname(os.path.dirname(os.path.abspath(__file__))), "coq")
def main():
    files = []
    for lst in sorted(glob.glob(os.path.join(COQ, "files.d", "*.txt"))):
        for line in open(lst):
            line = line.strip()
            if line and not line.startswith("#") and line not in files:
                files.append(line)
    text = "-Q . CR\n-arg -w -arg -notation-overridden\n" + "\n".join(files) + "\n"
    path = os.path.join(COQ, "_CoqProject")
    if not os.path.exists(path) or open(path).read() != text:
        open(path, "w").write(text)
if __name__ == "__main__":
    main()
