"""Plug-in operation for C09: the validation prefix of StochasticGame.solve on its own
(check_game, then init_states -> Node.__init__ -> check_next_states), through the public methods,
in the order solve() calls them. Nothing after validation runs, so the outcome class and message
are exactly the validator's."""
import tad
from common import dec


def op_c09_validate(c):
    game = dec(c["game"])
    try:
        sg = tad.StochasticGame(**game)
        sg.check_game()
        sl = sg.init_states()
        return {"ok": len(sl)}
    except Exception as e:   # noqa: BLE001
        return {"exc": type(e).__name__, "msg": str(e)}


OPS = {"c09_validate": op_c09_validate}
