"""Writes MANIFEST.json from the table below (kept in one place so it stays valid)."""
import json, os
VERIF = os.path.dirname(os.path.dirname(os.path.abspath(__file__)))
BASELINE = "cd /repo && /venv/bin/python -m pytest -ra -q -p no:cacheprovider --timeout=900 --continue-on-collection-errors"
NOTE = ("Trusted base: Coq 8.16.1 kernel (vm_compute used, native_compute not used); every property theorem is "
        "closed under the global context (Print Assumptions, re-read on every run); the hand-written Gallina model "
        "coq/Model/*.v, tied to /repo's working tree on every run by the correspondence check (model evaluated by "
        "vm_compute in generated files vs. the real Python code, bit-exact for binary64 values); harness/*.py. "
        "No extraction, no translator, no axioms declared.")
CHECKS = {
 "C07": dict(
    text="Theorems (all graphs, all final lists, any size/depth): the search model returns exactly the sorted, duplicate-free "
         "set of non-final states with a path to a final state, never crashes or runs out of fuel; the reversed table lists u "
         "under v once per transition in source order. The model is run against reverse_dfs.py on exhaustive small graphs, "
         "random graphs and 1500-5000-state chains; since the model is proved equal to the specification every mismatch is a "
         "concrete violating input.",
    design="5/C07", technique="Coq proof of DFS correctness (invariant + potential-function fuel bound) + differential correspondence"),
}
CHECKS.update({
 "C01": dict(
    text="Theorems for every well-formed game and every number instance (so also binary64): finals report exactly 1, states without a "
         "path to a final state exactly 0, probabilities independent of the pruning flag. The model is compared bit-for-bit (values and "
         "sweep count) with Solver.solve_reachability / StochasticGame.solve on generated games; an exact Fraction oracle checks "
         "'never above the true value' and closeness on guarded families. The error form of 'within tolerance' is false: known finding K1.",
    design="5/C01", technique="Coq proof (frame lemmas of the Gauss-Seidel loop + C07) + bit-exact differential correspondence + exact-oracle search"),
 "C03": dict(
    text="Theorems (generic in the numbers): after prune_paths no Player-1/probabilistic state keeps a transition into a zero-probability "
         "state, survivors are the alive successors in place, weights are old/surviving-total, Player 2 untouched, restriction keeps exactly "
         "the strategy's actions, prune_states never touches states reachable from state 0 and terminates; end-to-end on solve. "
         "Correspondence on every node's transition list at the start of the reward loop, every dead/alive pattern.",
    design="5/C03", technique="Coq proof (list/filter lemmas, loop invariants) + differential correspondence on pruned lists"),
 "C04": dict(
    text="Theorems: the Player-1/2 scans return exactly the actions whose rounded successor value equals the running max/min (under "
         "total-order laws proved for exact rationals), probabilistic states none, identical in both pruning modes (any instance). "
         "Correspondence on reported strategies incl. tie grids; exact-oracle check on the exact family; true ties computed inexactly: K1.",
    design="5/C04", technique="Coq proof (fold invariant: scan = arg-max filter) + differential correspondence"),
 "C05": dict(
    text="Theorem for every well-formed game and every instance: the final strategy of a Player-1 state is included in its reachability "
         "strategy; the final scans are arg-max/arg-min of rounded expected rewards over the remaining transitions. Correspondence on both "
         "strategy lists; independent recomputation from the reported values.",
    design="5/C05", technique="Coq proof (pipeline inversion + frame lemmas) + differential correspondence"),
 "C06": dict(
    text="Theorem (any instance): for a well-formed game solve can only return a complete result, raise 'no solution' (pruning on), or run "
         "out of the fuel of one of the two value-iteration loops / hit the reward step's unbound-variable branch (both excluded for exact "
         "rationals where proved); search and prune_states always terminate. Every implementation run has a time limit; outcome class and "
         "message compared with the model.",
    design="5/C06", technique="Coq proof (outcome classification by case analysis of the pipeline, termination measures) + differential correspondence with time limits"),
})
CHECKS.update({
 "C09": dict(
    text="Theorems over a universe of dynamic Python values (None/bool/int/float/str/tuple/list): the validator model accepts a description "
         "iff it satisfies the ten documented rules (WFdoc), every malformed description inside the universe yields ValueError with the first "
         "message the code raises (never a result), boundary lemmas (index n and -1, bool is int), and the batch runner records "
         "'Error while solving the game: <msg>' and continues. Correspondence: every rule x every position x boundary values on host games, "
         "outcome class and message, through solve (both modes) and run_games.",
    design="5/C09", technique="Coq proof (validator = declarative WF predicate, first-error lemmas) + mutation-by-rule differential correspondence"),
 "C15": dict(
    text="Theorems over an abstract random source: the board has L rows of W entries, rewards in [0,max], loose flags in {0,1} with "
         "loose <-> draw < p, arrows in the allowed set with a down-only tile per row exactly under force-down; check_input accepts iff all "
         "eight documented range conditions hold, and which message is raised first; a refused parameter set never reaches the file write. "
         "The Mersenne Twister stream and libm log are oracles: reproducibility is covered by correspondence (same board twice in a process "
         "and across processes) and the model is replayed on the actual draws.",
    design="5/C15", technique="Coq proof over an abstract random source + differential correspondence on replayed draws + CLI boundary runs"),
 "C16": dict(
    text="Theorems: the report is one 15-line block per result entry in order, line k = fixed label ++ rendering of field k, 'Are equal' is "
         "structural equality of the two strategy values, splitting at the label and parsing returns the field (under the repr/eval round-trip "
         "hypothesis), the report of dir/stem.py is outputs/stem.txt. Correspondence: full report text vs the model's rendering; every line "
         "re-parsed equals the run_games value; the reader is compared with an independent safe evaluator on all repository inputs.",
    design="5/C16", technique="Coq proof (string layout/readback lemmas) + differential correspondence on report text"),
 "C17": dict(
    text="Theorems: for every k in 1..99 the binary64 nearest k/100 is printed as k (finite sweep by vm_compute lifted with forallb_forall, "
         "bound stated); the file name is the documented layout and two whole-percent parameter sets (all naturals) with equal names are equal "
         "(decimal numerals followed by a non-digit are uniquely decodable), likewise for the manual entry point; the original truncation is "
         "refuted (k=29). Correspondence of prob_to_str and of the created path through the CLI.",
    design="5/C17", technique="Coq proof (finite binary64 sweep + injectivity of decimal rendering) + differential correspondence via the CLI",
    note="Print Assumptions lists only the kernel's PrimFloat/PrimInt63 primitives for the theorems that compute with binary64."),
})
CHECKS.update({
 "C02": dict(
    text="Theorem (any instance): the transition lists on which the reward loop runs are, state by state, the rows of the conditioned game "
         "built from the reported strategies and probabilities (restriction of Player 1, dead successors removed, survivors renormalised), "
         "emptied only for non-Player-1 states not reachable from the initial state; emptied states are worth 0. The numeric half is checked in "
         "its Bellman-consistency form on every run and against an exact max-min oracle on guarded families; the error form is false (K1-C02).",
    design="5/C02", technique="Coq proof (composition of pruning/frame lemmas) + bit-exact differential correspondence + exact-oracle search"),
 "C10": dict(
    text="Theorems over an explicit store of list objects (alias / rebind / remove-in-place): solving never writes to a location the caller can see "
         "(whatever the outcome), the store-level pipeline refines the pure one, and any sequence of solves on one description returns exactly the "
         "pure results; with the pinned in-place scan figure 5.5 is damaged and the second solve fails (refutation). Correspondence on solve "
         "sequences incl. object identity and the predicted store contents.",
    design="5/C10", technique="Coq proof (frame/refinement over a heap model of list aliasing) + differential correspondence on solve sequences"),
 "C12": dict(
    text="Theorems: under independent names each game's two entries equal those of running it alone (any position, any other games), failure "
         "protocol messages, all games present, keys in run order; name collision refuted (K2). Correspondence of run_games entries with the model and "
         "with solo runs over dictionaries of well-formed, malformed and unsolvable games in all orders.",
    design="5/C12", technique="Coq proof (association-list model of dict semantics on top of the heap model) + differential correspondence"),
 "C13": dict(
    text="Theorems: the backward search, paths, the Bellman operator and every finite-horizon value are equivariant under renaming states "
         "(any bijection) and reordering transitions (any permutation of each row). End-to-end equality within tolerance is not a theorem "
         "(sweep order; K1-C13); proved in conditional form (C13_reports_within_tolerance: under an absorption-time certificate for each description "
         "the two reports differ by at most threshold * certificate) and asserted by the metamorphic check: implementation on g vs on renamed g, exact on the exact family.",
    design="5/C13", technique="Coq proof (equivariance of search and Bellman operator) + metamorphic differential testing of the implementation"),
 "C14": dict(
    text="Theorems (any instance): one reward step makes both diagnostics follow the successor picked by the reward step (Player 1/2), "
         "weighted sums for probabilistic states, Player 2's reward diagnostic ranges over its 6-digit reachability strategy, seeded from "
         "reachability; residual form end to end on exact rationals (C14_diagnostics_consistent: when solve returns, expected reward and both "
         "diagnostics satisfy the step equations on the conditioned rows up to 1e-6 at every state; the check evaluates this predicate on the "
         "implementation's output). The end-to-end equality with the induced chain is REFUTED on the model (C14_stale_diagnostic_refuted, known finding K5: a "
         "player state whose final strategy never reaches a final state keeps a stale value); the check prints it as KNOWN-FINDING and the "
         "oracle skips exactly the states whose induced chain passes through such a state. Correspondence bit-exact on both diagnostic "
         "vectors; induced-chain oracle on guarded families.",
    design="5/C14 and Appendix D.4/E", technique="Coq proof (fold invariants of the reward step) + bit-exact differential correspondence + induced-chain oracle"),
})
CHECKS.update({
 "C08": dict(
    text="Theorems (any number instance, all lengths/widths >= 1, all boards, symbolic probabilities): for each of the three emitted games the "
         "index map group*L*W + i*W + j is a bisimulation between the Roborta rule game (lights, robot moves with wrap-around, loose tiles, "
         "robot/light failures) from Light(0,0) and the generated game from state 0 - equal owner, reward, finality, and transition lists equal "
         "label by label and probability by probability; the original one-column case order is refuted (D3). Correspondence: the model's three "
         "games vs the file written by write_robots and read back by the solver's reader, every board up to 3 (thorough 4) tiles; an independent "
         "Python rule game is checked bisimilar by partition refinement.",
    design="5/C08", technique="Coq proof (index lemmas for nested-loop lists + bisimulation) + differential correspondence on generated files"),
 "C11": dict(
    text="Theorems (exact rationals; structural part for any instance): every generated game has the right lengths, passes check_game and "
         "init_states, every state has a transition into range, probabilistic weights are > 0 and sum to 1, the winning state is the only final "
         "state and absorbing, the losing state absorbing. Correspondence on files from write_robots, the CLI and the manual entry point (exactly "
         "the keys game_a/b/c; eval agrees with ast.literal_eval). The last clause ('solved or reported unsolvable') is false for some boards: "
         "known finding K4 (non-terminating reward loop), asserted only under an input-side termination guard.",
    design="5/C11", technique="Coq proof (layout/validation/probability lemmas over nested-loop builders) + differential correspondence via the CLI"),
})
PENDING = {}


def main():
    props = [json.loads(l) for l in open(os.path.join(VERIF, "properties.jsonl"))]
    checks, na = [], []
    for p in props:
        pid = p["id"]
        if pid in CHECKS:
            c = CHECKS[pid]
            checks.append(dict(
                property_id=pid, quick_cmd="./check %s --tier quick" % pid,
                thorough_cmd="./check %s --tier thorough" % pid,
                evidence_file="evidence/%s.json" % pid,
                replay_cmd_template="./check %s --replay {path}" % pid,
                engine="coq-model+correspondence",
                level_claimed=dict(category="proof", text=c["text"], design_ref="DESIGN.md section " + c["design"]),
                level_note=NOTE + " " + c.get("note", ""), technique=c["technique"]))
        else:
            na.append(dict(property_id=pid, reason=PENDING.get(pid, "check not built yet in this development (model/theorems under construction); not claimed")))
    m = dict(version=1,
             setup_cmd="python3 harness/mk_coqproject.py && cd coq && coq_makefile -f _CoqProject -o Makefile && (make -j16 -k || echo 'some Coq files did not build: the checks that need them will report it')",
             hooks=dict(guard="CONDREWARDS_VERIF", enable="no hooks are needed: the checks observe the public API only",
                        baseline_off_cmd=BASELINE, source_commits=[], add_only=True),
             engines=[dict(name="coq-model+correspondence", path="coq/ harness/ check",
                           serves_properties=sorted(CHECKS), kind_free_text="Coq 8.16 theorems about a hand-written Gallina model; "
                           "model tied to the code by a bit-exact differential correspondence check run on every invocation")],
             checks=checks, not_applicable=na,
             notes="Repairs of genuine defects are the five 'fix:' commits in /repo (defects D1-D6; see known_findings.json and DESIGN.md section 2 and Appendix D); recorded, unrepaired findings are K1-K5 (known_findings.json), each printed as KNOWN-FINDING by the check of its property. No hooks: the checks observe the public API, the command-line tools and the files they write; the one wrapper (a snapshot of the node lists when the reward loop starts) is installed by the harness at run time, not in /repo.")
    json.dump(m, open(os.path.join(VERIF, "MANIFEST.json"), "w"), indent=1)
if __name__ == "__main__":
    main()
