"""Writes MANIFEST.json from the table below (kept in one place so it stays valid)."""
import json, os
VERIF = os.path.dirname(os.path.dirname(os.path.abspath(__file__)))
BASELINE = "cd /repo && /venv/bin/python -m pytest -ra -q -p no:cacheprovider --timeout=900 --continue-on-collection-errors"
NOTE = ("Trusted base: Coq 8.16.1 kernel (vm_compute used, native_compute not used); every property theorem is "
        "closed under the global context (Print Assumptions, re-read on every run); the hand-written Gallina model "
        "coq/Model/*.v, tied to /repo's working tree on every run by the correspondence check (model evaluated by "
        "vm_compute in generated files vs. the real Python code, bit-exact for binary64 values); harness/*.py. "
        "No extraction, no translator, no axioms declared.")
CHECKS = {
 "C07": dict(
    text="Theorems (all graphs, all final lists, any size/depth): the search model returns exactly the sorted, duplicate-free "
         "set of non-final states with a path to a final state, never crashes or runs out of fuel; the reversed table lists u "
         "under v once per transition in source order. The model is run against reverse_dfs.py on exhaustive small graphs, "
         "random graphs and 1500-5000-state chains; since the model is proved equal to the specification every mismatch is a "
         "concrete violating input.",
    design="5/C07", technique="Coq proof of DFS correctness (invariant + potential-function fuel bound) + differential correspondence"),
}
PENDING = {}
def main():
    props = [json.loads(l) for l in open(os.path.join(VERIF, "properties.jsonl"))]
    checks, na = [], []
    for p in props:
        pid = p["id"]
        if pid in CHECKS:
            c = CHECKS[pid]
            checks.append(dict(
                property_id=pid, quick_cmd="./check %s --tier quick" % pid,
                thorough_cmd="./check %s --tier thorough" % pid,
                evidence_file="evidence/%s.json" % pid,
                replay_cmd_template="./check %s --replay {path}" % pid,
                engine="coq-model+correspondence",
                level_claimed=dict(category="proof", text=c["text"], design_ref="DESIGN.md section " + c["design"]),
                level_note=NOTE + " " + c.get("note", ""), technique=c["technique"]))
        else:
            na.append(dict(property_id=pid, reason=PENDING.get(pid, "check not built yet in this development (model/theorems under construction); not claimed")))
    m = dict(version=1,
             setup_cmd="python3 harness/mk_coqproject.py && cd coq && coq_makefile -f _CoqProject -o Makefile && make -j16",
             hooks=dict(guard="CONDREWARDS_VERIF", enable="no hooks are needed: the checks observe the public API only",
                        baseline_off_cmd=BASELINE, source_commits=[], add_only=True),
             engines=[dict(name="coq-model+correspondence", path="coq/ harness/ check",
                           serves_properties=sorted(CHECKS), kind_free_text="Coq 8.16 theorems about a hand-written Gallina model; "
                           "model tied to the code by a bit-exact differential correspondence check run on every invocation")],
             checks=checks, not_applicable=na,
             notes="Repairs of genuine defects are the four 'fix:' commits in /repo (see known_findings.json and DESIGN.md section 2).")
    json.dump(m, open(os.path.join(VERIF, "MANIFEST.json"), "w"), indent=1)
if __name__ == "__main__":
    main()
