(** C12 — batch runs solve each game in isolation and report failures.
    Statements only; proofs live in Proofs/BatchP.v.  Model: Model/Batch.v ([run_games] over
    association lists with Python dict semantics, each solve on a deep copy = a store of its own,
    Model/Heap.v). *)
From Coq Require Import String List Arith Bool QArith.
From CR Require Import Model.Num Model.Outcome Model.Graph Model.Game Model.Heap Model.Batch
                       Proofs.HeapP Proofs.BatchP.
Import ListNotations.
Local Open Scope string_scope.

(* Isolation.  For every number instance, every fuel, every dictionary [gs] whose result keys do
   not collide, and every game (n, g) in it - at any position, whatever the other games are, well
   formed or not: if the run returns, the entries stored under n and n ++ "_no_prune" are exactly
   (all fields) the two entries of the run of the one-game dictionary {n: g}. *)
Theorem C12_isolation : forall {T} (K : ops T) fuel (gs : list (string * @game T)) d n g,
  names_independent gs -> In (n, g) gs -> run_games_fuel K fuel gs = Ok d ->
  exists d1 e1 e2, run_games_fuel K fuel [(n, g)] = Ok d1
    /\ sdict_get d1 n = Some e1 /\ sdict_get d1 (n ++ sfx) = Some e2
    /\ sdict_get d n = Some e1 /\ sdict_get d (n ++ sfx) = Some e2.
Proof. intros T K. exact (isolation K). Qed.
Print Assumptions C12_isolation.

(* ... and they are what the two pure solves of g give (so everything proved about [solve_fuel]
   holds of the batch entries): the run goes through a deep copy and the store pipeline, which
   C10_refines reduces to the pure pipeline. *)
Theorem C12_entries_are_solo_solves : forall {T} (K : ops T) fuel (gs : list (string * @game T)) d n g r r',
  names_independent gs -> In (n, g) gs -> run_games_fuel K fuel gs = Ok d ->
  solve_fuel K fuel g true = Ok r -> solve_fuel K fuel g false = Ok r' ->
  sdict_get d n = Some (solved_entry g r) /\ sdict_get d (n ++ sfx) = Some (solved_entry g r').
Proof. intros T K. exact (solved_protocol K). Qed.
Print Assumptions C12_entries_are_solo_solves.

(* Failure protocol.  If the pruned solve of g raises ValueError(m) - a well-formedness error or
   "The game has no solution..." - its entry carries "Error while solving the game: " ++ m, its
   unpruned entry is "Game not solved", both with empty results (None / 0 as in the code) and the
   counts of the description. *)
Theorem C12_failure_protocol : forall {T} (K : ops T) fuel (gs : list (string * @game T)) d n g m,
  names_independent gs -> In (n, g) gs -> run_games_fuel K fuel gs = Ok d ->
  solve_fuel K fuel g true = ValueErr m ->
  sdict_get d n = Some (mkE (length (g_players g)) (count_transitions g) 0 0
                            PyNone PyNone PyNone PyZero PyNone PyZero
                            ("Error while solving the game: " ++ m))
  /\ sdict_get d (n ++ sfx) = Some (mkE (length (g_players g)) (count_transitions g) 0 0
                            PyNone PyNone PyNone PyZero PyNone PyZero "Game not solved").
Proof. intros T K. exact (failure_protocol K). Qed.
Print Assumptions C12_failure_protocol.

(* The remaining games are still processed: a ValueError never stops the run (only an exception
   of another class - or the model's fuel - can), and a run that returns has both entries of
   EVERY game, before, between or after failing ones. *)
Theorem C12_valueerr_never_aborts : forall {T} (K : ops T) fuel (gs : list (string * @game T)),
  (forall n g p, In (n, g) gs -> no_abort (solve_fuel K fuel g p)) ->
  exists d, run_games_fuel K fuel gs = Ok d.
Proof. intros T K. exact (valueerr_never_aborts K). Qed.
Print Assumptions C12_valueerr_never_aborts.

Theorem C12_all_games_present : forall {T} (K : ops T) fuel (gs : list (string * @game T)) d n g,
  In (n, g) gs -> run_games_fuel K fuel gs = Ok d ->
  sdict_get d n <> None /\ sdict_get d (n ++ sfx) <> None.
Proof. intros T K. exact (all_games_present K). Qed.
Print Assumptions C12_all_games_present.

(* Keys appear in run order, two per game. *)
Theorem C12_order : forall {T} (K : ops T) fuel (gs : list (string * @game T)) d,
  names_independent gs -> run_games_fuel K fuel gs = Ok d ->
  map fst d = flat_map (fun ng => [fst ng; fst ng ++ sfx]) gs /\ length d = 2 * length gs.
Proof.
  intros T K fuel gs d ND H. split; [exact (keys_in_run_order K fuel gs d ND H)|exact (two_entries_per_game K fuel gs d ND H)].
Qed.
Print Assumptions C12_order.

(* The hypothesis, spelled out: names pairwise distinct (always true of a Python dict) and no
   name is another name followed by "_no_prune". *)
Theorem C12_names_independent_iff : forall {T} (gs : list (string * @game T)),
  names_independent gs <->
  (NoDup (map fst gs) /\ forall n m, In n (map fst gs) -> In m (map fst gs) -> n <> m ++ sfx).
Proof. intros T. exact names_independent_iff. Qed.
Print Assumptions C12_names_independent_iff.

(* Known finding K2: without that hypothesis isolation fails.  Games named "a" and "a_no_prune":
   four solves, three entries; the key "a_no_prune" holds the pruned entry of the second game and
   the unpruned entry of "a" is lost. *)
Theorem C12_name_collision_refuted :
  ~ names_independent K2.gs
  /\ (exists d, run_games_fuel qops K2.fuel K2.gs = Ok d
               /\ map fst d = ["a"; "a_no_prune"; "a_no_prune_no_prune"])
  /\ K2.get K2.gs "a_no_prune" = K2.get [("a_no_prune", K2.g2)] "a_no_prune"
  /\ K2.get K2.gs "a_no_prune" <> K2.get [("a", K2.g1)] "a_no_prune".
Proof.
  split; [exact K2.not_independent|]. split.
  - pose proof K2.three_entries as H. destruct (run_games_fuel qops K2.fuel K2.gs) as [d| | |]; try contradiction.
    exists d. split; [reflexivity|exact H].
  - split; [exact K2.overwritten_by|].
    destruct K2.differs_from_solo as [H1 H2]. intros E. rewrite E, H2 in H1. discriminate H1.
Qed.
Print Assumptions C12_name_collision_refuted.

(* Why run_games needed its deep copy on the pinned tree (and why it no longer carries the
   results after the repair, C10_frame): pinned in-place scan, no copy - the unpruned run of
   figure 5.5 raises "Missing transitions" although the game alone solves unpruned. *)
Theorem C12_copy_matters_for_orig_refuted :
  nth 1 (snd (solve_seq_H_orig qops Fig55.fuel Fig55.hg0 Fig55.st0 None [(true, true); (false, true)])) OutOfFuel
    = ValueErr "Missing transitions"
  /\ is_ok (solve_fuel qops Fig55.fuel Fig55.g false) = true.
Proof. exact K2.copy_matters_for_orig. Qed.
Print Assumptions C12_copy_matters_for_orig_refuted.

(* non-vacuity: three independent names, a game without solution between two solvable ones *)
Example C12_example :
  names_independent K2.gs3 /\
  match run_games_fuel qops K2.fuel K2.gs3 with
  | Ok d => map (fun kv => (fst kv, e_msg (snd kv))) d =
            [("g1", "Game solved"); ("g1_no_prune", "Game solved");
             ("bad", "Error while solving the game: The game has no solution. The initial state has a reach probability of 0.");
             ("bad_no_prune", "Game not solved");
             ("g2", "Game solved"); ("g2_no_prune", "Game solved")]
  | _ => False
  end.
Proof. split; [exact K2.gs3_independent|exact K2.gs3_example]. Qed.
