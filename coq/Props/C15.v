(** C15 — random boards are reproducible, in range and honour their parameters; parameter sets
    outside the documented ranges are refused with ValueError before anything is written.
    Statements only; proofs live in Proofs/ParamsP.v.

    What is NOT modelled (oracles, tied to the code only by the check's runs):
    the Mersenne Twister stream behind random.seed/random/choices/randrange (here: arbitrary
    functions [u], [choices], [rr] with their documented ranges as hypotheses), and libm's log
    (here: the exact mathematical floor(-log2 y)). Reproducibility across runs is therefore a
    statement about the model's arguments (same draws, same board) plus the check's observation
    that the same seed gives the same board twice in one process and in two processes. *)
From Coq Require Import String ZArith List Bool QArith.
From Coq Require PrimFloat.
From CR Require Import Model.Num Model.Outcome Model.Params Proofs.ParamsP.
Import ListNotations.

(* For every random source with draws strictly inside (0,1), row results of random.choices of the
   requested width over the population {0,1,2} ({0,1,2,3} with force-down) and randrange results
   below the width; for all sizes, maximum rewards, probabilities and both flag values:
   the three grids have L rows of W entries; rewards lie in [0, max_reward]; loose flags in {0,1};
   arrows in the allowed set; every row contains a down-only tile (3) iff force-down is set. *)
Theorem C15_shape : forall (u : nat -> Q) (choices : nat -> list nat) (rr : nat -> nat)
                           (L W m : nat) (p : Q) (fd : bool),
  (forall n, 0 < u n /\ u n < 1)%Q ->
  (forall i, i < L -> length (choices i) = W /\ Forall (fun a => a < (if fd then 4 else 3)) (choices i)) ->
  (fd = true -> forall i, i < L -> rr i < W) ->
  board_shape L W m fd (gen_rnd_board u choices rr L W p m fd).
Proof. exact board_shape_holds. Qed.
Print Assumptions C15_shape.

(* [board_shape] spelled out is what the boolean [board_shape_ok] of the check decides *)
Theorem C15_shape_ok_iff : forall L W m fd b,
  board_shape_ok L W m fd b = true <-> board_shape L W m fd b.
Proof. exact board_shape_ok_iff. Qed.
Print Assumptions C15_shape_ok_iff.

(* Entry by entry: tile (i,j) is loose exactly when its second draw is below the requested
   probability, and its reward k is the bracket of y = 2^-(m+1) + u (1 - 2^-(m+1)):
   2^-(k+1) < y <= 2^-k, i.e. k = floor(-log2 y). *)
Theorem C15_entries : forall (u : nat -> Q) (choices : nat -> list nat) (rr : nat -> nat)
                             (L W m : nat) (p : Q) (fd : bool),
  (forall n, 0 < u n /\ u n < 1)%Q ->
  forall i j, i < L -> j < W ->
    let '(moves, rewards, loose) := gen_rnd_board u choices rr L W p m fd in
    (nth j (nth i loose []) 0 = 1 <-> (u (2 * (i * W + j) + 1)%nat < p)%Q) /\
    (nth j (nth i loose []) 0 = 0 <-> (p <= u (2 * (i * W + j) + 1)%nat)%Q) /\
    (let k := nth j (nth i rewards []) 0 in
     let y := yval m (u (2 * (i * W + j))) in (hpow (S k) < y /\ y <= hpow k)%Q).
Proof. intros u choices rr L W m p fd H. exact (board_entries u choices rr L W m p fd H). Qed.
Print Assumptions C15_entries.

(* the bracket determines k: the reward formula is a function of the draw *)
Theorem C15_reward_unique : forall (y : Q) (k k' : nat),
  (hpow (S k) < y -> y <= hpow k -> hpow (S k') < y -> y <= hpow k' -> k = k')%Q.
Proof. exact bracket_unique. Qed.
Print Assumptions C15_reward_unique.

(* The hypothesis 0 < u cannot be dropped: random.random() may return exactly 0.0 (probability
   2^-53 per draw) and the formula then yields max_reward + 1. No seed exhibiting it is known. *)
Theorem C15_zero_draw_exceeds : forall m, reward_of m 0 = S m.
Proof. exact reward_zero_draw. Qed.
Print Assumptions C15_zero_draw_exceeds.

(* The board is a function of the draws and the parameters. *)
Theorem C15_function_of_source : forall u u' choices choices' rr rr' L W p m fd,
  (forall n, u n = u' n) -> (forall i, choices i = choices' i) -> (forall i, rr i = rr' i) ->
  gen_rnd_board u choices rr L W p m fd = gen_rnd_board u' choices' rr' L W p m fd.
Proof. exact board_ext. Qed.
Print Assumptions C15_function_of_source.

(* Parameter checks: accepted iff every parameter is inside its documented range. *)
Theorem C15_check_input_iff : forall (seed w l : Z) (prb plb plt ptb : Q) (m : Z),
  check_input seed w l prb plb plt ptb m = Ok tt <->
  (0 <= seed /\ 1 <= w /\ 1 <= l /\ 1 <= m)%Z /\
  (0 < prb /\ prb < 1)%Q /\ (0 < plb /\ plb < 1)%Q /\ (0 < plt /\ plt < 1)%Q /\ (0 < ptb /\ ptb < 1)%Q.
Proof. exact check_input_iff. Qed.
Print Assumptions C15_check_input_iff.

(* ... otherwise a ValueError whose message names the first violated range, in the order
   seed, width, length, robot, light, loose tile, tile break, maximum reward *)
Theorem C15_check_input_messages : forall (seed w l : Z) (prb plb plt ptb : Q) (m : Z),
  let r := check_input seed w l prb plb plt ptb m in
  (r = ValueErr "The seed must be a nonnegative integer" <-> (seed < 0)%Z) /\
  (r = ValueErr "The width must be a positive integer" <-> (0 <= seed /\ w <= 0)%Z) /\
  (r = ValueErr "The length must be a positive integer" <-> (0 <= seed /\ 1 <= w /\ l <= 0)%Z) /\
  (r = ValueErr "The failure probability of the robot must be a float in (0,1)" <->
     (0 <= seed /\ 1 <= w /\ 1 <= l)%Z /\ ~ inside prb) /\
  (r = ValueErr "The failure probability of the light must be a float in (0,1)" <->
     (0 <= seed /\ 1 <= w /\ 1 <= l)%Z /\ inside prb /\ ~ inside plb) /\
  (r = ValueErr "The probability of a tile being loose must be a float in (0,1)" <->
     (0 <= seed /\ 1 <= w /\ 1 <= l)%Z /\ inside prb /\ inside plb /\ ~ inside plt) /\
  (r = ValueErr "The probability of a tile breaking must be a float in (0,1)" <->
     (0 <= seed /\ 1 <= w /\ 1 <= l)%Z /\ inside prb /\ inside plb /\ inside plt /\ ~ inside ptb) /\
  (r = ValueErr "The maximum reward must be a positive integer" <->
     (0 <= seed /\ 1 <= w /\ 1 <= l)%Z /\ inside prb /\ inside plb /\ inside plt /\ inside ptb /\ (m <= 0)%Z).
Proof. exact check_input_messages. Qed.
Print Assumptions C15_check_input_messages.

(* check_input never ends in anything but acceptance or a ValueError *)
Theorem C15_check_input_total : forall (seed w l : Z) (prb plb plt ptb : Q) (m : Z),
  match check_input seed w l prb plb plt ptb m with Ok _ | ValueErr _ => True | _ => False end.
Proof. exact check_input_total. Qed.
Print Assumptions C15_check_input_total.

(* main runs the check first: a refused parameter set never reaches the point where the file is
   opened (binary64 instance of the same check, which is the one run against the code; NaN
   answers "no" to both range questions and is refused later, by round(nan), still before the
   write - see [gen_main_F]). *)
Theorem C15_refused_before_write : forall seed w l m plt ptb prb plb fd msg,
  check_input_F seed w l prb plb plt ptb m = ValueErr msg ->
  gen_main_F seed w l m plt ptb prb plb fd = ValueErr msg.
Proof. exact main_refuses. Qed.
Print Assumptions C15_refused_before_write.

Local Open Scope Q_scope.
(* non-vacuity: a source meeting the hypotheses, its board, and the shape predicate on it *)
Example C15_example_board :
  let u := fun n => (Z.of_nat (n mod 9) + 1) # 10 in
  let choices := fun i : nat => [0; 1; 2]%nat in
  let b := gen_rnd_board u choices (fun i => i) 2 3 (1 # 2) 6 true in
  b = ([[3; 1; 2]; [0; 3; 2]], [[3; 1; 0]; [0; 0; 2]], [[1; 1; 0]; [0; 1; 1]])%nat
  /\ board_shape_ok 2 3 6 true b = true.
Proof. vm_compute. split; reflexivity. Qed.

Example C15_example_checks :
  check_input 0 3 3 (1 # 10) (1 # 10) (3 # 10) (1 # 10) 6 = Ok tt /\
  check_input 0 3 3 (1 # 10) (1 # 10) 1 (1 # 10) 0 = ValueErr "The probability of a tile being loose must be a float in (0,1)" /\
  check_input (-1) 0 3 (1 # 10) (1 # 10) 1 (1 # 10) 0 = ValueErr "The seed must be a nonnegative integer".
Proof. vm_compute. repeat split; reflexivity. Qed.

(** The pseudo-random source is no longer an oracle: Model/MT.v models CPython's random module (MT19937 seeding from
    an int of any size, random(), getrandbits, randrange, choices) bit for bit, and gen_rnd_board on top of it
    (tied to the real module by harness/mt_corr.py on every run). All statements: Props/C15M.v; the ones the
    property text needs are restated here. *)
From CR Require Import Model.MT Proofs.MTP Props.C15M.
Local Close Scope Q_scope.
Local Open Scope nat_scope.

(* the board is a function of |seed| and the parameters: same seed, same board - there is no other state *)
Theorem C15_reproducible : forall seed seed' L W p m fd,
  Z.abs seed = Z.abs seed' -> gen_rnd_board_mt seed L W p m fd = gen_rnd_board_mt seed' L W p m fd.
Proof. exact C15M_board_function. Qed.

(* for every seed: requested shape, loose flags 0/1, arrows from the allowed set, a down-only tile in a row exactly under force-down *)
Theorem C15_shape_mt : forall seed L W p m fd moves rewards loose,
  gen_rnd_board_mt seed L W p m fd = Ok (moves, rewards, loose) ->
  grid L W (fun a => a < (if fd then 4 else 3)) moves /\
  (List.length rewards = L /\ forall row, In row rewards -> List.length row = W) /\
  grid L W (fun t => t <= 1) loose /\
  (forall row, In row moves -> (In 3 row <-> fd = true)).
Proof. exact C15M_board_shape. Qed.

(* for accepted sizes the generator returns a board (or the model's rejection loop runs out of its fuel of 200
   rounds, probability < 2^-200); it never raises *)
Theorem C15_total_mt : forall seed L W p m fd, 1 <= W -> m < 1023 ->
  (exists b, gen_rnd_board_mt seed L W p m fd = Ok b) \/ gen_rnd_board_mt seed L W p m fd = OutOfFuel.
Proof. exact C15M_board_total. Qed.

Print Assumptions C15_reproducible.
Print Assumptions C15_shape_mt.
Print Assumptions C15_total_mt.
