(** C16 — the saved report states exactly what was computed.
    Statements only; proofs live in Proofs/ReportP.v.

    Partial by construction (see Model/Report.v): CPython's repr/str of the values and the parser
    behind eval are not modelled. [show] is an arbitrary rendering and [parse] an arbitrary reader;
    wherever a theorem needs the round trip it carries the hypothesis [parse (show v) = Some v]
    for exactly the value v it speaks about (CPython: eval(repr(v)) == v for None, bools, ints,
    floats, strs and lists of them). The check compares the real file with the model line by
    line and re-reads every line with ast.literal_eval. The reader read_dict_from_file is covered
    by the check only (compared with an independent evaluator over the ast). *)
From Coq Require Import String Ascii ZArith List Bool.
From CR Require Import Model.Params Model.Report Proofs.ReportP.
Import ListNotations.
Local Open Scope string_scope.

(* One block of 15 lines per result entry, in the dictionary's order: block i is the rendering
   of the i-th entry; for any number of entries and any values. *)
Theorem C16_block_layout : forall (show : pyval -> string) (res : list (string * entry)),
  length (report_lines show res) = 15 * length res /\
  forall i k d, i < length res -> k < 15 ->
    nth (15 * i + k) (report_lines show res) "" =
    nth k (format_entry show (fst (nth i res d)) (snd (nth i res d))) "".
Proof. intros show res. split; [apply report_lines_length|apply block_at]. Qed.
Print Assumptions C16_block_layout.

(* Inside a block: line 0 is the rule, line 1 the name, line 2 the message (both verbatim), and
   line k (3..14) is its fixed-width label followed by the rendering of its field; the field of
   line 9 ("Are equal") is the structural equality of the two strategy values. *)
Theorem C16_block_lines : forall (show : pyval -> string) (name : string) (e : entry),
  nth 0 (format_entry show name e) "" = rule_line /\
  nth 1 (format_entry show name e) "" = "Running example         : " ++ name /\
  nth 2 (format_entry show name e) "" = "Message                 : " ++ e_msg e /\
  (forall k v, field_of_line e k = Some v ->
     nth k (format_entry show name e) "" = label_of_line k ++ show v) /\
  field_of_line e 7 = Some (e_reach_strats e) /\ field_of_line e 8 = Some (e_final_strats e) /\
  field_of_line e 9 = Some (PBool (pyval_eqb (e_reach_strats e) (e_final_strats e))) /\
  (pyval_eqb (e_reach_strats e) (e_final_strats e) = true <-> e_reach_strats e = e_final_strats e).
Proof.
  intros show name e. repeat split; try reflexivity.
  - apply line_of_field.
  - apply pyval_eqb_eq.
  - apply pyval_eqb_eq.
Qed.
Print Assumptions C16_block_lines.

(* Read-back: cutting a line after its 26-character label and reading the rest returns exactly
   the entry's field (whatever it is: None, empty or nested lists, long float vectors), provided
   the reader inverts the rendering on that value; name and message come back verbatim. *)
Theorem C16_readback : forall (show : pyval -> string) (parse : string -> option pyval)
                              (name : string) (e : entry),
  (forall k v, field_of_line e k = Some v -> parse (show v) = Some v ->
     read_field parse (nth k (format_entry show name e) "") = Some v) /\
  drop_label (nth 1 (format_entry show name e) "") = name /\
  drop_label (nth 2 (format_entry show name e) "") = e_msg e.
Proof.
  intros show parse name e. split; [|split].
  - intros k v. apply readback_field.
  - apply readback_name.
  - apply readback_msg.
Qed.
Print Assumptions C16_readback.

(* The text written (every line followed by one newline) splits back into exactly these lines,
   as long as no rendered line contains a newline. *)
Theorem C16_text_lines : forall (show : pyval -> string) (res : list (string * entry)),
  (forall l, In l (report_lines show res) -> has_char (ascii_of_nat 10) l = false) ->
  lines_of (report_text show res) = report_lines show res.
Proof. intros show res H. apply lines_of_text. exact H. Qed.
Print Assumptions C16_text_lines.

(* The report of dir/stem.py is outputs/stem.txt, for every directory part (slashes and dots
   allowed) and every stem free of '/' and '.'; more generally for any extension. *)
Theorem C16_stem : forall (dir st : string),
  has_char "/" st = false -> has_char "." st = false ->
  report_path (dir ++ "/" ++ st ++ ".py") = "outputs/" ++ st ++ ".txt".
Proof. exact report_path_of. Qed.
Print Assumptions C16_stem.

Theorem C16_stem_general : forall (dir st ext : string),
  has_char "/" st = false -> has_char "." st = false -> has_char "/" ext = false ->
  stem (dir ++ "/" ++ st ++ "." ++ ext) = st /\ stem (st ++ "." ++ ext) = st.
Proof. intros. split; [now apply stem_of_path|now apply stem_no_dir]. Qed.
Print Assumptions C16_stem_general.

(* A stem containing a dot is cut at the first dot: two inputs a.1.py and a.2.py share a report. *)
Theorem C16_stem_dot_refuted : report_path "inputs/a.1.py" = report_path "inputs/a.2.py".
Proof. vm_compute. reflexivity. Qed.
Print Assumptions C16_stem_dot_refuted.

(* non-vacuity: a concrete entry (None, an empty list, nested lists), CPython's rendering for
   these shapes, and a reader that inverts it on the values of this entry *)
Definition ex_entry : entry :=
  mkEntry "Game solved" (PInt 8) (PInt 11) (PInt 4) (PInt 4)
          (PList [PList [PStr "beta"]; PList [PStr " "]; PNone])
          (PList [PList [PStr "beta"]; PList []; PNone])
          (PList [PFloat "0.75"; PInt 0; PInt 1]) (PInt 0) PNone (PList []) (PFloat "0.00048").
Definition ex_parse (s : string) : option pyval :=
  if String.eqb s "[['beta'], [], None]" then Some (PList [PList [PStr "beta"]; PList []; PNone])
  else if String.eqb s "False" then Some (PBool false) else None.

Example C16_example :
  format_entry show_py "fig_5_5" ex_entry =
  [ rule_line; "Running example         : fig_5_5"; "Message                 : Game solved";
    "number of states        : 8"; "number of transitions   : 11"; "n iterations reach      : 4";
    "n iterations rew        : 4"; "Reachability strategies : [['beta'], [' '], None]";
    "Final strategies        : [['beta'], [], None]"; "Are equal               : False";
    "Probabilities           : [0.75, 0, 1]"; "Probabilities min rew   : 0";
    "Rewards                 : None"; "Rewards min reach       : []"; "Total time              : 0.00048" ]
  /\ read_field ex_parse (nth 8 (format_entry show_py "fig_5_5" ex_entry) "") = Some (e_final_strats ex_entry)
  /\ read_field ex_parse (nth 9 (format_entry show_py "fig_5_5" ex_entry) "") = Some (PBool false)
  /\ lines_of (report_text show_py [("fig_5_5", ex_entry); ("fig_5_5_no_prune", ex_entry)])
     = report_lines show_py [("fig_5_5", ex_entry); ("fig_5_5_no_prune", ex_entry)]
  /\ report_path "inputs/dir.x/robot_47_w5_l5.py" = "outputs/robot_47_w5_l5.txt".
Proof. vm_compute. repeat split; reflexivity. Qed.
