(** C04F — the arg-max / arg-min reading of the strategy scans (C04/C05) holds for the binary64
    instance [fops] that the implementation computes with.

    Proofs/Laws.v proves the scans are arg-max / arg-min filters under [lawful_order K], which only the
    exact-rational instance satisfies: PrimFloat comparisons break the laws on NaN (NaN <> NaN).  Here:
    - the same five laws hold for [fops] on every float that is not a NaN ([not_nan]: all finite floats,
      both zeros, both infinities);
    - hence the scan equations hold for non-NaN inputs (Proofs/LawsOn.v, laws relative to a predicate);
    - and, since every comparison with a NaN answers false, NaN entries are simply invisible to the scans,
      to the running maximum and to the filter: the equations hold for ALL binary64 inputs.
    Trusted base of the laws: Coq's specification axioms of the primitive float comparisons
    ([FloatAxioms.ltb_spec], [FloatAxioms.eqb_spec]) only.  The last theorem (the float order on finite
    floats IS the order of the denoted real numbers) additionally uses Flocq and the axioms of the
    standard library's real numbers. *)
From Coq Require Import String List Bool ZArith Reals.
From CR Require Import Model.Num Model.Outcome Model.Game Proofs.Laws Proofs.LawsOn Proofs.FloatLaws.
Import ListNotations.

(* not_nan x := PrimFloat.is_nan x = false, i.e. x == x *)
Theorem C04F_not_nan_meaning : forall x : PrimFloat.float,
  (not_nan x <-> PrimFloat.eqb x x = true) /\
  (PrimFloat.is_finite x = true -> not_nan x) /\
  (PrimFloat.is_infinity x = true -> not_nan x).
Proof. intros x. split; [apply not_nan_iff_eqb|split; [apply finite_not_nan|apply infinite_not_nan]]. Qed.

(* ltb irreflexive and transitive, eqb reflexive and a congruence for ltb/eqb, totality: on non-NaN floats *)
Theorem C04F_laws_hold_for_binary64 : lawful_order_on fops not_nan.
Proof. exact fops_lawful_on_not_nan. Qed.

(* every comparison involving a NaN is false ([not_nanb x = negb (is_nan x)] decides [not_nan]) *)
Theorem C04F_nan_is_inert : forall x y : PrimFloat.float, PrimFloat.is_nan x = true ->
  ltb fops x y = false /\ ltb fops y x = false /\ eqb fops x y = false /\ eqb fops y x = false.
Proof.
  intros x y H. apply (io_inert fops not_nan not_nanb fops_nan_inert). unfold not_nanb. rewrite H. reflexivity.
Qed.

(* non-NaN start value and values: the scans return the running maximum / minimum and, in list order,
   exactly the actions whose value equals it *)
Theorem C04F_scan_is_argmax_binary64 : forall (m0 : PrimFloat.float) (l : list (string * PrimFloat.float)),
  not_nan m0 -> Forall (fun av => not_nan (snd av)) l ->
  scan_max fops m0 l = (vmax fops m0 l, map fst (filter (fun av => eqb fops (snd av) (vmax fops m0 l)) l)) /\
  scan_min fops m0 l = (vmin fops m0 l, map fst (filter (fun av => eqb fops (snd av) (vmin fops m0 l)) l)).
Proof.
  intros m0 l Hm Hl. split.
  - apply (scan_max_is_argmax_on fops not_nan fops_lawful_on_not_nan); assumption.
  - apply (scan_min_is_argmin_on fops not_nan fops_lawful_on_not_nan); assumption.
Qed.

(* ... and the running maximum is a non-NaN upper bound of all the values, equal to m0 or attained
   (so for m0 = 0 and probabilities it is the largest value), likewise the minimum *)
Theorem C04F_vmax_is_max_binary64 : forall (m0 : PrimFloat.float) (l : list (string * PrimFloat.float)),
  not_nan m0 -> Forall (fun av => not_nan (snd av)) l ->
  not_nan (vmax fops m0 l) /\
  ltb fops (vmax fops m0 l) m0 = false /\
  (forall av, In av l -> ltb fops (vmax fops m0 l) (snd av) = false) /\
  (vmax fops m0 l = m0 \/ exists av, In av l /\ vmax fops m0 l = snd av).
Proof.
  intros m0 l Hm Hl. repeat split.
  - apply (vmax_on fops not_nan); assumption.
  - apply (vmax_ge_on fops not_nan fops_lawful_on_not_nan); assumption.
  - intros av. apply (vmax_upper_on fops not_nan fops_lawful_on_not_nan); assumption.
  - apply vmax_attained_on.
Qed.
Theorem C04F_vmin_is_min_binary64 : forall (m0 : PrimFloat.float) (l : list (string * PrimFloat.float)),
  not_nan m0 -> Forall (fun av => not_nan (snd av)) l ->
  not_nan (vmin fops m0 l) /\
  ltb fops m0 (vmin fops m0 l) = false /\
  (forall av, In av l -> ltb fops (snd av) (vmin fops m0 l) = false) /\
  (vmin fops m0 l = m0 \/ exists av, In av l /\ vmin fops m0 l = snd av).
Proof.
  intros m0 l Hm Hl. repeat split.
  - apply (vmin_on fops not_nan); assumption.
  - apply (vmin_le_on fops not_nan fops_lawful_on_not_nan); assumption.
  - intros av. apply (vmin_lower_on fops not_nan fops_lawful_on_not_nan); assumption.
  - apply vmin_attained_on.
Qed.

(* NO hypothesis: NaN entries are skipped by the scan, by vmax/vmin and by the filter alike, and a NaN
   start value is kept with nothing listed; the equations hold for all binary64 inputs *)
Theorem C04F_scan_is_argmax_binary64_all : forall (m0 : PrimFloat.float) (l : list (string * PrimFloat.float)),
  scan_max fops m0 l = (vmax fops m0 l, map fst (filter (fun av => eqb fops (snd av) (vmax fops m0 l)) l)) /\
  scan_min fops m0 l = (vmin fops m0 l, map fst (filter (fun av => eqb fops (snd av) (vmin fops m0 l)) l)).
Proof.
  intros m0 l. split.
  - apply (scan_max_is_argmax_total fops not_nan not_nanb fops_lawful_on_not_nan fops_nan_inert).
  - apply (scan_min_is_argmin_total fops not_nan not_nanb fops_lawful_on_not_nan fops_nan_inert).
Qed.
(* with a non-NaN start value (the solver starts from 0 and 1) the running maximum is not a NaN whatever
   the list contains, nothing in the list is greater, and it is m0 or attained *)
Theorem C04F_vmax_is_max_binary64_all : forall (m0 : PrimFloat.float) (l : list (string * PrimFloat.float)),
  not_nan m0 ->
  not_nan (vmax fops m0 l) /\
  (forall av, In av l -> ltb fops (vmax fops m0 l) (snd av) = false) /\
  (vmax fops m0 l = m0 \/ exists av, In av l /\ vmax fops m0 l = snd av).
Proof.
  intros m0 l Hm. repeat split.
  - apply (vmax_total_on fops not_nan not_nanb fops_nan_inert); assumption.
  - intros av. apply (vmax_upper_total fops not_nan not_nanb fops_lawful_on_not_nan fops_nan_inert).
  - apply vmax_attained_on.
Qed.
Theorem C04F_vmin_is_min_binary64_all : forall (m0 : PrimFloat.float) (l : list (string * PrimFloat.float)),
  not_nan m0 ->
  not_nan (vmin fops m0 l) /\
  (forall av, In av l -> ltb fops (snd av) (vmin fops m0 l) = false) /\
  (vmin fops m0 l = m0 \/ exists av, In av l /\ vmin fops m0 l = snd av).
Proof.
  intros m0 l Hm. repeat split.
  - apply (vmin_total_on fops not_nan not_nanb fops_nan_inert); assumption.
  - intros av. apply (vmin_lower_total fops not_nan not_nanb fops_lawful_on_not_nan fops_nan_inert).
  - apply vmin_attained_on.
Qed.

(* the binary64 form of C04_scan_is_argmax: the model's reachability strategy of a state, for every
   state list (no hypothesis on the stored values) *)
Definition succ_vals_f (sl : list (node (T:=PrimFloat.float))) (n : node (T:=PrimFloat.float)) : list (string * PrimFloat.float) :=
  map (fun t => (act t, rnd fops (reach (getn fops sl (dst t))))) (nxt n).
Theorem C04F_strat_reach_binary64 : forall (sl : list (node (T:=PrimFloat.float))) n,
  strat_reach fops sl n =
  match nk n with
  | P1 => Some (map fst (filter (fun av => eqb fops (snd av) (vmax fops (zero fops) (succ_vals_f sl n))) (succ_vals_f sl n)))
  | P2 => Some (map fst (filter (fun av => eqb fops (snd av) (vmin fops (one fops) (succ_vals_f sl n))) (succ_vals_f sl n)))
  | PR => None
  end.
Proof.
  intros sl n. unfold strat_reach. fold (succ_vals_f sl n). destruct (nk n).
  - rewrite (proj1 (C04F_scan_is_argmax_binary64_all _ _)). reflexivity.
  - rewrite (proj2 (C04F_scan_is_argmax_binary64_all _ _)). reflexivity.
  - reflexivity.
Qed.

Print Assumptions C04F_not_nan_meaning.
Print Assumptions C04F_laws_hold_for_binary64.
Print Assumptions C04F_nan_is_inert.
Print Assumptions C04F_scan_is_argmax_binary64.
Print Assumptions C04F_vmax_is_max_binary64.
Print Assumptions C04F_vmin_is_min_binary64.
Print Assumptions C04F_scan_is_argmax_binary64_all.
Print Assumptions C04F_vmax_is_max_binary64_all.
Print Assumptions C04F_vmin_is_min_binary64_all.
Print Assumptions C04F_strat_reach_binary64.

(** Meaning of the two comparisons on finite floats: they compare the real numbers the floats denote
    ([f2R x] = Flocq's [B2R (Prim2B x)]).  Uses Flocq and the real-number axioms. *)
Theorem C04F_order_is_real_order : forall x y : PrimFloat.float,
  PrimFloat.is_finite x = true -> PrimFloat.is_finite y = true ->
  (ltb fops x y = true <-> (f2R x < f2R y)%R) /\ (eqb fops x y = true <-> f2R x = f2R y).
Proof. intros x y Hx Hy. split; [apply fltb_real_iff|apply feqb_real_iff]; assumption. Qed.
Print Assumptions C04F_order_is_real_order.

(** Non-vacuity on concrete floats, written exactly as [mkf m e] = m * 2^e:
    0.5, 0.25 + 0.25, 0.3 = 5404319552844595 * 2^-54 (0x1.3333333333333p-2) and
    0.1 + 0.2 = 0x1.3333333333334p-2 (0.30000000000000004), with 0.1 = 3602879701896397 * 2^-55,
    0.2 = 3602879701896397 * 2^-54.  The maximum 0.5 is listed twice, the minimum 0.3 once. *)
Local Open Scope string_scope.
Definition fl_half : PrimFloat.float := mkf 1 (-1).
Definition fl_quarter : PrimFloat.float := mkf 1 (-2).
Definition fl_03 : PrimFloat.float := mkf 5404319552844595 (-54).
Definition fl_01 : PrimFloat.float := mkf 3602879701896397 (-55).
Definition fl_02 : PrimFloat.float := mkf 3602879701896397 (-54).
Definition ex_vals : list (string * PrimFloat.float) :=
  [("a", fl_half); ("b", add fops fl_quarter fl_quarter); ("c", fl_03); ("d", add fops fl_01 fl_02)].
Example C04F_ex_hyps : not_nan (zero fops) /\ not_nan (one fops) /\ Forall (fun av => not_nan (snd av)) ex_vals.
Proof. repeat split; repeat constructor. Qed.
Example C04F_ex_values :
  add fops fl_quarter fl_quarter = fl_half /\ add fops fl_01 fl_02 = mkf 1351079888211149 (-52) /\
  ltb fops fl_03 (add fops fl_01 fl_02) = true /\ eqb fops fl_03 (add fops fl_01 fl_02) = false.
Proof. vm_compute. repeat split. Qed.
Example C04F_ex_max : scan_max fops (zero fops) ex_vals = (fl_half, ["a"; "b"]).
Proof. vm_compute. reflexivity. Qed.
Example C04F_ex_min : scan_min fops (one fops) ex_vals = (fl_03, ["c"]).
Proof. vm_compute. reflexivity. Qed.
Example C04F_ex_filter :
  map fst (filter (fun av => eqb fops (snd av) (vmax fops (zero fops) ex_vals)) ex_vals) = ["a"; "b"] /\
  map fst (filter (fun av => eqb fops (snd av) (vmin fops (one fops) ex_vals)) ex_vals) = ["c"].
Proof. vm_compute. split; reflexivity. Qed.
(* a NaN entry changes nothing; a NaN is not [not_nan] and breaks reflexivity of eqb *)
Example C04F_ex_nan :
  scan_max fops (zero fops) (("n", f_nan) :: ex_vals) = (fl_half, ["a"; "b"]) /\
  scan_min fops (one fops) (("n", f_nan) :: ex_vals) = (fl_03, ["c"]) /\
  ~ not_nan f_nan /\ eqb fops f_nan f_nan = false.
Proof.
  split; [vm_compute; reflexivity|]. split; [vm_compute; reflexivity|]. split; [exact nan_is_nan|reflexivity].
Qed.
