(** C10 — solving leaves the game description intact and is repeatable.
    Statements only; proofs live in Proofs/HeapP.v.  Model: Model/Heap.v (transition lists as
    list objects in a store; nodes alias the caller's rows, exactly as Node.__init__ does). *)
From Coq Require Import String List Arith Bool QArith.
From CR Require Import Model.Num Model.Outcome Model.Graph Model.Game Model.Heap Proofs.HeapP.
Import ListNotations.

(* For every number instance, every store, every description (well-formed or not), both pruning
   modes, every fuel and WHATEVER the outcome (Ok, ValueError, crash, even out of fuel): solve()
   only ever allocates new list objects.  Every list object that existed before the call - in
   particular the rows of the caller's transition_list, which the nodes alias - holds the same
   list afterwards.  (rewards, players, final_states and the outer list are never written at all:
   they are not even part of the store.) *)
Theorem C10_frame : forall {T} (K : ops T) (fuel : nat) (st : store) (hg : hgame) (prune : bool),
  (exists fresh, fst (solve_H K fuel st hg prune) = st ++ fresh) /\
  (forall l, l < length st -> rd (fst (solve_H K fuel st hg prune)) l = rd st l).
Proof.
  intros. split; [apply solve_H_ext|]. intros l H. apply solve_H_frame. exact H.
Qed.
Print Assumptions C10_frame.

(* the same, read as a game: the description the caller holds reads back identically.
   [rows_valid]: the rows are existing objects (no dangling reference), which makes the [nth]
   default of [rd] unreachable. *)
Theorem C10_description_intact : forall {T} (K : ops T) fuel (st : store) (hg : hgame) prune,
  rows_valid st hg -> read_game (fst (solve_H K fuel st hg prune)) hg = read_game st hg.
Proof. intros. apply solve_H_description_intact. assumption. Qed.
Print Assumptions C10_description_intact.

(* in the layout "row s is location s" of a freshly loaded description: locations < n0 *)
Theorem C10_frame_rows : forall {T} (K : ops T) fuel (g : @game T) prune,
  firstn (length (g_trans g)) (fst (solve_H K fuel (fst (load g)) (snd (load g)) prune)) = g_trans g.
Proof. intros. apply solve_H_frame_rows. Qed.
Print Assumptions C10_frame_rows.

(* The store pipeline computes exactly what the pure pipeline (on which C01-C07 are proved)
   computes on the description read from the store. *)
Theorem C10_refines : forall {T} (K : ops T) fuel (st : store) (hg : hgame) prune,
  rows_valid st hg ->
  snd (solve_H K fuel st hg prune) = solve_fuel K fuel (read_game st hg) prune.
Proof. intros. apply solve_H_refines. assumption. Qed.
Print Assumptions C10_refines.

Theorem C10_refines_load : forall {T} (K : ops T) fuel (g : @game T) prune,
  snd (solve_H K fuel (fst (load g)) (snd (load g)) prune) = solve_fuel K fuel g prune.
Proof. intros. apply solve_H_load. Qed.
Print Assumptions C10_refines_load.

(* Any sequence of solves on one description - each step (prune, fresh): through a fresh
   StochasticGame object or through the previous one with its flag reset, pruned or not, in any
   order - returns at step k exactly the result of a single solve in mode k, and leaves the
   description as it was. *)
Theorem C10_repeatable : forall {T} (K : ops T) fuel (st : store) (hg : hgame) (steps : list (bool * bool)),
  rows_valid st hg ->
  snd (solve_seq_H K fuel hg st None steps)
    = map (fun s => solve_fuel K fuel (read_game st hg) (fst s)) steps
  /\ read_game (fst (solve_seq_H K fuel hg st None steps)) hg = read_game st hg.
Proof. intros. apply solve_seq_H_repeatable. assumption. Qed.
Print Assumptions C10_repeatable.

(* consequence: two steps in the same mode give identical results, wherever they sit *)
Theorem C10_same_mode_same_result : forall {T} (K : ops T) fuel (st : store) (hg : hgame) steps i j d,
  rows_valid st hg -> i < length steps -> j < length steps ->
  fst (nth i steps (true, true)) = fst (nth j steps (true, true)) ->
  nth i (snd (solve_seq_H K fuel hg st None steps)) d = nth j (snd (solve_seq_H K fuel hg st None steps)) d.
Proof. intros. apply solve_seq_H_same_mode; assumption. Qed.
Print Assumptions C10_same_mode_same_result.

(* Defect D4 of the pinned tree (repaired by the fix: commit 4ee631e): prune_paths scanned
   next_states while remove_path removed from it IN PLACE - and that list is the caller's.
   Figure 5.5, exact rationals: one pruned solve succeeds but the caller's rows 3, 4, 5, 7 have
   lost transitions (5 and 7 are empty), and the next solve of the same description - same
   object or fresh object - raises ValueError("Missing transitions"). *)
Theorem C10_orig_refuted :
  is_ok (snd (solve_H_orig qops Fig55.fuel Fig55.st0 Fig55.hg0 true)) = true
  /\ (exists l, l < length (g_trans Fig55.g)
             /\ rd (fst (solve_H_orig qops Fig55.fuel Fig55.st0 Fig55.hg0 true)) l <> rd Fig55.st0 l)
  /\ nth 1 (snd (solve_seq_H_orig qops Fig55.fuel Fig55.hg0 Fig55.st0 None [(true, true); (false, false)])) OutOfFuel
     = ValueErr "Missing transitions"%string
  /\ nth 1 (snd (solve_seq_H_orig qops Fig55.fuel Fig55.hg0 Fig55.st0 None [(true, true); (true, true)])) OutOfFuel
     = ValueErr "Missing transitions"%string.
Proof.
  split; [exact Fig55.orig_first_solve_ok|].
  split; [exists 5%nat; split; [cbn; repeat constructor|exact Fig55.orig_row5_changed]|].
  split; [exact Fig55.orig_second_solve_fails|exact Fig55.orig_second_solve_fails_fresh_object].
Qed.
Print Assumptions C10_orig_refuted.

(* non-vacuity: the repaired pipeline on figure 5.5 - pruned, unpruned, pruned again through the
   same object: all three return Ok, the store has grown (solving does allocate: every pruning
   step rebinds), and the eight caller rows are what they were. *)
Example C10_example :
  let r := solve_seq_H qops Fig55.fuel Fig55.hg0 Fig55.st0 None [(true, true); (false, false); (true, false)] in
  forallb is_ok (snd r) = true /\ Nat.ltb (length Fig55.st0) (length (fst r)) = true
  /\ firstn 8 (fst r) = Fig55.st0.
Proof. exact Fig55.repaired_example. Qed.
