(** C11 - every accepted parameter set yields a loadable, proper three-game file.
    Statements only; proofs live in Proofs/BoardP.v and Proofs/BoardQ.v. The model of the three
    emitted games is Model/Board.v (gen_A, gen_B, gen_C). The text layer (str(dict) + .replace,
    eval) and the solving step are not modelled: they are covered by the check's correspondence
    and search parts (harness/props/c11.py). *)
From Coq Require Import String List Arith Bool QArith.
From CR Require Import Model.Num Model.Outcome Model.Graph Model.Game Model.Board.
From CR Require Import Proofs.BoardP Proofs.BoardQ.
Import ListNotations.

(** What "a proper game of N states" means, on exact rationals. [nth] is only used at indices
    s < N, where its default is not reached. *)
Definition C11_proper (g : game (T:=Q)) (N : nat) : Prop :=
  (* the three lists have one entry per state; the only final state is the last one *)
  length (g_rewards g) = N /\ length (g_players g) = N /\ length (g_trans g) = N /\
  g_finals g = [N - 1] /\
  (* the solver's validation (check_game, then init_states) accepts the description *)
  check_game qops g = Ok tt /\
  (exists sl, init_states qops g = Ok sl /\ length sl = N) /\
  (* every state has at least one transition and every transition leads to a state *)
  (forall s, s < N -> nth s (g_trans g) [] <> [] /\
                      forall t, In t (nth s (g_trans g) []) -> dst t < N) /\
  (* every probabilistic state's probabilities are positive and sum to 1 *)
  (forall s, s < N -> nth s (g_players g) PR = PR ->
             Forall (fun t => (0 < pr t)%Q) (nth s (g_trans g) []) /\
             (fold_right Qplus 0 (map pr (nth s (g_trans g) [])) == 1)%Q) /\
  (* the losing state N-2 is absorbing and not final, the winning state N-1 absorbing and final *)
  nth (N - 2) (g_trans g) [] = [mkT ""%string 1%Q (N - 2)] /\
  nth (N - 1) (g_trans g) [] = [mkT ""%string 1%Q (N - 1)] /\
  nth (N - 2) (g_players g) PR = PR /\ nth (N - 1) (g_players g) PR = PR /\
  mem_nat (N - 2) (g_finals g) = false /\ mem_nat (N - 1) (g_finals g) = true.

(* the hypotheses: a board of at least one row and column, arrow codes 0..3, rewards >= 0 *)
Definition C11_board (L W : nat) (moves : nat -> nat -> nat) (rewards : nat -> nat -> Q) : Prop :=
  1 <= L /\ 1 <= W /\ (forall i j, i < L -> j < W -> moves i j <= 3) /\
  (forall i j, i < L -> j < W -> (0 <= rewards i j)%Q).
Definition C11_prob (p : Q) : Prop := (0 < p)%Q /\ (p < 1)%Q.

Theorem C11_A_proper : forall L W moves rewards loose ptb,
  C11_board L W moves rewards -> C11_prob ptb ->
  C11_proper (gen_A qops L W moves rewards loose ptb) (4 * (L * W) + 2).
Proof. exact BoardQ.gen_A_proper. Qed.
Print Assumptions C11_A_proper.

Theorem C11_B_proper : forall L W moves rewards loose ptb prb,
  C11_board L W moves rewards -> C11_prob ptb -> C11_prob prb ->
  C11_proper (gen_B qops L W moves rewards loose ptb prb) (7 * (L * W) + 2).
Proof. exact BoardQ.gen_B_proper. Qed.
Print Assumptions C11_B_proper.

Theorem C11_C_proper : forall L W moves rewards loose ptb prb plb,
  C11_board L W moves rewards -> C11_prob ptb -> C11_prob prb -> C11_prob plb ->
  C11_proper (gen_C qops L W moves rewards loose ptb prb plb) (10 * (L * W) + 2).
Proof. exact BoardQ.gen_C_proper. Qed.
Print Assumptions C11_C_proper.

(** The structural part holds for every instance of the number operations (in particular for
    binary64, the instance the correspondence check runs): lengths, final state, validation,
    absorbing end states. The only arithmetic facts used are the two comparisons check_game makes. *)
Theorem C11_structure_generic : forall (T : Type) (K : ops T) L W moves rewards loose ptb prb plb,
  1 <= L -> 1 <= W -> (forall i j, i < L -> j < W -> moves i j <= 3) ->
  ltb K (zero K) (zero K) = false ->
  (forall i j, i < L -> j < W -> ltb K (rewards i j) (zero K) = false) ->
  let n := L * W in
  (lengths_are (gen_A K L W moves rewards loose ptb) (4 * n + 2) /\
   validates K (gen_A K L W moves rewards loose ptb) (4 * n + 2) /\
   absorbing_ends K (gen_A K L W moves rewards loose ptb) (4 * n + 2)) /\
  (lengths_are (gen_B K L W moves rewards loose ptb prb) (7 * n + 2) /\
   validates K (gen_B K L W moves rewards loose ptb prb) (7 * n + 2) /\
   absorbing_ends K (gen_B K L W moves rewards loose ptb prb) (7 * n + 2)) /\
  (lengths_are (gen_C K L W moves rewards loose ptb prb plb) (10 * n + 2) /\
   validates K (gen_C K L W moves rewards loose ptb prb plb) (10 * n + 2) /\
   absorbing_ends K (gen_C K L W moves rewards loose ptb prb plb) (10 * n + 2)).
Proof. exact BoardQ.structure_generic. Qed.
Print Assumptions C11_structure_generic.

(** The last clause of C11 ("each game is then either solved or reported as having no solution") is NOT a
    theorem: the solver's reward loop also iterates two cross-objective diagnostics, and on generated
    boards these can grow without bound, so the loop never meets its stopping criterion. Witness: the
    1x3 board [0|<-( )] [0|v(X)] [3|<>( )], game A, pruned solve. Here: the description is a proper C11
    board, the reachability half ends after 7 sweeps with value 9/10 (exactly what the implementation
    reports), and 400 reward sweeps do not suffice. Missing for a full refutation: the same for every
    fuel (an invariant of the sweep: "rewards under min reach" of the light of tile (0,2) grows by 3 per
    sweep). The implementation does not finish on this input within 60 s (harness/props/c11.py, known
    finding). *)
Theorem C11_solve_diverges_partial :
  C11_board 1 3 w_moves w_rewards /\
  (exists r, solve_reach_fuel qops 400 w_game true = Ok r /\ snd r = 7 /\
             (reach (getn qops (fst (fst r)) 0) == 9 # 10)%Q) /\
  solve_fuel qops 400 w_game true = OutOfFuel.
Proof. exact BoardQ.w_game_diverges_400. Qed.
Print Assumptions C11_solve_diverges_partial.

(* non-vacuity: a 2x2 board with every arrow code, a loose tile and rewards meets the hypotheses,
   and the validation really evaluates to Ok on it (21 + 30 + 42 states) *)
Example C11_example :
  let moves := ll_nat [[3; 1]; [2; 0]] in
  let rewards := ll_num qops [[6; 0]; [1; 2]]%Q in
  let loose := ll_nat [[0; 1]; [1; 0]] in
  C11_board 2 2 moves rewards /\ C11_prob (1 # 10)%Q /\
  check_game qops (gen_C qops 2 2 moves rewards loose (1 # 10)%Q (1 # 2)%Q (29 # 100)%Q) = Ok tt /\
  is_ok (init_states qops (gen_C qops 2 2 moves rewards loose (1 # 10)%Q (1 # 2)%Q (29 # 100)%Q)) = true /\
  length (g_players (gen_C qops 2 2 moves rewards loose (1 # 10)%Q (1 # 2)%Q (29 # 100)%Q)) = 42.
Proof. exact BoardQ.c11_example. Qed.
