(** C13 — results do not depend on how the game is written down. Proved: every order-insensitive
    ingredient is equivariant under renaming states and reordering transitions. The end-to-end claim
    "within tolerance" is false without a bound on the absorption time (the in-place sweep order is not
    equivariant and the stopping rule bounds the residual only; known finding K1-C13); it is proved in
    conditional form (C13_reports_within_tolerance: under an absorption-time certificate for each of the
    two descriptions the two reports differ by at most threshold * certificate) and covered by the
    metamorphic check. *)
From Coq Require Import String List Arith Bool QArith Permutation Lia.
From CR Require Import Model.Num Model.Outcome Model.Graph Model.Game
     Proofs.GraphP Proofs.Laws Proofs.PipelineP Proofs.ReachQ Proofs.ReachQ2 Proofs.ErrBound Proofs.C04Q Proofs.ReachQ4
     Proofs.EquivP Proofs.EquivQ Proofs.EquivScan Proofs.EquivTol.
Import ListNotations.

(* the backward search of the renamed game returns exactly the renamed states *)
Theorem C13_reach_set_equivariant : forall n pi pinv (tl tl' : list (list nat)) finals finals',
  renaming n pi pinv -> renamed_graph n pi tl tl' ->
  (forall f, In f finals -> f < n) ->
  (forall f', In f' finals' <-> exists f, In f finals /\ f' = pi f) ->
  exists r r', reverse_dfs tl finals = Ok r /\ reverse_dfs tl' finals' = Ok r' /\
               forall s, s < n -> (In (pi s) r' <-> In s r).
Proof. intros n pi pinv tl tl' finals finals' R G. exact (reverse_dfs_equivariant n pi pinv tl tl' R G finals finals'). Qed.

(* paths correspond *)
Theorem C13_paths_equivariant : forall n pi pinv (tl tl' : list (list nat)) s f,
  renaming n pi pinv -> renamed_graph n pi tl tl' -> s < n -> f < n ->
  (path tl' (pi s) (pi f) <-> path tl s f).
Proof. intros n pi pinv tl tl' s f R G. exact (path_iff n pi pinv tl tl' R G s f). Qed.

(* the Bellman step of the renamed game at the renamed state equals the original one (exact rationals):
   owners follow the renaming, each row is the renamed row in ANY order *)
Theorem C13_bellman_equivariant : forall n pi pinv kd kd' tr tr',
  renaming n pi pinv ->
  (forall i, i < n -> kd' (pi i) = kd i) ->
  (forall i, i < n -> Permutation (tr' (pi i)) (map (ren pi) (tr i))) ->
  (forall i t, i < n -> In t (tr i) -> dst t < n) ->
  forall x x' i, i < n -> related n pi x x' -> (Phi kd' tr' x' (pi i) == Phi kd tr x i)%Q.
Proof. intros n pi pinv kd kd' tr tr' R H1 H2 H3 x x' i Hi Hx. eapply Phi_equivariant; eauto. Qed.

(* ... hence every finite-horizon value - and so the game value, their supremum - changes only by the renaming *)
Theorem C13_values_equivariant : forall n pi pinv kd kd' tr tr' finb finb',
  renaming n pi pinv ->
  (forall i, i < n -> kd' (pi i) = kd i) ->
  (forall i, i < n -> finb' (pi i) = finb i) ->
  (forall i, i < n -> Permutation (tr' (pi i)) (map (ren pi) (tr i))) ->
  (forall i t, i < n -> In t (tr i) -> dst t < n) ->
  forall m i, i < n -> (V kd' tr' finb' m (pi i) == V kd tr finb m i)%Q.
Proof.
  intros n pi pinv kd kd' tr tr' finb finb' R H1 H2 H3 H4 m i Hi.
  eapply (V_equivariant n pi kd kd' tr tr' finb finb'); eauto.
Qed.

(* the strategy scans are equivariant (any instance with lawful comparisons, e.g. Q): if the scanned
   (action, value) list is reordered and its actions renamed while the values are the same, the scan
   lists exactly the renamed actions, in the order of the reordered list *)
Theorem C13_strategies_equivariant : forall (T : Type) (K : ops T), lawful_order K ->
  forall (rho : string -> string) m0 (l l' : list (string * T)),
  Permutation l' (map (ren_av rho) l) ->
  (snd (scan_max K m0 l') = map fst (filter (fun av => eqb K (snd av) (vmax K m0 l')) l') /\
   Permutation (snd (scan_max K m0 l')) (map rho (snd (scan_max K m0 l)))) /\
  (snd (scan_min K m0 l') = map fst (filter (fun av => eqb K (snd av) (vmin K m0 l')) l') /\
   Permutation (snd (scan_min K m0 l')) (map rho (snd (scan_min K m0 l)))).
Proof.
  intros T K L rho m0 l l' P. split; [apply scan_max_equivariant|apply scan_min_equivariant]; assumption.
Qed.

(* CONDITIONAL end-to-end form of "reachability probabilities agree within the tolerance": two solved
   well-formed games on exact rationals; y, y' their values (fixed points of the Bellman equations on the
   iterated states, equal to the report elsewhere, super-solutions everywhere, within [0,1]); T, T'
   absorption-time certificates as in C01_error_bound. At every state s at which the two values
   correspond along pi - for a renamed/reordered description that is every state, by
   C13_values_equivariant at each horizon - the two reports differ by at most threshold * certificate.
   Without certificates the claim is false (K1-C13). *)
Theorem C13_reports_within_tolerance : forall (g g' : game (T:=Q)) (pi : nat -> nat),
  wf_game qops g -> wf_game qops g' ->
  (forall i, nth i (g_players g) PR = PR ->
     nonneg_w (nth i (g_trans g) []) /\ (sumw (nth i (g_trans g) []) <= 1)%Q) ->
  (forall i, nth i (g_players g') PR = PR ->
     nonneg_w (nth i (g_trans g') []) /\ (sumw (nth i (g_trans g') []) <= 1)%Q) ->
  forall fuel fuel' prune prune' sl1 sl1' rs rs' it it',
  solve_reach_fuel qops fuel g prune = Ok (sl1, rs, it) ->
  solve_reach_fuel qops fuel' g' prune' = Ok (sl1', rs', it') ->
  let p := reach_vec qops sl1 in
  let p' := reach_vec qops sl1' in
  exists srf srf', reverse_dfs (tlg g) (g_finals g) = Ok srf /\
                   reverse_dfs (tlg g') (g_finals g') = Ok srf' /\
  forall (y y' T T' : nat -> Q) (M M' : Q),
    (forall s, In s srf -> y s = gPhi g y s) -> (forall s, ~ In s srf -> y s = p s) ->
    (forall i, (0 <= y i <= 1)%Q) -> (forall i, gfin g i = true -> (1 <= y i)%Q) ->
    (forall i, gfin g i = false -> (gPhi g y i <= y i)%Q) ->
    (forall s, In s srf' -> y' s = gPhi g' y' s) -> (forall s, ~ In s srf' -> y' s = p' s) ->
    (forall i, (0 <= y' i <= 1)%Q) -> (forall i, gfin g' i = true -> (1 <= y' i)%Q) ->
    (forall i, gfin g' i = false -> (gPhi g' y' i <= y' i)%Q) ->
    (forall s, (1 + B (gkd g) (gtr g) (fun s => mem_nat s srf) T s <= T s)%Q) -> (forall s, (0 <= T s <= M)%Q) ->
    (forall s, (1 + B (gkd g') (gtr g') (fun s => mem_nat s srf') T' s <= T' s)%Q) -> (forall s, (0 <= T' s <= M')%Q) ->
    forall s, (y' (pi s) == y s)%Q ->
      (p s - p' (pi s) <= q_thr * T' (pi s))%Q /\ (p' (pi s) - p s <= q_thr * T s)%Q.
Proof. exact reports_close. Qed.

(* the report never exceeds ANY super-solution of the game's Bellman equations that is 1 on the final
   states - in particular never the true value, however the game is written down *)
Theorem C13_report_below_value : forall (g : game (T:=Q)),
  wf_game qops g ->
  (forall i, nth i (g_players g) PR = PR ->
     nonneg_w (nth i (g_trans g) []) /\ (sumw (nth i (g_trans g) []) <= 1)%Q) ->
  forall fuel prune sl1 rs it,
  solve_reach_fuel qops fuel g prune = Ok (sl1, rs, it) ->
  forall y : nat -> Q,
  (forall i, (0 <= y i)%Q) ->
  (forall i, gfin g i = true -> (1 <= y i)%Q) ->
  (forall i, gfin g i = false -> (gPhi g y i <= y i)%Q) ->
  forall s, (reach_vec qops sl1 s <= y s)%Q.
Proof. exact report_below_super. Qed.

(* non-vacuity of C13_reports_within_tolerance: the 0.9-self-loop game and the same game with states 1 and 2
   exchanged and every row written backwards; values (1,1,1); certificates (12,1,11) and (12,11,1) *)
Example C13_tolerance_hypotheses_met :
  wf_game qops k4_game /\ wf_game qops k4r_game /\
  (exists sl1 rs it, solve_reach_fuel qops 1000 k4_game true = Ok (sl1, rs, it)) /\
  (exists sl1 rs it, solve_reach_fuel qops 1000 k4r_game true = Ok (sl1, rs, it)) /\
  reverse_dfs (tlg k4_game) (g_finals k4_game) = Ok [0%nat; 2%nat] /\
  reverse_dfs (tlg k4r_game) (g_finals k4r_game) = Ok [0%nat; 1%nat] /\
  (forall s, (k4r_y (k4_pi s) == k4_y s)%Q) /\
  ((forall s, In s [0%nat; 2%nat] -> k4_y s = gPhi k4_game k4_y s) /\
   (forall i, (0 <= k4_y i <= 1)%Q) /\ (forall i, gfin k4_game i = true -> (1 <= k4_y i)%Q) /\
   (forall i, gfin k4_game i = false -> (gPhi k4_game k4_y i <= k4_y i)%Q)) /\
  ((forall s, In s [0%nat; 1%nat] -> k4r_y s = gPhi k4r_game k4r_y s) /\
   (forall i, (0 <= k4r_y i <= 1)%Q) /\ (forall i, gfin k4r_game i = true -> (1 <= k4r_y i)%Q) /\
   (forall i, gfin k4r_game i = false -> (gPhi k4r_game k4r_y i <= k4r_y i)%Q)) /\
  ((forall s, (1 + B (gkd k4_game) (gtr k4_game) (fun s => mem_nat s [0%nat; 2%nat]) k4_T s <= k4_T s)%Q) /\
   (forall s, (0 <= k4_T s <= 12)%Q)) /\
  ((forall s, (1 + B (gkd k4r_game) (gtr k4r_game) (fun s => mem_nat s [0%nat; 1%nat]) k4r_T s <= k4r_T s)%Q) /\
   (forall s, (0 <= k4r_T s <= 12)%Q)).
Proof.
  destruct k4_pair_solved as (A1 & A2 & A3 & A4 & A5).
  split; [exact k4_wf|]. split; [exact k4r_wf|]. split; [exact A1|]. split; [exact A2|]. split; [exact A3|].
  split; [exact A4|]. split; [exact A5|]. split; [exact k4_values|]. split; [exact k4r_values|].
  split; [exact k4_certificate|exact k4r_certificate].
Qed.

(* non-vacuity: swapping states 1 and 2 of a three-state graph *)
Example C13_example :
  renaming 3 (fun i => match i with 1 => 2 | 2 => 1 | _ => i end) (fun i => match i with 1 => 2 | 2 => 1 | _ => i end) /\
  renamed_graph 3 (fun i => match i with 1 => 2 | 2 => 1 | _ => i end) [[1; 2]; [2]; [2]] [[1; 2]; [1]; [1]].
Proof.
  split.
  - split; intros i Hi; destruct i as [|[|[|i]]]; cbn; lia.
  - split; [reflexivity|]. split; [reflexivity|]. split.
    + intros u v Hu Hv. destruct u as [|[|[|u]]]; cbn in Hv; try lia; repeat (destruct Hv as [<-|Hv]; [lia|]); destruct Hv.
    + intros i Hi. destruct i as [|[|[|i]]]; cbn; try lia.
      * apply perm_swap.
      * apply Permutation_refl.
      * apply Permutation_refl.
Qed.

Print Assumptions C13_reach_set_equivariant.
Print Assumptions C13_paths_equivariant.
Print Assumptions C13_bellman_equivariant.
Print Assumptions C13_values_equivariant.
Print Assumptions C13_strategies_equivariant.
Print Assumptions C13_reports_within_tolerance.
Print Assumptions C13_report_below_value.
