(** C13 — results do not depend on how the game is written down. Proved: every order-insensitive
    ingredient is equivariant under renaming states and reordering transitions. The end-to-end claim
    "within tolerance" is not a theorem (the in-place sweep order is not equivariant; known finding
    K1-C13) and is covered by the metamorphic check. *)
From Coq Require Import String List Arith Bool QArith Permutation Lia.
From CR Require Import Model.Num Model.Outcome Model.Graph Model.Game
     Proofs.GraphP Proofs.Laws Proofs.ReachQ Proofs.EquivP Proofs.EquivQ Proofs.EquivScan.
Import ListNotations.

(* the backward search of the renamed game returns exactly the renamed states *)
Theorem C13_reach_set_equivariant : forall n pi pinv (tl tl' : list (list nat)) finals finals',
  renaming n pi pinv -> renamed_graph n pi tl tl' ->
  (forall f, In f finals -> f < n) ->
  (forall f', In f' finals' <-> exists f, In f finals /\ f' = pi f) ->
  exists r r', reverse_dfs tl finals = Ok r /\ reverse_dfs tl' finals' = Ok r' /\
               forall s, s < n -> (In (pi s) r' <-> In s r).
Proof. intros n pi pinv tl tl' finals finals' R G. exact (reverse_dfs_equivariant n pi pinv tl tl' R G finals finals'). Qed.

(* paths correspond *)
Theorem C13_paths_equivariant : forall n pi pinv (tl tl' : list (list nat)) s f,
  renaming n pi pinv -> renamed_graph n pi tl tl' -> s < n -> f < n ->
  (path tl' (pi s) (pi f) <-> path tl s f).
Proof. intros n pi pinv tl tl' s f R G. exact (path_iff n pi pinv tl tl' R G s f). Qed.

(* the Bellman step of the renamed game at the renamed state equals the original one (exact rationals):
   owners follow the renaming, each row is the renamed row in ANY order *)
Theorem C13_bellman_equivariant : forall n pi pinv kd kd' tr tr',
  renaming n pi pinv ->
  (forall i, i < n -> kd' (pi i) = kd i) ->
  (forall i, i < n -> Permutation (tr' (pi i)) (map (ren pi) (tr i))) ->
  (forall i t, i < n -> In t (tr i) -> dst t < n) ->
  forall x x' i, i < n -> related n pi x x' -> (Phi kd' tr' x' (pi i) == Phi kd tr x i)%Q.
Proof. intros n pi pinv kd kd' tr tr' R H1 H2 H3 x x' i Hi Hx. eapply Phi_equivariant; eauto. Qed.

(* ... hence every finite-horizon value - and so the game value, their supremum - changes only by the renaming *)
Theorem C13_values_equivariant : forall n pi pinv kd kd' tr tr' finb finb',
  renaming n pi pinv ->
  (forall i, i < n -> kd' (pi i) = kd i) ->
  (forall i, i < n -> finb' (pi i) = finb i) ->
  (forall i, i < n -> Permutation (tr' (pi i)) (map (ren pi) (tr i))) ->
  (forall i t, i < n -> In t (tr i) -> dst t < n) ->
  forall m i, i < n -> (V kd' tr' finb' m (pi i) == V kd tr finb m i)%Q.
Proof.
  intros n pi pinv kd kd' tr tr' finb finb' R H1 H2 H3 H4 m i Hi.
  eapply (V_equivariant n pi kd kd' tr tr' finb finb'); eauto.
Qed.

(* the strategy scans are equivariant (any instance with lawful comparisons, e.g. Q): if the scanned
   (action, value) list is reordered and its actions renamed while the values are the same, the scan
   lists exactly the renamed actions, in the order of the reordered list *)
Theorem C13_strategies_equivariant : forall (T : Type) (K : ops T), lawful_order K ->
  forall (rho : string -> string) m0 (l l' : list (string * T)),
  Permutation l' (map (ren_av rho) l) ->
  (snd (scan_max K m0 l') = map fst (filter (fun av => eqb K (snd av) (vmax K m0 l')) l') /\
   Permutation (snd (scan_max K m0 l')) (map rho (snd (scan_max K m0 l)))) /\
  (snd (scan_min K m0 l') = map fst (filter (fun av => eqb K (snd av) (vmin K m0 l')) l') /\
   Permutation (snd (scan_min K m0 l')) (map rho (snd (scan_min K m0 l)))).
Proof.
  intros T K L rho m0 l l' P. split; [apply scan_max_equivariant|apply scan_min_equivariant]; assumption.
Qed.

(* non-vacuity: swapping states 1 and 2 of a three-state graph *)
Example C13_example :
  renaming 3 (fun i => match i with 1 => 2 | 2 => 1 | _ => i end) (fun i => match i with 1 => 2 | 2 => 1 | _ => i end) /\
  renamed_graph 3 (fun i => match i with 1 => 2 | 2 => 1 | _ => i end) [[1; 2]; [2]; [2]] [[1; 2]; [1]; [1]].
Proof.
  split.
  - split; intros i Hi; destruct i as [|[|[|i]]]; cbn; lia.
  - split; [reflexivity|]. split; [reflexivity|]. split.
    + intros u v Hu Hv. destruct u as [|[|[|u]]]; cbn in Hv; try lia; repeat (destruct Hv as [<-|Hv]; [lia|]); destruct Hv.
    + intros i Hi. destruct i as [|[|[|i]]]; cbn; try lia.
      * apply perm_swap.
      * apply Permutation_refl.
      * apply Permutation_refl.
Qed.

Print Assumptions C13_reach_set_equivariant.
Print Assumptions C13_paths_equivariant.
Print Assumptions C13_bellman_equivariant.
Print Assumptions C13_values_equivariant.
Print Assumptions C13_strategies_equivariant.
