(** C15 (continued) — the random board on a bit-exact model of CPython's [random] module.
    Statements only; the model is Model/MT.v, proofs live in Proofs/MTP.v.

    Props/C15.v proves the board's shape over an abstract random source and leaves the Mersenne
    Twister as an oracle. Here the source is the model of MT19937 + Lib/random.py itself:
    [seed_Z] = random.seed(int), [genrand] = genrand_uint32, [random] = random.random(),
    [getrandbits], [randrange0 n] = random.randrange(0, n), [choices] = random.choices(pop, weights,
    k=k), and [gen_rnd_board_mt] = roberta_generator.gen_rnd_board. harness/mt_corr.py compares all
    of them with the real module (values bit for bit), so "same seed, same board" becomes a
    theorem about a function of the seed instead of an observation.

    Still not modelled: libm's log. The model's reward is the exact floor(-log2 y) of the binary64
    number y the code passes to math.log (read off y's mantissa and exponent); agreement with
    floor(-log(y)/log(2.0)) is observed on every compared tile. That rewards lie in
    [0, max_reward] is therefore not stated here (C15_entries states it for exact arithmetic).

    Vocabulary (Proofs/MTP.v): [word x] = x < 2^32; [words_ok l] = 624 words;
    [state_ok st] = words_ok (mt_words st) and index <= 624. *)
From Coq Require Import String ZArith NArith List Bool QArith.
From Coq Require PrimFloat.
From CR Require Import Model.Num Model.Outcome Model.Params Model.MT Proofs.MTP.
Import ListNotations.

(** * Seeding *)

(* random.seed(a) for every int a: the state is 624 words below 2^32 with the index at 624 (the
   first draw regenerates the block), and depends on |a| only. *)
Theorem C15M_seed_state : forall a : Z,
  List.length (mt_words (seed_Z a)) = 624 /\
  Forall (fun x => (x < 2 ^ 32)%N) (mt_words (seed_Z a)) /\
  mt_idx (seed_Z a) = 624.
Proof.
  intros a. destruct (seed_Z_ok a) as [[A B] _]. split; [exact A|]. split; [exact B|reflexivity].
Qed.
Print Assumptions C15M_seed_state.

Theorem C15M_seed_sign : forall a : Z, seed_Z (- a) = seed_Z a.
Proof. exact seed_Z_abs. Qed.
Print Assumptions C15M_seed_sign.

(* the key handed to init_by_array: the base-2^32 digits of the seed, least significant first,
   at least one, no superfluous leading zero word - for seeds of any size *)
Theorem C15M_seed_key : forall n : N,
  key_value (key_of n) = n /\ Forall (fun x => (x < 2 ^ 32)%N) (key_of n) /\ key_of n <> [] /\
  (n <> 0%N -> last (key_of n) 0%N <> 0%N).
Proof.
  intros n. split; [apply key_of_value|]. split; [apply key_of_word|].
  split; [apply key_of_nonempty|apply key_of_last].
Qed.
Print Assumptions C15M_seed_key.

(** * The block regeneration and one draw *)

(* regeneration keeps 624 words *)
Theorem C15M_regen_state : forall mt, words_ok mt -> words_ok (regen mt).
Proof. exact regen_ok. Qed.
Print Assumptions C15M_regen_state.

(* [regen] (four structural passes) computes what the C loop computes in place: word kk is
   source ^ mix(mt[kk], mt[kk+1]) with source = the OLD mt[kk+397] for kk < 227, the NEW
   mt[kk-227] for 227 <= kk < 623, and the last word reads the new mt[396] and the new mt[0] *)
Theorem C15M_regen_is_the_loop : forall mt, List.length mt = 624 ->
  let new := regen mt in
  (forall kk, kk < 227 ->
     nth kk new 0%N = N.lxor (nth (kk + 397) mt 0%N) (mix (nth kk mt 0%N) (nth (kk + 1) mt 0%N))) /\
  (forall kk, 227 <= kk < 623 ->
     nth kk new 0%N = N.lxor (nth (kk - 227) new 0%N) (mix (nth kk mt 0%N) (nth (kk + 1) mt 0%N))) /\
  nth 623 new 0%N = N.lxor (nth 396 new 0%N) (mix (nth 623 mt 0%N) (nth 0 new 0%N)).
Proof. exact regen_spec. Qed.
Print Assumptions C15M_regen_is_the_loop.

(* every draw returns a 32-bit word and leaves a well-formed state: with C15M_seed_state, every
   state reachable from any seed by any sequence of draws is 624 words below 2^32 *)
Theorem C15M_draw_state : forall st, state_ok st ->
  (fst (genrand st) < 2 ^ 32)%N /\ state_ok (snd (genrand st)).
Proof. exact genrand_ok. Qed.
Print Assumptions C15M_draw_state.

(** * random() *)

(* random() = (a * 2^26 + b) / 2^53 with a = genrand >> 5 < 2^27 and b = genrand >> 6 < 2^26:
   the exact value is a rational in [0, 1) (1.0 is never returned; 0.0 needs a = b = 0).
   The float the model returns is [ab_float a b] = (a*67108864.0+b)*(1.0/9007199254740992.0)
   evaluated on primitive binary64 numbers; both operations are exact there (a*2^26+b < 2^53). *)
Theorem C15M_random_range : forall st, state_ok st ->
  let '(a, b, st') := random_ab st in
  (a < 2 ^ 27)%N /\ (b < 2 ^ 26)%N /\ (ab_num a b < 2 ^ 53)%N /\ state_ok st'.
Proof. exact random_ab_ok. Qed.
Print Assumptions C15M_random_range.

Theorem C15M_random_value : forall st, state_ok st -> (0 <= random_Q st /\ random_Q st < 1)%Q.
Proof. exact random_Q_range. Qed.
Print Assumptions C15M_random_value.

(** * getrandbits, randrange *)

Theorem C15M_getrandbits_range : forall k st, state_ok st ->
  (fst (getrandbits k st) < 2 ^ k)%N /\ state_ok (snd (getrandbits k st)).
Proof. exact getrandbits_ok. Qed.
Print Assumptions C15M_getrandbits_range.

(* randrange(0, n): whenever it returns, the value is in [0, n) *)
Theorem C15M_randrange_range : forall n st r st', state_ok st ->
  randrange0 n st = Ok (r, st') -> (0 <= Z.of_N r < n)%Z /\ state_ok st'.
Proof. exact randrange0_ok. Qed.
Print Assumptions C15M_randrange_range.

(* ... and for n >= 1 it never raises: the only other outcome is the model's fuel (200 rounds of a
   rejection loop that the code runs unboundedly; each round succeeds with probability > 1/2) *)
Theorem C15M_randrange_total : forall n st, (1 <= n)%Z ->
  (exists r, randrange0 n st = Ok r) \/ randrange0 n st = OutOfFuel.
Proof. exact randrange0_total. Qed.
Print Assumptions C15M_randrange_total.

(** * choices *)

(* bisect_right stays inside [lo, hi], and hi - lo + 1 rounds of fuel are always enough *)
Theorem C15M_bisect_range : forall fuel a x lo hi, lo <= hi -> lo <= bisect fuel a x lo hi <= hi.
Proof. exact bisect_range. Qed.
Print Assumptions C15M_bisect_range.

Theorem C15M_bisect_fuel : forall f1 f2 a x lo hi, hi - lo < f1 -> hi - lo < f2 ->
  bisect f1 a x lo hi = bisect f2 a x lo hi.
Proof. exact bisect_fuel. Qed.
Print Assumptions C15M_bisect_fuel.

(* every entry of choices(population, weights, k=k) is an element of the population, there are k of
   them, for every population, weight list and state *)
Theorem C15M_choices_population : forall (A : Type) (pop : list A) ws k st l st', state_ok st ->
  choices pop ws k st = Ok (l, st') ->
  List.length l = k /\ Forall (fun v => In v pop) l /\ state_ok st'.
Proof. intros A. exact choices_ok. Qed.
Print Assumptions C15M_choices_population.

(* with the two weight vectors of get_random_moves choices never raises *)
Theorem C15M_choices_never_raise : forall k st,
  (exists r, choices [0; 1; 2; 3] w_fd k st = Ok r) /\ (exists r, choices [0; 1; 2] w_nofd k st = Ok r).
Proof. intros k st. split; [apply choices_fd_total|apply choices_nofd_total]. Qed.
Print Assumptions C15M_choices_never_raise.

(** * The board *)

(* For ALL seeds, sizes, probabilities, maximum rewards and both flags: whenever gen_rnd_board_mt
   returns a board, the three grids have L rows of W entries, loose flags are 0 or 1, arrows come
   from the allowed set, and every row contains a down-only tile (3) iff force-down is set. *)
Theorem C15M_board_shape : forall seed L W p m fd moves rewards loose,
  gen_rnd_board_mt seed L W p m fd = Ok (moves, rewards, loose) ->
  grid L W (fun a => a < (if fd then 4 else 3)) moves /\
  (List.length rewards = L /\ forall row, In row rewards -> List.length row = W) /\
  grid L W (fun t => t <= 1) loose /\
  (forall row, In row moves -> (In 3 row <-> fd = true)).
Proof. intros seed L W p m fd moves rewards loose E. exact (board_mt_shape _ _ _ _ _ _ _ E). Qed.
Print Assumptions C15M_board_shape.

(* ... and it does return one for every width >= 1 and max_reward < 1023 (K3: from 1023 on the
   code raises OverflowError), up to the model's fuel for randrange's rejection loop *)
Theorem C15M_board_total : forall seed L W p m fd, 1 <= W -> m < 1023 ->
  (exists b, gen_rnd_board_mt seed L W p m fd = Ok b) \/ gen_rnd_board_mt seed L W p m fd = OutOfFuel.
Proof. exact board_mt_total. Qed.
Print Assumptions C15M_board_total.

(* The board is a function of the seed and the parameters (no hidden state: the generator state is
   created by seed_Z inside), and of |seed| only. *)
Theorem C15M_board_function : forall seed seed' L W p m fd,
  Z.abs seed = Z.abs seed' ->
  gen_rnd_board_mt seed L W p m fd = gen_rnd_board_mt seed' L W p m fd.
Proof.
  intros seed seed' L W p m fd E. unfold gen_rnd_board_mt, seed_Z.
  replace (Z.abs_N seed') with (Z.abs_N seed); [reflexivity|].
  apply N2Z.inj. rewrite !N2Z.inj_abs_N. exact E.
Qed.
Print Assumptions C15M_board_function.

(** * Non-vacuity: the model computes what CPython computes *)

(* random.seed(0); random.random() == 0.8444218515250481 == 0x1.b0580f98a7dbep-1
   == 7605875871743422 * 2^-53  ([mkf m e] is the binary64 number m * 2^e; float literals need
   PrimFloat imported, which this file avoids so that Print Assumptions prints qualified names) *)
Example C15M_seed0_random :
  fst (random (seed_Z 0)) = mkf 7605875871743422 (-53) /\
  fdecomp (fst (random (seed_Z 0))) = (7605875871743422, -53)%Z /\
  (random_Q (seed_Z 0) == 7605875871743422 # 9007199254740992)%Q.
Proof. vm_compute. repeat split; reflexivity. Qed.

(* the first three 32-bit outputs (random.getrandbits(32)) for seeds 0, 1, 42 and 2**40+5 *)
Fixpoint draws (n : nat) (st : mtstate) : list N :=
  match n with O => [] | S n' => let (x, st') := genrand st in x :: draws n' st' end.
Example C15M_first_outputs :
  draws 3 (seed_Z 0) = [3626764237; 1654615998; 3255389356]%N /\
  draws 3 (seed_Z 1) = [577090037; 2444712010; 3639700191]%N /\
  draws 3 (seed_Z 42) = [2746317213; 478163327; 107420369]%N /\
  draws 3 (seed_Z (2 ^ 40 + 5)) = [2166296868; 2220160828; 1153647273]%N /\
  key_of (2 ^ 40 + 5) = [5; 256]%N.
Proof. vm_compute. repeat split; reflexivity. Qed.

(* random.seed(1).random() = 0.13436424411240122, seed 42: 0.6394267984578837,
   seed 2**40+5: 0.5043802970418443 *)
Example C15M_first_randoms :
  fst (random (seed_Z 1)) = mkf 4840982077732228 (-55) /\          (* 0x1.132d8f91b7584p-3 *)
  fst (random (seed_Z 42)) = mkf 5759444582531269 (-53) /\         (* 0x1.4762f307200c5p-1 *)
  fst (random (seed_Z (2 ^ 40 + 5))) = mkf 4543053835621340 (-53).  (* 0x1.023e2261153dcp-1 *)
Proof. vm_compute. repeat split; reflexivity. Qed.

(* random.seed(0); random.choices([0,1,2,3],[0.1,0.5,0.1,0.3],k=8) == [3,3,1,1,1,1,3,1];
   then random.randrange(0,8) == 7 and random.randrange(0,5) == 2 *)
Example C15M_choices_randrange :
  match choices [0; 1; 2; 3] w_fd 8 (seed_Z 0) with
  | Ok (l, st) =>
    match randrange0 8 st with
    | Ok (r1, st1) => match randrange0 5 st1 with Ok (r2, _) => Some (l, r1, r2) | _ => None end
    | _ => None
    end
  | _ => None
  end = Some ([3; 3; 1; 1; 1; 1; 3; 1], 7%N, 2%N).
Proof. vm_compute. reflexivity. Qed.

(* gen_rnd_board(0, 3, 3, 0.3, 6, True) and (..., False) of the repository *)
Definition p03 : PrimFloat.float := mkf 5404319552844595 (-54).   (* 0.3 = 0x1.3333333333333p-2 *)
Example C15M_board_seed0 :
  gen_rnd_board_mt 0 3 3 p03 6 true =
    Ok ([[3; 3; 3]; [0; 3; 3]; [3; 1; 2]], [[0; 1; 0]; [0; 1; 0]; [1; 0; 0]]%Z, [[0; 1; 0]; [0; 0; 0]; [0; 1; 0]]) /\
  gen_rnd_board_mt 0 3 3 p03 6 false =
    Ok ([[2; 2; 1]; [1; 2; 1]; [1; 0; 1]], [[0; 1; 0]; [0; 1; 0]; [1; 0; 0]]%Z, [[0; 1; 0]; [0; 0; 0]; [0; 1; 0]]).
Proof. vm_compute. split; reflexivity. Qed.

(* the other outcomes exist: an empty forced-down row, and max_reward = 1023 *)
Example C15M_board_errors :
  gen_rnd_board_mt 0 2 0 p03 6 true = ValueErr "empty range in randrange(0, 0)" /\
  gen_rnd_board_mt 0 1 1 p03 1023 false = Crash "OverflowError".
Proof. vm_compute. split; reflexivity. Qed.
