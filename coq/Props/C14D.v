(** C14, residual form (exact rationals): when the reward loop stops, the two cross-objective diagnostics
    - 'rewards under minimal reachability' (ermr) and 'probabilities under minimal reward' (erm) - satisfy,
    together with the expected rewards and measured in the FINAL vectors, the equations of one reward step
    (Props/C14.v) up to the threshold 10^-6 at every state. In particular at a Player-1 state all three
    reported quantities follow ONE successor up to the threshold. This says nothing about equality with the
    induced chain's true values (K1, K5 in Props/C14.v).
    Notation: psum x l = sum over t in l of x(dst t) * pr t; p2strats rv l = the actions of l whose
    6-digit-rounded rv-value of the target is minimal (scan from 1) = Player 2's reachability strategy;
    rmin y strats l m = running minimum (from m) of y over the targets of the transitions of l whose action
    is in strats. *)
From Coq Require Import String List Arith Bool QArith Qabs.
From CR Require Import Model.Num Model.Outcome Model.Game Proofs.PipelineP Proofs.RewStepP
     Proofs.ReachQ Proofs.RewQ Proofs.RewQ2 Proofs.RewResQ Proofs.RewQ3 Proofs.DiagResQ.
Import ListNotations.
Local Open Scope Q_scope.

(* what [res_at] says, spelled out (it is this match by definition): kind k, reward r, row l, reachability
   values rv, vectors X (expected rewards), Y (rewards under minimal reachability), Z (probabilities under
   minimal reward), tolerance d, state i *)
Theorem C14D_res_at_meaning : forall k r l rv (X Y Z : nat -> Q) d i,
  res_at k r l rv X Y Z d i <->
  match l with
  | [] => X i = 0 /\ Y i = 0 /\ Z i = 0
  | _ :: _ =>
    match k with
    | PR => Qabs (r + psum X l - X i) <= d /\ Qabs (r + psum Y l - Y i) <= d /\ Qabs (psum Z l - Z i) <= d
    | P1 => exists t, In t l /\
              Qabs (r + X (dst t) - X i) <= d /\ Qabs (r + Y (dst t) - Y i) <= d /\ Qabs (Z (dst t) - Z i) <= d
    | P2 => (exists t, In t l /\ Qabs (r + X (dst t) - X i) <= d /\ Qabs (Z (dst t) - Z i) <= d) /\
            (p2strats rv l = [] -> Y i = 0) /\
            (p2strats rv l <> [] ->
               exists f0 fl, filter (fun t => mem_str (act t) (p2strats rv l)) l = f0 :: fl /\
                             Qabs (r + rmin Y (p2strats rv l) l (Y (dst f0)) - Y i) <= d)
    end
  end.
Proof. intros. reflexivity. Qed.

(* The loop itself: for any node list whose probabilistic rows carry non-negative probabilities summing to
   at most 1 (prob_ok), when the reward loop returns, kinds/rewards/rows/reachability values are unchanged
   and at every state s the residual statement [res_at] holds with tolerance 10^-6 for the vectors of the
   final list: empty row - the three values are exactly 0; probabilistic - the three weighted sums (reward
   added for er and ermr) are within the tolerance of the state's own values; Player 1 - one transition t of
   the row is followed by all three; Player 2 - one transition is followed by er and erm, and ermr is reward
   + the strategy-restricted minimum of the final ermr vector (0 when the strategy is empty). *)
Theorem C14D_loop_residual : forall fuel (sl : list (node (T:=Q))) i sl' k,
  prob_ok sl -> vi_rew qops fuel sl i = Ok (sl', k) ->
  (forall j, stat4 sl' j = stat4 sl j) /\
  forall s, (s < length sl)%nat ->
    res_at (nk (getn qops sl s)) (rew (getn qops sl s)) (nxt (getn qops sl s)) (reach_vec qops sl)
           (fun j => er (getn qops sl' j)) (fun j => ermr (getn qops sl' j)) (fun j => erm (getn qops sl' j))
           q_thr s.
Proof. exact vi_diag_residual. Qed.

(* End to end, one statement: for every well-formed game whose probabilistic transitions carry positive
   probabilities summing to at most 1, both modes, when solve returns, [res_at] holds at every state for
   the reported vectors on the conditioned rows (r_pruned). The four cases are spelled out below. *)
Theorem C14D_solve_residual : forall fuel (g : game (T:=Q)) prune r,
  wf_game qops g -> num_wf1 g -> solve_fuel qops fuel g prune = Ok r ->
  forall s, (s < nstates g)%nat ->
    res_at (nth s (g_players g) PR) (nth s (g_rewards g) 0) (nth s (r_pruned r) [])
           (fun i => nth i (r_probs r) 0)
           (fun i => nth i (r_rewards r) 0) (fun i => nth i (r_rew_min_reach r) 0) (fun i => nth i (r_prob_min_rew r) 0)
           q_thr s.
Proof. exact solve_diag_consistent. Qed.

(* (a) probabilistic state with a non-empty conditioned row *)
Theorem C14D_probabilistic : forall fuel (g : game (T:=Q)) prune r,
  wf_game qops g -> num_wf1 g -> solve_fuel qops fuel g prune = Ok r ->
  forall s, (s < nstates g)%nat ->
  let row := nth s (r_pruned r) [] in let rw := nth s (g_rewards g) 0 in
  let x := fun i => nth i (r_rewards r) 0 in
  let y := fun i => nth i (r_rew_min_reach r) 0 in
  let z := fun i => nth i (r_prob_min_rew r) 0 in
  nth s (g_players g) PR = PR -> row <> [] ->
  Qabs (rw + psum x row - x s) <= q_thr /\ Qabs (rw + psum y row - y s) <= q_thr /\ Qabs (psum z row - z s) <= q_thr.
Proof. exact solve_diag_probabilistic. Qed.

(* (b) Player-1 state with a non-empty conditioned row: expected reward, reward diagnostic and probability
   diagnostic all follow ONE transition of the row, up to the threshold, in the reported vectors *)
Theorem C14D_player1 : forall fuel (g : game (T:=Q)) prune r,
  wf_game qops g -> num_wf1 g -> solve_fuel qops fuel g prune = Ok r ->
  forall s, (s < nstates g)%nat ->
  let row := nth s (r_pruned r) [] in let rw := nth s (g_rewards g) 0 in
  let x := fun i => nth i (r_rewards r) 0 in
  let y := fun i => nth i (r_rew_min_reach r) 0 in
  let z := fun i => nth i (r_prob_min_rew r) 0 in
  nth s (g_players g) PR = P1 -> row <> [] ->
  exists t, In t row /\
    Qabs (rw + x (dst t) - x s) <= q_thr /\ Qabs (rw + y (dst t) - y s) <= q_thr /\ Qabs (z (dst t) - z s) <= q_thr.
Proof. exact solve_diag_player1. Qed.

(* (c) Player-2 state with a non-empty conditioned row: expected reward and probability diagnostic follow
   one transition; the reward diagnostic is within the threshold of reward + the running minimum of the
   reported reward-diagnostic vector over the transitions permitted by the state's 6-digit reachability
   strategy, seeded with the first permitted one (and exactly 0 when that strategy is empty) *)
Theorem C14D_player2 : forall fuel (g : game (T:=Q)) prune r,
  wf_game qops g -> num_wf1 g -> solve_fuel qops fuel g prune = Ok r ->
  forall s, (s < nstates g)%nat ->
  let row := nth s (r_pruned r) [] in let rw := nth s (g_rewards g) 0 in
  let x := fun i => nth i (r_rewards r) 0 in
  let y := fun i => nth i (r_rew_min_reach r) 0 in
  let z := fun i => nth i (r_prob_min_rew r) 0 in
  let strats := p2strats (fun i => nth i (r_probs r) 0) row in
  nth s (g_players g) PR = P2 -> row <> [] ->
  (exists t, In t row /\ Qabs (rw + x (dst t) - x s) <= q_thr /\ Qabs (z (dst t) - z s) <= q_thr) /\
  (strats = [] -> y s = 0) /\
  (strats <> [] -> exists f0 fl, filter (fun t => mem_str (act t) strats) row = f0 :: fl /\
                                 Qabs (rw + rmin y strats row (y (dst f0)) - y s) <= q_thr).
Proof. exact solve_diag_player2. Qed.

(* the strategy in (c) is the REPORTED reachability strategy of that state, and its row is the original row *)
Theorem C14D_player2_strategy_is_reported : forall fuel (g : game (T:=Q)) prune r,
  wf_game qops g -> solve_fuel qops fuel g prune = Ok r ->
  forall s, (s < nstates g)%nat ->
  nth s (g_players g) PR = P2 -> nth s (r_pruned r) [] <> [] ->
  nth s (r_pruned r) [] = nth s (g_trans g) [] /\
  nth s (r_reachs r) None = Some (p2strats (fun i => nth i (r_probs r) 0) (nth s (r_pruned r) [])).
Proof. exact solve_p2_strategy_is_reported. Qed.

(* (d) a state whose conditioned row is empty reports exactly 0 in all three vectors *)
Theorem C14D_empty : forall fuel (g : game (T:=Q)) prune r,
  wf_game qops g -> num_wf1 g -> solve_fuel qops fuel g prune = Ok r ->
  forall s, (s < nstates g)%nat ->
  nth s (r_pruned r) [] = [] ->
  nth s (r_rewards r) 0 = 0 /\ nth s (r_rew_min_reach r) 0 = 0 /\ nth s (r_prob_min_rew r) 0 = 0.
Proof. exact solve_diag_empty. Qed.

(* Non-vacuity: a 5-state game with a Player-1, a Player-2 and a probabilistic state; the hypotheses hold,
   the pruned solve returns, states 0, 1, 2 keep non-empty rows (cases b, c, a), state 4 is emptied (case d)
   and Player 2's reachability strategy at state 1 is not empty. *)
Example C14D_nonvacuous :
  wf_game qops dq_game /\ num_wf1 dq_game /\
  nth 0 (g_players dq_game) PR = P1 /\ nth 1 (g_players dq_game) PR = P2 /\ nth 2 (g_players dq_game) PR = PR /\
  exists r, solve_fuel qops 100 dq_game true = Ok r /\
    nth 0 (r_pruned r) [] <> [] /\ nth 1 (r_pruned r) [] <> [] /\ nth 2 (r_pruned r) [] <> [] /\
    nth 4 (r_pruned r) [] = [] /\
    p2strats (fun i => nth i (r_probs r) 0) (nth 1 (r_pruned r) []) = ["d"%string] /\
    r_rewards r = [1; 0; 1; 0; 0] /\ r_rew_min_reach r = [1; 1; 1; 0; 0] /\ r_prob_min_rew r = [1; 1; 1; 1; 0].
Proof.
  split; [exact dq_wf|]. split; [exact dq_num_wf1|]. split; [reflexivity|]. split; [reflexivity|]. split; [reflexivity|].
  exact dq_solves.
Qed.

Print Assumptions C14D_res_at_meaning.
Print Assumptions C14D_loop_residual.
Print Assumptions C14D_solve_residual.
Print Assumptions C14D_probabilistic.
Print Assumptions C14D_player1.
Print Assumptions C14D_player2.
Print Assumptions C14D_player2_strategy_is_reported.
Print Assumptions C14D_empty.
Print Assumptions C14D_nonvacuous.
