(** C07 — backward search returns exactly the states that can reach a final state.
    Statements only; proofs live in Proofs/GraphP.v. *)
From Coq Require Import List Arith Sorted.
From CR Require Import Model.Outcome Model.Graph Proofs.GraphP.
Import ListNotations.

(* For every transition list and every list of final states in range (any order, repetitions,
   graphs of any size and depth): the search returns [Ok r] - never a crash, never out of fuel -
   with r strictly ascending (so each state exactly once) and containing precisely the non-final
   states from which some final state is reachable along transitions. *)
Theorem C07_reverse_dfs_exact : forall (tl : list (list nat)) (finals : list nat),
  (forall f, In f finals -> f < length tl) ->
  exists r, reverse_dfs tl finals = Ok r /\
            StronglySorted lt r /\
            (forall s, In s r <-> (~ In s finals /\ exists f, In f finals /\ path tl s f)).
Proof. exact reverse_dfs_exact. Qed.
Print Assumptions C07_reverse_dfs_exact.

(* The reversed table has an entry for every state; u is listed under v once per transition
   u -> v, sources in ascending order. *)
Theorem C07_reverse_table : forall (tl : list (list nat)) (v : nat),
  v < length tl ->
  exists l, dict_get (rev_table tl) v = Some l /\
            (forall u, count_occ Nat.eq_dec l u = count_occ Nat.eq_dec (nth u tl []) v) /\
            Sorted le l.
Proof. exact reverse_table_spec. Qed.
Print Assumptions C07_reverse_table.

(* ... and no other keys than states and transition targets *)
Theorem C07_reverse_table_keys : forall (tl : list (list nat)) (k : nat) (l : list nat),
  In (k, l) (rev_table tl) -> k < length tl \/ exists u, edge tl u k.
Proof. exact reverse_table_keys. Qed.
Print Assumptions C07_reverse_table_keys.

(* The fuel the model passes is enough for every graph: the search never runs out. *)
Theorem C07_fuel : forall (tl : list (list nat)) (finals : list nat),
  (forall f, In f finals -> f < length tl) -> reverse_dfs tl finals <> OutOfFuel.
Proof. intros tl finals H. destruct (reverse_dfs_exact tl finals H) as [r [E _]]. rewrite E. discriminate. Qed.
Print Assumptions C07_fuel.

(* Defect D2 of the pinned tree (repaired by a fix: commit): membership was tested against the
   list at entry of the recursive call, so a state was returned twice. *)
Theorem C07_orig_refuted :
  exists tl finals r, reverse_dfs_orig 10 tl finals = Ok r /\ ~ NoDup r.
Proof.
  exists [[1]; [1; 2]; [2]], [2], [0; 1; 1]. split; [exact reverse_dfs_orig_duplicates|].
  intros H. inversion H as [|? ? _ H1]; subst. inversion H1 as [|? ? H2 _]; subst. apply H2. left. reflexivity.
Qed.
Print Assumptions C07_orig_refuted.

(* non-vacuity: a cyclic graph with a self-loop, a parallel edge and an unreachable part *)
Example C07_example :
  reverse_dfs [[1; 1]; [0; 2]; [2]; [3; 0]; [4]] [2; 2] = Ok [0; 1; 3].
Proof. vm_compute. reflexivity. Qed.
