(** C08 - generated games encode the Roborta board rules faithfully.
    Statements only; proofs live in Proofs/RobortaP.v (on top of Proofs/BoardP.v).
    Specification: Spec/Roborta.v (the rules as a structured game, written from the prose rules).
    Model of the generator: Model/Board.v (gen_A, gen_B, gen_C), tied to roberta_generator.py by the
    correspondence part of the check. *)
From Coq Require Import String List Arith Bool QArith.
From CR Require Import Model.Num Model.Outcome Model.Graph Model.Game Model.Board.
From CR Require Import Spec.Roborta Proofs.BoardP Proofs.RobortaP.
Import ListNotations.
Local Close Scope Q_scope.

(** For every board size L, W >= 1, every board (arrow codes 0..3, any rewards, any loose layout) and
    every (symbolic) break probability, in every instance of the number operations:
    the relation  s ~ k  iff  s is a phase of the variant's play and k = group(s)*L*W + i*W + j
    (the generator's numbering; the losing and the winning state come last)
    - is a bisimulation between the rule game and the emitted game: related states have the same owner,
      the same reward, the same finality, and transition lists that agree position by position in
      action label, probability and (related) target - hence both transfer conditions, see
      [Roborta.bisim_forth] and [Roborta.bisim_back];
    - relates the initial states [Light 0 0] and 0;
    - only relates indices that are states of the emitted game (so no default of [nth] is reached). *)
Definition C08_statement {T} (K : ops T) (v : variant) (L W : nat) (moves : nat -> nat -> nat)
           (rewards : nat -> nat -> T) (loose : nat -> nat -> nat) (ptb prb plb : T)
           (g : game (T:=T)) : Prop :=
  let arrows := fun i j => arrow_of (moves i j) in
  let is_loose := fun i j => loose i j =? 1 in
  let R := idx_rel L W arrows v in
  bisimulation (roborta K L W arrows rewards is_loose ptb prb plb v) (game_lts K g) R /\
  R (Light 0 0) 0 /\
  (forall s k, R s k -> k < length (g_players g)).

Theorem C08_A_bisim : forall (T : Type) (K : ops T) L W moves rewards loose ptb prb plb,
  1 <= L -> 1 <= W -> (forall i j, i < L -> j < W -> moves i j <= 3) ->
  C08_statement K VA L W moves rewards loose ptb prb plb (gen_A K L W moves rewards loose ptb).
Proof. exact (@A_bisim_full). Qed.
Print Assumptions C08_A_bisim.

Theorem C08_B_bisim : forall (T : Type) (K : ops T) L W moves rewards loose ptb prb plb,
  1 <= L -> 1 <= W -> (forall i j, i < L -> j < W -> moves i j <= 3) ->
  C08_statement K VB L W moves rewards loose ptb prb plb (gen_B K L W moves rewards loose ptb prb).
Proof. exact (@B_bisim_full). Qed.
Print Assumptions C08_B_bisim.

Theorem C08_C_bisim : forall (T : Type) (K : ops T) L W moves rewards loose ptb prb plb,
  1 <= L -> 1 <= W -> (forall i j, i < L -> j < W -> moves i j <= 3) ->
  C08_statement K VC L W moves rewards loose ptb prb plb (gen_C K L W moves rewards loose ptb prb plb).
Proof. exact (@C_bisim_full). Qed.
Print Assumptions C08_C_bisim.

(** The phases the relation is restricted to contain the initial state and are closed under the
    rules, so the relation covers everything reachable from [Light 0 0]. *)
Theorem C08_phases_closed : forall (T : Type) (K : ops T) L W moves loose ptb prb plb v s x,
  1 <= L -> 1 <= W ->
  let arrows := fun i j => arrow_of (moves i j) in
  valid L W arrows v s ->
  In x (rtrans K L W arrows (fun i j => loose i j =? 1) ptb prb plb v s) ->
  valid L W arrows v (snd x).
Proof. intros T K L W moves loose ptb prb plb v s x HL HW. exact (valid_closed K L W moves (fun _ _ => ptb) loose ptb prb plb HL HW v s x). Qed.
Print Assumptions C08_phases_closed.

(** Defect D3 of the pinned tree (repaired by the fix: commit 7de53ea). With the original case order
    of player_one_left_right_transitions ("elif j == 0" before "elif j == width-1", kept in
    Model/Board.v as ..._orig) a 2x1 board sends Right from row 0 to row 1's tile and from the last
    row to the losing state, and the numbering is not a bisimulation. *)
Theorem C08_A_onecolumn_orig_refuted :
  let g := gen_A_orig qops 2 1 d3_moves d3_rewards d3_loose (1 # 10)%Q in
  nth (idx 2 1 VA (LR 0 0)) (g_trans g) [] =
    [mkT "Left"%string 0%Q (idx 2 1 VA (Land 0 0)); mkT "Right"%string 0%Q (idx 2 1 VA (Land 1 0))] /\
  nth (idx 2 1 VA (LR 1 0)) (g_trans g) [] =
    [mkT "Left"%string 0%Q (idx 2 1 VA (Land 1 0)); mkT "Right"%string 0%Q (idx 2 1 VA Lost)] /\
  ~ C08_statement qops VA 2 1 d3_moves d3_rewards d3_loose (1 # 10)%Q 0%Q 0%Q g.
Proof.
  cbv zeta. destruct d3_right_leaves_row as (H1 & H2 & _).
  split; [exact H1|split; [exact H2|]]. intros (HB & _). exact (d3_not_bisim HB).
Qed.
Print Assumptions C08_A_onecolumn_orig_refuted.

(* non-vacuity: a 2x2 board with every arrow code and loose tiles meets the hypotheses, and the
   related states of game C carry the transitions the rules prescribe *)
Example C08_example_hyp : forall i j, i < 2 -> j < 2 -> ex_moves i j <= 3.
Proof. exact ex_moves_ok. Qed.
Example C08_example :
  let g := gen_C qops 2 2 ex_moves ex_rewards ex_loose (1 # 10)%Q (1 # 2)%Q (29 # 100)%Q in
  map (fun t => (act t, dst t)) (nth (idx 2 2 VC (Free 0 1)) (g_trans g) []) =
    [("Down"%string, idx 2 2 VC (TryDown 0 1)); ("Left"%string, idx 2 2 VC (TryLeft 0 1));
     ("Right"%string, idx 2 2 VC (TryRight 0 1))] /\
  nth (idx 2 2 VC (TryLeft 1 0)) (g_trans g) [] =
    [mkT ""%string (1 # 2)%Q (idx 2 2 VC (Land 1 0)); mkT ""%string (1 # 2)%Q (idx 2 2 VC (Land 1 1))] /\
  map dst (nth (idx 2 2 VC (TryDown 1 1)) (g_trans g) []) = [idx 2 2 VC (Land 1 1); idx 2 2 VC Won] /\
  nth (idx 2 2 VC (Light 1 0)) (g_rewards g) 0%Q = 1%Q.
Proof. exact c08_example. Qed.
