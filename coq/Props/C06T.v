(** C06 (termination of the reward loop, exact rationals, ranked / acyclic node lists).

    Complements Props/C06.v: there the reachability loop is shown to terminate and the reward loop is
    shown never to crash; here the reward loop [vi_rew] is shown to return [Ok] within an explicit
    number of sweeps when the transition structure it runs on is ranked: every transition goes to a
    state of strictly smaller rank (no self-loops, no cycles) - or, more generally, the only cycles
    are among end states that already hold their own step value (absorbing zero-reward states).

    [getn] is [nth] with a default node; the hypotheses below only constrain states [s < length sl]
    and require every transition target to be in range, so the default is never read. *)
From Coq Require Import String List Arith Bool Lia QArith.
From CR Require Import Model.Num Model.Outcome Model.Graph Model.Game Proofs.RewQ Proofs.RewTermQ.
Import ListNotations.
Local Open Scope Q_scope.

(* The reward step of a node reads the node list only through the four value fields of the node's
   successors (any number instance, binary64 included). *)
Theorem C06_reward_step_local : forall (T : Type) (K : ops T) (sl sl' : list (node (T:=T))) (n : node (T:=T)),
  (forall t, In t (nxt n) ->
     (reach (getn K sl (dst t)), er (getn K sl (dst t)), ermr (getn K sl (dst t)), erm (getn K sl (dst t))) =
     (reach (getn K sl' (dst t)), er (getn K sl' (dst t)), ermr (getn K sl' (dst t)), erm (getn K sl' (dst t)))) ->
  rew_step K sl n = rew_step K sl' n.
Proof. intros T K sl sl' n H. apply rew_step_local. exact H. Qed.

(* A sweep over a list in which every state holds exactly what the reward step returns for it gives
   back the same list with maximal difference 0, and the loop stops there. *)
Theorem C06_sweep_at_fixed_point : forall (sl : list (node (T:=Q))),
  (forall s, (s < length sl)%nat ->
     rew_step qops sl (getn qops sl s) =
     Some (er (getn qops sl s), ermr (getn qops sl s), erm (getn qops sl s))) ->
  sweep_rew qops sl = Ok (sl, 0) /\
  forall fuel i, vi_rew qops (S fuel) sl i = Ok (sl, (i + 1)%nat).
Proof.
  intros sl H. split; [apply sweep_all_fixed; exact H|].
  intros fuel i. apply vi_rew_stops_when_fixed. exact H.
Qed.

(* One sweep fixes one more rank level. *)
Theorem C06_sweep_fixes_next_rank : forall (rk : nat -> nat) (k : nat) (sl sl' : list (node (T:=Q))) d,
  (forall s t, (s < length sl)%nat -> In t (nxt (getn qops sl s)) -> (rk (dst t) < rk s)%nat) ->
  (forall s, (s < length sl)%nat -> (rk s < k)%nat -> fixed sl s) ->
  sweep_rew qops sl = Ok (sl', d) ->
  forall s, (s < length sl)%nat -> (rk s <= k)%nat -> fixed sl' s.
Proof.
  intros rk k sl sl' d Hac Hfix E s Hs Hk.
  destruct (sweep_rank rk k sl sl' d) as (Hl & _ & F); try assumption.
  - intros u t Ht. left. destruct (Nat.lt_ge_cases u (length sl)) as [Hu|Hu]; [apply (Hac u t Hu Ht)|].
    unfold getn in Ht. rewrite nth_overflow in Ht by exact Hu. destruct Ht.
  - apply F; [rewrite Hl; exact Hs|lia].
Qed.

(* MAIN. Rewards >= 0, positive weights on probabilistic states, expected rewards >= 0 at the start
   (all three hold when the loop is entered from solve: RewQ), every transition in range and strictly
   rank-decreasing, all ranks < R. Then the reward loop returns Ok as soon as it is given R + 1 sweeps
   of fuel, and it reports at most R + 1 sweeps. Nothing is assumed about the values initially held. *)
Theorem C06_rewards_terminate_acyclic :
  forall (rk : nat -> nat) (R : nat) (sl : list (node (T:=Q))) (i fuel : nat),
  (forall s, 0 <= rew (getn qops sl s) /\
             (nk (getn qops sl s) = PR -> forall t, In t (nxt (getn qops sl s)) -> 0 < pr t)) ->
  (forall s, 0 <= er (getn qops sl s)) ->
  (forall s t, (s < length sl)%nat -> In t (nxt (getn qops sl s)) ->
               (dst t < length sl)%nat /\ (rk (dst t) < rk s)%nat) ->
  (forall s, (s < length sl)%nat -> (rk s < R)%nat) ->
  (R + 1 <= fuel)%nat ->
  exists sl' j, vi_rew qops fuel sl i = Ok (sl', (i + j)%nat) /\ (1 <= j <= R + 1)%nat.
Proof.
  intros rk R sl i fuel Hg Hnn Hac Hrk Hfuel.
  apply (vi_rew_terminates_acyclic rk R); try assumption.
  intros s t Hs Ht. apply (Hac s t Hs Ht).
Qed.

(* With rank = index distance: when every transition goes to a state with a larger index
   (topologically sorted list) n + 1 sweeps suffice. *)
Theorem C06_rewards_terminate_sorted :
  forall (sl : list (node (T:=Q))) (i fuel : nat),
  (forall s, 0 <= rew (getn qops sl s) /\
             (nk (getn qops sl s) = PR -> forall t, In t (nxt (getn qops sl s)) -> 0 < pr t)) ->
  (forall s, 0 <= er (getn qops sl s)) ->
  (forall s t, (s < length sl)%nat -> In t (nxt (getn qops sl s)) -> (s < dst t < length sl)%nat) ->
  (length sl + 1 <= fuel)%nat ->
  exists sl' j, vi_rew qops fuel sl i = Ok (sl', (i + j)%nat) /\ (1 <= j <= length sl + 1)%nat.
Proof.
  intros sl i fuel Hg Hnn Hac Hfuel.
  apply (vi_rew_terminates_acyclic (fun s => (length sl - 1 - s)%nat) (length sl)); try assumption.
  - intros s t Hs Ht. specialize (Hac s t Hs Ht). lia.
  - intros s Hs. lia.
Qed.

(* GENERAL FORM. The states of rank < k0 may have any transitions among themselves (self-loops of
   absorbing end states) provided each of them already holds its own step value; every other
   transition strictly decreases the rank. Then R - k0 + 1 sweeps suffice. *)
Theorem C06_rewards_terminate_ranked :
  forall (rk : nat -> nat) (R k0 : nat) (sl : list (node (T:=Q))) (i fuel : nat),
  (forall s, 0 <= rew (getn qops sl s) /\
             (nk (getn qops sl s) = PR -> forall t, In t (nxt (getn qops sl s)) -> 0 < pr t)) ->
  (forall s, 0 <= er (getn qops sl s)) ->
  (forall s t, (s < length sl)%nat -> In t (nxt (getn qops sl s)) ->
               (dst t < length sl)%nat /\
               ((rk (dst t) < rk s)%nat \/ ((rk s < k0)%nat /\ (rk (dst t) < k0)%nat))) ->
  (forall s, (s < length sl)%nat -> (rk s < k0)%nat ->
     rew_step qops sl (getn qops sl s) =
     Some (er (getn qops sl s), ermr (getn qops sl s), erm (getn qops sl s))) ->
  (forall s, (s < length sl)%nat -> (rk s < R)%nat) -> (k0 <= R)%nat ->
  (R - k0 + 1 <= fuel)%nat ->
  exists sl' j, vi_rew qops fuel sl i = Ok (sl', (i + j)%nat) /\ (1 <= j <= R - k0 + 1)%nat.
Proof.
  intros rk R k0 sl i fuel Hg Hnn Hac Hfix Hrk Hk Hfuel.
  apply (vi_rew_terminates_ranked rk R k0); try assumption.
  intros s t Ht. destruct (Nat.lt_ge_cases s (length sl)) as [Hs|Hs]; [apply (Hac s t Hs Ht)|].
  unfold getn in Ht. rewrite nth_overflow in Ht by exact Hs. destruct Ht.
Qed.

Print Assumptions C06_reward_step_local.
Print Assumptions C06_sweep_at_fixed_point.
Print Assumptions C06_sweep_fixes_next_rank.
Print Assumptions C06_rewards_terminate_acyclic.
Print Assumptions C06_rewards_terminate_sorted.
Print Assumptions C06_rewards_terminate_ranked.

(** * Non-vacuity *)
(* five states: 0 (Player 1) -> 1, 2 ; 1 (probabilistic) -> 3, 4 ; 2 (Player 2) -> 3, 4 ;
   3 (probabilistic) -> 4 ; 4 has no transition. Expected rewards start at the state rewards. *)
Definition ex_sl : list (node (T:=Q)) :=
  [ mk_node qops P1 1 [mkT "a" 0 1%nat; mkT "b" 0 2%nat] false;
    mk_node qops PR 2 [mkT "" (1#2) 3%nat; mkT "" (1#2) 4%nat] false;
    mk_node qops P2 1 [mkT "a" 0 3%nat; mkT "b" 0 4%nat] false;
    mk_node qops PR 3 [mkT "" 1 4%nat] false;
    mk_node qops PR 5 [] true ].
(* rank = length of the longest path to the end state *)
Definition ex_rk (s : nat) : nat := nth s [3; 2; 2; 1; 0]%nat 0%nat.

Example ex_ranks : map ex_rk (seq 0 5) = [3; 2; 2; 1; 0]%nat /\
  forallb (fun s => forallb (fun t => (dst t <? 5)%nat && (ex_rk (dst t) <? ex_rk s)%nat) (nxt (getn qops ex_sl s))) (seq 0 5) = true.
Proof. vm_compute. split; reflexivity. Qed.

(* the hypotheses of the main theorem hold of the example with R = 4 ... *)
Example ex_hypotheses :
  (forall s, 0 <= rew (getn qops ex_sl s) /\
             (nk (getn qops ex_sl s) = PR -> forall t, In t (nxt (getn qops ex_sl s)) -> 0 < pr t)) /\
  (forall s, 0 <= er (getn qops ex_sl s)) /\
  (forall s t, (s < length ex_sl)%nat -> In t (nxt (getn qops ex_sl s)) ->
               (dst t < length ex_sl)%nat /\ (ex_rk (dst t) < ex_rk s)%nat) /\
  (forall s, (s < length ex_sl)%nat -> (ex_rk s < 4)%nat).
Proof.
  split; [|split; [|split]].
  - intros s. do 5 (destruct s as [|s]; [cbn; split; [discriminate|];
      (discriminate || (intros _ t Ht; cbn in Ht; intuition (subst; reflexivity)))|]).
    unfold getn. rewrite nth_overflow by (cbn; lia). cbn. split; [discriminate|intros _ t []].
  - intros s. do 5 (destruct s as [|s]; [cbn; discriminate|]).
    unfold getn. rewrite nth_overflow by (cbn; lia). cbn. discriminate.
  - intros s t Hs Ht. do 5 (destruct s as [|s]; [cbn in Ht; intuition (subst; cbn; lia)|]). cbn in Hs. lia.
  - intros s Hs. do 5 (destruct s as [|s]; [cbn; lia|]). cbn in Hs. lia.
Qed.

(* ... so 5 sweeps of fuel are enough by the theorem, and the bound is attained: the loop reports
   exactly R + 1 = 5 sweeps (each sweep fixes exactly one more rank level; the in-place order 0..4
   is the worst one here), and 4 sweeps of fuel are not enough. *)
Example ex_by_theorem : exists sl' j, vi_rew qops 5 ex_sl 0 = Ok (sl', (0 + j)%nat) /\ (1 <= j <= 4 + 1)%nat.
Proof.
  destruct ex_hypotheses as (H1 & H2 & H3 & H4).
  apply (C06_rewards_terminate_acyclic ex_rk 4 ex_sl 0 5 H1 H2 H3 H4). lia.
Qed.

Example ex_run :
  match vi_rew qops 10 ex_sl 0 with
  | Ok (sl', k) => Some (k, map (fun n => (er n, ermr n, erm n)) sl')
  | _ => None
  end = Some (5%nat, [(9#2, 9#2, 0); (7#2, 7#2, 0); (1, 4, 0); (3, 3, 0); (0, 0, 0)]).
Proof. vm_compute. reflexivity. Qed.

Example ex_bound_tight : vi_rew qops 4 ex_sl 0 = OutOfFuel.
Proof. vm_compute. reflexivity. Qed.

(* General form: the two end states 2 (final, reach value 1) and 3 (sink) are absorbing zero-reward
   self-loops of rank 0 and hold their own step value from the start; k0 = 1, R = 3. *)
Definition ex2_sl : list (node (T:=Q)) :=
  [ mk_node qops P1 1 [mkT "a" 0 1%nat; mkT "b" 0 2%nat] false;
    mk_node qops PR 2 [mkT "" (1#2) 2%nat; mkT "" (1#2) 3%nat] false;
    set_erm (mk_node qops PR 0 [mkT "" 1 2%nat] true) 1;
    mk_node qops PR 0 [mkT "" 1 3%nat] false ].
Definition ex2_rk (s : nat) : nat := nth s [2; 1; 0; 0]%nat 0%nat.

Example ex2_end_states_fixed :
  map (fun s => rew_step qops ex2_sl (getn qops ex2_sl s)) [2; 3]%nat =
  map (fun s => Some (er (getn qops ex2_sl s), ermr (getn qops ex2_sl s), erm (getn qops ex2_sl s))) [2; 3]%nat.
Proof. vm_compute. reflexivity. Qed.

Example ex2_run :
  match vi_rew qops 10 ex2_sl 0 with
  | Ok (sl', k) => Some (k, map (fun n => (er n, ermr n, erm n)) sl')
  | _ => None
  end = Some (3%nat, [(3, 3, 1#2); (2, 2, 1#2); (0, 0, 1); (0, 0, 0)]).
Proof. vm_compute. reflexivity. Qed.

(* the general theorem applies to it: 3 - 1 + 1 = 3 sweeps of fuel suffice (and are used: ex2_run) *)
Example ex2_by_theorem : exists sl' j, vi_rew qops 3 ex2_sl 0 = Ok (sl', (0 + j)%nat) /\ (1 <= j <= 3 - 1 + 1)%nat.
Proof.
  apply (C06_rewards_terminate_ranked ex2_rk 3 1 ex2_sl 0 3); try lia.
  - intros s. do 4 (destruct s as [|s]; [cbn; split; [discriminate|];
      (discriminate || (intros _ t Ht; cbn in Ht; intuition (subst; reflexivity)))|]).
    unfold getn. rewrite nth_overflow by (cbn; lia). cbn. split; [discriminate|intros _ t []].
  - intros s. do 4 (destruct s as [|s]; [cbn; discriminate|]).
    unfold getn. rewrite nth_overflow by (cbn; lia). cbn. discriminate.
  - intros s t Hs Ht. do 4 (destruct s as [|s]; [cbn in Ht; intuition (subst; cbn; lia)|]). cbn in Hs. lia.
  - intros s Hs Hk. do 4 (destruct s as [|s]; [cbn in Hk; try lia; vm_compute; reflexivity|]). cbn in Hs. lia.
  - intros s Hs. do 4 (destruct s as [|s]; [cbn; lia|]). cbn in Hs. lia.
Qed.

Example ex2_bound_tight : vi_rew qops 2 ex2_sl 0 = OutOfFuel.
Proof. vm_compute. reflexivity. Qed.
