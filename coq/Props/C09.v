(** C09 - malformed games are rejected with ValueError, never solved.
    Statements only; proofs live in Proofs/ValidateP.v.  The model ([validate], [solve_with],
    [run_entry], [run_batch]) and the specification ([WFdoc] = the ten documented rules as one
    predicate over positions, [outside_universe]) are in Model/Validate.v.

    Universe: rewards / players / transition_list are lists of arbitrary dynamic values
    (None, bool, int, float incl. inf and nan, str, tuple, list), final_states a list of ints.
    [outside_universe d] = some reward is not a number or is NaN; there the code raises TypeError
    resp. depends on the position of the NaN - no documented rule speaks about it. *)
From Coq Require Import String List ZArith QArith Bool.
From CR Require Import Model.Num Model.Outcome Model.Graph Model.Game Model.PyVal Model.Validate Proofs.ValidateP.
Import ListNotations.

(** ** Acceptance = the documented rules *)
Theorem C09_accept_iff_wf : forall d, ~ outside_universe d ->
  (validate d = Ok tt <-> WFdoc d).
Proof. exact validate_ok_iff. Qed.
Print Assumptions C09_accept_iff_wf.

(* without any side condition: a well-formed description is accepted ... *)
Theorem C09_wf_accepted : forall d, WFdoc d -> validate d = Ok tt.
Proof. exact validate_accepts. Qed.
Print Assumptions C09_wf_accepted.

(* ... and a description that breaks a rule anywhere is rejected with a ValueError, or is outside
   the universe *)
Theorem C09_not_wf_rejected : forall d, ~ WFdoc d ->
  (exists msg, validate d = ValueErr msg) \/ outside_universe d.
Proof. exact validate_rejects. Qed.
Print Assumptions C09_not_wf_rejected.

(* the only other exception class the validation can raise is the TypeError of a non-numeric
   reward; the model never runs out of fuel (it has none) *)
Theorem C09_crash_only_outside : forall d w, validate d = Crash w ->
  w = exc_type_error /\ exists r, In r (d_rewards d) /\ num_of r = None.
Proof. exact validate_crash_outside. Qed.
Print Assumptions C09_crash_only_outside.

(** ** Never solved: whatever follows validation in solve() (either pruning mode) does not run *)
Theorem C09_reject_is_valueerror : forall d, ~ outside_universe d -> ~ WFdoc d ->
  exists msg, validate d = ValueErr msg /\
    forall R (rest : desc -> outcome R), solve_with rest d = ValueErr msg.
Proof. exact reject_is_valueerror. Qed.
Print Assumptions C09_reject_is_valueerror.

(* "no final state" is caught by check_game (max([])), so Solver.solve_reachability's own
   [if not final_states] never fires from solve() *)
Theorem C09_no_final_caught_early : forall d, validate d = Ok tt -> d_finals d <> [].
Proof. exact validated_has_final. Qed.
Print Assumptions C09_no_final_caught_early.

(** ** First error, by position *)
(* whole-game checks pass, states before i and transitions before j of state i are well-formed:
   the complaint about transition j of state i is what solve raises *)
Theorem C09_first_error : forall d i p k l j t m,
  check_game_d d = Ok tt ->
  (forall i' p' tr', i' < i -> nth_error (d_players d) i' = Some p' -> nth_error (d_trans d) i' = Some tr' ->
     exists k', p' = VStr (kind_name k') /\ good_trans k' (Z.of_nat (length (d_players d))) tr') ->
  nth_error (d_players d) i = Some p -> p = VStr (kind_name k) ->
  nth_error (d_trans d) i = Some (VList l) ->
  (forall j' t', j' < j -> nth_error l j' = Some t' -> good_tuple k (Z.of_nat (length (d_players d))) t') ->
  nth_error l j = Some t ->
  check_tuple k (Z.of_nat (length (d_players d))) t = ValueErr m ->
  validate d = ValueErr m.
Proof. exact validate_first_error. Qed.
Print Assumptions C09_first_error.

Theorem C09_first_error_not_list : forall d i p k tr,
  check_game_d d = Ok tt ->
  (forall i' p' tr', i' < i -> nth_error (d_players d) i' = Some p' -> nth_error (d_trans d) i' = Some tr' ->
     exists k', p' = VStr (kind_name k') /\ good_trans k' (Z.of_nat (length (d_players d))) tr') ->
  nth_error (d_players d) i = Some p -> p = VStr (kind_name k) ->
  nth_error (d_trans d) i = Some tr -> truthy tr = true -> is_list tr = false ->
  validate d = ValueErr msg_not_list.
Proof. exact validate_first_error_not_list. Qed.
Print Assumptions C09_first_error_not_list.

(* a falsy transitions value at any one state ([], (), None, 0, 0.0, "", False) *)
Theorem C09_missing_transitions : forall d i tr,
  check_game_d d = Ok tt ->
  (forall i' p' tr', i' <> i -> nth_error (d_players d) i' = Some p' -> nth_error (d_trans d) i' = Some tr' ->
     exists k', p' = VStr (kind_name k') /\ good_trans k' (Z.of_nat (length (d_players d))) tr') ->
  nth_error (d_trans d) i = Some tr -> truthy tr = false ->
  validate d = ValueErr msg_missing.
Proof. exact validate_missing. Qed.
Print Assumptions C09_missing_transitions.

(** ** Boundary values of one transition (x, s) in a game of n states; [slot0_ok k x] = x is a
    str on a player state, a number on a probabilistic one *)
(* any int outside 0..n-1: in particular s = n (off by one) and s = -1 (which Python indexing
   would silently wrap) *)
Theorem C09_index_out_of_range : forall k n x s z, slot0_ok k x -> int_val s = Some z ->
  (z < 0 \/ n <= z)%Z -> check_tuple k n (VTuple [x; s]) = ValueErr msg_ns_range.
Proof. exact check_tuple_out_of_range. Qed.
Print Assumptions C09_index_out_of_range.

Theorem C09_index_n_and_minus_one : forall k n x, slot0_ok k x ->
  check_tuple k n (VTuple [x; VInt n]) = ValueErr msg_ns_range /\
  check_tuple k n (VTuple [x; VInt (-1)]) = ValueErr msg_ns_range /\
  (0 < n -> check_tuple k n (VTuple [x; VInt (n - 1)]) = Ok tt /\ check_tuple k n (VTuple [x; VInt 0]) = Ok tt)%Z.
Proof.
  intros k n x H. split; [|split; [|intros Hn; split]].
  - apply (check_tuple_out_of_range k n x (VInt n) n H eq_refl). right. apply Z.le_refl.
  - apply (check_tuple_out_of_range k n x (VInt (-1)) (-1)%Z H eq_refl). left. reflexivity.
  - apply (check_tuple_in_range k n x (VInt (n - 1)) (n - 1)%Z H eq_refl).
    split; [apply Z.lt_le_pred; assumption|apply Z.lt_pred_l].
  - apply (check_tuple_in_range k n x (VInt 0) 0%Z H eq_refl). split; [apply Z.le_refl|assumption].
Qed.
Print Assumptions C09_index_n_and_minus_one.

(* bool counts as int / number exactly as isinstance has it; a float never counts as an index *)
Theorem C09_bool_is_int : forall k n x b,
  check_tuple k n (VTuple [x; VBool b]) = check_tuple k n (VTuple [x; VInt (bool_z b)]).
Proof. exact check_tuple_bool_successor. Qed.
Print Assumptions C09_bool_is_int.
Theorem C09_bool_is_number : forall n b s,
  check_tuple PR n (VTuple [VBool b; s]) = check_tuple PR n (VTuple [VInt (bool_z b); s]).
Proof. exact check_tuple_bool_probability. Qed.
Print Assumptions C09_bool_is_number.
Theorem C09_float_is_not_index : forall k n x f, slot0_ok k x ->
  check_tuple k n (VTuple [x; VFloat f]) = ValueErr msg_ns_int.
Proof. exact check_tuple_float_successor. Qed.
Print Assumptions C09_float_is_not_index.
Theorem C09_action_must_be_str : forall k n x s, k <> PR -> is_str x = false ->
  check_tuple k n (VTuple [x; s]) = ValueErr msg_act_str.
Proof. exact check_tuple_nonstr_action. Qed.
Print Assumptions C09_action_must_be_str.
Theorem C09_probability_must_be_number : forall n x s, is_number x = false ->
  check_tuple PR n (VTuple [x; s]) = ValueErr msg_prob_num.
Proof. exact check_tuple_nonnumber_probability. Qed.
Print Assumptions C09_probability_must_be_number.

(** ** The batch runner (as repaired by commit bb189d4) records the error and goes on *)
Theorem C09_batch_records : forall d, ~ outside_universe d -> ~ WFdoc d ->
  exists msg, validate d = ValueErr msg /\
    forall A (rest : bool -> desc -> outcome A),
      batch_msg (solve_with (rest true) d) = String.append msg_err_prefix msg /\
      run_entry (fun p => solve_with (rest p) d) d
        = Ok (n_transitions d, (String.append msg_err_prefix msg, msg_not_solved)).
Proof. exact batch_records. Qed.
Print Assumptions C09_batch_records.

Theorem C09_batch_continues : forall d, ~ outside_universe d -> ~ WFdoc d ->
  exists msg, validate d = ValueErr msg /\
    forall A (rest : bool -> desc -> outcome A) ds,
      run_batch (fun d p => solve_with (rest p) d) (d :: ds) =
      do rs <- run_batch (fun d p => solve_with (rest p) d) ds;
      Ok ((n_transitions d, (String.append msg_err_prefix msg, msg_not_solved)) :: rs).
Proof. exact batch_continues. Qed.
Print Assumptions C09_batch_continues.

(* The pinned tree called count_transitions outside the try block: for a state whose transitions
   value has no len() (here None) solve raises the documented ValueError, but run_games died with
   TypeError.  Repaired by the fix: commit bb189d4; the repaired runner records the message. *)
Theorem C09_batch_unsized_orig_refuted :
  ~ WFdoc unsized_witness /\ ~ outside_universe unsized_witness /\
  validate unsized_witness = ValueErr msg_missing /\
  (forall A (solve : bool -> outcome A), run_entry_orig solve unsized_witness = Crash exc_type_error) /\
  (forall A (rest : bool -> desc -> outcome A),
     run_entry (fun p => solve_with (rest p) unsized_witness) unsized_witness
     = Ok (0, (String.append msg_err_prefix msg_missing, msg_not_solved))).
Proof. exact batch_unsized_orig_refuted. Qed.
Print Assumptions C09_batch_unsized_orig_refuted.

(** ** Link to the solver model: an accepted description, read as a typed game of
    Model/Game.v (instance Q), passes that model's check_game and init_states *)
(* partial: [to_typed] is a hypothesis. It fails on accepted descriptions exactly when a reward
   or a probability is inf (Q has no such value; NaN rewards are outside the universe anyway). *)
Theorem C09_typed_game_validates_partial : forall d g,
  validate d = Ok tt -> to_typed d = Some g ->
  check_game qops g = Ok tt /\ exists sl, init_states qops g = Ok sl /\ length sl = length (d_players d).
Proof. exact validate_typed_ok. Qed.
Print Assumptions C09_typed_game_validates_partial.

(** ** Non-vacuity: figure 5.5 and broken variants *)
Local Open Scope Z_scope.
Definition fig55 : desc :=
  mkD [VInt 0; VInt 2; VF 7505999378950827 4503599627370496; VInt 0; VInt 0; VInt 0; VInt 0; VInt 0]
      [VStr "Player 1"; VStr "Player 2"; VStr "Player 2"; VStr "Probabilistic"; VStr "Probabilistic";
       VStr "Probabilistic"; VStr "Probabilistic"; VStr "Probabilistic"]
      [VList [VTuple [VStr "alfa"; VInt 1]; VTuple [VStr "beta"; VInt 2]];
       VList [VTuple [VStr " "; VInt 3]]; VList [VTuple [VStr " "; VInt 4]];
       VList [VTuple [VF 1 2; VInt 5]; VTuple [VF 1 2; VInt 6]];
       VList [VTuple [VF 3 4; VInt 6]; VTuple [VF 1 4; VInt 7]];
       VList [VTuple [VInt 1; VInt 5]]; VList [VTuple [VInt 1; VInt 6]]; VList [VTuple [VInt 1; VInt 7]]]
      [6].
Example C09_fig55_typed :
  match to_typed fig55 with
  | Some g => is_ok (check_game qops g) && is_ok (init_states qops g) && (length (g_trans g) =? 8)%nat
  | None => false
  end = true.
Proof. vm_compute. reflexivity. Qed.
(* transition_list[4][1] replaced *)
Definition fig55_with (t : pyval) : desc :=
  mkD (d_rewards fig55) (d_players fig55)
      [VList [VTuple [VStr "alfa"; VInt 1]; VTuple [VStr "beta"; VInt 2]];
       VList [VTuple [VStr " "; VInt 3]]; VList [VTuple [VStr " "; VInt 4]];
       VList [VTuple [VF 1 2; VInt 5]; VTuple [VF 1 2; VInt 6]];
       VList [VTuple [VF 3 4; VInt 6]; t];
       VList [VTuple [VInt 1; VInt 5]]; VList [VTuple [VInt 1; VInt 6]]; VList [VTuple [VInt 1; VInt 7]]]
      (d_finals fig55).

Example C09_fig55_accepted : validate fig55 = Ok tt.
Proof. vm_compute. reflexivity. Qed.
Example C09_fig55_wf : WFdoc fig55.
Proof. apply C09_accept_iff_wf; [apply outside_b_false|]; vm_compute; reflexivity. Qed.
(* index n = 8 and index -1 at the last transition of state 4; True is the index 1; 7.0 is not an int *)
Example C09_fig55_index_n : validate (fig55_with (VTuple [VF 1 4; VInt 8])) = ValueErr msg_ns_range.
Proof. vm_compute. reflexivity. Qed.
Example C09_fig55_index_minus_one : validate (fig55_with (VTuple [VF 1 4; VInt (-1)])) = ValueErr msg_ns_range.
Proof. vm_compute. reflexivity. Qed.
Example C09_fig55_index_true : validate (fig55_with (VTuple [VF 1 4; VBool true])) = Ok tt.
Proof. vm_compute. reflexivity. Qed.
Example C09_fig55_index_float : validate (fig55_with (VTuple [VF 1 4; VF 7 1])) = ValueErr msg_ns_int.
Proof. vm_compute. reflexivity. Qed.
Example C09_fig55_prob_str : validate (fig55_with (VTuple [VStr "1"; VInt 7])) = ValueErr msg_prob_num.
Proof. vm_compute. reflexivity. Qed.
Example C09_fig55_triple : validate (fig55_with (VTuple [VStr "a"; VInt 1; VInt 2])) = ValueErr msg_tuple_len.
Proof. vm_compute. reflexivity. Qed.
(* a broken variant is not well-formed, and the theorems apply to it *)
Example C09_fig55_index_n_not_wf : ~ WFdoc (fig55_with (VTuple [VF 1 4; VInt 8])).
Proof. intros W. apply C09_wf_accepted in W. vm_compute in W. discriminate. Qed.
Example C09_fig55_index_n_batch :
  forall A (rest : bool -> desc -> outcome A),
    run_entry (fun p => solve_with (rest p) (fig55_with (VTuple [VF 1 4; VInt 8]))) (fig55_with (VTuple [VF 1 4; VInt 8]))
    = Ok (11%nat, ("Error while solving the game: The next state must be in the range of the number of states."%string,
                   "Game not solved"%string)).
Proof.
  intros A rest.
  destruct (C09_batch_records (fig55_with (VTuple [VF 1 4; VInt 8]))) as [m [V H]].
  - apply outside_b_false. vm_compute. reflexivity.
  - exact C09_fig55_index_n_not_wf.
  - destruct (H A rest) as [_ E]. rewrite E. vm_compute in V. inversion V; subst m. vm_compute. reflexivity.
Qed.
(* the hypotheses of C09_first_error are satisfiable at a later state and a later transition *)
Example C09_first_error_example :
  let d := fig55_with (VTuple [VF 1 4; VInt 8]) in
  check_game_d d = Ok tt /\
  (forall i' p' tr', (i' < 4)%nat -> nth_error (d_players d) i' = Some p' -> nth_error (d_trans d) i' = Some tr' ->
     exists k', p' = VStr (kind_name k') /\ good_trans k' (Z.of_nat (length (d_players d))) tr') /\
  (forall j' t', (j' < 1)%nat -> nth_error [VTuple [VF 3 4; VInt 6]; VTuple [VF 1 4; VInt 8]] j' = Some t' ->
     good_tuple PR (Z.of_nat (length (d_players d))) t').
Proof.
  split; [vm_compute; reflexivity|]. split.
  - intros i' p' tr' Hi Hp Ht.
    assert (W : WFdoc fig55) by exact C09_fig55_wf.
    destruct W as [_ [_ [_ [_ [_ [_ W]]]]]].
    apply (W i' p' tr').
    + do 4 (destruct i' as [|i']; [exact Hp|]). exfalso. do 4 apply Nat.succ_lt_mono in Hi. inversion Hi.
    + do 4 (destruct i' as [|i']; [exact Ht|]). exfalso. do 4 apply Nat.succ_lt_mono in Hi. inversion Hi.
  - intros j' t' Hj Ht. destruct j' as [|j']; [|exfalso; apply Nat.succ_lt_mono in Hj; inversion Hj].
    simpl in Ht. inversion Ht; subst t'. apply check_tuple_ok. vm_compute. reflexivity.
Qed.
