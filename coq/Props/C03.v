(** C03 — conditioning removes every dead branch, and only dead branches.
    Generic in the number operations: every statement holds of the binary64 instance as is. *)
From Coq Require Import String List Arith Bool.
From CR Require Import Model.Num Model.Outcome Model.Game
     Proofs.GameP Proofs.PruneStatesP Proofs.PipelineP.
Import ListNotations.

Section C03.
Context {T : Type} (K : ops T).

(* after prune_paths no Player 1 / probabilistic state keeps a transition whose target has reach value 0,
   however many such successors it had and wherever they sat *)
Theorem C03_no_dead_successor : forall (sl : list (node (T:=T))) n t,
  nk n <> P2 -> In t (nxt (prune_paths_node K sl n)) ->
  eqb K (reach (getn K sl (dst t))) (zero K) = false.
Proof.
  intros sl n t Hk Hin. pose proof (prune_paths_no_dead K sl n t Hk Hin) as H.
  unfold alive in H. apply negb_true_iff in H. exact H.
Qed.

(* the surviving targets are exactly the alive ones, each in its original position *)
Theorem C03_survivors_in_place : forall (sl : list (node (T:=T))) n,
  nk n <> P2 ->
  map dst (nxt (prune_paths_node K sl n)) = map dst (filter (alive K sl) (nxt n)).
Proof. exact (prune_paths_survivors K). Qed.

(* Player 1 survivors are kept as they were (labels included) *)
Theorem C03_player1_exact : forall (sl : list (node (T:=T))) n,
  nk n = P1 -> nxt (prune_paths_node K sl n) = filter (alive K sl) (nxt n).
Proof. exact (prune_paths_P1_exact K). Qed.

(* probabilistic survivors carry old / (sum of the surviving old weights); a state none of whose
   successors is dead is not touched at all *)
Theorem C03_renormalised : forall (sl : list (node (T:=T))) n,
  nk n = PR ->
  let al := filter (alive K sl) (nxt n) in
  (al = nxt n /\ prune_paths_node K sl n = n) \/
  (length al < length (nxt n) /\
   nxt (prune_paths_node K sl n) = map (fun t => mkT (act t) (div K (pr t) (surv_total K al)) (dst t)) al).
Proof. exact (prune_paths_PR_weights K). Qed.

Theorem C03_player2_untouched : forall (sl : list (node (T:=T))) n,
  nk n = P2 -> prune_paths_node K sl n = n.
Proof. exact (prune_paths_node_P2 K). Qed.

(* restricting Player 1 keeps exactly the transitions whose action is in the reported strategy, in order *)
Theorem C03_restriction_exact : forall strats (sl : list (node (T:=T))) i,
  length strats = length sl -> i < length sl ->
  getn K (prune_reachability strats sl) i =
  let n := getn K sl i in
  match nk n, nth i strats None with
  | P1, Some best => set_nxt n (filter (fun t => mem_str (act t) best) (nxt n))
  | _, _ => n
  end.
Proof. exact (prune_reachability_nth K). Qed.

(* prune_states never touches a state reachable from state 0 ... *)
Theorem C03_prune_states_frame : forall fuel old (sl sl' : list (node (T:=T))) i,
  prune_states fuel old sl = Ok sl' -> reach0 K sl i -> getn K sl' i = getn K sl i /\ reach0 K sl' i.
Proof. exact (prune_states_frame K). Qed.

(* ... any other state is unchanged or only loses its transition list, Player 1 states never change ... *)
Theorem C03_prune_states_only_clears : forall fuel old (sl sl' : list (node (T:=T))) i,
  prune_states fuel old sl = Ok sl' ->
  only_cleared (getn K sl i) (getn K sl' i) /\ length sl' = length sl.
Proof. exact (prune_states_only_cleared K). Qed.

(* ... and its loop always ends within the fuel solve passes (number of states + 2 rounds) *)
Theorem C03_prune_states_terminates : forall (sl : list (node (T:=T))),
  exists sl', prune_states (length sl + 2) [] sl = Ok sl'.
Proof. exact (prune_states_never_out_of_fuel K). Qed.

(* end to end: after a pruned solve of a well-formed game, no transition of a Player 1 / probabilistic
   state in the conditioned game leads to a state whose reported probability is 0 *)
Theorem C03_solve_no_dead : forall fuel (g : game (T:=T)) r i t,
  wf_game K g -> solve_fuel K fuel g true = Ok r -> i < nstates g ->
  nth i (g_players g) PR <> P2 -> In t (nth i (r_pruned r) []) ->
  eqb K (nth (dst t) (r_probs r) (zero K)) (zero K) = false.
Proof. exact (pruned_no_dead K). Qed.
End C03.

Print Assumptions C03_no_dead_successor.
Print Assumptions C03_survivors_in_place.
Print Assumptions C03_player1_exact.
Print Assumptions C03_renormalised.
Print Assumptions C03_player2_untouched.
Print Assumptions C03_restriction_exact.
Print Assumptions C03_prune_states_frame.
Print Assumptions C03_prune_states_only_clears.
Print Assumptions C03_prune_states_terminates.
Print Assumptions C03_solve_no_dead.

(** exact rationals: the renormalised weights sum to 1; and the pinned tree's scan is refuted *)
From Coq Require Import QArith.
From CR Require Import Model.Heap Proofs.ReachQ Proofs.C03Q.

Theorem C03_renormalised_sum_one : forall (al : list (@Game.trans Q)),
  (0 < sumw al)%Q ->
  (sumw (map (fun t => mkT (act t) (div qops (pr t) (surv_total qops al)) (dst t)) al) == 1)%Q.
Proof. exact renormalised_sum_one. Qed.

(* Defect D1 of the pinned tree (repaired by a fix: commit): removing from the list while iterating
   over it keeps the second of two adjacent dead successors, and raises
   ValueError('list.remove(x): x not in list') for two separated ones. The repaired pipeline conditions both correctly. *)
Theorem C03_unfixed_refuted :
  (exists r, solve_orig d1_adjacent = Ok r /\
             nth 0 (r_pruned r) [] = [mkT "" (1#3)%Q 2; mkT "" (2#3)%Q 3] /\ nth 2 (r_probs r) 1%Q = 0%Q) /\
  solve_orig d1_separated = ValueErr msg_remove /\
  (exists r, solve qops d1_adjacent true = Ok r /\ nth 0 (r_pruned r) [] = [mkT "" 1%Q 3]) /\
  (exists r, solve qops d1_separated true = Ok r /\ nth 0 (r_pruned r) [] = [mkT "" 1%Q 3]).
Proof.
  split; [exact d1_adjacent_keeps_dead|]. split; [exact d1_separated_crashes|]. exact d1_repaired.
Qed.

Print Assumptions C03_renormalised_sum_one.
Print Assumptions C03_unfixed_refuted.
