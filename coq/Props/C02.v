(** C02 — reported expected rewards are the values of the conditioned game.
    Proved here: the reward loop runs on exactly the conditioned game the property describes (any
    number instance). The numeric half is in its Bellman-consistency form, see C02_partial below. *)
From Coq Require Import String List Arith Bool.
From CR Require Import Model.Num Model.Outcome Model.Game Proofs.PipelineP Proofs.CondP Proofs.RewStepP.
Import ListNotations.

(* For every well-formed game and both modes, when solve returns: the transition lists on which the
   reward loop runs (r_pruned) are, state by state, the rows of the conditioned game built from the
   REPORTED strategies and probabilities - Player 1 restricted to its reachability strategy and, with
   pruning, transitions of Player-1/probabilistic states into probability-0 states removed and the
   surviving probabilities divided by their sum - except that with pruning a non-Player-1 state may
   have been emptied; states reachable from the initial state in the conditioned game never are. *)
Theorem C02_runs_on_conditioned_game : forall (T : Type) (K : ops T) fuel (g : game (T:=T)) prune r,
  wf_game K g -> solve_fuel K fuel g prune = Ok r ->
  length (r_pruned r) = nstates g /\
  forall i, i < nstates g ->
    (nth i (r_pruned r) [] = nth i (cond_rows K g r prune) [] \/
     (prune = true /\ nth i (g_players g) PR <> P1 /\ nth i (r_pruned r) [] = [])) /\
    (reach0_rows (cond_rows K g r prune) i -> nth i (r_pruned r) [] = nth i (cond_rows K g r prune) []).
Proof. intros T K. exact (pruned_is_conditioned K). Qed.

(* an emptied state is worth 0 in the reward equations *)
Theorem C02_empty_state_worth_zero : forall (T : Type) (K : ops T) (sl : list (node (T:=T))) n,
  nxt n = [] -> rew_step K sl n = Some (zero K, zero K, zero K).
Proof. intros T K. exact (rew_step_empty K). Qed.

(* C02_partial: equality "within tolerance" with the true max-min value of the conditioned game is
   NOT a theorem: it is false in general (known finding K1, witness in known_findings.json: K1-C02);
   what the stopping rule guarantees is Bellman consistency up to the threshold, which the check
   evaluates on every run (harness/props/c02.py: bellman_residual) and which is proved for the
   reachability loop as C01_numeric. *)

Print Assumptions C02_runs_on_conditioned_game.
Print Assumptions C02_empty_state_worth_zero.
