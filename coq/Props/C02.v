(** C02 — reported expected rewards are the values of the conditioned game.
    Proved here: the reward loop runs on exactly the conditioned game the property describes (any
    number instance). The numeric half is in its Bellman-consistency form, see C02_partial below. *)
From Coq Require Import String List Arith Bool QArith Qabs.
From CR Require Import Model.Num Model.Outcome Model.Game Proofs.PipelineP Proofs.CondP Proofs.RewStepP
     Proofs.ReachQ Proofs.RewQ Proofs.RewQ2 Proofs.RewResQ Proofs.RewQ3.
Import ListNotations.

(* For every well-formed game and both modes, when solve returns: the transition lists on which the
   reward loop runs (r_pruned) are, state by state, the rows of the conditioned game built from the
   REPORTED strategies and probabilities - Player 1 restricted to its reachability strategy and, with
   pruning, transitions of Player-1/probabilistic states into probability-0 states removed and the
   surviving probabilities divided by their sum - except that with pruning a non-Player-1 state may
   have been emptied; states reachable from the initial state in the conditioned game never are. *)
Theorem C02_runs_on_conditioned_game : forall (T : Type) (K : ops T) fuel (g : game (T:=T)) prune r,
  wf_game K g -> solve_fuel K fuel g prune = Ok r ->
  length (r_pruned r) = nstates g /\
  forall i, i < nstates g ->
    (nth i (r_pruned r) [] = nth i (cond_rows K g r prune) [] \/
     (prune = true /\ nth i (g_players g) PR <> P1 /\ nth i (r_pruned r) [] = [])) /\
    (reach0_rows (cond_rows K g r prune) i -> nth i (r_pruned r) [] = nth i (cond_rows K g r prune) []).
Proof. intros T K. exact (pruned_is_conditioned K). Qed.

(* an emptied state is worth 0 in the reward equations *)
Theorem C02_empty_state_worth_zero : forall (T : Type) (K : ops T) (sl : list (node (T:=T))) n,
  nxt n = [] -> rew_step K sl n = Some (zero K, zero K, zero K).
Proof. intros T K. exact (rew_step_empty K). Qed.

(* Numeric half, Bellman-consistency form (exact rationals): for every well-formed game whose
   probabilistic transitions carry positive probabilities summing to at most 1, both modes, when solve
   returns, the reported expected rewards x satisfy at EVERY state s
        | psi x (owner s) (reward s) (row of s in the conditioned game) - x s |  <=  10^-6
   where psi is the reward equation: 0 for an emptied state, reward + max(0, successors) for Player 1,
   reward + min(successors) for Player 2, reward + probability-weighted sum for probabilistic states. *)
Theorem C02_bellman_consistent : forall fuel (g : game (T:=Q)) prune r,
  wf_game qops g -> num_wf1 g -> solve_fuel qops fuel g prune = Ok r ->
  forall s, s < nstates g ->
    (Qabs (psi (fun i => nth i (r_rewards r) 0) (nth s (g_players g) PR) (nth s (g_rewards g) 0) (nth s (r_pruned r) [])
           - nth s (r_rewards r) 0) <= q_thr)%Q.
Proof. exact solve_bellman_consistent. Qed.

(* C02_partial: equality "within tolerance" with the TRUE max-min value of the conditioned game is not a
   theorem: it is false in general (known finding K1-C02: reward 5e-7 on a self-loop left with
   probability 1e-7 reports about 1e-6, the value is 5). What the stopping rule guarantees is the
   consistency above; the check also compares with an exact max-min oracle on guarded families. *)

Print Assumptions C02_runs_on_conditioned_game.
Print Assumptions C02_empty_state_worth_zero.
Print Assumptions C02_bellman_consistent.
