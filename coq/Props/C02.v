(** C02 — reported expected rewards are the values of the conditioned game.
    Proved here: the reward loop runs on exactly the conditioned game the property describes (any
    number instance). The numeric half is in its Bellman-consistency form, see C02_partial below. *)
From Coq Require Import String List Arith Bool QArith Qabs.
From CR Require Import Model.Num Model.Outcome Model.Game Proofs.PipelineP Proofs.CondP Proofs.RewStepP
     Proofs.ReachQ Proofs.RewQ Proofs.RewQ2 Proofs.RewResQ Proofs.RewQ3 Proofs.ErrBound Proofs.RewErrBound Proofs.RewQ4.
Import ListNotations.

(* For every well-formed game and both modes, when solve returns: the transition lists on which the
   reward loop runs (r_pruned) are, state by state, the rows of the conditioned game built from the
   REPORTED strategies and probabilities - Player 1 restricted to its reachability strategy and, with
   pruning, transitions of Player-1/probabilistic states into probability-0 states removed and the
   surviving probabilities divided by their sum - except that with pruning a non-Player-1 state may
   have been emptied; states reachable from the initial state in the conditioned game never are. *)
Theorem C02_runs_on_conditioned_game : forall (T : Type) (K : ops T) fuel (g : game (T:=T)) prune r,
  wf_game K g -> solve_fuel K fuel g prune = Ok r ->
  length (r_pruned r) = nstates g /\
  forall i, i < nstates g ->
    (nth i (r_pruned r) [] = nth i (cond_rows K g r prune) [] \/
     (prune = true /\ nth i (g_players g) PR <> P1 /\ nth i (r_pruned r) [] = [])) /\
    (reach0_rows (cond_rows K g r prune) i -> nth i (r_pruned r) [] = nth i (cond_rows K g r prune) []).
Proof. intros T K. exact (pruned_is_conditioned K). Qed.

(* an emptied state is worth 0 in the reward equations *)
Theorem C02_empty_state_worth_zero : forall (T : Type) (K : ops T) (sl : list (node (T:=T))) n,
  nxt n = [] -> rew_step K sl n = Some (zero K, zero K, zero K).
Proof. intros T K. exact (rew_step_empty K). Qed.

(* Numeric half, Bellman-consistency form (exact rationals): for every well-formed game whose
   probabilistic transitions carry positive probabilities summing to at most 1, both modes, when solve
   returns, the reported expected rewards x satisfy at EVERY state s
        | psi x (owner s) (reward s) (row of s in the conditioned game) - x s |  <=  10^-6
   where psi is the reward equation: 0 for an emptied state, reward + max(0, successors) for Player 1,
   reward + min(successors) for Player 2, reward + probability-weighted sum for probabilistic states. *)
Theorem C02_bellman_consistent : forall fuel (g : game (T:=Q)) prune r,
  wf_game qops g -> num_wf1 g -> solve_fuel qops fuel g prune = Ok r ->
  forall s, s < nstates g ->
    (* the conditioned rows of probabilistic states carry positive probabilities summing to at most 1 ... *)
    (nth s (g_players g) PR = PR -> pos_w (nth s (r_pruned r) []) /\ (sumw (nth s (r_pruned r) []) <= 1)%Q) /\
    (* ... and the reward equation holds up to the threshold *)
    (Qabs (psi (fun i => nth i (r_rewards r) 0) (nth s (g_players g) PR) (nth s (g_rewards g) 0) (nth s (r_pruned r) [])
           - nth s (r_rewards r) 0) <= q_thr)%Q.
Proof. exact solve_bellman_consistent. Qed.

(* CONDITIONAL full-strength form of "equals, within convergence tolerance, the value of the conditioned
   game": let y solve the conditioned game's reward equations on the states in inS and agree with the
   report elsewhere (absorbing zero-reward states), and let T certify a bounded expected absorption time of
   the conditioned game (T s >= 1 + largest / probability-weighted successor value of T on inS, 1 <= T <= M).
   Then every reported expected reward is within threshold * T s of y s. For a stopping game the max-min
   value is such a y. (Without such a T the claim is false: K1-C02.) *)
Theorem C02_error_bound : forall fuel (g : game (T:=Q)) prune r,
  wf_game qops g -> num_wf1 g -> solve_fuel qops fuel g prune = Ok r ->
  let kd := fun s => nth s (g_players g) PR in
  let rw := fun s => nth s (g_rewards g) 0%Q in
  let tr := fun s => nth s (r_pruned r) [] in
  let x := fun s => nth s (r_rewards r) 0%Q in
  forall (inS : nat -> bool) (y T : nat -> Q) (C M : Q),
    (0 <= C)%Q ->
    (forall s, inS s = true -> s < nstates g) ->
    (forall s, inS s = true -> y s = Psi kd rw tr y s) ->
    (forall s, inS s = false -> y s = x s) ->
    (forall s, (Qabs (y s - x s) <= C)%Q) ->
    (forall s, (1 + B kd tr inS T s <= T s)%Q) -> (forall s, (0 <= T s <= M)%Q) ->
    forall s, (Qabs (y s - x s) <= q_thr * T s)%Q.
Proof. exact solve_reward_error_bound. Qed.

(* C02_partial: equality "within tolerance" with the TRUE max-min value of the conditioned game is not a
   theorem: it is false in general (known finding K1-C02: reward 5e-7 on a self-loop left with
   probability 1e-7 reports about 1e-6, the value is 5). What the stopping rule guarantees is the
   consistency above; the check also compares with an exact max-min oracle on guarded families. *)

Print Assumptions C02_runs_on_conditioned_game.
Print Assumptions C02_empty_state_worth_zero.
Print Assumptions C02_bellman_consistent.
Print Assumptions C02_error_bound.
