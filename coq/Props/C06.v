(** C06 — every well-formed game is solved or declared unsolvable (structural part, any number instance). *)
From Coq Require Import String List Arith Bool QArith.
From CR Require Import Model.Num Model.Outcome Model.Graph Model.Game
     Proofs.GraphP Proofs.PruneStatesP Proofs.PipelineP Proofs.ReachQ Proofs.ReachQ2 Proofs.RewQ Proofs.RewQ2.
Import ListNotations.

(* For a well-formed game the model of solve can only: return a complete result (all eight components
   of length n), raise the 'no solution' error (only with pruning on), hit the UnboundLocalError branch
   of the reward step (excluded for exact arithmetic by C06_no_crash_Q below), or run out of
   the fuel given to one of the two value-iteration loops. No other ValueError, no KeyError/IndexError,
   and neither the backward search nor prune_states can run out of fuel. *)
Theorem C06_no_stray_error : forall (T : Type) (K : ops T) fuel (g : game (T:=T)) prune,
  wf_game K g ->
  match solve_fuel K fuel g prune with
  | Ok r => length (r_probs r) = nstates g /\ length (r_rewards r) = nstates g /\
            length (r_final r) = nstates g /\ length (r_reachs r) = nstates g /\
            length (r_prob_min_rew r) = nstates g /\ length (r_rew_min_reach r) = nstates g
  | ValueErr m => m = msg_no_solution /\ prune = true
  | Crash w => w = "UnboundLocalError"%string
  | OutOfFuel => True
  end.
Proof. intros T K. exact (solve_outcomes K). Qed.

Theorem C06_validation_accepts_wf : forall (T : Type) (K : ops T) (g : game (T:=T)),
  wf_game K g -> check_game K g = Ok tt /\ exists sl0, init_states K g = Ok sl0 /\ length sl0 = nstates g.
Proof.
  intros T K g H. split; [apply check_game_wf; exact H|].
  destruct (init_states_wf K g H) as (sl0 & A & B & _). exists sl0. split; assumption.
Qed.

Theorem C06_search_terminates : forall (tl : list (list nat)) finals,
  (forall f, In f finals -> f < length tl) -> exists r, reverse_dfs tl finals = Ok r.
Proof. intros tl finals H. destruct (reverse_dfs_exact tl finals H) as [r [E _]]. exists r. exact E. Qed.

Theorem C06_prune_states_terminates : forall (T : Type) (K : ops T) (sl : list (node (T:=T))),
  exists sl', prune_states (length sl + 2) [] sl = Ok sl'.
Proof. intros T K. exact (prune_states_never_out_of_fuel K). Qed.

(* the reachability loop terminates on exact rationals: |S| * 10^6 + 1 sweeps always suffice *)
Theorem C06_reach_terminates : forall (g : game (T:=Q)),
  wf_game qops g ->
  (forall i, nth i (g_players g) PR = PR ->
     nonneg_w (nth i (g_trans g) []) /\ (sumw (nth i (g_trans g) []) <= 1)%Q) ->
  forall fuel prune srf,
  reverse_dfs (tlg g) (g_finals g) = Ok srf ->
  length srf * Z.to_nat 1000000 < fuel ->
  solve_reach_fuel qops fuel g prune <> OutOfFuel.
Proof. exact reach_terminates. Qed.

(* On exact rationals a well-formed game whose probabilistic transitions all carry positive
   probabilities never reaches a Crash branch: expected rewards stay non-negative, so Player 1's scan
   always binds its pick, and renormalisation never divides by zero. Together with C06_no_stray_error:
   solve returns a complete result, raises 'no solution', or runs out of the fuel of a value-iteration loop. *)
Theorem C06_no_crash_Q : forall fuel (g : game (T:=Q)) prune,
  wf_game qops g -> num_wf g ->
  match solve_fuel qops fuel g prune with Crash _ => False | _ => True end.
Proof. exact solve_no_crash. Qed.

Print Assumptions C06_no_stray_error.
Print Assumptions C06_no_crash_Q.
Print Assumptions C06_reach_terminates.
Print Assumptions C06_validation_accepts_wf.
Print Assumptions C06_search_terminates.
Print Assumptions C06_prune_states_terminates.

(** Termination of the reward loop (exact rationals) for ranked games: if every transition leads to a state
    of strictly smaller rank - except among the states of rank < k0, which may loop among themselves
    provided their values are already fixed (absorbing zero-reward end states with self-loops: k0 = 1) -
    the loop stops within R - k0 + 1 sweeps, R a bound on the ranks. Covers every acyclic game; the proof
    is by locality of the reward step and induction on the rank (Proofs/RewTermQ.v). Termination for
    games with probabilistic cycles is not proved; for non-stopping games it is false (K4). *)
From CR Require Import Proofs.RewTermQ Props.C06T.
Theorem C06_rewards_terminate_ranked :
  forall (rk : nat -> nat) (R k0 : nat) (sl : list (node (T:=Q))) (i fuel : nat),
  (forall s, (0 <= rew (getn qops sl s))%Q /\
             (nk (getn qops sl s) = PR -> forall t, In t (nxt (getn qops sl s)) -> (0 < pr t)%Q)) ->
  (forall s, (0 <= er (getn qops sl s))%Q) ->
  (forall s t, s < length sl -> In t (nxt (getn qops sl s)) ->
               dst t < length sl /\ (rk (dst t) < rk s \/ (rk s < k0 /\ rk (dst t) < k0))) ->
  (forall s, s < length sl -> rk s < k0 ->
     rew_step qops sl (getn qops sl s) =
     Some (er (getn qops sl s), ermr (getn qops sl s), erm (getn qops sl s))) ->
  (forall s, s < length sl -> rk s < R) -> k0 <= R ->
  R - k0 + 1 <= fuel ->
  exists sl' j, vi_rew qops fuel sl i = Ok (sl', i + j) /\ 1 <= j <= R - k0 + 1.
Proof. exact Props.C06T.C06_rewards_terminate_ranked. Qed.
Print Assumptions C06_rewards_terminate_ranked.
