(** C17 — generated file names identify the parameters that produced them.
    Statements only; proofs live in Proofs/ParamsP.v. *)
From Coq Require Import String ZArith NArith List Bool.
From Coq Require PrimFloat.   (* not imported: Print Assumptions then prints the primitives fully qualified *)
From CR Require Import Model.Num Model.Params Proofs.ParamsP.
Import ListNotations.
Local Open Scope string_scope.

(* For every whole percentage k = 1..99: the binary64 number nearest k/100 (IEEE division k / 100,
   which is what float("0.kk") denotes) is written as the decimal numeral k.
   Finite sweep over the 99 values, evaluated on primitive floats by vm_compute and lifted to the
   quantified statement with forallb_forall; the bound 1 <= k <= 99 is [whole k]. *)
Theorem C17_percent_exact : forall k : Z, (1 <= k <= 99)%Z ->
  prob_to_str (PrimFloat.div (of_Zf k) (of_Zf 100)) = decZ k.
Proof. exact percent_exact. Qed.
Print Assumptions C17_percent_exact.

(* Two whole-percent parameter sets (seed, width, length, maximum reward: any naturals; four
   percentages in 1..99; force-down flag) that produce the same file name are the same set. *)
Theorem C17_name_injective : forall p q : wparams,
  wp_ok p -> wp_ok q -> wp_name p = wp_name q -> p = q.
Proof. exact wp_name_injective. Qed.
Print Assumptions C17_name_injective.

(* ... and the name literally states the numbers, in decimal, in the fixed layout *)
Theorem C17_name_states_parameters : forall p : wparams, wp_ok p ->
  wp_name p = "inputs/robot_" ++ decN (wp_seed p) ++ "_w" ++ decN (wp_w p) ++ "_l" ++ decN (wp_l p)
              ++ "_r" ++ decN (wp_r p) ++ "_rb" ++ decZ (wp_rb p) ++ "_lb" ++ decZ (wp_lb p)
              ++ "_tb" ++ decZ (wp_tb p) ++ "_lt" ++ decZ (wp_lt p)
              ++ (if wp_fd p then "_force_down" else "") ++ ".py".
Proof. exact wp_name_states. Qed.
Print Assumptions C17_name_states_parameters.

(* The manual entry point (no seed, no loose-tile percentage) likewise, over what it carries. *)
Theorem C17_manual_name_injective : forall p q : mparams,
  mp_ok p -> mp_ok q -> mp_name p = mp_name q -> p = q.
Proof. exact mp_name_injective. Qed.
Print Assumptions C17_manual_name_injective.

(* Unique decodability used above, for all naturals: decimal numerals are digit strings, distinct
   naturals have distinct numerals, and a digit string followed by a non-digit is decodable. *)
Theorem C17_decimal_decodable : forall (a b : N) (c1 c2 : Ascii.ascii) (r1 r2 : string),
  is_digit c1 = false -> is_digit c2 = false ->
  decN a ++ String c1 r1 = decN b ++ String c2 r2 -> a = b /\ c1 = c2 /\ r1 = r2.
Proof.
  intros a b c1 c2 r1 r2 N1 N2 E.
  apply digits_decode in E; auto using all_digits_decN.
  destruct E as [E1 E2]. split; [exact (decN_inj a b E1)|exact E2].
Qed.
Print Assumptions C17_decimal_decodable.

(* Defect D5 of the pinned tree (repaired by a fix: commit): int(prob*100) truncates, and
   0.29*100, 0.57*100, 0.58*100 fall just below the integer in binary64. *)
Theorem C17_trunc_refuted :
  prob_to_str_orig (pct 29) = "28" /\ prob_to_str_orig (pct 57) = "56" /\ prob_to_str_orig (pct 58) = "57".
Proof. exact trunc_refuted. Qed.
Print Assumptions C17_trunc_refuted.

(* non-vacuity *)
Example C17_example_name :
  wp_name (mkWP 999132423 3 3 6 1 2 10 29 true) = "inputs/robot_999132423_w3_l3_r6_rb1_lb2_tb10_lt29_force_down.py"
  /\ wp_ok (mkWP 999132423 3 3 6 1 2 10 29 true).
Proof. split; [vm_compute; reflexivity|unfold wp_ok, whole; simpl; repeat split; discriminate]. Qed.

Example C17_example_manual :
  mp_name (mkMP 4 4 5 10 10 10 false) = "inputs/manual_robot_w4_l4_r5_rb10_lb10_tb10_.py" /\
  mp_name (mkMP 4 4 5 10 10 10 true) = "inputs/manual_robot_w4_l4_r5_rb10_lb10_tb10_force_down.py".
Proof. split; vm_compute; reflexivity. Qed.

Example C17_example_distinct :
  wp_name (mkWP 0 3 3 6 10 10 10 28 false) <> wp_name (mkWP 0 3 3 6 10 10 10 29 false).
Proof. vm_compute. discriminate. Qed.
