(** C04 — reachability strategies list exactly the value-optimal actions. *)
From Coq Require Import String List Arith Bool QArith.
From CR Require Import Model.Num Model.Outcome Model.Game Proofs.Laws Proofs.PipelineP.
Import ListNotations.

Section C04.
Context {T : Type} (K : ops T).
Hypothesis L : lawful_order K.   (* comparisons form a total order up to eqb; proved for Q below *)

(* the rounded successor values a state's scan looks at *)
Definition succ_vals (sl : list (node (T:=T))) (n : node (T:=T)) : list (string * T) :=
  map (fun t => (act t, rnd K (reach (getn K sl (dst t))))) (nxt n).

(* Player 1: exactly the actions whose rounded successor value equals the largest one (the running
   maximum started at 0, so all of them when every successor is worth 0), in transition order;
   Player 2: likewise with the smallest (running minimum started at 1); probabilistic: none. *)
Theorem C04_scan_is_argmax : forall (sl : list (node (T:=T))) n,
  strat_reach K sl n =
  match nk n with
  | P1 => Some (map fst (filter (fun av => eqb K (snd av) (vmax K (zero K) (succ_vals sl n))) (succ_vals sl n)))
  | P2 => Some (map fst (filter (fun av => eqb K (snd av) (vmin K (one K) (succ_vals sl n))) (succ_vals sl n)))
  | PR => None
  end.
Proof.
  intros sl n. unfold strat_reach. fold (succ_vals sl n). destruct (nk n).
  - rewrite (scan_max_is_argmax K L). reflexivity.
  - rewrite (scan_min_is_argmin K L). reflexivity.
  - reflexivity.
Qed.

(* the running maximum really is the maximum: no successor value exceeds it, and it is 0 or attained *)
Theorem C04_vmax_is_max : forall m0 (l : list (string * T)),
  (forall av, In av l -> ltb K (vmax K m0 l) (snd av) = false) /\
  (vmax K m0 l = m0 \/ exists av, In av l /\ vmax K m0 l = snd av).
Proof. intros m0 l. split; [intros av; apply (vmax_upper K L)|apply vmax_attained]. Qed.
Theorem C04_vmin_is_min : forall m0 (l : list (string * T)),
  (forall av, In av l -> ltb K (snd av) (vmin K m0 l) = false) /\
  (vmin K m0 l = m0 \/ exists av, In av l /\ vmin K m0 l = snd av).
Proof. intros m0 l. split; [intros av; apply (vmin_lower K L)|apply vmin_attained]. Qed.
End C04.

(* needs no order laws: the reported reachability strategies, probabilities and sweep count are the
   same with pruning on and off (whenever both runs return) *)
Theorem C04_identical_both_modes : forall (T : Type) (K : ops T) fuel (g : game (T:=T)) r1 r2,
  solve_fuel K fuel g true = Ok r1 -> solve_fuel K fuel g false = Ok r2 ->
  r_probs r1 = r_probs r2 /\ r_reachs r1 = r_reachs r2 /\ r_it_reach r1 = r_it_reach r2.
Proof. intros T K. exact (prune_flag_irrelevant K). Qed.

(* the order laws hold for exact rationals, so the scan theorem applies to instance Q as is *)
Theorem C04_laws_hold_for_Q : lawful_order qops.
Proof. exact qops_lawful. Qed.

Print Assumptions C04_scan_is_argmax.
Print Assumptions C04_vmax_is_max.
Print Assumptions C04_vmin_is_min.
Print Assumptions C04_identical_both_modes.
Print Assumptions C04_laws_hold_for_Q.

(** "true values equal => both listed" fails when the values are computed inexactly (known finding
    K1-C04): Player 1 chooses between a final state (value 1) and a state whose finite-horizon values
    1 - 0.9^m climb to 1; the reported strategy lists only the first. *)
From CR Require Import Proofs.ReachQ Proofs.ReachQ2 Proofs.ReachQ3 Proofs.C04Q.
Theorem C04_true_tie_refuted :
  exists (g : game (T:=Q)) sl1 rs it,
    solve_reach_fuel qops 1000 g false = Ok (sl1, rs, it) /\
    nth 0 rs None = Some ["a"%string] /\
    (forall m, gV g m 1 == 1)%Q /\
    (forall m, gV g m 2 == 1 - qpow (9#10) m)%Q /\
    (gV g 200 2 > 1 - (1 # 1000000000))%Q.
Proof. destruct k4_tie_missed as (sl1 & rs & it & H). exists k4_game, sl1, rs, it. exact H. Qed.
Print Assumptions C04_true_tie_refuted.

(** exact rationals: rounding to 6 digits moves a value by at most 5e-7, so two successors whose
    reported values differ by more than 1e-6 are never confused: the Player 1 scan does not list the
    worse one, the Player 2 scan does not list the better one *)
From CR Require Import Proofs.RoundQ.
Theorem C04_rounding_error : forall a : Q, (Qabs.Qabs (qround6 a - a) <= 1 # 2000000)%Q.
Proof. exact qround6_close. Qed.
Theorem C04_separated_values : forall (raw : list (string * Q)) a1 x1 a2 x2 m0,
  In (a1, x1) raw -> In (a2, x2) raw -> (x1 - x2 > 1 # 1000000)%Q ->
  let vals := map (fun ax => (fst ax, qround6 (snd ax))) raw in
  eqb qops (qround6 x2) (vmax qops m0 vals) = false /\
  eqb qops (qround6 x1) (vmin qops m0 vals) = false.
Proof. exact scan_separated. Qed.
Print Assumptions C04_rounding_error.
Print Assumptions C04_separated_values.

(** end to end on solve(): for every well-formed game (both modes, any number instance with lawful
    comparisons, e.g. exact rationals) the reported reachability strategy of state i is the arg-max
    (Player 1, from 0) / arg-min (Player 2, from 1) filter of the 6-digit roundings of the REPORTED
    probabilities of i's successors, in transition order; probabilistic states get None *)
From CR Require Import Proofs.StratSolveP.
Theorem C04_solve_strategies : forall (T : Type) (K : ops T), lawful_order K ->
  forall fuel (g : game (T:=T)) prune r i,
  wf_game K g -> solve_fuel K fuel g prune = Ok r -> i < nstates g ->
  nth i (r_reachs r) None =
  match nth i (g_players g) PR with
  | P1 => Some (argmax_list K (zero K) (vals_of K (r_probs r) (nth i (g_trans g) [])))
  | P2 => Some (argmin_list K (one K) (vals_of K (r_probs r) (nth i (g_trans g) [])))
  | PR => None
  end.
Proof. intros T K L. exact (reach_strategies_of_solve K (lawful_scans_are_filters K L)). Qed.
Print Assumptions C04_solve_strategies.

(** the implementation's own arithmetic: binary64 (instance F = PrimFloat). The comparisons obey the
    order laws on every non-NaN value and NaN is inert, so the scans are arg-max / arg-min filters on ALL
    inputs (Proofs/FloatLaws.v, from the standard library's FloatAxioms.ltb_spec / eqb_spec); hence the
    end-to-end statement holds of the model instance that is bit-exact with the code. *)
From CR Require Import Proofs.LawsOn Proofs.FloatLaws Props.C04F.
Theorem C04_scans_binary64 : scans_are_filters fops.
Proof. intros m0 l. exact (C04F_scan_is_argmax_binary64_all m0 l). Qed.
Theorem C04_solve_strategies_binary64 : forall fuel (g : game (T:=PrimFloat.float)) prune r i,
  wf_game fops g -> solve_fuel fops fuel g prune = Ok r -> i < nstates g ->
  nth i (r_reachs r) None =
  match nth i (g_players g) PR with
  | P1 => Some (argmax_list fops (zero fops) (vals_of fops (r_probs r) (nth i (g_trans g) [])))
  | P2 => Some (argmin_list fops (one fops) (vals_of fops (r_probs r) (nth i (g_trans g) [])))
  | PR => None
  end.
Proof. exact (reach_strategies_of_solve fops C04_scans_binary64). Qed.
Print Assumptions C04_scans_binary64.
Print Assumptions C04_solve_strategies_binary64.
