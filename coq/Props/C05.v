(** C05 — final strategies are reward-optimal among reachability-optimal actions. *)
From Coq Require Import String List Arith Bool.
From CR Require Import Model.Num Model.Outcome Model.Game Proofs.Laws Proofs.PipelineP.
Import ListNotations.

(* inclusion, for EVERY well-formed game for which solve returns (both modes, any number instance,
   in particular binary64): the final strategy of a Player 1 state is a subset of its reported
   reachability strategy - maximising reward never overrides maximising reachability *)
Theorem C05_inclusion : forall (T : Type) (K : ops T) fuel (g : game (T:=T)) prune r i fs,
  wf_game K g -> solve_fuel K fuel g prune = Ok r -> i < nstates g ->
  nth i (g_players g) PR = P1 -> nth i (r_final r) None = Some fs ->
  exists rs, nth i (r_reachs r) None = Some rs /\ incl fs rs.
Proof. intros T K. exact (final_within_reach K). Qed.

Section C05.
Context {T : Type} (K : ops T).
Hypothesis L : lawful_order K.

Definition succ_rews (sl : list (node (T:=T))) (n : node (T:=T)) : list (string * T) :=
  map (fun t => (act t, rnd K (er (getn K sl (dst t))))) (nxt n).

(* the final scan lists exactly the remaining actions whose rounded expected reward is the largest
   (Player 1, running maximum from 0) / the smallest (Player 2, started at the first successor);
   a state left without transitions gets the empty list, probabilistic states none *)
Theorem C05_scan_is_argmax : forall (sl : list (node (T:=T))) n,
  strat_rew K sl n =
  match nk n with
  | P1 => Some (map fst (filter (fun av => eqb K (snd av) (vmax K (zero K) (succ_rews sl n))) (succ_rews sl n)))
  | P2 => match succ_rews sl n with
          | [] => Some []
          | (_, v0) :: _ =>
            Some (map fst (filter (fun av => eqb K (snd av) (vmin K v0 (succ_rews sl n))) (succ_rews sl n)))
          end
  | PR => None
  end.
Proof.
  intros sl n. unfold strat_rew. fold (succ_rews sl n). destruct (nk n).
  - rewrite (scan_max_is_argmax K L). reflexivity.
  - destruct (succ_rews sl n) as [|[a v0] l]; [reflexivity|].
    rewrite (scan_min_is_argmin K L). reflexivity.
  - reflexivity.
Qed.
End C05.

Print Assumptions C05_inclusion.
Print Assumptions C05_scan_is_argmax.

(** exact rationals: remaining actions whose successors' reported expected rewards differ by more than
    1e-6 are never confused by the final scans (rounding to 6 digits moves a value by at most 5e-7):
    the Player 1 scan does not list the worse one, the Player 2 scan does not list the better one *)
From Coq Require Import QArith.
From CR Require Import Proofs.RoundQ.
Theorem C05_separated_rewards : forall (raw : list (string * Q)) a1 x1 a2 x2 m0,
  In (a1, x1) raw -> In (a2, x2) raw -> (x1 - x2 > 1 # 1000000)%Q ->
  let vals := map (fun ax => (fst ax, qround6 (snd ax))) raw in
  Num.eqb qops (qround6 x2) (vmax qops m0 vals) = false /\
  Num.eqb qops (qround6 x1) (vmin qops m0 vals) = false.
Proof. exact scan_separated. Qed.
Print Assumptions C05_separated_rewards.

(** end to end on solve(): the reported final strategy of state i is the arg-max (Player 1, from 0) /
    arg-min (Player 2, from its first successor) filter of the 6-digit roundings of the REPORTED expected
    rewards over i's row in the conditioned game (r_pruned), in that row's order; an emptied Player 2
    state gets the empty list, probabilistic states None *)
From CR Require Import Proofs.StratSolveP.
Theorem C05_solve_strategies : forall (T : Type) (K : ops T), lawful_order K ->
  forall fuel (g : game (T:=T)) prune r i,
  wf_game K g -> solve_fuel K fuel g prune = Ok r -> (i < nstates g)%nat ->
  nth i (r_final r) None =
  let vals := vals_of K (r_rewards r) (nth i (r_pruned r) []) in
  match nth i (g_players g) PR with
  | P1 => Some (argmax_list K (zero K) vals)
  | P2 => match vals with
          | [] => Some []
          | (_, v0) :: _ => Some (argmin_list K v0 vals)
          end
  | PR => None
  end.
Proof. intros T K L. exact (final_strategies_of_solve K (lawful_scans_are_filters K L)). Qed.
Print Assumptions C05_solve_strategies.

(** the same end-to-end statement for binary64, the arithmetic the implementation uses (see Props/C04.v) *)
From CR Require Import Proofs.LawsOn Proofs.FloatLaws Props.C04F.
Theorem C05_solve_strategies_binary64 : forall fuel (g : game (T:=PrimFloat.float)) prune r i,
  wf_game fops g -> solve_fuel fops fuel g prune = Ok r -> (i < nstates g)%nat ->
  nth i (r_final r) None =
  let vals := vals_of fops (r_rewards r) (nth i (r_pruned r) []) in
  match nth i (g_players g) PR with
  | P1 => Some (argmax_list fops (zero fops) vals)
  | P2 => match vals with
          | [] => Some []
          | (_, v0) :: _ => Some (argmin_list fops v0 vals)
          end
  | PR => None
  end.
Proof. exact (final_strategies_of_solve fops (fun m0 l => C04F_scan_is_argmax_binary64_all m0 l)). Qed.
Print Assumptions C05_solve_strategies_binary64.
