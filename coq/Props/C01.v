(** C01 — reported reachability probabilities are the max-min values.
    Structural statements hold for every number instance (so for binary64); numeric statements are
    about exact rationals (instance Q, the same Gallina text evaluated with exact arithmetic). *)
From Coq Require Import String List Arith Bool QArith.
From CR Require Import Model.Num Model.Outcome Model.Graph Model.Game Proofs.GraphP Proofs.PipelineP
     Proofs.ReachQ Proofs.ReachQ2 Proofs.ReachQ3 Proofs.C04Q Proofs.ErrBound Proofs.ReachQ4.
Import ListNotations.

(* every final state reports exactly one (any instance, in particular binary64) *)
Theorem C01_final_one : forall (T : Type) (K : ops T) fuel (g : game (T:=T)) prune r f,
  wf_game K g -> solve_fuel K fuel g prune = Ok r -> In f (g_finals g) ->
  nth f (r_probs r) (zero K) = one K.
Proof. intros T K. exact (final_reports_one K). Qed.

(* a state with no path to a final state reports exactly zero *)
Theorem C01_unreachable_zero : forall (T : Type) (K : ops T) fuel (g : game (T:=T)) prune r s,
  wf_game K g -> solve_fuel K fuel g prune = Ok r -> s < nstates g ->
  (forall f, In f (g_finals g) -> ~ path (tlg g) s f) ->
  nth s (r_probs r) (one K) = zero K.
Proof. intros T K. exact (unreachable_reports_zero K). Qed.

(* the reported probabilities do not depend on the pruning flag *)
Theorem C01_prune_independent : forall (T : Type) (K : ops T) fuel (g : game (T:=T)) r1 r2,
  solve_fuel K fuel g true = Ok r1 -> solve_fuel K fuel g false = Ok r2 -> r_probs r1 = r_probs r2.
Proof. intros T K fuel g r1 r2 H1 H2. apply (prune_flag_irrelevant K fuel g r1 r2 H1 H2). Qed.

(* Numeric part (exact rationals). For every well-formed game whose probabilistic states carry
   non-negative probabilities summing to at most 1, and any fuel/pruning flag, whenever the
   reachability half of solve returns: every reported probability is in [0,1] and at least the
   initial indicator (the loop is monotone from below); it never exceeds the value gV m of the
   m-step game for m = sweeps * |S| (a fortiori never the true value, which dominates every gV m);
   and on every iterated state the Bellman residual is between 0 and the threshold 10^-6. *)
Theorem C01_numeric : forall (g : game (T:=Q)),
  wf_game qops g ->
  (forall i, nth i (g_players g) PR = PR ->
     nonneg_w (nth i (g_trans g) []) /\ (sumw (nth i (g_trans g) []) <= 1)%Q) ->
  forall fuel prune sl1 rs it,
  solve_reach_fuel qops fuel g prune = Ok (sl1, rs, it) ->
  let p := reach_vec qops sl1 in
  exists srf, reverse_dfs (tlg g) (g_finals g) = Ok srf /\
    (forall j, (0 <= p j <= 1)%Q) /\
    (forall j, (gx0 g j <= p j)%Q) /\
    (forall j, (p j <= gV g (it * length srf) j)%Q) /\
    (forall s, In s srf -> (0 <= gPhi g p s - p s <= q_thr)%Q).
Proof. exact reach_numeric. Qed.

(* the same, stated on what solve() returns: r_probs is that vector and r_it_reach the sweep count *)
Theorem C01_numeric_solve : forall (g : game (T:=Q)),
  wf_game qops g ->
  (forall i, nth i (g_players g) PR = PR ->
     nonneg_w (nth i (g_trans g) []) /\ (sumw (nth i (g_trans g) []) <= 1)%Q) ->
  forall fuel prune r,
  solve_fuel qops fuel g prune = Ok r ->
  let p := fun j => nth j (r_probs r) 0%Q in
  exists srf, reverse_dfs (tlg g) (g_finals g) = Ok srf /\
    (forall j, (0 <= p j <= 1)%Q) /\
    (forall j, (gx0 g j <= p j)%Q) /\
    (forall j, (p j <= gV g (r_it_reach r * length srf) j)%Q) /\
    (forall s, In s srf -> (0 <= gPhi g p s - p s <= q_thr)%Q).
Proof. exact solve_probs_numeric. Qed.

(* the finite-horizon values are non-decreasing in the horizon and stay in [0,1] *)
Theorem C01_horizon_values_monotone : forall (g : game (T:=Q)),
  (forall i, nth i (g_players g) PR = PR ->
     nonneg_w (nth i (g_trans g) []) /\ (sumw (nth i (g_trans g) []) <= 1)%Q) ->
  forall m m' i, m <= m' -> (0 <= gV g m i <= gV g m' i)%Q /\ (gV g m' i <= 1)%Q.
Proof.
  intros g Hn m m' i Hle. unfold gV.
  assert (Hw : forall i, gkd g i = PR -> nonneg_w (gtr g i)) by (intros k Hk; apply Hn; exact Hk).
  assert (Hs : forall i, gkd g i = PR -> (sumw (gtr g i) <= 1)%Q) by (intros k Hk; apply Hn; exact Hk).
  split; [split|].
  - apply (V_bounds (gkd g) (gtr g) (gfin g) Hw Hs).
  - apply (V_mono (gkd g) (gtr g) (gfin g) Hw Hs); exact Hle.
  - apply (V_bounds (gkd g) (gtr g) (gfin g) Hw Hs).
Qed.

(* the reachability loop terminates: |S| * 10^6 + 1 sweeps of fuel always suffice *)
Theorem C01_terminates : forall (g : game (T:=Q)),
  wf_game qops g ->
  (forall i, nth i (g_players g) PR = PR ->
     nonneg_w (nth i (g_trans g) []) /\ (sumw (nth i (g_trans g) []) <= 1)%Q) ->
  forall fuel prune srf,
  reverse_dfs (tlg g) (g_finals g) = Ok srf ->
  length srf * Z.to_nat 1000000 < fuel ->
  solve_reach_fuel qops fuel g prune <> OutOfFuel.
Proof. exact reach_terminates. Qed.

(* CONDITIONAL full-strength form of "within the solver's tolerance of the true value": let y be any
   fixed point of the game's Bellman operator on the iterated states that lies above the report, agrees
   with it elsewhere (final states: 1, states without a path: 0) and is at most 1 above it - the true
   value is such a y. If T certifies a bounded expected absorption time (T s >= 1 + largest /
   probability-weighted successor value of T on the iterated states, 1 <= T <= M), then the report is
   within threshold * T s of y s at every state. (Without such a T the claim is false: next theorem.) *)
Theorem C01_error_bound : forall (g : game (T:=Q)),
  wf_game qops g ->
  (forall i, nth i (g_players g) PR = PR ->
     nonneg_w (nth i (g_trans g) []) /\ (sumw (nth i (g_trans g) []) <= 1)%Q) ->
  forall fuel prune sl1 rs it,
  solve_reach_fuel qops fuel g prune = Ok (sl1, rs, it) ->
  let p := reach_vec qops sl1 in
  exists srf, reverse_dfs (tlg g) (g_finals g) = Ok srf /\
    forall (y T : nat -> Q) (M : Q),
      (forall s, In s srf -> y s = gPhi g y s) ->
      (forall s, ~ In s srf -> y s = p s) ->
      (forall s, (y s - p s <= 1)%Q) ->
      (forall s, (1 + B (gkd g) (gtr g) (fun s => mem_nat s srf) T s <= T s)%Q) ->
      (forall s, (0 <= T s <= M)%Q) ->
      forall s, (y s - p s <= q_thr * T s)%Q.
Proof. exact reach_error_bound. Qed.

(* non-vacuity of the certificate hypotheses: the 0.9-self-loop game with T = (12, 1, 11), M = 12 *)
Example C01_certificate_exists :
  wf_game qops k4_game /\
  (forall s, (1 + B (gkd k4_game) (gtr k4_game) (fun s => mem_nat s [0%nat; 2%nat]) k4_T s <= k4_T s)%Q) /\
  (forall s, (0 <= k4_T s <= 12)%Q).
Proof. split; [exact k4_wf|exact k4_certificate]. Qed.

(* "within the solver's tolerance of the true value" is FALSE in its error form (known finding K1):
   on a 3-state well-formed game (self-loop with escape probability 2^-21) the loop stops after one
   sweep, and the value of the 300-step game already exceeds the report by more than 100 thresholds *)
Theorem C01_within_threshold_refuted :
  exists (g : game (T:=Q)) sl1 rs it,
    wf_game qops g /\ solve_reach_fuel qops 10 g false = Ok (sl1, rs, it) /\
    (gV g 300 0 - reach_vec qops sl1 0 > 100 * q_thr)%Q.
Proof.
  destruct k1_gap as (sl1 & rs & it & H1 & H2). exists k1_game, sl1, rs, it.
  split; [exact k1_wf|]. split; [exact H1|exact H2].
Qed.

(* non-vacuity: the witness game meets the hypotheses of C01_numeric *)
Example C01_hypotheses_satisfiable :
  wf_game qops k1_game /\
  (forall i, nth i (g_players k1_game) PR = PR ->
     nonneg_w (nth i (g_trans k1_game) []) /\ (sumw (nth i (g_trans k1_game) []) <= 1)%Q).
Proof. split; [exact k1_wf|exact k1_num]. Qed.

Print Assumptions C01_final_one.
Print Assumptions C01_unreachable_zero.
Print Assumptions C01_prune_independent.
Print Assumptions C01_numeric.
Print Assumptions C01_numeric_solve.
Print Assumptions C01_horizon_values_monotone.
Print Assumptions C01_terminates.
Print Assumptions C01_within_threshold_refuted.
Print Assumptions C01_error_bound.
