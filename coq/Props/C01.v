(** C01 — reported reachability probabilities are the max-min values (structural part; the numeric
    part on exact rationals is in Props/C01Q.v). *)
From Coq Require Import String List Arith Bool.
From CR Require Import Model.Num Model.Outcome Model.Graph Model.Game Proofs.GraphP Proofs.PipelineP.
Import ListNotations.

(* every final state reports exactly one (any instance, in particular binary64) *)
Theorem C01_final_one : forall (T : Type) (K : ops T) fuel (g : game (T:=T)) prune r f,
  wf_game K g -> solve_fuel K fuel g prune = Ok r -> In f (g_finals g) ->
  nth f (r_probs r) (zero K) = one K.
Proof. intros T K. exact (final_reports_one K). Qed.

(* a state with no path to a final state reports exactly zero *)
Theorem C01_unreachable_zero : forall (T : Type) (K : ops T) fuel (g : game (T:=T)) prune r s,
  wf_game K g -> solve_fuel K fuel g prune = Ok r -> s < nstates g ->
  (forall f, In f (g_finals g) -> ~ path (tlg g) s f) ->
  nth s (r_probs r) (one K) = zero K.
Proof. intros T K. exact (unreachable_reports_zero K). Qed.

(* the reported probabilities do not depend on the pruning flag *)
Theorem C01_prune_independent : forall (T : Type) (K : ops T) fuel (g : game (T:=T)) r1 r2,
  solve_fuel K fuel g true = Ok r1 -> solve_fuel K fuel g false = Ok r2 -> r_probs r1 = r_probs r2.
Proof. intros T K fuel g r1 r2 H1 H2. apply (prune_flag_irrelevant K fuel g r1 r2 H1 H2). Qed.

Print Assumptions C01_final_one.
Print Assumptions C01_unreachable_zero.
Print Assumptions C01_prune_independent.
