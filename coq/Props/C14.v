(** C14 — cross-objective diagnostics match the reported strategies: what one step of the reward loop
    does to 'probabilities under minimal reward' (erm) and 'rewards under minimal reachability' (ermr).
    Generic in the number operations. Equality with the induced chain's true values is subject to K1
    and to K5 (refuted below: a stale value at a player state that never reaches a final state) and is
    covered by the oracle part of the check. *)
From Coq Require Import String List Arith Bool.
From Coq Require Import QArith Qabs.
From CR Require Import Model.Num Model.Outcome Model.Graph Model.Game Proofs.GameP Proofs.RewStepP Proofs.PipelineP Proofs.C14Q
     Proofs.ReachQ Proofs.RewQ Proofs.RewQ2 Proofs.RewResQ Proofs.RewQ3 Proofs.DiagResQ Props.C14D.
Import ListNotations.

(* Player 1: expected reward, reward diagnostic and probability diagnostic all follow ONE successor,
   the one the reward step picked *)
Theorem C14_step_player1 : forall (T : Type) (K : ops T) (sl : list (node (T:=T))) n a b c,
  nk n = P1 -> nxt n <> [] -> rew_step K sl n = Some (a, b, c) ->
  exists t, In t (nxt n) /\
    a = add K (er (getn K sl (dst t))) (rew n) /\
    b = add K (ermr (getn K sl (dst t))) (rew n) /\
    c = erm (getn K sl (dst t)).
Proof. intros T K. exact (rew_step_P1 K). Qed.

(* Player 2: reward and probability diagnostic follow the picked successor; the reward diagnostic is
   reward + the smallest value among the successors whose action is in the state's 6-digit
   reachability strategy (0 when that strategy is empty) *)
Theorem C14_step_player2 : forall (T : Type) (K : ops T) (sl : list (node (T:=T))) n a b c,
  nk n = P2 -> nxt n <> [] -> rew_step K sl n = Some (a, b, c) ->
  (exists t, In t (nxt n) /\ a = add K (er (getn K sl (dst t))) (rew n) /\ c = erm (getn K sl (dst t))) /\
  let strats := snd (scan_min K (one K) (map (fun t => (act t, rnd K (reach (getn K sl (dst t))))) (nxt n))) in
  (strats = [] -> b = zero K) /\
  (strats <> [] -> exists f0, In f0 (nxt n) /\ mem_str (act f0) strats = true /\
     b = add K (fold_left (fun m t => if mem_str (act t) strats
                                      then let v := ermr (getn K sl (dst t)) in if ltb K v m then v else m
                                      else m) (nxt n) (ermr (getn K sl (dst f0)))) (rew n)).
Proof. intros T K. exact (rew_step_P2 K). Qed.

(* probabilistic: the three probability-weighted sums over the same transition list *)
Theorem C14_step_probabilistic : forall (T : Type) (K : ops T) (sl : list (node (T:=T))) n,
  nk n = PR -> nxt n <> [] ->
  rew_step K sl n =
  Some (fold_left (fun v t => add K v (mul K (er (getn K sl (dst t))) (pr t))) (nxt n) (rew n),
        fold_left (fun v t => add K v (mul K (ermr (getn K sl (dst t))) (pr t))) (nxt n) (rew n),
        fold_left (fun v t => add K v (mul K (erm (getn K sl (dst t))) (pr t))) (nxt n) (zero K)).
Proof. intros T K. exact (rew_step_PR K). Qed.

(* the probability diagnostic is seeded from the reachability values *)
Theorem C14_seeded_from_reachability : forall (T : Type) (K : ops T) prune (sla sl1 : list (node (T:=T))) i,
  after_reach K prune sla = Ok sl1 -> erm (getn K sl1 i) = reach (getn K sl1 i).
Proof. intros T K. exact (after_reach_seeds K). Qed.

(* REFUTED (known finding K5): "the 'probabilities under minimal reward' output equals each state's
   probability of reaching a final state when both players follow their final strategies" fails on a
   well-formed 5-state game solved without pruning (exact rationals, so rounding plays no part): Player 2's
   final strategy at state 1 is the single action "c", which leads back to state 1, not a final state - the
   probability of ever reaching a final state from there is 0 (and the reported reachability value is 0) -
   but the diagnostic reports 1 there and 1 instead of 1/2 at the initial state. *)
Theorem C14_stale_diagnostic_refuted :
  exists (g : game (T:=Q)) r, wf_game qops g /\ solve_fuel qops 100 g false = Ok r /\
    nth 1 (r_final r) None = Some ["c"%string] /\
    (forall t, In t (nth 1 (g_trans g) []) -> act t = "c"%string -> dst t = 1) /\
    ~ In 1 (g_finals g) /\
    nth 1 (r_prob_min_rew r) 0%Q = 1%Q /\ nth 0 (r_prob_min_rew r) 0%Q = 1%Q /\
    nth 1 (r_probs r) 1%Q = 0%Q.
Proof. destruct k5_stale as (r & H). exists k5_game, r. split; [exact k5_wf|exact H]. Qed.

(* RESIDUAL form of the end-to-end claim (exact rationals; statements and the meaning of res_at spelled out in
   Props/C14D.v): for every well-formed game whose probabilistic transitions carry positive probabilities summing
   to at most 1, both modes, when solve returns, at EVERY state the reported expected reward and the two diagnostics
   satisfy the equations of one reward step on the conditioned rows, measured in the reported vectors, up to the
   threshold 10^-6: emptied state - exactly zeros; probabilistic - the three weighted sums; Player 1 - ONE successor
   explains all three; Player 2 - one successor explains expected reward and probability diagnostic, and the reward
   diagnostic is reward + the minimum over the reported reachability strategy. (Equality with the induced chain's
   true values does not follow: K1, K5.) The check evaluates exactly this predicate on the implementation's output. *)
Theorem C14_diagnostics_consistent : forall fuel (g : game (T:=Q)) prune r,
  wf_game qops g -> num_wf1 g -> solve_fuel qops fuel g prune = Ok r ->
  forall s, s < nstates g ->
    res_at (nth s (g_players g) PR) (nth s (g_rewards g) 0%Q) (nth s (r_pruned r) [])
           (fun i => nth i (r_probs r) 0%Q)
           (fun i => nth i (r_rewards r) 0%Q) (fun i => nth i (r_rew_min_reach r) 0%Q) (fun i => nth i (r_prob_min_rew r) 0%Q)
           q_thr s.
Proof. exact C14D_solve_residual. Qed.

(* Player 1, spelled out: one transition of the conditioned row is followed by all three reported quantities *)
Theorem C14_player1_follows_one_successor : forall fuel (g : game (T:=Q)) prune r,
  wf_game qops g -> num_wf1 g -> solve_fuel qops fuel g prune = Ok r ->
  forall s, s < nstates g ->
  let row := nth s (r_pruned r) [] in let rw := nth s (g_rewards g) 0%Q in
  let x := fun i => nth i (r_rewards r) 0%Q in
  let y := fun i => nth i (r_rew_min_reach r) 0%Q in
  let z := fun i => nth i (r_prob_min_rew r) 0%Q in
  nth s (g_players g) PR = P1 -> row <> [] ->
  exists t, In t row /\
    (Qabs (rw + x (dst t) - x s) <= q_thr)%Q /\ (Qabs (rw + y (dst t) - y s) <= q_thr)%Q /\ (Qabs (z (dst t) - z s) <= q_thr)%Q.
Proof. exact C14D_player1. Qed.

Print Assumptions C14_step_player1.
Print Assumptions C14_step_player2.
Print Assumptions C14_step_probabilistic.
Print Assumptions C14_seeded_from_reachability.
Print Assumptions C14_stale_diagnostic_refuted.
Print Assumptions C14_diagnostics_consistent.
Print Assumptions C14_player1_follows_one_successor.
