(** The saved report (C16): conditionalrewards.save_results_to_file as a function from the
    run_games result dictionary to the lines of outputs/<stem>.txt, and the file-stem computation.

    What is NOT modelled: CPython's [repr]/[str] of values and the parser behind [eval]. In the
    theorems the rendering of a value is a section variable [show] (with a reader [parse]); the
    round trip [parse (show v) = Some v] is a hypothesis, stated only for the values that occur.
    For the correspondence runs [show_py] below renders None/bools/ints/lists/simple strings the
    way CPython does and takes the repr of a float from the harness as an opaque string. *)
From Coq Require Import String Ascii ZArith List Bool.
From CR Require Import Model.Params.
Import ListNotations.
Local Open Scope string_scope.

(** * Python values that occur in a result entry *)
Inductive pyval : Type :=
| PNone
| PBool (b : bool)
| PInt (z : Z)
| PFloat (repr : string)      (* a float, identified by its repr (supplied by the harness) *)
| PStr (s : string)
| PList (l : list pyval).

(* structural equality = Python's == on None / bool / int / str / lists of those (the strategy
   values compared by the "Are equal" line are lists of None and lists of strings) *)
Fixpoint pyval_eqb (a b : pyval) : bool :=
  match a, b with
  | PNone, PNone => true
  | PBool x, PBool y => Bool.eqb x y
  | PInt x, PInt y => Z.eqb x y
  | PFloat x, PFloat y => String.eqb x y
  | PStr x, PStr y => String.eqb x y
  | PList x, PList y =>
      (fix go (x y : list pyval) : bool :=
         match x, y with
         | [], [] => true
         | u :: x', v :: y' => pyval_eqb u v && go x' y'
         | _, _ => false
         end) x y
  | _, _ => false
  end.

(* one entry of run_games' result dictionary (key order of the code irrelevant: accessed by key).
   msg is always a str built by run_games; everything else is whatever solve() returned or the
   initial None / 0. *)
Record entry := mkEntry {
  e_msg : string;
  e_n_states : pyval;
  e_n_transitions : pyval;
  e_it_reach : pyval;
  e_it_rew : pyval;
  e_reach_strats : pyval;
  e_final_strats : pyval;
  e_probs : pyval;
  e_prob_min_rew : pyval;
  e_rewards : pyval;
  e_rew_min_reach : pyval;
  e_total_time : pyval }.

(** * Fixed-width labels (26 characters each) *)
Definition label_name    := "Running example         : ".
Definition label_msg     := "Message                 : ".
Definition label_states  := "number of states        : ".
Definition label_trans   := "number of transitions   : ".
Definition label_itreach := "n iterations reach      : ".
Definition label_itrew   := "n iterations rew        : ".
Definition label_reach   := "Reachability strategies : ".
Definition label_final   := "Final strategies        : ".
Definition label_equal   := "Are equal               : ".
Definition label_probs   := "Probabilities           : ".
Definition label_pmr     := "Probabilities min rew   : ".
Definition label_rew     := "Rewards                 : ".
Definition label_rmr     := "Rewards min reach       : ".
Definition label_time    := "Total time              : ".
Definition label_width : nat := 26.

Fixpoint repeat_char (c : ascii) (n : nat) : string :=
  match n with O => EmptyString | S k => String c (repeat_char c k) end.
Definition rule_line : string := repeat_char "="%char 160.     (* "="*160 *)

Section Format.
  Variable show : pyval -> string.       (* str()/repr() of a value inside an f-string *)

  (* the 15 lines written for one entry, without their terminating newlines. An f-string
     formats a str with str() (no quotes): name and message appear verbatim. *)
  Definition format_entry (name : string) (e : entry) : list string :=
    [ rule_line;
      label_name ++ name;
      label_msg ++ e_msg e;
      label_states ++ show (e_n_states e);
      label_trans ++ show (e_n_transitions e);
      label_itreach ++ show (e_it_reach e);
      label_itrew ++ show (e_it_rew e);
      label_reach ++ show (e_reach_strats e);
      label_final ++ show (e_final_strats e);
      label_equal ++ show (PBool (pyval_eqb (e_reach_strats e) (e_final_strats e)));
      label_probs ++ show (e_probs e);
      label_pmr ++ show (e_prob_min_rew e);
      label_rew ++ show (e_rewards e);
      label_rmr ++ show (e_rew_min_reach e);
      label_time ++ show (e_total_time e) ].

  (* for name, game in game_results.items(): ... in insertion order *)
  Definition report_lines (res : list (string * entry)) : list string :=
    flat_map (fun ne => format_entry (fst ne) (snd ne)) res.

  Definition nl : string := String (ascii_of_nat 10) EmptyString.
  Definition text_of_lines (ls : list string) : string := fold_right (fun l acc => l ++ nl ++ acc) "" ls.
  Definition report_text (res : list (string * entry)) : string := text_of_lines (report_lines res).

  (* reading a line back: drop the label, parse the rest *)
  Variable parse : string -> option pyval.
  Definition drop_label (line : string) : string :=
    substring label_width (String.length line - label_width) line.
  Definition read_field (line : string) : option pyval := parse (drop_label line).

  (* the pyval fields of a block, by line number *)
  Definition field_of_line (e : entry) (k : nat) : option pyval :=
    match k with
    | 3 => Some (e_n_states e) | 4 => Some (e_n_transitions e)
    | 5 => Some (e_it_reach e) | 6 => Some (e_it_rew e)
    | 7 => Some (e_reach_strats e) | 8 => Some (e_final_strats e)
    | 9 => Some (PBool (pyval_eqb (e_reach_strats e) (e_final_strats e)))
    | 10 => Some (e_probs e) | 11 => Some (e_prob_min_rew e)
    | 12 => Some (e_rewards e) | 13 => Some (e_rew_min_reach e)
    | 14 => Some (e_total_time e)
    | _ => None
    end.
  Definition label_of_line (k : nat) : string :=
    nth k [""; label_name; label_msg; label_states; label_trans; label_itreach; label_itrew; label_reach;
           label_final; label_equal; label_probs; label_pmr; label_rew; label_rmr; label_time] "".
End Format.

(* the text cut back into lines: every line is terminated by one newline *)
Fixpoint lines_of_aux (cur : string -> string) (s : string) : list string :=
  match s with
  | EmptyString => []          (* text after the last newline: none is ever written *)
  | String c r => if Ascii.eqb c (ascii_of_nat 10) then cur EmptyString :: lines_of_aux (fun x => x) r
                  else lines_of_aux (fun x => cur (String c x)) r
  end.
Definition lines_of (s : string) : list string := lines_of_aux (fun x => x) s.

Fixpoint has_char (c : ascii) (s : string) : bool :=
  match s with EmptyString => false | String a r => Ascii.eqb a c || has_char c r end.

(** * File stem: file_name.split("/")[-1].split(".")[0], report path f"outputs/{stem}.txt" *)

(* Python's s.split(c) for a one-character separator: never empty *)
Fixpoint split_on (c : ascii) (s : string) : list string :=
  match s with
  | EmptyString => [EmptyString]
  | String a r =>
      if Ascii.eqb a c then EmptyString :: split_on c r
      else match split_on c r with
           | h :: t => String a h :: t
           | [] => [String a EmptyString]      (* unreachable: split_on is never empty *)
           end
  end.

Definition stem (path : string) : string :=
  hd "" (split_on "."%char (last (split_on "/"%char path) "")).
Definition report_path (path : string) : string := "outputs/" ++ stem path ++ ".txt".

(** * A concrete rendering for the correspondence runs (CPython's repr for these shapes) *)
Fixpoint join (sep : string) (l : list string) : string :=
  match l with
  | [] => ""
  | [x] => x
  | x :: r => x ++ sep ++ join sep r
  end.

Fixpoint show_py (v : pyval) : string :=
  match v with
  | PNone => "None"
  | PBool true => "True"
  | PBool false => "False"
  | PInt z => decZ z
  | PFloat r => r
  | PStr s => "'" ++ s ++ "'"       (* valid for strings without quotes, backslashes, control characters *)
  | PList l => "[" ++ join ", " (map show_py l) ++ "]"
  end.
