(** CPython's [random] module, bit-exact: the Mersenne Twister MT19937 of Modules/_randommodule.c
    (init_genrand, init_by_array, random_seed for ints, genrand_uint32, random_random,
    getrandbits) and the pure-Python layer of Lib/random.py 3.12 on top of it
    (_randbelow_with_getrandbits, randrange(0, n), choices with weights), then the board
    generator of roberta_generator.py (gen_rnd_board, get_random_moves) driven by this generator
    instead of an abstract random source (compare Model/Params.v, section Board).

    32-bit words are binary naturals [N]; every C operation that can leave 32 bits (multiplication,
    addition, subtraction, left shift) is followed by an explicit reduction modulo 2^32 ([trunc32],
    or a mask below 2^32); xor / or / and / right shift of words stay words (Proofs/MTP.v).
    Floats are Coq's primitive binary64 numbers. *)
From Coq Require Import String ZArith NArith List Bool PrimFloat Uint63.
From CR Require Import Model.Num Model.Outcome Model.Params.
Import ListNotations.
Local Open Scope N_scope.

Definition w32 : N := 4294967296.                  (* 2^32 *)
(* reduction modulo 2^32, written as a mask because it evaluates five times faster than [mod]
   (MTP.trunc32_mod: trunc32 x = x mod 2^32) *)
Definition trunc32 (x : N) : N := N.land x 4294967295.
Definition mtN : nat := 624.
Definition mtM : nat := 397.

(** * Seeding *)

(* init_genrand: mt[0] = s; mt[i] = 1812433253 * (mt[i-1] ^ (mt[i-1] >> 30)) + i *)
Fixpoint init_genrand_from (n : nat) (i : N) (prev : N) : list N :=
  match n with
  | O => []
  | S n' => let x := trunc32 (1812433253 * (N.lxor prev (N.shiftr prev 30)) + i) in
            x :: init_genrand_from n' (i + 1) x
  end.
Definition init_genrand (s : N) : list N :=
  let s0 := trunc32 s in s0 :: init_genrand_from 623 1 s0.

(* The two loops of init_by_array walk the index i cyclically through 1..623 reading mt[i-1] and
   mt[i] and writing mt[i]; on leaving 623 they copy mt[623] to mt[0] and restart at 1. The array
   is kept as a zipper around i: mt = z0 :: rev zdone ++ ztodo, i = 1 + length zdone = zi. *)
Record zip := mkZ { z0 : N; zdone : list N; ztodo : list N; zi : N }.

Definition zprev (z : zip) : N := match zdone z with p :: _ => p | [] => z0 z end.   (* mt[i-1] *)
Definition zcur (z : zip) : N := hd 0 (ztodo z).                                     (* mt[i] *)
(* mt[i] = v; i++; if (i >= N) { mt[0] = mt[N-1]; i = 1; } *)
Definition zput (v : N) (z : zip) : zip :=
  match ztodo z with
  | [] => z                                           (* never: ztodo is non-empty throughout *)
  | [_] => mkZ v [] (rev (v :: zdone z)) 1
  | _ :: t => mkZ (z0 z) (v :: zdone z) t (zi z + 1)
  end.
Definition zarray (z : zip) : list N := z0 z :: rev (zdone z) ++ ztodo z.

(* first loop: k = max(N, key_length) steps;
   mt[i] = (mt[i] ^ ((mt[i-1] ^ (mt[i-1] >> 30)) * 1664525)) + init_key[j] + j.
   [kr] = the part of the key from position j on *)
Fixpoint iba_loop1 (k : nat) (key kr : list N) (j : N) (z : zip) : zip :=
  match k with
  | O => z
  | S k' =>
    let kj := hd 0 kr in
    let p := zprev z in
    let v := trunc32 (N.lxor (zcur z) (trunc32 (N.lxor p (N.shiftr p 30) * 1664525)) + kj + trunc32 j) in
    let z' := zput v z in
    match tl kr with
    | [] => iba_loop1 k' key key 0 z'                 (* j++; if (j >= key_length) j = 0 *)
    | r => iba_loop1 k' key r (j + 1) z'
    end
  end.

(* second loop: N-1 steps; mt[i] = (mt[i] ^ ((mt[i-1] ^ (mt[i-1] >> 30)) * 1566083941)) - i *)
Fixpoint iba_loop2 (k : nat) (z : zip) : zip :=
  match k with
  | O => z
  | S k' =>
    let p := zprev z in
    let v := trunc32 (N.lxor (zcur z) (trunc32 (N.lxor p (N.shiftr p 30) * 1566083941)) + (w32 - zi z)) in
    iba_loop2 k' (zput v z)
  end.

Definition init_by_array (key : list N) : list N :=
  match init_genrand 19650218 with
  | [] => []                                          (* never *)
  | m0 :: rest =>
    let z1 := iba_loop1 (Nat.max mtN (List.length key)) key key 0 (mkZ m0 [] rest 1) in
    let z2 := iba_loop2 (mtN - 1) z1 in
    match zarray z2 with
    | [] => []
    | _ :: r => 2147483648 :: r                       (* mt[0] = 0x80000000 *)
    end
  end.

(* random_seed for an int: the absolute value split into 32-bit words, least significant first,
   (bits - 1) / 32 + 1 of them, one word for 0. [trunc32 n] = n mod 2^32 and [N.shiftr n 32] = n / 2^32
   (MTP.key_words_unfold); masks and shifts because [mod] and [/] take seconds on seeds of 20000 bits *)
Fixpoint key_words (fuel : nat) (n : N) : list N :=
  match fuel with
  | O => []
  | S f => trunc32 n :: (if N.shiftr n 32 =? 0 then [] else key_words f (N.shiftr n 32))
  end.
Definition key_of (n : N) : list N := key_words (S (N.to_nat (N.size n))) n.
Fixpoint key_value (k : list N) : N :=
  match k with [] => 0 | w :: r => w + w32 * key_value r end.

(* generator state: the 624 words and the position of the next one *)
Record mtstate := mkMT { mt_words : list N; mt_idx : nat }.

Definition seed_N (n : N) : mtstate := mkMT (init_by_array (key_of n)) mtN.
Definition seed_Z (a : Z) : mtstate := seed_N (Z.abs_N a).           (* random.seed(a), a an int *)

(** * genrand_uint32 *)

(* y = (a & UPPER_MASK) | (b & LOWER_MASK); (y >> 1) ^ mag01[y & 1] *)
Definition mix (a b : N) : N :=
  let y := N.lor (N.land a 0x80000000) (N.land b 0x7fffffff) in
  N.lxor (N.shiftr y 1) (if N.odd y then 0x9908b0df else 0).

Fixpoint twist3 (xs ys zs : list N) : list N :=
  match xs, ys, zs with
  | x :: xs', y :: ys', z :: zs' => N.lxor z (mix x y) :: twist3 xs' ys' zs'
  | _, _, _ => []
  end.

(* The in-place regeneration of all 624 words. new[kk] = src ^ mix(old[kk], old[kk+1]) with
   src = old[kk+397] for kk < 227, src = new[kk-227] for 227 <= kk < 623, and
   new[623] = new[396] ^ mix(old[623], new[0]).  Four structural passes: A = new[0..226],
   B = new[227..453] (reads A), C = new[454..622] (reads the first 169 words of B), D = new[623]. *)
Definition regen (mt : list N) : list N :=
  let A := twist3 mt (tl mt) (skipn 397 mt) in
  let B := twist3 (skipn 227 mt) (skipn 228 mt) A in
  let C := twist3 (skipn 454 mt) (skipn 455 mt) B in
  let D := N.lxor (nth 169 B 0) (mix (nth 623 mt 0) (hd 0 A)) in
  A ++ B ++ C ++ [D].

Definition temper (y : N) : N :=
  let y := N.lxor y (N.shiftr y 11) in
  let y := N.lxor y (N.land (N.shiftl y 7) 0x9d2c5680) in
  let y := N.lxor y (N.land (N.shiftl y 15) 0xefc60000) in
  N.lxor y (N.shiftr y 18).

Definition genrand (st : mtstate) : N * mtstate :=
  let st1 := if Nat.leb mtN (mt_idx st) then mkMT (regen (mt_words st)) 0 else st in
  (temper (nth (mt_idx st1) (mt_words st1) 0), mkMT (mt_words st1) (S (mt_idx st1))).

(** * random(), getrandbits(k) *)

(* the two integers of random_random: a = genrand >> 5 (27 bits), b = genrand >> 6 (26 bits) *)
Definition random_ab (st : mtstate) : N * N * mtstate :=
  let (x, st1) := genrand st in
  let (y, st2) := genrand st1 in
  (N.shiftr x 5, N.shiftr y 6, st2).

Definition f_2p26 : float := 0x1p+26%float.          (* 67108864.0 *)
Definition f_2m53 : float := 0x1p-53%float.          (* 1.0 / 9007199254740992.0 *)
Definition f_of_N (n : N) : float := of_Zf (Z.of_N n).
(* (a*67108864.0+b)*(1.0/9007199254740992.0) in binary64 *)
Definition ab_float (a b : N) : float :=
  PrimFloat.mul (PrimFloat.add (PrimFloat.mul (f_of_N a) f_2p26) (f_of_N b)) f_2m53.
(* the numerator of the exact value (a * 2^26 + b) / 2^53 *)
Definition ab_num (a b : N) : N := a * 67108864 + b.

Definition random (st : mtstate) : float * mtstate :=
  let '(a, b, st') := random_ab st in (ab_float a b, st').

(* getrandbits(k): 0 for k = 0 without a draw; genrand >> (32 - k) for k <= 32; for larger k
   32-bit words least significant first, the last one shifted down to the remaining bits *)
Fixpoint getrandbits_words (words : nat) (k : N) (st : mtstate) : N * mtstate :=
  match words with
  | O => (0, st)
  | S w' =>
    let (r, st1) := genrand st in
    if k <? 32 then (N.shiftr r (32 - k), st1)
    else let (hi, st2) := getrandbits_words w' (k - 32) st1 in (r + w32 * hi, st2)
  end.
Definition getrandbits (k : N) (st : mtstate) : N * mtstate :=
  if k =? 0 then (0, st)
  else if k <=? 32 then let (r, st1) := genrand st in (N.shiftr r (32 - k), st1)
  else getrandbits_words (N.to_nat ((k - 1) / 32 + 1)) k st.

(** * Lib/random.py *)

(* _randbelow_with_getrandbits(n): k = n.bit_length(); r = getrandbits(k); while r >= n: again.
   The loop has no bound in the code; [None] = the fuel ran out (each round succeeds with
   probability > 1/2) *)
Fixpoint randbelow_loop (fuel : nat) (n k : N) (st : mtstate) : option (N * mtstate) :=
  match fuel with
  | O => None
  | S f => let (r, st1) := getrandbits k st in
           if r <? n then Some (r, st1) else randbelow_loop f n k st1
  end.
Definition randbelow_fuel : nat := 200.
Definition randbelow (n : N) (st : mtstate) : option (N * mtstate) :=
  randbelow_loop randbelow_fuel n (N.size n) st.

Local Open Scope string_scope.
(* randrange(0, n): width = n - 0; the fast path *)
Definition randrange0 (n : Z) (st : mtstate) : outcome (N * mtstate) :=
  if (0 <? n)%Z then
    match randbelow (Z.to_N n) st with Some r => Ok r | None => OutOfFuel end
  else ValueErr ("empty range in randrange(0, " ++ decZ n ++ ")").

(* itertools.accumulate on floats: w0, w0+w1, (w0+w1)+w2, ... *)
Fixpoint accumulate_from (acc : float) (ws : list float) : list float :=
  match ws with
  | [] => []
  | w :: r => let s := PrimFloat.add acc w in s :: accumulate_from s r
  end.
Definition accumulate (ws : list float) : list float :=
  match ws with [] => [] | w :: r => w :: accumulate_from w r end.

(* bisect.bisect_right(a, x, lo, hi): while lo < hi: mid = (lo+hi)//2;
   if x < a[mid]: hi = mid else: lo = mid + 1.  hi - lo + 1 rounds always suffice (MTP.bisect_fuel);
   [nth] never sees its default when hi <= len(a) *)
Fixpoint bisect (fuel : nat) (a : list float) (x : float) (lo hi : nat) : nat :=
  match fuel with
  | O => lo
  | S f =>
    if Nat.ltb lo hi then
      let mid := Nat.div2 (lo + hi) in
      if PrimFloat.ltb x (nth mid a 0%float) then bisect f a x lo mid else bisect f a x (S mid) hi
    else lo
  end.

Section Choices.
  Context {A : Type}.

  (* [population[bisect(cum_weights, random() * total, 0, hi)] for i in _repeat(None, k)] *)
  Fixpoint choices_picks (pop : list A) (cum : list float) (total : float) (hi : nat) (k : nat)
           (st : mtstate) : outcome (list A * mtstate) :=
    match k with
    | O => Ok ([], st)
    | S k' =>
      let (u, st1) := random st in
      match nth_error pop (bisect (S hi) cum (PrimFloat.mul u total) 0 hi) with
      | None => Crash "IndexError"                     (* never: the index is at most hi = n - 1 *)
      | Some v => do rest <- choices_picks pop cum total hi k' st1;
                  Ok (v :: fst rest, snd rest)
      end
    end.

  (* Random.choices(population, weights, k=k) for a list of float weights *)
  Definition choices (pop : list A) (weights : list float) (k : nat) (st : mtstate)
    : outcome (list A * mtstate) :=
    let n := List.length pop in
    let cum := accumulate weights in
    if negb (Nat.eqb (List.length cum) n)
    then ValueErr "The number of weights does not match the population" else
    match rev cum with
    | [] => Crash "IndexError"                         (* cum_weights[-1] of an empty list *)
    | last :: _ =>
      let total := PrimFloat.add last 0%float in
      if PrimFloat.leb total 0%float then ValueErr "Total of weights must be greater than zero" else
      if negb (PrimFloat.ltb (PrimFloat.abs total) infinity)
      then ValueErr "Total of weights must be finite" else
      choices_picks pop cum total (n - 1) k st
    end.
End Choices.

(** * roberta_generator.gen_rnd_board on this generator *)

(* floor(-log2 y) of a positive finite float, exact: y = mant * 2^e with 2^52 <= mant < 2^53, so
   2^-(k+1) < y <= 2^-k holds for k = -(52+e) when mant = 2^52 (y a power of two) and for
   k = -(53+e) otherwise. The code computes math.floor(-math.log(y)/math.log(2.0)) with libm, which
   is not modelled. Measured with the installed libm: the two agree on every power of two 2^-k
   (k = 0..1074) and on 2*10^6 random tiles; they differ on the 1-4 floats directly above 2^-k
   (3 <= k <= 31; more for larger k), where the rounded quotient lands on k and the code answers k
   instead of k-1. Example (no seed known to produce it): max_reward 6, draw
   u = 0x1.c3870e1c38710p-5 gives y = 0x1.0000000000001p-4, the code's reward is 4, the exact
   one 3. harness/mt_corr.py compares rewards on every board, so such a tile would be reported. *)
Definition floor_neg_log2_f (y : float) : Z :=
  let (m, e) := fdecomp y in
  (if (m =? 4503599627370496)%Z then - (52 + e) else - (53 + e))%Z.

(* 2.0 ** k for a small non-negative int k (the code's 2.0**(max_reward+1); from k = 1024 on Python
   raises OverflowError, see [gen_rnd_board_mt]) *)
Definition f_pow2 (k : nat) : float := mkf 1 (Z.of_nat k).

(* y = 1.0/2.0**(m+1) + u*(1.0-1.0/2.0**(m+1)) *)
Definition reward_y (m : nat) (u : float) : float :=
  let h := PrimFloat.div 1%float (f_pow2 (S m)) in
  PrimFloat.add h (PrimFloat.mul u (PrimFloat.sub 1%float h)).

(* one tile: the reward draw, then the loose-tile draw *)
Definition tile_mt (m : nat) (p : float) (st : mtstate) : Z * nat * mtstate :=
  let (u1, st1) := random st in
  let (u2, st2) := random st1 in
  (floor_neg_log2_f (reward_y m u1), if PrimFloat.ltb u2 p then 1%nat else 0%nat, st2).

Fixpoint row_tiles_mt (W : nat) (m : nat) (p : float) (st : mtstate)
  : list Z * list nat * mtstate :=
  match W with
  | O => ([], [], st)
  | S W' =>
    let '(r, t, st1) := tile_mt m p st in
    let '(rs, ts, st2) := row_tiles_mt W' m p st1 in
    (r :: rs, t :: ts, st2)
  end.

Fixpoint grid_tiles_mt (L W : nat) (m : nat) (p : float) (st : mtstate)
  : list (list Z) * list (list nat) * mtstate :=
  match L with
  | O => ([], [], st)
  | S L' =>
    let '(rs, ts, st1) := row_tiles_mt W m p st in
    let '(rg, tg, st2) := grid_tiles_mt L' W m p st1 in
    (rs :: rg, ts :: tg, st2)
  end.

Definition w_fd : list float :=     (* [0.1, 0.5, 0.1, 0.3] *)
  [0x1.999999999999ap-4; 0x1p-1; 0x1.999999999999ap-4; 0x1.3333333333333p-2]%float.
Definition w_nofd : list float :=   (* [0.2, 0.6, 0.2] *)
  [0x1.999999999999ap-3; 0x1.3333333333333p-1; 0x1.999999999999ap-3]%float.

(* one row of get_random_moves *)
Definition row_moves_mt (W : nat) (force_down : bool) (st : mtstate) : outcome (list nat * mtstate) :=
  if force_down then
    do cs <- choices [0; 1; 2; 3]%nat w_fd W st;
    do rr <- randrange0 (Z.of_nat W) (snd cs);
    Ok (set_nth (N.to_nat (fst rr)) 3 (fst cs), snd rr)
  else choices [0; 1; 2]%nat w_nofd W st.

Fixpoint moves_mt (L W : nat) (force_down : bool) (st : mtstate) : outcome (list (list nat) * mtstate) :=
  match L with
  | O => Ok ([], st)
  | S L' =>
    do r <- row_moves_mt W force_down st;
    do g <- moves_mt L' W force_down (snd r);
    Ok (fst r :: fst g, snd g)
  end.

(* (moves, rewards, loose_tiles) like the code. Rewards are Python ints, here Z: that they lie in
   [0, max_reward] is a fact about binary64 rounding and libm that is observed, not proved.
   2.0**(max_reward+1) raises OverflowError from max_reward = 1023 on, before any draw is used. *)
Definition gen_rnd_board_mt (seed : Z) (L W : nat) (p : float) (m : nat) (force_down : bool)
  : outcome (list (list nat) * list (list Z) * list (list nat)) :=
  let st := seed_Z seed in
  do _ <- match L, W with
          | S _, S _ => if Nat.leb 1023 m then Crash "OverflowError" else Ok tt
          | _, _ => Ok tt
          end;
  let '(rewards, loose, st1) := grid_tiles_mt L W m p st in
  do mv <- moves_mt L W force_down st1;
  Ok (fst mv, rewards, loose).
