(** tad.py (as repaired): nodes, per-kind Bellman steps, strategy scans, pruning, the two
    Gauss-Seidel loops and the solve pipeline, generic in the number operations. *)
From Coq Require Import String List Arith Bool.
From CR Require Import Model.Num Model.Outcome Model.Graph.
Import ListNotations.

Inductive kind := P1 | P2 | PR.
Definition kind_eqb (a b : kind) : bool :=
  match a, b with P1, P1 | P2, P2 | PR, PR => true | _, _ => false end.

Definition mem_str (s : string) (l : list string) : bool := existsb (String.eqb s) l.

Fixpoint upd {A} (l : list A) (i : nat) (x : A) : list A :=
  match l, i with
  | [], _ => []
  | _ :: t, O => x :: t
  | h :: t, S j => h :: upd t j x
  end.

Section Generic.
Context {T : Type}.
Variable K : ops T.

(* A transition tuple. Player states use [act], probabilistic states use [pr]. *)
Record trans := mkT { act : string; pr : T; dst : nat }.

Record node := mkN {
  nk : kind; rew : T; nxt : list trans; fin : bool;
  reach : T;       (* reach_probability *)
  er : T;          (* expected_rewards *)
  ermr : T;        (* expected_rewards_min_reach *)
  erm : T          (* expected_reach_min_rewards *)
}.

Definition dnode : node := mkN PR (zero K) [] false (zero K) (zero K) (zero K) (zero K).
Definition getn (sl : list node) (i : nat) : node := nth i sl dnode.

Definition set_reach (n : node) (v : T) : node :=
  mkN (nk n) (rew n) (nxt n) (fin n) v (er n) (ermr n) (erm n).
Definition set_erm (n : node) (v : T) : node :=
  mkN (nk n) (rew n) (nxt n) (fin n) (reach n) (er n) (ermr n) v.
Definition set_nxt (n : node) (l : list trans) : node :=
  mkN (nk n) (rew n) l (fin n) (reach n) (er n) (ermr n) (erm n).
Definition set_rews (n : node) (a b c : T) : node :=
  mkN (nk n) (rew n) (nxt n) (fin n) (reach n) a b c.

(** ** The game description (typed) *)
Record game := mkG {
  g_rewards : list T;
  g_players : list kind;
  g_trans : list (list trans);
  g_finals : list nat
}.

(** ** check_game and init_states on typed descriptions *)
Definition msg_tl_len := "The transition list must have the same number of elements as states in the game."%string.
Definition msg_rw_len := "The reward list must have the same number of elements as states in the game."%string.
(* CPython 3.12 wording (3.11 and older say "min() arg is an empty sequence") *)
Definition msg_min_empty := "min() iterable argument is empty"%string.
Definition msg_max_empty := "max() iterable argument is empty"%string.
Definition msg_rw_neg := "Rewards must be positive."%string.
Definition msg_fin_range := "Final states must be in the range of the number of states."%string.
Definition msg_ns_range := "The next state must be in the range of the number of states."%string.
Definition msg_missing := "Missing transitions"%string.
Definition msg_no_final := "There must be at least one final state to solve reachability."%string.
Definition msg_no_solution := "The game has no solution. The initial state has a reach probability of 0."%string.

Definition check_game (g : game) : outcome unit :=
  let n := length (g_players g) in
  if negb (length (g_trans g) =? n) then ValueErr msg_tl_len
  else if negb (length (g_rewards g) =? n) then ValueErr msg_rw_len
  else match g_rewards g with
  | [] => ValueErr msg_min_empty
  | _ =>
    if existsb (fun r => ltb K r (zero K)) (g_rewards g) then ValueErr msg_rw_neg
    else match g_finals g with
    | [] => ValueErr msg_max_empty
    | _ => if existsb (fun f => n <=? f) (g_finals g) then ValueErr msg_fin_range else Ok tt
    end
  end.

Definition mk_node (k : kind) (r : T) (l : list trans) (f : bool) : node :=
  mkN k r l f (if f then one K else zero K) r r (zero K).

(* init_states: states with an empty transition list are skipped (and counted as missing at the
   end); every other state runs check_next_states, of which only the index range is visible on
   typed descriptions. *)
Fixpoint init_states_from (n idx : nat) (finals : list nat)
         (l : list (kind * list trans * T)) : outcome (list node) :=
  match l with
  | [] => Ok []
  | (k, tr, r) :: l' =>
    match tr with
    | [] => do rest <- init_states_from n (S idx) finals l'; Ok rest
    | _ =>
      if existsb (fun t => n <=? dst t) tr then ValueErr msg_ns_range
      else do rest <- init_states_from n (S idx) finals l';
           Ok (mk_node k r tr (mem_nat idx finals) :: rest)
    end
  end.
Definition init_states (g : game) : outcome (list node) :=
  let n := length (g_players g) in
  do sl <- init_states_from n 0 (g_finals g)
          (combine (combine (g_players g) (g_trans g)) (g_rewards g));
  if length sl =? n then Ok sl else ValueErr msg_missing.

(** ** Reachability *)
(* one Bellman step as a function of the value vector [x], the kind and the transition list *)
Definition rstep (x : nat -> T) (k : kind) (l : list trans) : T :=
  match k with
  | PR => fold_left (fun v t => add K v (mul K (x (dst t)) (pr t))) l (zero K)
  | P1 => fold_left (fun m t => let r := x (dst t) in if ltb K m r then r else m) l (zero K)
  | P2 => fold_left (fun m t => let r := x (dst t) in if ltb K r m then r else m) l (one K)
  end.
Definition reach_vec (sl : list node) : nat -> T := fun i => reach (getn sl i).
Definition reach_step (sl : list node) (n : node) : T := rstep (reach_vec sl) (nk n) (nxt n).

Definition sweep_reach (S : list nat) (sl : list node) : list node * T :=
  fold_left (fun st i =>
     let sl := fst st in let md := snd st in
     let n := getn sl i in
     let v := reach_step sl n in
     let d := absf K (sub K v (reach n)) in
     (upd sl i (set_reach n v), if ltb K md d then d else md)) S (sl, zero K).

Fixpoint vi_reach (fuel : nat) (S : list nat) (sl : list node) (i : nat) : outcome (list node * nat) :=
  match fuel with
  | O => OutOfFuel
  | Datatypes.S f =>
    let r := sweep_reach S sl in
    if ltb K (thr K) (snd r) then vi_reach f S (fst r) (i + 1) else Ok (fst r, i + 1)
  end.

(* the Python scans:  if v > m: m = v; best = [a]  elif v == m: best.append(a) *)
Definition scan_max (m0 : T) (l : list (string * T)) : T * list string :=
  fold_left (fun st av => let m := fst st in let v := snd av in
     if ltb K m v then (v, [fst av]) else if eqb K v m then (m, snd st ++ [fst av]) else st) l (m0, []).
Definition scan_min (m0 : T) (l : list (string * T)) : T * list string :=
  fold_left (fun st av => let m := fst st in let v := snd av in
     if ltb K v m then (v, [fst av]) else if eqb K v m then (m, snd st ++ [fst av]) else st) l (m0, []).

Definition strat_reach (sl : list node) (n : node) : option (list string) :=
  let vals := map (fun t => (act t, rnd K (reach (getn sl (dst t))))) (nxt n) in
  match nk n with
  | P1 => Some (snd (scan_max (zero K) vals))
  | P2 => Some (snd (scan_min (one K) vals))
  | PR => None
  end.

Definition strats_reach (sl : list node) : list (option (list string)) := map (strat_reach sl) sl.

(* value_iteration_reachability's tail: copy reach into the diagnostic, then the no-solution test *)
Definition after_reach (prune : bool) (sl : list node) : outcome (list node) :=
  let sl' := map (fun n => set_erm n (reach n)) sl in
  if eqb K (reach (getn sl' 0)) (zero K) && prune then ValueErr msg_no_solution else Ok sl'.

(** ** Pruning *)
Definition prune_reachability (strats : list (option (list string))) (sl : list node) : list node :=
  map (fun ns => let n := fst ns in
         match nk n, snd ns with
         | P1, Some best => set_nxt n (filter (fun t => mem_str (act t) best) (nxt n))
         | P1, None => n     (* not reachable: a Player 1 state always has Some *)
         | _, _ => n
         end) (combine sl strats).

Definition alive (sl : list node) (t : trans) : bool := negb (eqb K (reach (getn sl (dst t))) (zero K)).

(* prune_paths as repaired *)
Definition prune_paths_node (sl : list node) (n : node) : node :=
  match nk n with
  | P1 => set_nxt n (filter (alive sl) (nxt n))
  | PR =>
    let al := filter (alive sl) (nxt n) in
    if length al =? length (nxt n) then n
    else let total := fold_left (fun s t => add K s (pr t)) al (zero K) in
         set_nxt n (map (fun t => mkT (act t) (div K (pr t) total) (dst t)) al)
  | P2 => n
  end.
(* Solver.prune_paths visits states in order and every visit reads only reach values,
   which pruning does not change; hence a map. *)
Definition prune_paths (sl : list node) : list node := map (prune_paths_node sl) sl.

Definition incl_b (a b : list nat) : bool := forallb (fun x => mem_nat x b) a.

(* One round of Solver.prune_states. The Python loop decides for each state from the state's own
   fields and from [reachable], which is computed before the loop; so the round is a map. *)
Definition ps_clear (reachable : list nat) (idx : nat) (n : node) : bool :=
  negb (kind_eqb (nk n) P1) && negb (mem_nat idx reachable).
Definition ps_listed (reachable : list nat) (idx : nat) (n : node) : bool :=
  ps_clear reachable idx n ||
  (kind_eqb (nk n) P1 && (match nxt n with [] => true | _ => false end) && negb (mem_nat idx reachable)).
Definition prune_states_round (sl : list node) : list node * list nat :=
  let reachable := 0 :: flat_map (fun n => map dst (nxt n)) sl in
  let isl := combine (seq 0 (length sl)) sl in
  (map (fun ix => if ps_clear reachable (fst ix) (snd ix) then set_nxt (snd ix) [] else snd ix) isl,
   map fst (filter (fun ix => ps_listed reachable (fst ix) (snd ix)) isl)).

Fixpoint prune_states (fuel : nat) (old : list nat) (sl : list node) : outcome (list node) :=
  match fuel with
  | O => OutOfFuel
  | S f =>
    let r := prune_states_round sl in
    if incl_b (snd r) old && incl_b old (snd r) then Ok (fst r)
    else prune_states f (snd r) (fst r)
  end.

(** ** Total rewards *)
Definition max3 (a b c : T) : T :=
  let m := if ltb K a b then b else a in if ltb K m c then c else m.

(* value_iteration_rewards of the three node kinds; [None] = UnboundLocalError / IndexError *)
Definition rew_step (sl : list node) (n : node) : option (T * T * T) :=
  match nxt n with
  | [] => Some (zero K, zero K, zero K)
  | first :: _ =>
    match nk n with
    | PR =>
      Some (fold_left (fun v t => add K v (mul K (er (getn sl (dst t))) (pr t))) (nxt n) (rew n),
            fold_left (fun v t => add K v (mul K (ermr (getn sl (dst t))) (pr t))) (nxt n) (rew n),
            fold_left (fun v t => add K v (mul K (erm (getn sl (dst t))) (pr t))) (nxt n) (zero K))
    | P1 =>
      let r := fold_left (fun st t => let v := er (getn sl (dst t)) in
                            if leb K (fst st) v then (v, Some t) else st) (nxt n) (zero K, None) in
      match snd r with
      | None => None
      | Some t => Some (add K (fst r) (rew n),
                        add K (ermr (getn sl (dst t))) (rew n),
                        erm (getn sl (dst t)))
      end
    | P2 =>
      let vals := map (fun t => (act t, rnd K (reach (getn sl (dst t))))) (nxt n) in
      let strats := snd (scan_min (one K) vals) in
      let o_ermr :=
        match strats with
        | [] => Some (zero K)
        | _ =>
          match filter (fun t => mem_str (act t) strats) (nxt n) with
          | [] => None
          | f0 :: _ =>
            Some (add K (fold_left (fun m t =>
                     if mem_str (act t) strats
                     then let v := ermr (getn sl (dst t)) in if ltb K v m then v else m
                     else m) (nxt n) (ermr (getn sl (dst f0)))) (rew n))
          end
        end in
      let r := fold_left (fun st t => let v := er (getn sl (dst t)) in
                            if leb K v (fst st) then (v, Some t) else st)
                         (nxt n) (er (getn sl (dst first)), None) in
      match o_ermr, snd r with
      | Some e, Some t => Some (add K (fst r) (rew n), e, erm (getn sl (dst t)))
      | _, _ => None
      end
    end
  end.

Definition sweep_rew (sl : list node) : outcome (list node * T) :=
  fold_left (fun o i =>
     do st <- o;
     let sl := fst st in let md := snd st in
     let n := getn sl i in
     match rew_step sl n with
     | None => Crash "UnboundLocalError"%string
     | Some (a, b, c) =>
       let d := max3 (absf K (sub K a (er n))) (absf K (sub K b (ermr n))) (absf K (sub K c (erm n))) in
       Ok (upd sl i (set_rews n a b c), if ltb K md d then d else md)
     end) (seq 0 (length sl)) (Ok (sl, zero K)).

Fixpoint vi_rew (fuel : nat) (sl : list node) (i : nat) : outcome (list node * nat) :=
  match fuel with
  | O => OutOfFuel
  | Datatypes.S f =>
    do r <- sweep_rew sl;
    if ltb K (thr K) (snd r) then vi_rew f (fst r) (i + 1) else Ok (fst r, i + 1)
  end.

Definition strat_rew (sl : list node) (n : node) : option (list string) :=
  let vals := map (fun t => (act t, rnd K (er (getn sl (dst t))))) (nxt n) in
  match nk n with
  | P1 => Some (snd (scan_max (zero K) vals))
  | P2 => match vals with
          | [] => Some []
          | (_, v0) :: _ => Some (snd (scan_min v0 vals))
          end
  | PR => None
  end.
Definition strats_rew (sl : list node) : list (option (list string)) := map (strat_rew sl) sl.

(** ** StochasticGame.solve *)
Record result := mkR {
  r_final : list (option (list string));
  r_reachs : list (option (list string));
  r_rewards : list T;
  r_probs : list T;
  r_it_reach : nat;
  r_it_rew : nat;
  r_prob_min_rew : list T;
  r_rew_min_reach : list T;
  r_pruned : list (list trans)     (* next_states of every node when the reward loop starts *)
}.

(* the part of solve up to and including solve_reachability (also reachable through
   Solver.solve_reachability on its own) *)
Definition solve_reach_fuel (fuel : nat) (g : game) (prune : bool)
  : outcome (list node * list (option (list string)) * nat) :=
  do _ <- check_game g;
  do sl0 <- init_states g;
  match g_finals g with
  | [] => ValueErr msg_no_final
  | _ =>
    do srf <- reverse_dfs (map (map dst) (g_trans g)) (g_finals g);
    do r1 <- vi_reach fuel srf sl0 0;
    do sl1 <- after_reach prune (fst r1);
    Ok (sl1, strats_reach sl1, snd r1)
  end.

Definition solve_fuel (fuel : nat) (g : game) (prune : bool) : outcome result :=
  do r <- solve_reach_fuel fuel g prune;
  let sl1 := fst (fst r) in
  let rs := snd (fst r) in
  let probs := map reach sl1 in
  let sl2 := prune_reachability rs sl1 in
  do sl3 <- (if prune then prune_states (length sl2 + 2) [] (prune_paths sl2) else Ok sl2);
  do r2 <- vi_rew fuel sl3 0;
  let sl4 := fst r2 in
  Ok (mkR (strats_rew sl4) rs (map er sl4) probs (snd r) (snd r2)
          (map erm sl4) (map ermr sl4) (map nxt sl3)).

Definition solve (g : game) (prune : bool) : outcome result := solve_fuel big_fuel g prune.
Definition solve_reach (g : game) (prune : bool) := solve_reach_fuel big_fuel g prune.

End Generic.

Arguments mkT {T}. Arguments act {T}. Arguments pr {T}. Arguments dst {T}.
Arguments mkG {T}.
