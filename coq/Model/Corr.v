(** Helpers for the generated correspondence files: the implementation's observable output as
    data, and one comparison per property (each looks only at the observables it is about). *)
From Coq Require Import String List Arith Bool ZArith QArith Qabs PrimFloat.
From CR Require Export Model.Num Model.Outcome Model.Graph Model.Game.
Import ListNotations.

Definition F (m e : Z) : float := mkf m e.
Arguments F (m e)%Z_scope.
Definition feq (a b : float) : bool := PrimFloat.eqb a b.

Fixpoint list_eqb {A} (eq : A -> A -> bool) (a b : list A) : bool :=
  match a, b with
  | [], [] => true
  | x :: a', y :: b' => eq x y && list_eqb eq a' b'
  | _, _ => false
  end.
Definition opt_eqb {A} (eq : A -> A -> bool) (a b : option A) : bool :=
  match a, b with
  | None, None => true
  | Some x, Some y => eq x y
  | _, _ => false
  end.
Definition strat_eqb := list_eqb (opt_eqb (list_eqb String.eqb)).
Definition floats_eqb := list_eqb feq.
Definition trans_eqb (a b : trans (T:=float)) : bool :=
  String.eqb (act a) (act b) && feq (pr a) (pr b) && Nat.eqb (dst a) (dst b).
Definition tl_eqb := list_eqb (list_eqb trans_eqb).

(* what the harness observed from the implementation *)
Record xres := mkX {
  x_final : list (option (list string));
  x_reachs : list (option (list string));
  x_rewards : list float;
  x_probs : list float;
  x_itr : nat; x_itw : nat;
  x_pmr : list float; x_rmr : list float;
  x_pruned : list (list (trans (T:=float)))
}.
Inductive xout :=
| XOk (r : xres)
| XVal (msg : string)          (* ValueError(msg) *)
| XExc (cls : string)          (* any other exception class *)
| XTimeout.

Definition mres := result (T:=float).

(* outcome class and message agree *)
Definition cmp_class (o : outcome mres) (x : xout) : bool :=
  match o, x with
  | Ok _, XOk _ => true
  | ValueErr m, XVal m' => String.eqb m m'
  | _, _ => false
  end.
Definition cmp_with (f : mres -> xres -> bool) (o : outcome mres) (x : xout) : bool :=
  match o, x with
  | Ok r, XOk r' => f r r'
  | ValueErr m, XVal m' => String.eqb m m'
  | _, _ => false
  end.

Definition cmp_probs := cmp_with (fun r x => floats_eqb (r_probs r) (x_probs x) && Nat.eqb (r_it_reach r) (x_itr x)).
Definition cmp_rewards := cmp_with (fun r x => floats_eqb (r_rewards r) (x_rewards x) && Nat.eqb (r_it_rew r) (x_itw x)).
Definition cmp_pruned := cmp_with (fun r x => tl_eqb (r_pruned r) (x_pruned x)).
Definition cmp_reachs := cmp_with (fun r x => strat_eqb (r_reachs r) (x_reachs x)).
Definition cmp_final := cmp_with (fun r x => strat_eqb (r_final r) (x_final x) && strat_eqb (r_reachs r) (x_reachs x)).
Definition cmp_diag := cmp_with (fun r x => floats_eqb (r_prob_min_rew r) (x_pmr x) && floats_eqb (r_rew_min_reach r) (x_rmr x)).
Definition cmp_shape := cmp_with (fun r x =>
  let n := length (x_probs x) in
  Nat.eqb (length (r_probs r)) n && Nat.eqb (length (r_rewards r)) (length (x_rewards x))
  && Nat.eqb (length (r_final r)) (length (x_final x)) && Nat.eqb (length (r_reachs r)) (length (x_reachs x))).
Definition cmp_all (o : outcome mres) (x : xout) : bool :=
  cmp_probs o x && cmp_rewards o x && cmp_pruned o x && cmp_final o x && cmp_diag o x.

Definition idx_where {A} (bad : A -> bool) (l : list A) : list nat :=
  map fst (filter (fun ia => bad (snd ia)) (combine (seq 0 (length l)) l)).

Definition solve_case := (game (T:=float) * bool * xout)%type.
(* The model gets a little more fuel than the sweeps the implementation reported, so that evaluating it
   costs no more than the implementation's own run; needing more shows up as OutOfFuel = mismatch.
   Error outcomes carry no sweep count: they get a fixed generous amount. *)
Definition fuel_for (x : xout) : nat :=
  match x with
  | XOk r => Nat.max (x_itr r) (x_itw r) + 3
  | _ => N.to_nat 60000
  end.
Definition run_solve_cases (cmp : outcome mres -> xout -> bool) (cs : list solve_case) : list nat :=
  idx_where (fun c => negb (cmp (solve_fuel fops (fuel_for (snd c)) (fst (fst c)) (snd (fst c))) (snd c))) cs.

(* printable view of a model result, for replay files *)
Definition show_floats (l : list float) : list (Z * Z) := map fdecomp l.
Definition show_result (o : outcome mres) :=
  match o with
  | Ok r => Ok (r_final r, r_reachs r, show_floats (r_rewards r), show_floats (r_probs r),
                (r_it_reach r, r_it_rew r), show_floats (r_prob_min_rew r), show_floats (r_rew_min_reach r),
                map (map (fun t => (act t, fdecomp (pr t), dst t))) (r_pruned r))
  | ValueErr m => ValueErr m
  | Crash w => Crash w
  | OutOfFuel => OutOfFuel
  end.

(* reachability-only runs (Solver.solve_reachability): probabilities, strategies, sweeps *)
Inductive xreach :=
| XROk (probs : list float) (strats : list (option (list string))) (it : nat)
| XRVal (msg : string)
| XRExc (cls : string)
| XRTimeout.
Definition cmp_reach (o : outcome (list (node (T:=float)) * list (option (list string)) * nat)) (x : xreach) : bool :=
  match o, x with
  | Ok r, XROk p s i => floats_eqb (map (reach (T:=float)) (fst (fst r))) p && strat_eqb (snd (fst r)) s && Nat.eqb (snd r) i
  | ValueErr m, XRVal m' => String.eqb m m'
  | _, _ => false
  end.
Definition reach_case := (game (T:=float) * bool * xreach)%type.
Definition fuel_for_reach (x : xreach) : nat :=
  match x with XROk _ _ i => i + 3 | _ => N.to_nat 60000 end.
Definition run_reach_cases (cs : list reach_case) : list nat :=
  idx_where (fun c => negb (cmp_reach (solve_reach_fuel fops (fuel_for_reach (snd c)) (fst (fst c)) (snd (fst c))) (snd c))) cs.

(** * The same runs on exact rationals: how far binary64 drifts from the idealisation the numeric
    theorems are about. Inputs are the exact rational values of the floats the implementation saw. *)
Definition QF (m e : Z) : Q :=
  if (0 <=? e)%Z then inject_Z (m * 2 ^ e) else Qmake m (Z.to_pos (2 ^ (- e))).
Arguments QF (m e)%Z_scope.
Definition qclose (tol : Q) (a b : Q) : bool := Qle_bool (Qabs.Qabs (a - b)%Q) tol.
(* case: exact game, pruning flag, the implementation's probabilities (as exact rationals), its sweep count *)
Definition qreach_case := (game (T:=Q) * bool * list Q * nat)%type.
(* exactly [n] sweeps, whatever the stopping test would say: the comparison then measures the drift of
   binary64 arithmetic only, not a stopping decision taken one sweep earlier or later *)
Definition reach_n_sweeps {T} (K : ops T) (n : nat) (g : game (T:=T)) : outcome (list T) :=
  do _ <- check_game K g;
  do sl0 <- init_states K g;
  do srf <- reverse_dfs (map (map (dst (T:=T))) (g_trans g)) (g_finals g);
  Ok (map (reach (T:=T)) (Nat.iter n (fun sl => fst (sweep_reach K srf sl)) sl0)).
Definition run_qreach_cases (tol : Q) (cs : list qreach_case) : list nat :=
  idx_where (fun c =>
    match reach_n_sweeps qops (snd c) (fst (fst (fst c))) with
    | Ok r => negb (list_eqb (qclose tol) r (snd (fst c)))
    | _ => true
    end) cs.

(** * Monotonicity of the binary64 run (observed, not proved): every sweep's vector dominates the previous
    one and stays within [0,1]. This is the property the exact-rational theorems prove for instance Q. *)
Fixpoint trace_monotone {T} (K : ops T) (n : nat) (srf : list nat) (sl : list (node (T:=T))) : bool :=
  match n with
  | O => true
  | S n' =>
    let sl' := fst (sweep_reach K srf sl) in
    forallb (fun ab => negb (ltb K (reach (T:=T) (snd ab)) (reach (T:=T) (fst ab))) &&
                        negb (ltb K (one K) (reach (T:=T) (snd ab))) &&
                        negb (ltb K (reach (T:=T) (snd ab)) (zero K))) (combine sl sl')
    && trace_monotone K n' srf sl'
  end.
Definition run_monotone_cases (cs : list (game (T:=float) * nat)) : list nat :=
  idx_where (fun c =>
    match check_game fops (fst c), init_states fops (fst c),
          reverse_dfs (map (map (dst (T:=float))) (g_trans (fst c))) (g_finals (fst c)) with
    | Ok _, Ok sl0, Ok srf => negb (trace_monotone fops (snd c) srf sl0)
    | _, _, _ => true
    end) cs.
