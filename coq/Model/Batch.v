(** conditionalrewards.run_games: for every game of the input dictionary, a pruned solve stored
    under the game's name and an unpruned one stored under name ++ "_no_prune", each on a deep
    copy; a ValueError of the pruned solve is recorded in the entry and the unpruned solve is
    skipped ("Game not solved"); any other exception aborts the whole run.

    The input and the result are Python dicts, modelled as insertion-ordered association lists:
    assignment to an existing key overwrites IN PLACE (the key keeps its position), a new key is
    appended.  The deep copy is a store of its own ([Heap.load]) that is dropped afterwards. *)
From Coq Require Import String List Arith Bool.
From CR Require Import Model.Num Model.Outcome Model.Graph Model.Game Model.Heap.
Import ListNotations.
Local Open Scope string_scope.

(** ** Python dict with string keys *)
Fixpoint sdict_set {V} (d : list (string * V)) (k : string) (v : V) : list (string * V) :=
  match d with
  | [] => [(k, v)]
  | (k', v') :: d' => if String.eqb k' k then (k', v) :: d' else (k', v') :: sdict_set d' k v
  end.
Fixpoint sdict_get {V} (d : list (string * V)) (k : string) : option V :=
  match d with
  | [] => None
  | (k', v') :: d' => if String.eqb k' k then Some v' else sdict_get d' k
  end.
Definition set_all {V} (d : list (string * V)) (ws : list (string * V)) : list (string * V) :=
  fold_left (fun d kv => sdict_set d (fst kv) (snd kv)) ws d.

(* the value a result variable holds: the initial None, the initial integer 0, or a computed value *)
Inductive pyv (A : Type) := PyNone | PyZero | PyVal (a : A).
Arguments PyNone {A}. Arguments PyZero {A}. Arguments PyVal {A}.

Definition sfx : string := "_no_prune".
Definition msg_solved : string := "Game solved".
Definition msg_error : string := "Error while solving the game: ".
Definition msg_not_solved : string := "Game not solved".

Section Batch.
Context {T : Type}.
Variable K : ops T.
Notation game := (@game T).
Notation result := (@result T).

(* one value of the result dictionary (total_time, a wall-clock reading, is left out) *)
Record entry := mkE {
  e_n_states : nat;                                  (* "n_states": sgame.num_states = len(players) *)
  e_n_transitions : nat;                             (* "n_transitions": count_transitions() *)
  e_it_reach : nat;                                  (* "n_iterations_reach" (initially 0) *)
  e_it_rew : nat;                                    (* "n_iterations_rew" (initially 0) *)
  e_reachs : pyv (list (option (list string)));      (* "reachability_strategies" (initially None) *)
  e_finals : pyv (list (option (list string)));      (* "final_strategies" (initially None) *)
  e_rewards : pyv (list T);                          (* "rewards" (initially None) *)
  e_rew_min_reach : pyv (list T);                    (* "rew_min_reach" (initially the int 0) *)
  e_probs : pyv (list T);                            (* "probabilities" (initially None) *)
  e_prob_min_rew : pyv (list T);                     (* "prob_min_rew" (initially the int 0) *)
  e_msg : string
}.

(* count_transitions(): sum of len(row).  (run_games guards the call with `except TypeError`
   for rows that are not sized collections; on typed descriptions every row is a list.) *)
Definition count_transitions (g : game) : nat :=
  fold_left (fun s row => s + length row) (g_trans g) 0.

Definition solved_entry (g : game) (r : result) : entry :=
  mkE (length (g_players g)) (count_transitions g) (r_it_reach r) (r_it_rew r)
      (PyVal (r_reachs r)) (PyVal (r_final r)) (PyVal (r_rewards r)) (PyVal (r_rew_min_reach r))
      (PyVal (r_probs r)) (PyVal (r_prob_min_rew r)) msg_solved.
Definition empty_entry (g : game) (msg : string) : entry :=
  mkE (length (g_players g)) (count_transitions g) 0 0 PyNone PyNone PyNone PyZero PyNone PyZero msg.
Definition failed_entry (g : game) (m : string) : entry := empty_entry g (msg_error ++ m).
Definition not_solved_entry (g : game) : entry := empty_entry g msg_not_solved.

(* game_copy = copy.deepcopy(game); solve() of the StochasticGame built from game_copy:
   the description in a store of its own, which nobody else holds and which is dropped *)
Definition solve_copy (fuel : nat) (g : game) (prune : bool) : outcome result :=
  snd (solve_H K fuel (fst (load g)) (snd (load g)) prune).

(* one iteration of the inner loop; [had] = prev_game_had_solution *)
Definition run_one (fuel : nat) (g : game) (prune had : bool) : outcome (entry * bool) :=
  if had then
    match solve_copy fuel g prune with
    | Ok r => Ok (solved_entry g r, true)
    | ValueErr m => Ok (failed_entry g m, false)       (* except ValueError *)
    | Crash w => Crash w                               (* any other exception propagates *)
    | OutOfFuel => OutOfFuel
    end
  else Ok (not_solved_entry g, false).

(* one iteration of the outer loop: the flag is reset, then prune_states in [True, False] *)
Definition run_game (fuel : nat) (d : list (string * entry)) (name : string) (g : game)
  : outcome (list (string * entry)) :=
  do r1 <- run_one fuel g true true;
  let d1 := sdict_set d name (fst r1) in
  do r2 <- run_one fuel g false (snd r1);
  Ok (sdict_set d1 (name ++ sfx) (fst r2)).

Definition run_games_from (fuel : nat) (gs : list (string * game)) (o : outcome (list (string * entry)))
  : outcome (list (string * entry)) :=
  fold_left (fun o ng => do d <- o; run_game fuel d (fst ng) (snd ng)) gs o.
Definition run_games_fuel (fuel : nat) (gs : list (string * game)) : outcome (list (string * entry)) :=
  run_games_from fuel gs (Ok []).
Definition run_games := run_games_fuel big_fuel.

(* the keys run_games writes, in the order it writes them *)
Definition keys_of (gs : list (string * game)) : list string :=
  flat_map (fun ng => [fst ng; fst ng ++ sfx]) gs.
(* no two writes go to the same key: names pairwise distinct, no name is another name ++
   "_no_prune" (characterised in Proofs/BatchP.names_independent_iff) *)
Definition names_independent (gs : list (string * game)) : Prop := NoDup (keys_of gs).

End Batch.
Arguments mkE {T}.

(** ** Correspondence helpers (instance F): the implementation's result dictionary as data *)
From Coq Require Import PrimFloat.
From CR Require Import Model.Corr.

Definition pyv_eqb {A} (eq : A -> A -> bool) (a b : pyv A) : bool :=
  match a, b with
  | PyNone, PyNone => true
  | PyZero, PyZero => true
  | PyVal x, PyVal y => eq x y
  | _, _ => false
  end.
Definition entry_eqb (a b : entry (T:=float)) : bool :=
  Nat.eqb (e_n_states a) (e_n_states b) && Nat.eqb (e_n_transitions a) (e_n_transitions b)
  && Nat.eqb (e_it_reach a) (e_it_reach b) && Nat.eqb (e_it_rew a) (e_it_rew b)
  && pyv_eqb strat_eqb (e_reachs a) (e_reachs b) && pyv_eqb strat_eqb (e_finals a) (e_finals b)
  && pyv_eqb floats_eqb (e_rewards a) (e_rewards b)
  && pyv_eqb floats_eqb (e_rew_min_reach a) (e_rew_min_reach b)
  && pyv_eqb floats_eqb (e_probs a) (e_probs b)
  && pyv_eqb floats_eqb (e_prob_min_rew a) (e_prob_min_rew b)
  && String.eqb (e_msg a) (e_msg b).

Inductive xbatch :=
| XBOk (d : list (string * entry (T:=float)))
| XBExc (cls : string)
| XBTimeout.
Definition cmp_batch (o : outcome (list (string * entry (T:=float)))) (x : xbatch) : bool :=
  match o, x with
  | Ok d, XBOk d' => list_eqb (fun a b => String.eqb (fst a) (fst b) && entry_eqb (snd a) (snd b)) d d'
  | Crash w, XBExc cls => String.eqb w cls
  | _, _ => false
  end.
Definition batch_case := (list (string * game (T:=float)) * xbatch)%type.
Definition run_batch_cases (cs : list batch_case) : list nat :=
  idx_where (fun c => negb (cmp_batch (run_games fops (fst c)) (snd c))) cs.
