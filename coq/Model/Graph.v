(** reverse_dfs.py as repaired: reversed-edge table (a Python dict, modelled as an
    insertion-ordered association list) and the iterative backward search. *)
From Coq Require Import String List Arith Bool.
From CR Require Import Model.Outcome.
Import ListNotations.


Definition mem_nat (x : nat) (l : list nat) : bool := existsb (Nat.eqb x) l.

(* reverse_transition_list_core: (target, source) in source order *)
Definition rev_core (tl : list (list nat)) : list (nat * nat) :=
  flat_map (fun us => map (fun v => (v, fst us)) (snd us)) (combine (seq 0 (length tl)) tl).

Definition dict := list (nat * list nat).
Fixpoint dict_get (d : dict) (k : nat) : option (list nat) :=
  match d with
  | [] => None
  | (k', l) :: d' => if Nat.eqb k' k then Some l else dict_get d' k
  end.
Fixpoint dict_append (d : dict) (k v : nat) : dict :=
  match d with
  | [] => [(k, [v])]
  | (k', l) :: d' => if Nat.eqb k' k then (k', l ++ [v]) :: d' else (k', l) :: dict_append d' k v
  end.
(* list_of_tuples_to_dict_of_lists *)
Definition l2d (core : list (nat * nat)) : dict :=
  fold_left (fun d kv => dict_append d (fst kv) (snd kv)) core [].
(* add_missing_states *)
Definition add_missing (d : dict) (n : nat) : dict :=
  fold_left (fun d s => match dict_get d s with Some _ => d | None => d ++ [(s, [])] end) (seq 0 n) d.
Definition rev_table (tl : list (list nat)) : dict := add_missing (l2d (rev_core tl)) (length tl).

(* reverse_dfs_recursive (iterative after the repair). [pending] has its top at the head:
   Python pops from the end after extend(reversed(preds)), i.e. preds are tried in order. *)
Fixpoint dfs_loop (fuel : nat) (d : dict) (pending rec : list nat) : outcome (list nat) :=
  match fuel with
  | O => OutOfFuel
  | S f =>
    match pending with
    | [] => Ok rec
    | cur :: rest =>
      if mem_nat cur rec then dfs_loop f d rest rec
      else match dict_get d cur with
           | None => Crash "KeyError"%string
           | Some ps => dfs_loop f d (ps ++ rest) (rec ++ [cur])
           end
    end
  end.

Fixpoint insert_nat (x : nat) (l : list nat) : list nat :=
  match l with
  | [] => [x]
  | y :: l' => if Nat.leb x y then x :: l else y :: insert_nat x l'
  end.
Definition sort_nat (l : list nat) : list nat := fold_right insert_nat [] l.

Definition edge_count (tl : list (list nat)) : nat := length (rev_core tl).
(* enough for every graph: see Proofs/GraphP.dfs_fuel_enough *)
Definition dfs_fuel (tl : list (list nat)) : nat := 2 + length (rev_table tl) + edge_count tl.

Definition reverse_dfs_fuel (fuel : nat) (tl : list (list nat)) (finals : list nat) : outcome (list nat) :=
  let d := rev_table tl in
  do acc <- fold_left (fun o f => do acc <- o; dfs_loop fuel d [f] acc) finals (Ok []);
  Ok (sort_nat (filter (fun s => negb (mem_nat s finals)) acc)).

Definition reverse_dfs (tl : list (list nat)) (finals : list nat) : outcome (list nat) :=
  reverse_dfs_fuel (dfs_fuel tl) tl finals.

(* The pinned tree's recursive search (kept for the refutation theorem): membership is
   tested against the list the call was entered with. *)
Fixpoint dfs_orig (fuel : nat) (d : dict) (state : nat) (reaching : list nat) : outcome (list nat) :=
  match fuel with
  | O => OutOfFuel
  | S f =>
    match dict_get d state with
    | None => Crash "KeyError"%string
    | Some ps =>
      fold_left (fun o nx => do rec <- o;
                   if mem_nat nx reaching then Ok rec else dfs_orig f d nx rec)
                ps (Ok (reaching ++ [state]))
    end
  end.
Definition reverse_dfs_orig (fuel : nat) (tl : list (list nat)) (finals : list nat) : outcome (list nat) :=
  let d := rev_table tl in
  do acc <- fold_left (fun o f => do acc <- o; dfs_orig fuel d f acc) finals (Ok []);
  Ok (sort_nat (filter (fun s => negb (mem_nat s finals)) acc)).
