(** Number operations the solver model is generic in, and the two instances:
    F (binary64, bit-exact with CPython) and Q (exact rationals). *)
From Coq Require Import ZArith List Bool QArith Qabs Qreduction PrimFloat Uint63 FloatOps.
Import ListNotations.

Record ops (T : Type) := Build_ops {
  zero : T; one : T;
  add : T -> T -> T; mul : T -> T -> T; div : T -> T -> T; sub : T -> T -> T;
  absf : T -> T;
  ltb : T -> T -> bool; leb : T -> T -> bool; eqb : T -> T -> bool;
  rnd : T -> T;          (* Python round(x, 6) *)
  thr : T                (* the solver threshold 10**(-6) *)
}.
Arguments zero {T}. Arguments one {T}. Arguments add {T}. Arguments mul {T}.
Arguments div {T}. Arguments sub {T}. Arguments absf {T}. Arguments ltb {T}.
Arguments leb {T}. Arguments eqb {T}. Arguments rnd {T}. Arguments thr {T}.

(** * Instance F: IEEE binary64 *)

Local Open Scope Z_scope.

(* exact decomposition of a finite float: |x| = m * 2^e, sign separately *)
Definition fdecomp (x : float) : Z * Z :=
  let (f, e) := frshiftexp (PrimFloat.abs x) in
  let m := Uint63.to_Z (normfr_mantissa f) in
  ((if PrimFloat.ltb x 0%float then - m else m), Uint63.to_Z e - 2101 - 53).

Definition of_Zf (k : Z) : float :=
  if k <? 0 then PrimFloat.opp (of_uint63 (Uint63.of_Z (- k))) else of_uint63 (Uint63.of_Z k).
(* m * 2^e, exact whenever |m| < 2^53 and the result is representable *)
Definition mkf (m e : Z) : float := ldshiftexp (of_Zf m) (Uint63.of_Z (e + 2101)).

Definition f_e6 : float := Eval compute in of_Zf 1000000.
Definition f_nan : float := Eval compute in (PrimFloat.div 0%float 0%float).

(* round-half-even of n / d for d > 0 *)
Definition rhe (n d : Z) : Z :=
  let q := n / d in let r := n mod d in
  match (2 * r) ?= d with
  | Lt => q | Gt => q + 1
  | Eq => if Z.even q then q else q + 1
  end.

(* Python round(x, 6): CPython rounds the exact decimal expansion of x to 6 places (half to even) and returns the
   double nearest to that decimal. For |x| < 2^33 that is (round-half-even of x * 10^6, an integer below 2^53)
   divided by 10^6 in binary64 (both operands exact, so the division is the correctly rounded quotient). For
   |x| >= 2^33 (infinities included) neighbouring doubles are at least 2^-19 > 10^-6 apart, the rounded decimal lies
   within 5e-7 of x, strictly inside x's rounding interval, and the result is x itself. NaN stays NaN. *)
Definition f_2p33 : float := 0x1p+33%float.
Definition round6 (x : float) : float :=
  if PrimFloat.leb f_2p33 (PrimFloat.abs x) then x else
  let (m, e) := fdecomp x in
  let n := m * 1000000 in
  let k := if 0 <=? e then n * 2 ^ e else rhe n (2 ^ (- e)) in
  if (Z.abs k <? 9007199254740992) then PrimFloat.div (of_Zf k) f_e6 else f_nan.

Definition f_thr : float := 0x1.0c6f7a0b5ed8dp-20%float.   (* (10**(-6)).hex() *)

Definition fops : ops float :=
  Build_ops float 0%float 1%float PrimFloat.add PrimFloat.mul PrimFloat.div PrimFloat.sub
            PrimFloat.abs PrimFloat.ltb PrimFloat.leb PrimFloat.eqb round6 f_thr.

(** * Instance Q: exact rationals, reduced after every operation *)

Local Open Scope Q_scope.

Definition qadd (a b : Q) : Q := Qred (a + b).
Definition qmul (a b : Q) : Q := Qred (a * b).
Definition qdiv (a b : Q) : Q := Qred (a / b).
Definition qsub (a b : Q) : Q := Qred (a - b).
Definition qabs (a : Q) : Q := Qabs a.
Definition qltb (a b : Q) : bool := negb (Qle_bool b a).
Definition qleb (a b : Q) : bool := Qle_bool a b.
Definition qeqb (a b : Q) : bool := Qeq_bool a b.
Definition qround6 (a : Q) : Q :=
  Qred (Qmake (rhe (Qnum a * 1000000) (Zpos (Qden a))) 1000000).
Definition q_thr : Q := Qmake 1 1000000.

Definition qops : ops Q :=
  Build_ops Q 0 1 qadd qmul qdiv qsub qabs qltb qleb qeqb qround6 q_thr.

Close Scope Q_scope.
