(** The validation path of tad.py on UNTYPED game descriptions:
      StochasticGame.__init__  (num_states = len(players))
      StochasticGame.check_game
      StochasticGame.init_states -> Node.__init__ -> Node.check_next_states
    in the code's order, returning the first exception exactly as the code raises it, and the
    [except ValueError] of conditionalrewards.run_games.

    Universe of descriptions.  [rewards], [players] and [transition_list] are Python lists of
    arbitrary dynamic values ([pyval]); [final_states] is a list of ints (a [bool] final state
    behaves as the int 0/1 in every operation the code applies to it - [max], [min], [>=], [<],
    [idx in final_states] - and is emitted as that int).  The documentation of StochasticGame
    says more (rewards are numbers, players are strings, every transition entry is a list of
    2-tuples); whatever is outside that is still given the behaviour the code has, and the one
    place where that behaviour is not a ValueError is an explicit [Crash] branch (see
    [check_game_d]). *)
From Coq Require Import String List ZArith QArith Bool Arith.
From CR Require Import Model.Num Model.Outcome Model.Graph Model.Game Model.PyVal.
Import ListNotations.

Record desc := mkD {
  d_rewards : list pyval;
  d_players : list pyval;
  d_trans : list pyval;      (* transition_list: one entry per state, SHOULD be a list of 2-tuples *)
  d_finals : list Z
}.

(** ** messages (the others are Model/Game.v's: msg_tl_len msg_rw_len msg_min_empty msg_rw_neg
    msg_max_empty msg_fin_range msg_ns_range msg_missing) *)
Definition s_p1 := "Player 1"%string.
Definition s_p2 := "Player 2"%string.
Definition s_pr := "Probabilistic"%string.
Definition msg_player := "Player must be Player 1, Player 2 or Probabilistic."%string.
Definition msg_not_list := "Next states must be a list."%string.
Definition msg_not_tuples := "Next states must be a list of tuples."%string.
Definition msg_tuple_len := "Next states must be a list of tuples of length 2."%string.
Definition msg_act_str := "The action must be a str."%string.
Definition msg_prob_num := "The probability must be a number."%string.
Definition msg_ns_int := "The next state must be an int."%string.
Definition exc_type_error := "TypeError"%string.

(* [player == PLAYER_1] etc.: only a str equals a str *)
Definition kind_of (p : pyval) : option kind :=
  match p with
  | VStr s => if String.eqb s s_p1 then Some P1
              else if String.eqb s s_p2 then Some P2
              else if String.eqb s s_pr then Some PR else None
  | _ => None
  end.
(* [player in [PLAYER_1, PLAYER_2, PROBABILISTIC]] *)
Definition known_player (p : pyval) : bool :=
  match kind_of p with Some _ => true | None => false end.

(** ** check_game *)
(* The third test is [min(self.rewards) < 0].
   - empty list: [min] raises ValueError (CPython's own message);
   - all rewards numbers: the builtin scan [py_min], then [< 0];
   - some reward not a number (None, str, tuple, list): the code raises TypeError - either inside
     [min] (comparing the odd element with a neighbour: no ordering between a non-number and a
     number, nor between None and None) or, when [min] happens to succeed (all str, all tuples,
     all lists, a single element), in the comparison of its result with 0.  Every such list of
     length >= 1 ends in TypeError, hence one [Crash] branch.  These inputs break no documented
     rule (the rule is "a negative reward"); they are outside C09's universe. *)
Definition check_game_d (d : desc) : outcome unit :=
  let n := length (d_players d) in
  if negb (length (d_trans d) =? n) then ValueErr msg_tl_len
  else if negb (length (d_rewards d) =? n) then ValueErr msg_rw_len
  else match nums_of (d_rewards d) with
  | None => Crash exc_type_error
  | Some rs =>
    match py_min rs with
    | None => ValueErr msg_min_empty          (* min([]) *)
    | Some m =>
      if num_ltb m num_zero then ValueErr msg_rw_neg
      else match zmax (d_finals d), zmin (d_finals d) with
      | Some mx, Some mn =>
        if (Z.of_nat n <=? mx)%Z || (mn <? 0)%Z then ValueErr msg_fin_range
        else if forallb known_player (d_players d) then Ok tt
        else ValueErr msg_player
      | _, _ => ValueErr msg_max_empty        (* max([]) *)
      end
    end
  end.

(** ** Node.check_next_states, for a node of kind [k] in a game of [n] states *)
(* one loop iteration; [n] is num_states *)
Definition check_tuple (k : kind) (n : Z) (t : pyval) : outcome unit :=
  match t with
  | VTuple l =>
    match l with
    | [x; s] =>
      if (match k with PR => is_number x | _ => is_str x end) then
        match int_val s with
        | None => ValueErr msg_ns_int
        | Some z => if (z <? 0)%Z || (n <=? z)%Z then ValueErr msg_ns_range else Ok tt
        end
      else ValueErr (match k with PR => msg_prob_num | _ => msg_act_str end)
    | _ => ValueErr msg_tuple_len
    end
  | _ => ValueErr msg_not_tuples
  end.
Fixpoint check_tuples (k : kind) (n : Z) (l : list pyval) : outcome unit :=
  match l with
  | [] => Ok tt
  | t :: l' => do _ <- check_tuple k n t; check_tuples k n l'
  end.
Definition check_next_states (k : kind) (n : Z) (v : pyval) : outcome unit :=
  match v with
  | VList l => check_tuples k n l
  | _ => ValueErr msg_not_list
  end.

(** ** init_states *)
(* The loop over zip(players, transition_list, rewards); the result is len(state_list).
   A falsy transitions value appends nothing; so does a player that is none of the three
   constants (if / elif / elif without else - not reachable after check_game, but modelled). *)
Fixpoint init_loop (n : Z) (l : list (pyval * pyval * pyval)) : outcome nat :=
  match l with
  | [] => Ok 0
  | (p, tr, _) :: l' =>
    if truthy tr then
      match kind_of p with
      | Some k => do _ <- check_next_states k n tr; do c <- init_loop n l'; Ok (S c)
      | None => init_loop n l'
      end
    else init_loop n l'
  end.
Definition init_states_d (d : desc) : outcome unit :=
  let n := length (d_players d) in
  do c <- init_loop (Z.of_nat n) (combine (combine (d_players d) (d_trans d)) (d_rewards d));
  if c =? n then Ok tt else ValueErr msg_missing.

(** ** the validation prefix of StochasticGame.solve *)
Definition validate (d : desc) : outcome unit :=
  do _ <- check_game_d d; init_states_d d.

(* solve = validation, then whatever follows (the pipeline of Model/Game.v for either pruning
   mode, or anything else): the statements of C09 hold for every continuation. *)
Definition solve_with {R} (rest : desc -> outcome R) (d : desc) : outcome R :=
  do _ <- validate d; rest d.

(** ** conditionalrewards.run_games: the message recorded for one solve *)
Definition msg_solved := "Game solved"%string.
Definition msg_err_prefix := "Error while solving the game: "%string.
Definition msg_not_solved := "Game not solved"%string.
(* [try: ... solve() ; msg = "Game solved"  except ValueError as e: msg = f"Error ...: {e}"];
   any other exception class is not caught and leaves run_games *)
Definition batch_record {A} (o : outcome A) : outcome string :=
  match o with
  | Ok _ => Ok msg_solved
  | ValueErr m => Ok (String.append msg_err_prefix m)
  | Crash w => Crash w
  | OutOfFuel => OutOfFuel
  end.
(* the recorded message when there is one (the empty string stands for "nothing recorded") *)
Definition batch_msg {A} (o : outcome A) : string :=
  match batch_record o with Ok s => s | _ => EmptyString end.
(* one dictionary entry = the pruned solve, then the unpruned one, which is skipped with
   "Game not solved" when the pruned one raised ValueError *)
Definition run_pair {A} (solve : bool -> outcome A) : outcome (string * string) :=
  match solve true with
  | Ok _ => do m2 <- batch_record (solve false); Ok (msg_solved, m2)
  | ValueErr m => Ok (String.append msg_err_prefix m, msg_not_solved)
  | Crash w => Crash w
  | OutOfFuel => OutOfFuel
  end.
(* StochasticGame.count_transitions: [len] of every entry; a value that has none (None, bool,
   int, float) raises TypeError *)
Fixpoint count_transitions (l : list pyval) : outcome nat :=
  match l with
  | [] => Ok 0
  | v :: l' =>
    match py_len v with
    | None => Crash exc_type_error
    | Some k => do c <- count_transitions l'; Ok (k + c)
    end
  end.
(* run_games as repaired (commit bb189d4):
     try: n_transitions = sgame.count_transitions()  except TypeError: n_transitions = 0
   ([count_transitions] has no other failure than that TypeError) *)
Definition n_transitions (d : desc) : nat :=
  match count_transitions (d_trans d) with Ok c => c | _ => 0 end.
(* one dictionary entry: the recorded n_transitions and the two messages *)
Definition run_entry {A} (solve : bool -> outcome A) (d : desc) : outcome (nat * (string * string)) :=
  do ms <- run_pair solve; Ok (n_transitions d, ms).
(* the pinned tree called count_transitions outside any try: the TypeError left run_games *)
Definition run_entry_orig {A} (solve : bool -> outcome A) (d : desc) : outcome (nat * (string * string)) :=
  do c <- count_transitions (d_trans d); do ms <- run_pair solve; Ok (c, ms).
(* the whole dictionary: an uncaught exception aborts the batch, a ValueError does not *)
Fixpoint run_batch {A} (solve : desc -> bool -> outcome A) (ds : list desc)
  : outcome (list (nat * (string * string))) :=
  match ds with
  | [] => Ok []
  | d :: ds' => do r <- run_entry (solve d) d; do rs <- run_batch solve ds'; Ok (r :: rs)
  end.

(** ** harness side: what the implementation did, and the comparison *)
Inductive vout :=
| VOk                      (* check_game and init_states returned *)
| VVal (msg : string)      (* ValueError(msg) *)
| VExc (cls : string).     (* another exception class *)
Definition vcmp (o : outcome unit) (x : vout) : bool :=
  match o, x with
  | Ok _, VOk => true
  | ValueErr m, VVal m' => String.eqb m m'
  | Crash c, VExc c' => String.eqb c c'
  | _, _ => false
  end.
Definition vidx_where (l : list (desc * vout)) : list nat :=
  map fst (filter (fun ic => negb (vcmp (validate (fst (snd ic))) (snd (snd ic))))
                  (combine (seq 0 (length l)) l)).

(* run_games cases: what happened to one dictionary entry *)
Inductive bout :=
| BMsgs (ntrans : nat) (pruned unpruned : string)    (* n_transitions and the two recorded messages *)
| BExc (cls : string).                               (* run_games itself raised *)
Definition bcmp (o : outcome (nat * (string * string))) (x : bout) : bool :=
  match o, x with
  | Ok (c, (a, b)), BMsgs c' a' b' => Nat.eqb c c' && String.eqb a a' && String.eqb b b'
  | Crash c, BExc c' => String.eqb c c'
  | _, _ => false
  end.
Definition bidx_where (l : list (desc * bout)) : list nat :=
  map fst (filter (fun ic =>
     negb (bcmp (run_entry (fun _ : bool => validate (fst (snd ic))) (fst (snd ic))) (snd (snd ic))))
     (combine (seq 0 (length l)) l)).

(** ** the typed game of Model/Game.v (instance Q) of a description *)
Definition q_of (v : pyval) : option Q :=
  match num_of v with Some (FFin q) => Some q | _ => None end.
Fixpoint opt_map {A B} (f : A -> option B) (l : list A) : option (list B) :=
  match l with
  | [] => Some []
  | a :: l' => match f a, opt_map f l' with Some b, Some r => Some (b :: r) | _, _ => None end
  end.
Definition nat_of_z (z : Z) : option nat := if (z <? 0)%Z then None else Some (Z.to_nat z).
Definition typed_tuple (k : kind) (t : pyval) : option (trans (T:=Q)) :=
  match t with
  | VTuple [x; s] =>
    match int_val s with
    | Some z =>
      match nat_of_z z with
      | Some dstn =>
        match k with
        | PR => match q_of x with Some q => Some (mkT EmptyString q dstn) | None => None end
        | _ => match x with VStr a => Some (mkT a 0%Q dstn) | _ => None end
        end
      | None => None
      end
    | None => None
    end
  | _ => None
  end.
Definition typed_row (kt : kind * pyval) : option (list (trans (T:=Q))) :=
  match snd kt with
  | VList l => opt_map (typed_tuple (fst kt)) l
  | _ => None
  end.
Definition to_typed (d : desc) : option (game (T:=Q)) :=
  match opt_map q_of (d_rewards d), opt_map kind_of (d_players d), opt_map nat_of_z (d_finals d) with
  | Some rs, Some ks, Some fs =>
    match opt_map typed_row (combine ks (d_trans d)) with
    | Some rows => Some (mkG rs ks rows fs)
    | None => None
    end
  | _, _, _ => None
  end.

(** ** Specification: the ten documented well-formedness rules, as one predicate over positions.
    (Declarative: it mentions no function of the validator; [is_number] / [is_str] / [int_val]
    are Python's isinstance notions of Model/PyVal.v.) *)
Definition kind_name (k : kind) : string :=
  match k with P1 => s_p1 | P2 => s_p2 | PR => s_pr end.
(* [r >= 0] for a number (False for NaN) *)
Definition nonneg (a : pyfloat) : Prop :=
  match a with
  | FNaN => False
  | FInf neg => neg = false
  | FFin q => (0 <= q)%Q
  end.
(* a transition (x, t): x a str on player states, a number on probabilistic states;
   t an int (bool included, as isinstance has it) with 0 <= t < n *)
Definition good_tuple (k : kind) (n : Z) (t : pyval) : Prop :=
  exists x s z, t = VTuple [x; s] /\
    (match k with PR => is_number x = true | _ => is_str x = true end) /\
    int_val s = Some z /\ (0 <= z < n)%Z.
(* the transitions value of a state: a non-empty list of good tuples *)
Definition good_trans (k : kind) (n : Z) (tr : pyval) : Prop :=
  exists l, tr = VList l /\ l <> [] /\ forall j t, nth_error l j = Some t -> good_tuple k n t.

Definition WFdoc (d : desc) : Prop :=
  let n := length (d_players d) in
  (* list lengths agree *)
  length (d_trans d) = n /\
  length (d_rewards d) = n /\
  (* every reward is a number >= 0 *)
  (forall i r, nth_error (d_rewards d) i = Some r -> exists a, num_of r = Some a /\ nonneg a) /\
  (* every player is one of the three constants *)
  (forall i p, nth_error (d_players d) i = Some p -> exists k, p = VStr (kind_name k)) /\
  (* there is a final state, and every final state is an index *)
  d_finals d <> [] /\
  (forall j f, nth_error (d_finals d) j = Some f -> (0 <= f < Z.of_nat n)%Z) /\
  (* every state has transitions, all of them well-formed for the state's kind *)
  (forall i p tr, nth_error (d_players d) i = Some p -> nth_error (d_trans d) i = Some tr ->
     exists k, p = VStr (kind_name k) /\ good_trans k (Z.of_nat n) tr).

(* Outside the universe of C09: a reward that is not a number (the code raises TypeError) or is
   NaN ([min] then depends on where the NaN stands: [nan, -1] is accepted, [-1, nan] rejected). *)
Definition outside_universe (d : desc) : Prop :=
  exists r, In r (d_rewards d) /\ (num_of r = None \/ num_of r = Some FNaN).
(* every transitions value has a len() (str, tuple, list): what run_games' count_transitions needs *)
Definition sized_trans (d : desc) : Prop :=
  forall v, In v (d_trans d) -> exists k, py_len v = Some k.
