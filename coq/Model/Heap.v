(** The store layer (C10, C12): transition lists as Python list OBJECTS.

    tad.py's [Node.__init__] stores [next_states = transitions], the very list object the caller
    passed in as a row of [transition_list].  Whether solving damages the caller's description is
    therefore a question about which list objects the pipeline writes to.  Here the inner
    transition lists live in a store indexed by locations; a node holds a LOCATION, and every
    read of [next_states] goes through the store.

    Three operations on the binding of a node's [next_states]:
      [alias]            node.next_states = <an existing object>      (Node.__init__)
      [rebind]           node.next_states = <a newly built list>      (list comprehensions, [] )
      [remove_in_place]  node.next_states.remove(x)                   (remove_path)
    The pipeline [solve_gen] is StochasticGame.solve step by step over the store; it is
    parametrised by the prune_paths step so that the repaired code ([solve_H]) and the pinned
    tree ([solve_H_orig], in-place scan) are the same text otherwise.

    The loops that only READ next_states (value iterations, strategy scans) are run on the
    [view] of the nodes (each node with the list found at its location) and their scalar results
    are written back into the nodes; that they do not touch next_states is proved in
    Proofs/HeapP.v (so the write-back loses nothing). *)
From Coq Require Import String List Arith Bool.
From CR Require Import Model.Num Model.Outcome Model.Graph Model.Game.
Import ListNotations.

Section Heap.
Context {T : Type}.
Variable K : ops T.
Notation trans := (@trans T).
Notation node := (@node T).
Notation game := (@game T).
Notation result := (@result T).

(** ** Store *)
Definition loc := nat.
Definition store := list (list trans).

(* the list object at a location (locations beyond the store are never dereferenced under the
   validity hypotheses of the theorems; the default only totalises the function) *)
Definition rd (st : store) (l : loc) : list trans := nth l st [].
(* a newly built list is a new object: a fresh location, nothing else changes *)
Definition alloc (st : store) (v : list trans) : store * loc := (st ++ [v], length st).
(* mutation of the object AT a location: everybody holding that location sees it *)
Definition write (st : store) (l : loc) (v : list trans) : store := upd st l v.

(** ** Heap nodes: a Game.v node whose [nxt] is a location.
    [hbody] carries kind, reward, final flag and the four iterated quantities; its own [nxt]
    field is not used (kept [[]]); the transitions are [rd st (hloc h)]. *)
Record hnode := mkH { hbody : node; hloc : loc }.

Definition view1 (st : store) (h : hnode) : node := set_nxt (hbody h) (rd st (hloc h)).
Definition view (st : store) (hs : list hnode) : list node := map (view1 st) hs.

Definition alias (body : node) (l : loc) : hnode := mkH body l.
Definition rebind (st : store) (h : hnode) (v : list trans) : store * hnode :=
  let (st', l) := alloc st v in (st', mkH (hbody h) l).

Definition trans_eqb (a b : trans) : bool :=
  String.eqb (act a) (act b) && eqb K (pr a) (pr b) && Nat.eqb (dst a) (dst b).
(* list.remove(x): drop the first element equal to x; None = ValueError *)
Fixpoint remove_first (x : trans) (l : list trans) : option (list trans) :=
  match l with
  | [] => None
  | y :: l' => if trans_eqb x y then Some l'
               else match remove_first x l' with Some r => Some (y :: r) | None => None end
  end.
Definition remove_in_place (st : store) (l : loc) (x : trans) : option store :=
  match remove_first x (rd st l) with
  | Some v => Some (write st l v)
  | None => None
  end.

(** ** The description as the caller holds it: rewards, players and finals are only read; row s
    of [transition_list] is the list object at location [nth s hg_rows].  [load] puts a pure
    description into a store of its own, row s at location s. *)
Record hgame := mkHG {
  hg_rewards : list T; hg_players : list kind; hg_rows : list loc; hg_finals : list nat }.

Definition read_game (st : store) (hg : hgame) : game :=
  mkG (hg_rewards hg) (hg_players hg) (map (rd st) (hg_rows hg)) (hg_finals hg).

Definition load (g : game) : store * hgame :=
  (g_trans g, mkHG (g_rewards g) (g_players g) (seq 0 (length (g_trans g))) (g_finals g)).

Definition rows_valid (st : store) (hg : hgame) : Prop :=
  Forall (fun l => l < length st) (hg_rows hg).

(** ** State + outcome *)
Definition sbind {A B} (m : store * outcome A) (f : store -> A -> store * outcome B)
  : store * outcome B :=
  match m with
  | (st, Ok a) => f st a
  | (st, ValueErr s) => (st, ValueErr s)
  | (st, Crash w) => (st, Crash w)
  | (st, OutOfFuel) => (st, OutOfFuel)
  end.

(** ** init_states: every node ALIASES the caller's row *)
Fixpoint init_H_from (st : store) (n idx : nat) (finals : list nat)
         (l : list (kind * loc * T)) : outcome (list hnode) :=
  match l with
  | [] => Ok []
  | (k, lc, r) :: l' =>
    match rd st lc with
    | [] => do rest <- init_H_from st n (S idx) finals l'; Ok rest
    | _ =>
      if existsb (fun t => n <=? dst t) (rd st lc) then ValueErr msg_ns_range
      else do rest <- init_H_from st n (S idx) finals l';
           Ok (alias (mk_node K k r [] (mem_nat idx finals)) lc :: rest)
    end
  end.
Definition init_states_H (st : store) (hg : hgame) : outcome (list hnode) :=
  let n := length (hg_players hg) in
  do hs <- init_H_from st n 0 (hg_finals hg)
          (combine (combine (hg_players hg) (hg_rows hg)) (hg_rewards hg));
  if length hs =? n then Ok hs else ValueErr msg_missing.

(* scalar fields computed on the view go back into the nodes; locations stay *)
Definition put_fields (sl : list node) (hs : list hnode) : list hnode :=
  map (fun nh => mkH (set_nxt (fst nh) []) (hloc (snd nh))) (combine sl hs).

(** ** Pruning steps over the store *)
(* visit the nodes in order, threading the store *)
Fixpoint mapS {A} (f : store -> hnode -> A -> store * hnode) (st : store) (l : list (hnode * A))
  : store * list hnode :=
  match l with
  | [] => (st, [])
  | (h, a) :: l' =>
    let (st1, h1) := f st h a in
    let (st2, hs) := mapS f st1 l' in (st2, h1 :: hs)
  end.

(* PlayerOne.prune_paths_reachability: self.next_states = [... if action in best] -> REBIND *)
Definition prune_reach_node_H (st : store) (h : hnode) (s : option (list string)) : store * hnode :=
  match nk (hbody h), s with
  | P1, Some best => rebind st h (filter (fun t => mem_str (act t) best) (rd st (hloc h)))
  | _, _ => (st, h)
  end.
Definition prune_reachability_H (strats : list (option (list string))) (st : store) (hs : list hnode)
  : store * list hnode := mapS prune_reach_node_H st (combine hs strats).

(* prune_paths as repaired: PlayerOne REBINDS always; ProbabilisticNode REBINDS only when
   something was removed; PlayerTwo has no prune_paths.  [sl] = the nodes as they are when the
   step starts (only reach values are read from it, and pruning does not change them). *)
Definition prune_paths_node_H (sl : list node) (st : store) (h : hnode) (_ : unit) : store * hnode :=
  let l := rd st (hloc h) in
  match nk (hbody h) with
  | P1 => rebind st h (filter (alive K sl) l)
  | PR =>
    let al := filter (alive K sl) l in
    if length al =? length l then (st, h)
    else let total := fold_left (fun s t => add K s (pr t)) al (zero K) in
         rebind st h (map (fun t => mkT (act t) (div K (pr t) total) (dst t)) al)
  | P2 => (st, h)
  end.
Definition prune_paths_H (sl : list node) (st : store) (hs : list hnode)
  : store * outcome (list hnode) :=
  let (st', hs') := mapS (prune_paths_node_H sl) st (map (fun h => (h, tt)) hs) in (st', Ok hs').

(* prune_paths of the pinned tree (before commit 4ee631e):
     for x in self.next_states:                 # iterator = (list object, index cursor)
         if state_list[x[1]].reach_probability == 0: self.remove_path(x)
   PlayerOne.remove_path:          self.next_states.remove(x)            IN PLACE
   ProbabilisticNode.remove_path:  self.next_states.remove(x)            IN PLACE, then
                                   self.next_states = [(p/(1-x.p), d) ...]   REBIND
   The iterator keeps walking the object it started on ([it]) while [hloc h] may move. *)
Definition msg_remove := "list.remove(x): x not in list"%string.
Fixpoint scan_orig (fuel : nat) (sl : list node) (st : store) (h : hnode) (it : loc) (i : nat)
  : store * outcome hnode :=
  match fuel with
  | O => (st, OutOfFuel)
  | S f =>
    match nth_error (rd st it) i with
    | None => (st, Ok h)
    | Some x =>
      if alive K sl x then scan_orig f sl st h it (i + 1)
      else
        match remove_in_place st (hloc h) x with
        | None => (st, ValueErr msg_remove)
        | Some st1 =>
          match nk (hbody h) with
          | PR =>
            let rest := rd st1 (hloc h) in
            let den := sub K (one K) (pr x) in
            match rest with
            | [] => let (st2, h2) := rebind st1 h [] in scan_orig f sl st2 h2 it (i + 1)
            | _ =>
              if eqb K den (zero K) then (st1, Crash "ZeroDivisionError"%string)
              else let (st2, h2) :=
                     rebind st1 h (map (fun t => mkT (act t) (div K (pr t) den) (dst t)) rest) in
                   scan_orig f sl st2 h2 it (i + 1)
            end
          | _ => scan_orig f sl st1 h it (i + 1)
          end
        end
    end
  end.
Fixpoint prune_paths_orig_H (sl : list node) (st : store) (hs : list hnode)
  : store * outcome (list hnode) :=
  match hs with
  | [] => (st, Ok [])
  | h :: hs' =>
    match nk (hbody h) with
    | P2 => sbind (prune_paths_orig_H sl st hs') (fun st' r => (st', Ok (h :: r)))
    | _ =>
      (* the cursor never passes the end of a list that only shrinks *)
      sbind (scan_orig (S (length (rd st (hloc h)))) sl st h (hloc h) 0) (fun st1 h1 =>
      sbind (prune_paths_orig_H sl st1 hs') (fun st2 r => (st2, Ok (h1 :: r))))
    end
  end.

(* Solver.prune_states: self.state_list[idx].next_states = []  -> REBIND to a new empty list.
   As in Game.v one round is a map: each state is judged on its own fields and on [reachable],
   which is computed before the loop. *)
Definition prune_states_node_H (reachable : list nat) (st : store) (h : hnode) (idx : nat)
  : store * hnode :=
  if ps_clear reachable idx (view1 st h) then rebind st h [] else (st, h).
Definition prune_states_round_H (st : store) (hs : list hnode) : store * list hnode * list nat :=
  let v := view st hs in
  let reachable := 0 :: flat_map (fun n => map dst (nxt n)) v in
  (mapS (prune_states_node_H reachable) st (combine hs (seq 0 (length hs))),
   map fst (filter (fun ix => ps_listed reachable (fst ix) (snd ix)) (combine (seq 0 (length v)) v))).
Fixpoint prune_states_H (fuel : nat) (old : list nat) (st : store) (hs : list hnode)
  : store * outcome (list hnode) :=
  match fuel with
  | O => (st, OutOfFuel)
  | S f =>
    let r := prune_states_round_H st hs in
    let st' := fst (fst r) in let hs' := snd (fst r) in let acc := snd r in
    if incl_b acc old && incl_b old acc then (st', Ok hs')
    else prune_states_H f acc st' hs'
  end.

(** ** StochasticGame.solve over the store *)
Definition pp_step := list node -> store -> list hnode -> store * outcome (list hnode).

Definition solve_gen (pp : pp_step) (fuel : nat) (st : store) (hg : hgame) (prune : bool)
  : store * outcome result :=
  let g := read_game st hg in
  sbind (st, check_game K g) (fun st _ =>
  sbind (st, init_states_H st hg) (fun st hs0 =>
  match hg_finals hg with
  | [] => (st, ValueErr msg_no_final)
  | _ =>
    sbind (st, reverse_dfs (map (map dst) (g_trans (read_game st hg))) (hg_finals hg)) (fun st srf =>
    sbind (st, vi_reach K fuel srf (view st hs0) 0) (fun st r1 =>
    sbind (st, after_reach K prune (fst r1)) (fun st sl1 =>
    let hs1 := put_fields sl1 hs0 in
    let v1 := view st hs1 in
    let rs := strats_reach K v1 in
    let probs := map reach v1 in
    let (st2, hs2) := prune_reachability_H rs st hs1 in
    sbind (if prune
           then sbind (pp (view st2 hs2) st2 hs2) (fun st3 hs3 =>
                       prune_states_H (length hs2 + 2) [] st3 hs3)
           else (st2, Ok hs2)) (fun st4 hs4 =>
    let sl3 := view st4 hs4 in
    sbind (st4, vi_rew K fuel sl3 0) (fun st5 r2 =>
    let sl4 := fst r2 in
    (st5, Ok (mkR (strats_rew K sl4) rs (map er sl4) probs (snd r1) (snd r2)
                  (map erm sl4) (map ermr sl4) (map nxt sl3))))))))
  end)).

Definition solve_H := solve_gen prune_paths_H.
Definition solve_H_orig := solve_gen prune_paths_orig_H.

(** ** Sequences of solves on one description.
    A StochasticGame object holds references to the description and the pruning flag, nothing
    else; a step (prune, fresh) either builds a new object or sets the flag of the current one,
    then calls solve(). *)
Record sgobj := mkObj { o_game : hgame; o_prune : bool }.

Fixpoint solve_seq_gen (pp : pp_step) (fuel : nat) (hg : hgame) (st : store) (obj : option sgobj)
         (steps : list (bool * bool)) : store * list (outcome result) :=
  match steps with
  | [] => (st, [])
  | (prune, fresh) :: steps' =>
    let o := match obj with
             | Some o => if fresh then mkObj hg prune else mkObj (o_game o) prune
             | None => mkObj hg prune
             end in
    let (st1, r) := solve_gen pp fuel st (o_game o) (o_prune o) in
    let (st2, rs) := solve_seq_gen pp fuel hg st1 (Some o) steps' in
    (st2, r :: rs)
  end.
Definition solve_seq_H := solve_seq_gen prune_paths_H.
Definition solve_seq_H_orig := solve_seq_gen prune_paths_orig_H.

End Heap.

(** ** Correspondence helpers (instance F): a sequence of solves on one description, as observed
    on the implementation - the k-th outcome and the caller's transition rows afterwards. *)
From Coq Require Import PrimFloat.
From CR Require Import Model.Corr.

Fixpoint forall2b {A B} (f : A -> B -> bool) (a : list A) (b : list B) : bool :=
  match a, b with
  | [], [] => true
  | x :: a', y :: b' => f x y && forall2b f a' b'
  | _, _ => false
  end.
Definition seq_case :=
  (game (T:=float) * list (bool * bool) * list xout * list (list (trans (T:=float))))%type.
Definition cmp_seq_with (run : hgame (T:=float) -> store (T:=float) -> option (sgobj (T:=float))
                               -> list (bool * bool)
                               -> store (T:=float) * list (outcome mres)) (c : seq_case) : bool :=
  let g := fst (fst (fst c)) in
  let r := run (snd (load g)) (fst (load g)) None (snd (fst (fst c))) in
  forall2b cmp_all (snd r) (snd (fst c)) && tl_eqb (firstn (length (g_trans g)) (fst r)) (snd c).
(* the repaired pipeline, and the pinned tree's (used when validating the check against the
   reverted repair) *)
Definition run_seq_cases (cs : list seq_case) : list nat :=
  idx_where (fun c => negb (cmp_seq_with (solve_seq_H fops big_fuel) c)) cs.
Definition run_seq_cases_orig (cs : list seq_case) : list nat :=
  idx_where (fun c => negb (cmp_seq_with (solve_seq_H_orig fops big_fuel) c)) cs.
