(** roberta_generator.py (as repaired): the transition builders with their numeric offsets and the
    three emitted games A, B, C as typed game descriptions, generic in the number operations.

    Domain of the model: rectangular boards of L rows and W columns (L, W >= 1), arrow codes in
    {0,1,2,3} and loose codes in {0,1} (outside these, [write_preamble] raises IndexError before
    any game is written, so no file with three games exists). Boards are functions
    [row -> column -> value]; the harness passes lists of lists through [ll_nat] / [ll_num].
    The text layer (str(dict) + .replace + eval) is not modelled: it is covered by the
    correspondence check, which compares these games with the file read back. *)
From Coq Require Import String List Arith Bool.
From CR Require Import Model.Num Model.Outcome Model.Graph Model.Game Model.Corr.
Import ListNotations.

(** nested-loop list: [for i in range(L): for j in range(W): append (f i j)] *)
Definition grid {A} (L W : nat) (f : nat -> nat -> A) : list A :=
  flat_map (fun i => map (f i) (seq 0 W)) (seq 0 L).

(** Python's [(j - 1) % width] on a natural j (and width >= 1): floor-mod, so -1 wraps to width-1 *)
Definition py_pred_mod (j W : nat) : nat :=
  match j with O => W - 1 | S j' => j' mod W end.

(* boards given as lists of lists (the correspondence files) *)
Definition ll_nat (rows : list (list nat)) : nat -> nat -> nat :=
  fun i j => nth j (nth i rows []) 0.

Section Board.
Context {T : Type} (K : ops T).

Definition ll_num (rows : list (list T)) : nat -> nat -> T :=
  fun i j => nth j (nth i rows []) (zero K).

Notation tr := (trans (T:=T)).
(* ("Label", idx) of a player state, (prob, idx) of a probabilistic state *)
Definition pl (a : string) (d : nat) : tr := mkT a (zero K) d.
Definition pb (p : T) (d : nat) : tr := mkT ""%string p d.

Section Builders.
Variables (length width : nat).

(* if moves[i][j] != 3: [Green, Yellow];  if moves[i][j] == 3: [Green] *)
Definition player_two_cell (moves : nat -> nat -> nat) (offset_r offset_y : nat)
           (i j : nat) : list tr :=
    if negb (moves i j =? 3)
    then [pl "Green"%string (offset_r + i * width + j); pl "Yellow"%string (offset_y + i * width + j)]
    else [pl "Green"%string (offset_r + i * width + j)].
Definition player_two_transitions (moves : nat -> nat -> nat) (offset_r offset_y : nat)
  : list (list tr) :=
  grid length width (player_two_cell moves offset_r offset_y).

(* [winning_state=None] by default; [not winning_state] is also true for 0 *)
Definition not_ws (winning_state : option nat) : bool :=
  match winning_state with None => true | Some w => w =? 0 end.
Definition player_one_down_cell (offset : nat) (winning_state : option nat)
           (i j : nat) : list tr :=
    if not_ws winning_state then [pl "Down"%string (offset + i * width + j)]
    else if i <? length - 1 then [pl "Down"%string (offset + i * width + j + width)]
    else [pl "Down"%string (match winning_state with Some w => w | None => 0 end)].
Definition player_one_down_transitions (offset : nat) (winning_state : option nat)
  : list (list tr) :=
  grid length width (player_one_down_cell offset winning_state).

(* the four cases on the arrow code; codes above 3 are outside the domain (see the header) *)
Definition by_move {A} (m : nat) (c0 c1 c2 c3 : A) (other : A) : A :=
  match m with 0 => c0 | 1 => c1 | 2 => c2 | 3 => c3 | _ => other end.

Definition player_one_left_right_cell (moves : nat -> nat -> nat) (offset_l offset_r : nat)
           (i j : nat) : list tr :=
    let transition :=
      if negb (offset_l =? offset_r)
      then (pl "Left"%string (offset_l + i * width + j), pl "Right"%string (offset_r + i * width + j))
      else (pl "Left"%string (offset_l + i * width + py_pred_mod j width),
            pl "Right"%string (offset_r + i * width + (j + 1) mod width)) in
    by_move (moves i j) [fst transition] [fst transition; snd transition] [snd transition]
            [pl "Etha"%string 0] [].
Definition player_one_left_right_transitions (moves : nat -> nat -> nat) (offset_l offset_r : nat)
  : list (list tr) :=
  grid length width (player_one_left_right_cell moves offset_l offset_r).

(* the pinned tree's case order (defect D3, repaired by 7de53ea): kept for the refutation *)
Definition player_one_left_right_cell_orig (moves : nat -> nat -> nat) (offset_l offset_r : nat)
           (i j : nat) : list tr :=
    let transition :=
      if negb (offset_l =? offset_r)
      then (pl "Left"%string (offset_l + i * width + j), pl "Right"%string (offset_r + i * width + j))
      else if j =? 0
      then (pl "Left"%string (offset_l + i * width + width - 1), pl "Right"%string (offset_r + i * width + j + 1))
      else if j =? width - 1
      then (pl "Left"%string (offset_l + i * width + j - 1), pl "Right"%string (offset_r + i * width))
      else (pl "Left"%string (offset_l + i * width + j - 1), pl "Right"%string (offset_r + i * width + j + 1)) in
    by_move (moves i j) [fst transition] [fst transition; snd transition] [snd transition]
            [pl "Etha"%string 0] [].
Definition player_one_left_right_transitions_orig (moves : nat -> nat -> nat) (offset_l offset_r : nat)
  : list (list tr) :=
  grid length width (player_one_left_right_cell_orig moves offset_l offset_r).

Definition prob_tile_break_cell (prob_tile_break : T) (loose_tiles : nat -> nat -> nat) (offset loosing_state : nat)
           (i j : nat) : list tr :=
    if loose_tiles i j =? 1
    then [pb prob_tile_break loosing_state;
          pb (sub K (one K) prob_tile_break) (offset + i * width + j)]
    else [pb (one K) (offset + i * width + j)].
Definition prob_tile_break_transitions (prob_tile_break : T) (loose_tiles : nat -> nat -> nat) (offset loosing_state : nat)
  : list (list tr) :=
  grid length width (prob_tile_break_cell prob_tile_break loose_tiles offset loosing_state).

Definition prob_robot_down_break_cell (prob_robot_break : T) (offset winning_state : nat)
           (i j : nat) : list tr :=
    [pb prob_robot_break (offset + i * width + j);
     if i <? length - 1
     then pb (sub K (one K) prob_robot_break) (offset + i * width + j + width)
     else pb (sub K (one K) prob_robot_break) winning_state].
Definition prob_robot_down_break_transitions (prob_robot_break : T) (offset winning_state : nat)
  : list (list tr) :=
  grid length width (prob_robot_down_break_cell prob_robot_break offset winning_state).

Definition prob_robot_left_break_cell (prob_robot_break : T) (offset : nat)
           (i j : nat) : list tr :=
    [pb prob_robot_break (offset + i * width + j);
     if j =? 0
     then pb (sub K (one K) prob_robot_break) (offset + i * width + width - 1)
     else pb (sub K (one K) prob_robot_break) (offset + i * width + j - 1)].
Definition prob_robot_left_break_transitions (prob_robot_break : T) (offset : nat)
  : list (list tr) :=
  grid length width (prob_robot_left_break_cell prob_robot_break offset).

Definition prob_robot_right_break_cell (prob_robot_break : T) (offset : nat)
           (i j : nat) : list tr :=
    [pb prob_robot_break (offset + i * width + j);
     if j =? width - 1
     then pb (sub K (one K) prob_robot_break) (offset + i * width)
     else pb (sub K (one K) prob_robot_break) (offset + i * width + j + 1)].
Definition prob_robot_right_break_transitions (prob_robot_break : T) (offset : nat)
  : list (list tr) :=
  grid length width (prob_robot_right_break_cell prob_robot_break offset).

Definition player_one_down_left_right_cell (moves : nat -> nat -> nat) (offset_d offset_l offset_r : nat)
           (i j : nat) : list tr :=
    let t0 := pl "Down"%string (offset_d + i * width + j) in
    let t1 := pl "Left"%string (offset_l + i * width + j) in
    let t2 := pl "Right"%string (offset_r + i * width + j) in
    by_move (moves i j) [t0; t1] [t0; t1; t2] [t0; t2] [t0] [].
Definition player_one_down_left_right_transitions (moves : nat -> nat -> nat) (offset_d offset_l offset_r : nat)
  : list (list tr) :=
  grid length width (player_one_down_left_right_cell moves offset_d offset_l offset_r).

Definition prob_light_break_cell (prob_light_break : T) (offset_ok offset_break : nat)
           (i j : nat) : list tr :=
    [pb prob_light_break (offset_break + i * width + j);
     pb (sub K (one K) prob_light_break) (offset_ok + i * width + j)].
Definition prob_light_break_transitions (prob_light_break : T) (offset_ok offset_break : nat)
  : list (list tr) :=
  grid length width (prob_light_break_cell prob_light_break offset_ok offset_break).

(* my_rewards, my_players of the three writers ([total] groups, of which [n_robot_groups]
   belong to Player 1 and [n_prob_groups] are probabilistic) *)
Definition my_rewards (rewards : nat -> nat -> T) (total : nat) : list T :=
  grid length width rewards ++ repeat (zero K) (length * width * (total - 1)) ++ [zero K; zero K].
Definition my_players (n_robot_groups n_prob_groups : nat) : list kind :=
  repeat P2 (length * width) ++ repeat P1 (length * width * n_robot_groups)
  ++ repeat PR (length * width * n_prob_groups) ++ [PR; PR].

(** write_robot_A: the game dictionary it writes *)
Definition gen_A_with (plr : (nat -> nat -> nat) -> nat -> nat -> list (list tr))
           (moves : nat -> nat -> nat) (rewards : nat -> nat -> T)
           (loose_tiles : nat -> nat -> nat) (prob_tile_break : T) : game (T:=T) :=
  let light := 0 in let robot_down := 1 in let robot_left_right := 2 in let prob := 3 in
  let total := 4 in
  let n_prob_groups := 1 in let n_robot_groups := 2 in
  let n_tiles := length * width in
  let loosing_state := n_tiles * total in
  let winning_state := n_tiles * total + 1 in
  mkG (my_rewards rewards total)
      (my_players n_robot_groups n_prob_groups)
      (player_two_transitions moves (robot_down * n_tiles) (robot_left_right * n_tiles)
       ++ player_one_down_transitions (prob * n_tiles) (Some winning_state)
       ++ plr moves (prob * n_tiles) (prob * n_tiles)
       ++ prob_tile_break_transitions prob_tile_break loose_tiles light loosing_state
       ++ [[pb (one K) loosing_state]; [pb (one K) winning_state]])
      [winning_state].

Definition gen_A := gen_A_with player_one_left_right_transitions.
Definition gen_A_orig := gen_A_with player_one_left_right_transitions_orig.

(** write_robot_B *)
Definition gen_B (moves : nat -> nat -> nat) (rewards : nat -> nat -> T)
           (loose_tiles : nat -> nat -> nat) (prob_tile_break prob_robot_break : T) : game (T:=T) :=
  let light := 0 in let robot_down := 1 in let robot_left_right := 2 in let tile_break := 3 in
  let robot_down_break := 4 in let robot_left_break := 5 in let robot_right_break := 6 in
  let total := 7 in
  let n_prob_groups := 4 in let n_robot_groups := 2 in
  let n_tiles := length * width in
  let loosing_state := n_tiles * total in
  let winning_state := n_tiles * total + 1 in
  mkG (my_rewards rewards total)
      (my_players n_robot_groups n_prob_groups)
      (player_two_transitions moves (robot_down * n_tiles) (robot_left_right * n_tiles)
       ++ player_one_down_transitions (robot_down_break * n_tiles) None
       ++ player_one_left_right_transitions moves (robot_left_break * n_tiles) (robot_right_break * n_tiles)
       ++ prob_tile_break_transitions prob_tile_break loose_tiles light loosing_state
       ++ prob_robot_down_break_transitions prob_robot_break (tile_break * n_tiles) winning_state
       ++ prob_robot_left_break_transitions prob_robot_break (tile_break * n_tiles)
       ++ prob_robot_right_break_transitions prob_robot_break (tile_break * n_tiles)
       ++ [[pb (one K) loosing_state]; [pb (one K) winning_state]])
      [winning_state].

(** write_robot_C *)
Definition gen_C (moves : nat -> nat -> nat) (rewards : nat -> nat -> T)
           (loose_tiles : nat -> nat -> nat) (prob_tile_break prob_robot_break prob_light_break : T)
  : game (T:=T) :=
  let light := 0 in let robot_down := 1 in let robot_left_right := 2 in
  let robot_down_left_right := 3 in let tile_break := 4 in
  let robot_down_break := 5 in let robot_left_break := 6 in let robot_right_break := 7 in
  let light_red_break := 8 in let light_yellow_break := 9 in
  let total := 10 in
  let n_prob_groups := 6 in let n_robot_groups := 3 in
  let n_tiles := length * width in
  let loosing_state := n_tiles * total in
  let winning_state := n_tiles * total + 1 in
  mkG (my_rewards rewards total)
      (my_players n_robot_groups n_prob_groups)
      (player_two_transitions moves (light_red_break * n_tiles) (light_yellow_break * n_tiles)
       ++ player_one_down_transitions (robot_down_break * n_tiles) None
       ++ player_one_left_right_transitions moves (robot_left_break * n_tiles) (robot_right_break * n_tiles)
       ++ player_one_down_left_right_transitions moves (robot_down_break * n_tiles)
            (robot_left_break * n_tiles) (robot_right_break * n_tiles)
       ++ prob_tile_break_transitions prob_tile_break loose_tiles light loosing_state
       ++ prob_robot_down_break_transitions prob_robot_break (tile_break * n_tiles) winning_state
       ++ prob_robot_left_break_transitions prob_robot_break (tile_break * n_tiles)
       ++ prob_robot_right_break_transitions prob_robot_break (tile_break * n_tiles)
       ++ prob_light_break_transitions prob_light_break (robot_down * n_tiles)
            (robot_down_left_right * n_tiles)
       ++ prob_light_break_transitions prob_light_break (robot_left_right * n_tiles)
            (robot_down_left_right * n_tiles)
       ++ [[pb (one K) loosing_state]; [pb (one K) winning_state]])
      [winning_state].

End Builders.

(** write_robots: the dictionary {'game_a': .., 'game_b': .., 'game_c': ..} in file order *)
Definition write_robots (length width : nat) (moves : nat -> nat -> nat) (rewards : nat -> nat -> T)
           (loose_tiles : nat -> nat -> nat) (prob_tile_break prob_robot_break prob_light_break : T)
  : list (string * game (T:=T)) :=
  [("game_a"%string, gen_A length width moves rewards loose_tiles prob_tile_break);
   ("game_b"%string, gen_B length width moves rewards loose_tiles prob_tile_break prob_robot_break);
   ("game_c"%string, gen_C length width moves rewards loose_tiles prob_tile_break prob_robot_break
                    prob_light_break)].

End Board.

(** * Correspondence support (instance F): bit-exact comparison of game descriptions *)
Definition game_eqb (a b : game (T:=PrimFloat.float)) : bool :=
  floats_eqb (g_rewards a) (g_rewards b)
  && list_eqb kind_eqb (g_players a) (g_players b)
  && tl_eqb (g_trans a) (g_trans b)          (* label, probability (bit-exact), target index *)
  && list_eqb Nat.eqb (g_finals a) (g_finals b).
Definition named_games_eqb : list (string * game (T:=PrimFloat.float)) -> _ -> bool :=
  list_eqb (fun x y => String.eqb (fst x) (fst y) && game_eqb (snd x) (snd y)).

(* one case: the board as lists of lists, the three probabilities, and the dictionary the
   reader returned for the file written by the implementation (keys in file order) *)
Record board_case := mkBC {
  bc_length : nat; bc_width : nat;
  bc_moves : list (list nat); bc_rewards : list (list PrimFloat.float); bc_loose : list (list nat);
  bc_ptb : PrimFloat.float; bc_prb : PrimFloat.float; bc_plb : PrimFloat.float;
  bc_read : list (string * game (T:=PrimFloat.float))
}.
Definition board_case_model (c : board_case) :=
  write_robots fops (bc_length c) (bc_width c) (ll_nat (bc_moves c)) (ll_num fops (bc_rewards c))
               (ll_nat (bc_loose c)) (bc_ptb c) (bc_prb c) (bc_plb c).
Definition run_board_cases (cs : list board_case) : list nat :=
  idx_where (fun c => negb (named_games_eqb (board_case_model c) (bc_read c))) cs.

(* abbreviations used by the generated case files to keep them small (and fast to parse):
   target indices as binary numbers, the usual labels and dictionary keys by name *)
Definition ta (a : string) (d : BinNums.N) : trans (T:=PrimFloat.float) := mkT a (zero fops) (BinNat.N.to_nat d).
Definition tp (p : PrimFloat.float) (d : BinNums.N) : trans (T:=PrimFloat.float) := mkT ""%string p (BinNat.N.to_nat d).
Definition tG := ta "Green". Definition tY := ta "Yellow". Definition tD := ta "Down".
Definition tL := ta "Left". Definition tR := ta "Right". Definition tE := ta "Etha".
Definition key_a := "game_a"%string. Definition key_b := "game_b"%string. Definition key_c := "game_c"%string.
Arguments ta a%string_scope d%N_scope. Arguments tp p d%N_scope.
Arguments tG d%N_scope. Arguments tY d%N_scope. Arguments tD d%N_scope.
Arguments tL d%N_scope. Arguments tR d%N_scope. Arguments tE d%N_scope.
