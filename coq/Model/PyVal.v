(** Dynamic Python values, as far as the validation code of tad.py looks at them:
    truthiness ([if transitions:]), [isinstance], [len], comparison of numbers, [min]/[max],
    membership of an int in a list of ints.

    Numbers.  Python compares int with int, int with float and float with float EXACTLY (no
    rounding of the int), so a number is modelled by its exact value: a rational (every finite
    binary64 value m * 2^e is a rational; ints are rationals with denominator 1) or one of the three
    special floats.  [bool] is a subclass of [int]: [isinstance(True, int)] holds and [True]
    compares as 1. *)
From Coq Require Import String List ZArith QArith Bool.
Import ListNotations.
Local Open Scope Z_scope.

Inductive pyfloat :=
| FNaN
| FInf (neg : bool)          (* float('-inf') when neg *)
| FFin (q : Q).              (* a finite value, exactly *)

Inductive pyval :=
| VNone
| VBool (b : bool)
| VInt (z : Z)
| VFloat (f : pyfloat)
| VStr (s : string)
| VTuple (l : list pyval)
| VList (l : list pyval).
(* The nested occurrence [list pyval] gives only the weak induction principle; nothing below
   recurses through it (the validator looks two levels deep, by pattern matching). *)

(* emission helper for the harness: the finite float m / d *)
Definition VF (m : Z) (d : positive) : pyval := VFloat (FFin (Qmake m d)).
Arguments VF m%Z_scope d%positive_scope.

(** ** isinstance *)
Definition bool_z (b : bool) : Z := if b then 1 else 0.

(* the int value of an object for which [isinstance(x, int)] holds (bool included) *)
Definition int_val (v : pyval) : option Z :=
  match v with
  | VInt z => Some z
  | VBool b => Some (bool_z b)
  | _ => None
  end.
(* the numeric value of an object for which [isinstance(x, (int, float))] holds *)
Definition num_of (v : pyval) : option pyfloat :=
  match v with
  | VInt z => Some (FFin (inject_Z z))
  | VBool b => Some (FFin (inject_Z (bool_z b)))
  | VFloat f => Some f
  | _ => None
  end.
Definition is_int (v : pyval) : bool := match int_val v with Some _ => true | None => false end.
Definition is_number (v : pyval) : bool := match num_of v with Some _ => true | None => false end.
Definition is_str (v : pyval) : bool := match v with VStr _ => true | _ => false end.
Definition is_list (v : pyval) : bool := match v with VList _ => true | _ => false end.
Definition is_tuple (v : pyval) : bool := match v with VTuple _ => true | _ => false end.

(** ** len; [None] = TypeError (object of type ... has no len()) *)
Definition py_len (v : pyval) : option nat :=
  match v with
  | VStr s => Some (String.length s)
  | VTuple l | VList l => Some (List.length l)
  | _ => None
  end.

(** ** truthiness ([if x:]) *)
Definition truthy (v : pyval) : bool :=
  match v with
  | VNone => false
  | VBool b => b
  | VInt z => negb (z =? 0)
  | VFloat FNaN => true
  | VFloat (FInf _) => true
  | VFloat (FFin q) => negb (Qeq_bool q 0)       (* 0.0 and -0.0 are both falsy *)
  | VStr s => negb (String.eqb s "")
  | VTuple l | VList l => match l with [] => false | _ => true end
  end.

(** ** [a < b] on numbers (exact; every comparison with NaN is False) *)
Definition q_ltb (p q : Q) : bool := negb (Qle_bool q p).
Definition num_ltb (a b : pyfloat) : bool :=
  match a, b with
  | FNaN, _ | _, FNaN => false
  | FInf true, FInf true => false
  | FInf true, _ => true
  | _, FInf true => false
  | FInf false, _ => false
  | _, FInf false => true
  | FFin p, FFin q => q_ltb p q
  end.
Definition num_zero : pyfloat := FFin 0.
Definition is_nan (a : pyfloat) : bool := match a with FNaN => true | _ => false end.

(** ** min / max of a list, as CPython's builtin computes them: keep the first element and
    replace it by a later [item] when [item < current] (min) resp. [item > current] (max).
    [None] = ValueError (empty argument). With a NaN in the list the result depends on the order. *)
Fixpoint min_from (cur : pyfloat) (l : list pyfloat) : pyfloat :=
  match l with
  | [] => cur
  | x :: l' => min_from (if num_ltb x cur then x else cur) l'
  end.
Definition py_min (l : list pyfloat) : option pyfloat :=
  match l with [] => None | x :: l' => Some (min_from x l') end.
Fixpoint max_from (cur : pyfloat) (l : list pyfloat) : pyfloat :=
  match l with
  | [] => cur
  | x :: l' => max_from (if num_ltb cur x then x else cur) l'
  end.
Definition py_max (l : list pyfloat) : option pyfloat :=
  match l with [] => None | x :: l' => Some (max_from x l') end.

(* the same on lists of ints *)
Fixpoint zmin_from (cur : Z) (l : list Z) : Z :=
  match l with
  | [] => cur
  | x :: l' => zmin_from (if x <? cur then x else cur) l'
  end.
Definition zmin (l : list Z) : option Z := match l with [] => None | x :: l' => Some (zmin_from x l') end.
Fixpoint zmax_from (cur : Z) (l : list Z) : Z :=
  match l with
  | [] => cur
  | x :: l' => zmax_from (if cur <? x then x else cur) l'
  end.
Definition zmax (l : list Z) : option Z := match l with [] => None | x :: l' => Some (zmax_from x l') end.

(* all elements as numbers; [None] as soon as one is not a number *)
Fixpoint nums_of (l : list pyval) : option (list pyfloat) :=
  match l with
  | [] => Some []
  | v :: l' =>
    match num_of v, nums_of l' with
    | Some a, Some r => Some (a :: r)
    | _, _ => None
    end
  end.

(** ** [idx in final_states] for an int and a list of ints *)
Definition mem_z (x : Z) (l : list Z) : bool := existsb (Z.eqb x) l.
