(** Explicit outcomes: every place where the Python code can raise is a branch. *)
From Coq Require Import String List NArith.
Import ListNotations.

Inductive outcome (A : Type) : Type :=
| Ok (a : A)
| ValueErr (msg : string)      (* Python ValueError with this message *)
| Crash (what : string)        (* any other exception class *)
| OutOfFuel.                   (* model artefact: never agreement *)
Arguments Ok {A}. Arguments ValueErr {A}. Arguments Crash {A}. Arguments OutOfFuel {A}.

Definition bind {A B} (o : outcome A) (f : A -> outcome B) : outcome B :=
  match o with
  | Ok a => f a
  | ValueErr m => ValueErr m
  | Crash w => Crash w
  | OutOfFuel => OutOfFuel
  end.
Notation "'do' x <- o ; f" := (bind o (fun x => f)) (at level 200, x pattern, o at level 100, f at level 200).

Definition is_ok {A} (o : outcome A) : bool := match o with Ok _ => true | _ => false end.

(* Unary fuel obtained from a binary number, so no large nat literal is ever written. *)
Definition big_fuel : nat := BinNat.N.to_nat 300000%N.
