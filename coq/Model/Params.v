(** Generator parameters: percentage formatting and file names (C17), parameter checks and the
    random board over an abstract random source (C15).
    Follows roberta_generator.py (prob_to_str, main, check_input, gen_rnd_board, get_random_moves)
    and stochastic_game_from_roborta_board.py (create_sg_from_board) of the repaired tree. *)
From Coq Require Import String Ascii ZArith NArith List Bool QArith PrimFloat Decimal DecimalString.
From CR Require Import Model.Num Model.Outcome.
Import ListNotations.
Local Open Scope string_scope.

(** * Decimal rendering: Python's [str] of an int *)

Definition decN (n : N) : string := NilEmpty.string_of_uint (N.to_uint n).
Definition decZ (k : Z) : string :=
  if (k <? 0)%Z then "-" ++ decN (Z.abs_N k) else decN (Z.to_N k).

(** * [round(x)] and [int(x)] of a finite binary64 number
    [round] of a float without [ndigits] is round-half-even of the exact binary value to an
    integer; [int] truncates towards zero. Both are exact integer computations on the
    decomposition x = m * 2^e. NaN and the infinities raise in Python; they are outside the domain
    (check_input admits only 0 < p < 1, and p * 100 is then finite). *)

Definition py_round (x : float) : Z :=
  let (m, e) := fdecomp x in
  if (0 <=? e)%Z then (m * 2 ^ e)%Z else rhe m (2 ^ (- e)).

Definition py_trunc (x : float) : Z :=
  let (m, e) := fdecomp x in
  if (0 <=? e)%Z then (m * 2 ^ e)%Z else Z.quot m (2 ^ (- e)).

Definition f_100 : float := Eval compute in of_Zf 100.

(* def prob_to_str(prob): return str(round(prob*100)) *)
Definition prob_to_str (p : float) : string := decZ (py_round (PrimFloat.mul p f_100)).
(* the pinned tree (defect D5): return str(int(prob*100)) *)
Definition prob_to_str_orig (p : float) : string := decZ (py_trunc (PrimFloat.mul p f_100)).

(* the binary64 number nearest k/100: IEEE division of two exactly represented integers is the
   correctly rounded quotient, i.e. what float("0.kk") and the Python expression k/100 yield *)
Definition pct (k : Z) : float := PrimFloat.div (of_Zf k) (of_Zf 100).

(** * File names *)

(* roberta_generator.main: the layout over already rendered numbers *)
Definition name_tokens (seed w l r rb lb tb lt : string) (force_down : bool) : string :=
  "inputs/robot_" ++ seed ++ "_" ++ "w" ++ w ++ "_" ++ "l" ++ l ++ "_" ++ "r" ++ r ++ "_" ++
  "rb" ++ rb ++ "_" ++ "lb" ++ lb ++ "_" ++ "tb" ++ tb ++ "_" ++ "lt" ++ lt ++
  (if force_down then "_force_down" else "") ++ ".py".

Definition file_name (seed w l r : N) (rb lb tb lt : float) (force_down : bool) : string :=
  name_tokens (decN seed) (decN w) (decN l) (decN r)
              (prob_to_str rb) (prob_to_str lb) (prob_to_str tb) (prob_to_str lt) force_down.

(* stochastic_game_from_roborta_board.create_sg_from_board: no seed, no loose-tile percentage,
   and the "_" after the tile-break percentage is written whether or not force_down follows *)
Definition manual_tokens (w l r rb lb tb : string) (force_down : bool) : string :=
  "inputs/manual_robot" ++ "_" ++ "w" ++ w ++ "_" ++ "l" ++ l ++ "_" ++ "r" ++ r ++ "_" ++
  "rb" ++ rb ++ "_" ++ "lb" ++ lb ++ "_" ++ "tb" ++ tb ++ "_" ++
  (if force_down then "force_down" else "") ++ ".py".

Definition manual_name (w l r : N) (rb lb tb : float) (force_down : bool) : string :=
  manual_tokens (decN w) (decN l) (decN r) (prob_to_str rb) (prob_to_str lb) (prob_to_str tb)
                force_down.

(* whole-percent parameter sets *)
Record wparams := mkWP {
  wp_seed : N; wp_w : N; wp_l : N; wp_r : N;
  wp_rb : Z; wp_lb : Z; wp_tb : Z; wp_lt : Z;      (* percentages *)
  wp_fd : bool }.
Definition whole (k : Z) : Prop := (1 <= k <= 99)%Z.
Definition wp_ok (p : wparams) : Prop :=
  whole (wp_rb p) /\ whole (wp_lb p) /\ whole (wp_tb p) /\ whole (wp_lt p).
Definition wp_name (p : wparams) : string :=
  file_name (wp_seed p) (wp_w p) (wp_l p) (wp_r p)
            (pct (wp_rb p)) (pct (wp_lb p)) (pct (wp_tb p)) (pct (wp_lt p)) (wp_fd p).

Record mparams := mkMP {
  mp_w : N; mp_l : N; mp_r : N; mp_rb : Z; mp_lb : Z; mp_tb : Z; mp_fd : bool }.
Definition mp_ok (p : mparams) : Prop := whole (mp_rb p) /\ whole (mp_lb p) /\ whole (mp_tb p).
Definition mp_name (p : mparams) : string :=
  manual_name (mp_w p) (mp_l p) (mp_r p) (pct (mp_rb p)) (pct (mp_lb p)) (pct (mp_tb p)) (mp_fd p).
