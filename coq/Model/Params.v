(** Generator parameters: percentage formatting and file names (C17), parameter checks and the
    random board over an abstract random source (C15).
    Follows roberta_generator.py (prob_to_str, main, check_input, gen_rnd_board, get_random_moves)
    and stochastic_game_from_roborta_board.py (create_sg_from_board) of the repaired tree. *)
From Coq Require Import String Ascii ZArith NArith List Bool QArith PrimFloat Decimal DecimalString.
From CR Require Import Model.Num Model.Outcome.
Import ListNotations.
Local Open Scope string_scope.

(** * Decimal rendering: Python's [str] of an int *)

Definition decN (n : N) : string := NilEmpty.string_of_uint (N.to_uint n).
Definition decZ (k : Z) : string :=
  if (k <? 0)%Z then "-" ++ decN (Z.abs_N k) else decN (Z.to_N k).

(** * [round(x)] and [int(x)] of a finite binary64 number
    [round] of a float without [ndigits] is round-half-even of the exact binary value to an
    integer; [int] truncates towards zero. Both are exact integer computations on the
    decomposition x = m * 2^e. NaN and the infinities raise in Python; they are outside the domain
    (check_input admits only 0 < p < 1, and p * 100 is then finite). *)

Definition py_round (x : float) : Z :=
  let (m, e) := fdecomp x in
  if (0 <=? e)%Z then (m * 2 ^ e)%Z else rhe m (2 ^ (- e)).

Definition py_trunc (x : float) : Z :=
  let (m, e) := fdecomp x in
  if (0 <=? e)%Z then (m * 2 ^ e)%Z else Z.quot m (2 ^ (- e)).

Definition f_100 : float := Eval compute in of_Zf 100.

(* def prob_to_str(prob): return str(round(prob*100)) *)
Definition prob_to_str (p : float) : string := decZ (py_round (PrimFloat.mul p f_100)).
(* the pinned tree (defect D5): return str(int(prob*100)) *)
Definition prob_to_str_orig (p : float) : string := decZ (py_trunc (PrimFloat.mul p f_100)).

(* the binary64 number nearest k/100: IEEE division of two exactly represented integers is the
   correctly rounded quotient, i.e. what float("0.kk") and the Python expression k/100 yield *)
Definition pct (k : Z) : float := PrimFloat.div (of_Zf k) (of_Zf 100).

(** * File names *)

(* roberta_generator.main: the layout over already rendered numbers *)
Definition name_tokens (seed w l r rb lb tb lt : string) (force_down : bool) : string :=
  "inputs/robot_" ++ seed ++ "_" ++ "w" ++ w ++ "_" ++ "l" ++ l ++ "_" ++ "r" ++ r ++ "_" ++
  "rb" ++ rb ++ "_" ++ "lb" ++ lb ++ "_" ++ "tb" ++ tb ++ "_" ++ "lt" ++ lt ++
  (if force_down then "_force_down" else "") ++ ".py".

Definition file_name (seed w l r : N) (rb lb tb lt : float) (force_down : bool) : string :=
  name_tokens (decN seed) (decN w) (decN l) (decN r)
              (prob_to_str rb) (prob_to_str lb) (prob_to_str tb) (prob_to_str lt) force_down.

(* stochastic_game_from_roborta_board.create_sg_from_board: no seed, no loose-tile percentage,
   and the "_" after the tile-break percentage is written whether or not force_down follows *)
Definition manual_tokens (w l r rb lb tb : string) (force_down : bool) : string :=
  "inputs/manual_robot" ++ "_" ++ "w" ++ w ++ "_" ++ "l" ++ l ++ "_" ++ "r" ++ r ++ "_" ++
  "rb" ++ rb ++ "_" ++ "lb" ++ lb ++ "_" ++ "tb" ++ tb ++ "_" ++
  (if force_down then "force_down" else "") ++ ".py".

Definition manual_name (w l r : N) (rb lb tb : float) (force_down : bool) : string :=
  manual_tokens (decN w) (decN l) (decN r) (prob_to_str rb) (prob_to_str lb) (prob_to_str tb)
                force_down.

(* whole-percent parameter sets *)
Record wparams := mkWP {
  wp_seed : N; wp_w : N; wp_l : N; wp_r : N;
  wp_rb : Z; wp_lb : Z; wp_tb : Z; wp_lt : Z;      (* percentages *)
  wp_fd : bool }.
Definition whole (k : Z) : Prop := (1 <= k <= 99)%Z.
Definition wp_ok (p : wparams) : Prop :=
  whole (wp_rb p) /\ whole (wp_lb p) /\ whole (wp_tb p) /\ whole (wp_lt p).
Definition wp_name (p : wparams) : string :=
  file_name (wp_seed p) (wp_w p) (wp_l p) (wp_r p)
            (pct (wp_rb p)) (pct (wp_lb p)) (pct (wp_tb p)) (pct (wp_lt p)) (wp_fd p).

Record mparams := mkMP {
  mp_w : N; mp_l : N; mp_r : N; mp_rb : Z; mp_lb : Z; mp_tb : Z; mp_fd : bool }.
Definition mp_ok (p : mparams) : Prop := whole (mp_rb p) /\ whole (mp_lb p) /\ whole (mp_tb p).
Definition mp_name (p : mparams) : string :=
  manual_name (mp_w p) (mp_l p) (mp_r p) (pct (mp_rb p)) (pct (mp_lb p)) (pct (mp_tb p)) (mp_fd p).

(** * Parameter checks (C15)
    [check_input], generic in the type of the probabilities: the code only asks [p <= 0] and
    [p >= 1]. Instance Q carries the theorems; instance F (binary64, where NaN answers false to
    both questions) is the one compared with the implementation. Integers are Python ints = Z. *)

Section CheckInput.
  Variable P : Type.
  Variable le0 : P -> bool.     (* p <= 0 *)
  Variable ge1 : P -> bool.     (* p >= 1 *)

  Definition check_input_gen (seed width length : Z) (prob_robot_break prob_light_break prob_loose_tile
                              prob_tile_break : P) (max_reward : Z) : outcome unit :=
    if (seed <? 0)%Z then ValueErr "The seed must be a nonnegative integer" else
    if (width <=? 0)%Z then ValueErr "The width must be a positive integer" else
    if (length <=? 0)%Z then ValueErr "The length must be a positive integer" else
    if le0 prob_robot_break || ge1 prob_robot_break
    then ValueErr "The failure probability of the robot must be a float in (0,1)" else
    if le0 prob_light_break || ge1 prob_light_break
    then ValueErr "The failure probability of the light must be a float in (0,1)" else
    if le0 prob_loose_tile || ge1 prob_loose_tile
    then ValueErr "The probability of a tile being loose must be a float in (0,1)" else
    if le0 prob_tile_break || ge1 prob_tile_break
    then ValueErr "The probability of a tile breaking must be a float in (0,1)" else
    if (max_reward <=? 0)%Z then ValueErr "The maximum reward must be a positive integer" else
    Ok tt.
End CheckInput.

Definition check_input : Z -> Z -> Z -> Q -> Q -> Q -> Q -> Z -> outcome unit :=
  check_input_gen Q (fun p => Qle_bool p 0) (fun p => Qle_bool 1 p).
Definition check_input_F : Z -> Z -> Z -> float -> float -> float -> float -> Z -> outcome unit :=
  check_input_gen float (fun p => PrimFloat.leb p 0%float) (fun p => PrimFloat.leb 1%float p).

(* str(round(x)) on any binary64 value: round(nan) raises ValueError, round(+-inf) OverflowError *)
Definition prob_to_str_o (p : float) : outcome string :=
  let x := PrimFloat.mul p f_100 in
  if negb (PrimFloat.eqb x x) then ValueErr "cannot convert float NaN to integer"
  else if PrimFloat.eqb (PrimFloat.abs x) infinity then Crash "OverflowError"
  else Ok (decZ (py_round x)).

(* Control flow of roberta_generator.main up to the point where the file is opened: parameter
   check, board generation (the only way it can raise: 2.0**(max_reward+1) overflows binary64 from
   max_reward = 1023 on - OverflowError, not ValueError), name assembly (left to right).
   [Ok name] = the run reaches [open(name, "w")]; anything else = nothing was written. *)
Definition gen_main_F (seed width length max_reward : Z) (prob_loose_tile prob_tile_break
                       prob_robot_break prob_light_break : float) (force_down : bool) : outcome string :=
  do _ <- check_input_F seed width length prob_robot_break prob_light_break prob_loose_tile
                        prob_tile_break max_reward;
  if (1023 <=? max_reward)%Z then Crash "OverflowError" else
  do rb <- prob_to_str_o prob_robot_break;
  do lb <- prob_to_str_o prob_light_break;
  do tb <- prob_to_str_o prob_tile_break;
  do lt <- prob_to_str_o prob_loose_tile;
  Ok (name_tokens (decZ seed) (decZ width) (decZ length) (decZ max_reward) rb lb tb lt force_down).

(** * The random board over an abstract random source (C15)
    The Mersenne Twister stream and [random.choices]/[random.randrange] are not modelled: the
    draws are section variables. [u n] is the n-th value returned by [random.random()] after
    [random.seed(seed)] (tile (i,j) consumes draws 2(iW+j) and 2(iW+j)+1, in that order);
    [choices i] is the list returned by [random.choices(population, weights, k=width)] for row i
    and [rr i] the value of [random.randrange(0, width)] for row i. Theorems state the ranges of
    these results as hypotheses (0 < u < 1; entries of the population; rr < width).

    The reward of a tile is floor(-log(y)/log(2)) with y = 2^-(m+1) + u (1 - 2^-(m+1)); libm's
    [log] is not modelled either: the model is the mathematical value, i.e. the unique k with
    2^-(k+1) < y <= 2^-k, computed on exact rationals by repeated doubling. *)

Local Open Scope Q_scope.

Fixpoint hpow (k : nat) : Q :=          (* 2^-k *)
  match k with O => 1 | S k' => (1 # 2) * hpow k' end.

(* floor(-log2 y) for 2^-fuel < y <= 1 *)
Fixpoint floor_neg_log2 (fuel : nat) (y : Q) : nat :=
  match fuel with
  | O => O
  | S f => if Qle_bool y (1 # 2) then S (floor_neg_log2 f (2 * y)) else O
  end.

Definition yval (m : nat) (x : Q) : Q := hpow (S m) + x * (1 - hpow (S m)).
Definition reward_of (m : nat) (x : Q) : nat := floor_neg_log2 (S (S m)) (yval m x).

Fixpoint set_nth (k : nat) (v : nat) (l : list nat) : list nat :=
  match l, k with
  | [], _ => []                       (* Python: IndexError; unreachable when k < length l *)
  | _ :: r, O => v :: r
  | a :: r, S k' => a :: set_nth k' v r
  end.

Section Board.
  Variable u : nat -> Q.
  Variable choices : nat -> list nat.
  Variable rr : nat -> nat.

  Definition tile_reward (W m i j : nat) : nat := reward_of m (u (2 * (i * W + j))).
  Definition tile_loose (W : nat) (p : Q) (i j : nat) : nat :=
    if Qle_bool p (u (2 * (i * W + j) + 1)) then 0%nat else 1%nat.     (* 1 if u < p else 0 *)

  Definition get_random_moves (L W : nat) (force_down : bool) : list (list nat) :=
    map (fun i => if force_down then set_nth (rr i) 3 (choices i) else choices i) (seq 0 L).

  (* returns (moves, rewards, loose_tiles) like the code *)
  Definition gen_rnd_board (L W : nat) (p : Q) (m : nat) (force_down : bool)
    : list (list nat) * list (list nat) * list (list nat) :=
    (get_random_moves L W force_down,
     map (fun i => map (tile_reward W m i) (seq 0 W)) (seq 0 L),
     map (fun i => map (tile_loose W p i) (seq 0 W)) (seq 0 L)).
End Board.

Local Close Scope Q_scope.

(* the shape the property asks for, as a boolean (evaluated by the check on the boards the
   implementation returns) *)
Definition rows_ok (L W : nat) (okv : nat -> bool) (g : list (list nat)) : bool :=
  Nat.eqb (List.length g) L && forallb (fun row => Nat.eqb (List.length row) W && forallb okv row) g.

Definition board_shape_ok (L W m : nat) (force_down : bool)
           (b : list (list nat) * list (list nat) * list (list nat)) : bool :=
  let '(moves, rewards, loose) := b in
  rows_ok L W (fun a => Nat.ltb a (if force_down then 4 else 3)) moves &&
  rows_ok L W (fun r => Nat.leb r m) rewards &&
  rows_ok L W (fun t => Nat.leb t 1) loose &&
  forallb (fun row => Bool.eqb (existsb (Nat.eqb 3) row) force_down) moves.

(* ... and as a proposition *)
Definition grid (L W : nat) (okv : nat -> Prop) (g : list (list nat)) : Prop :=
  List.length g = L /\ forall row, In row g -> List.length row = W /\ Forall okv row.

Definition board_shape (L W m : nat) (force_down : bool)
           (b : list (list nat) * list (list nat) * list (list nat)) : Prop :=
  let '(moves, rewards, loose) := b in
  grid L W (fun a => a < (if force_down then 4 else 3)) moves /\
  grid L W (fun r => r <= m) rewards /\
  grid L W (fun t => t <= 1) loose /\
  (forall row, In row moves -> (In 3 row <-> force_down = true)).
