(** Proofs for Model/Params.v: decimal renderings are uniquely decodable, file names are
    injective on whole-percent parameter sets (C17); parameter checks and board shape (C15). *)
From Coq Require Import String Ascii ZArith NArith List Bool Lia PrimFloat Decimal DecimalString DecimalN.
From CR Require Import Model.Num Model.Outcome Model.Params.
Import ListNotations.
Local Open Scope string_scope.

(** * Digit strings *)

Definition is_digit (c : ascii) : bool :=
  let n := nat_of_ascii c in (48 <=? n)%nat && (n <=? 57)%nat.

Fixpoint all_digits (s : string) : bool :=
  match s with
  | EmptyString => true
  | String c r => is_digit c && all_digits r
  end.

Lemma all_digits_uint : forall d, all_digits (NilEmpty.string_of_uint d) = true.
Proof. induction d; simpl; auto. Qed.

Lemma all_digits_decN : forall n, all_digits (decN n) = true.
Proof. intros; apply all_digits_uint. Qed.

Lemma decN_inj : forall a b, decN a = decN b -> a = b.
Proof.
  unfold decN; intros a b H. apply Unsigned.to_uint_inj.
  assert (E : Some (N.to_uint a) = Some (N.to_uint b)).
  { rewrite <- !NilEmpty.usu. now rewrite H. }
  now injection E.
Qed.

Lemma append_inj_l : forall p a b, p ++ a = p ++ b -> a = b.
Proof. induction p; simpl; intros a' b H; [exact H|]. injection H. auto. Qed.

(* a digit string followed by a non-digit character is uniquely decodable *)
Lemma digits_decode : forall s1 s2 c1 c2 r1 r2,
  all_digits s1 = true -> all_digits s2 = true ->
  is_digit c1 = false -> is_digit c2 = false ->
  s1 ++ String c1 r1 = s2 ++ String c2 r2 ->
  s1 = s2 /\ c1 = c2 /\ r1 = r2.
Proof.
  induction s1 as [|a s1 IH]; intros [|b s2] c1 c2 r1 r2 D1 D2 N1 N2 E; simpl in *.
  - injection E; auto.
  - injection E as Ec Er. subst c1. apply andb_prop in D2. destruct D2 as [D2 _]. congruence.
  - injection E as Ec Er. subst c2. apply andb_prop in D1. destruct D1 as [D1 _]. congruence.
  - injection E as Ec Er. subst b.
    apply andb_prop in D1. apply andb_prop in D2.
    destruct (IH s2 c1 c2 r1 r2) as [A [B C]]; try tauto. subst. auto.
Qed.

(* the same at the end of the string's numeric part, whatever follows *)
Ltac peel H :=
  match type of H with
  | String ?c ?a = String ?c ?b => injection H as H; peel H
  | _ => idtac
  end.

Lemma name_tokens_inj : forall s w l r rb lb tb lt fd s' w' l' r' rb' lb' tb' lt' fd',
  all_digits s = true -> all_digits w = true -> all_digits l = true -> all_digits r = true ->
  all_digits rb = true -> all_digits lb = true -> all_digits tb = true -> all_digits lt = true ->
  all_digits s' = true -> all_digits w' = true -> all_digits l' = true -> all_digits r' = true ->
  all_digits rb' = true -> all_digits lb' = true -> all_digits tb' = true -> all_digits lt' = true ->
  name_tokens s w l r rb lb tb lt fd = name_tokens s' w' l' r' rb' lb' tb' lt' fd' ->
  s = s' /\ w = w' /\ l = l' /\ r = r' /\ rb = rb' /\ lb = lb' /\ tb = tb' /\ lt = lt' /\ fd = fd'.
Proof.
  intros s w l r rb lb tb lt fd s' w' l' r' rb' lb' tb' lt' fd'
         Ds Dw Dl Dr Drb Dlb Dtb Dlt Ds' Dw' Dl' Dr' Drb' Dlb' Dtb' Dlt' E.
  unfold name_tokens in E. simpl in E. peel E.
  apply digits_decode in E; auto. destruct E as [E1 [_ E]]. peel E.
  apply digits_decode in E; auto. destruct E as [E2 [_ E]]. peel E.
  apply digits_decode in E; auto. destruct E as [E3 [_ E]]. peel E.
  apply digits_decode in E; auto. destruct E as [E4 [_ E]]. peel E.
  apply digits_decode in E; auto. destruct E as [E5 [_ E]]. peel E.
  apply digits_decode in E; auto. destruct E as [E6 [_ E]]. peel E.
  apply digits_decode in E; auto. destruct E as [E7 [_ E]]. peel E.
  assert (lt = lt' /\ fd = fd') as [E8 E9].
  { destruct fd, fd'; simpl in E; apply digits_decode in E; auto;
      destruct E as [E8 [Ec E]]; try discriminate; auto. }
  repeat split; assumption.
Qed.

Lemma manual_tokens_inj : forall w l r rb lb tb fd w' l' r' rb' lb' tb' fd',
  all_digits w = true -> all_digits l = true -> all_digits r = true ->
  all_digits rb = true -> all_digits lb = true -> all_digits tb = true ->
  all_digits w' = true -> all_digits l' = true -> all_digits r' = true ->
  all_digits rb' = true -> all_digits lb' = true -> all_digits tb' = true ->
  manual_tokens w l r rb lb tb fd = manual_tokens w' l' r' rb' lb' tb' fd' ->
  w = w' /\ l = l' /\ r = r' /\ rb = rb' /\ lb = lb' /\ tb = tb' /\ fd = fd'.
Proof.
  intros w l r rb lb tb fd w' l' r' rb' lb' tb' fd'
         Dw Dl Dr Drb Dlb Dtb Dw' Dl' Dr' Drb' Dlb' Dtb' E.
  unfold manual_tokens in E. simpl in E. peel E.
  apply digits_decode in E; auto. destruct E as [E2 [_ E]]. peel E.
  apply digits_decode in E; auto. destruct E as [E3 [_ E]]. peel E.
  apply digits_decode in E; auto. destruct E as [E4 [_ E]]. peel E.
  apply digits_decode in E; auto. destruct E as [E5 [_ E]]. peel E.
  apply digits_decode in E; auto. destruct E as [E6 [_ E]]. peel E.
  apply digits_decode in E; auto. destruct E as [E7 [_ E]].
  assert (fd = fd') by (destruct fd, fd'; simpl in E; try discriminate; reflexivity).
  repeat split; assumption.
Qed.

(** * Whole percentages: finite sweep over k = 1..99 *)

Definition percent_range : list Z := map Z.of_nat (seq 1 99).

Lemma whole_in_range : forall k, whole k -> In k percent_range.
Proof.
  intros k [H1 H2]. unfold percent_range. apply in_map_iff. exists (Z.to_nat k). split; [lia|].
  apply in_seq. lia.
Qed.

Lemma percent_sweep :
  forallb (fun k => String.eqb (prob_to_str (pct k)) (decZ k)) percent_range = true.
Proof. vm_compute. reflexivity. Qed.

Lemma percent_exact : forall k, whole k -> prob_to_str (pct k) = decZ k.
Proof.
  intros k H. apply String.eqb_eq.
  exact (proj1 (forallb_forall _ _) percent_sweep k (whole_in_range k H)).
Qed.

Lemma decZ_whole : forall k, whole k -> decZ k = decN (Z.to_N k).
Proof. intros k [H1 H2]. unfold decZ. destruct (Z.ltb_spec k 0); [lia|reflexivity]. Qed.

Lemma pct_digits : forall k, whole k -> all_digits (prob_to_str (pct k)) = true.
Proof. intros. rewrite percent_exact, decZ_whole by assumption. apply all_digits_decN. Qed.

Lemma pct_inj : forall a b, whole a -> whole b -> prob_to_str (pct a) = prob_to_str (pct b) -> a = b.
Proof.
  intros a b Ha Hb E. rewrite !percent_exact, !decZ_whole in E by assumption.
  apply decN_inj in E. destruct Ha, Hb. lia.
Qed.

Lemma wp_name_injective : forall p q, wp_ok p -> wp_ok q -> wp_name p = wp_name q -> p = q.
Proof.
  intros [s w l r rb lb tb lt fd] [s' w' l' r' rb' lb' tb' lt' fd']
         [A1 [A2 [A3 A4]]] [B1 [B2 [B3 B4]]] E; simpl in *.
  unfold wp_name, file_name in E; simpl in E.
  apply name_tokens_inj in E; auto using all_digits_decN, pct_digits.
  destruct E as [E1 [E2 [E3 [E4 [E5 [E6 [E7 [E8 E9]]]]]]]].
  apply decN_inj in E1, E2, E3, E4. apply pct_inj in E5, E6, E7, E8; auto. congruence.
Qed.

Lemma mp_name_injective : forall p q, mp_ok p -> mp_ok q -> mp_name p = mp_name q -> p = q.
Proof.
  intros [w l r rb lb tb fd] [w' l' r' rb' lb' tb' fd'] [A1 [A2 A3]] [B1 [B2 B3]] E; simpl in *.
  unfold mp_name, manual_name in E; simpl in E.
  apply manual_tokens_inj in E; auto using all_digits_decN, pct_digits.
  destruct E as [E2 [E3 [E4 [E5 [E6 [E7 E9]]]]]].
  apply decN_inj in E2, E3, E4. apply pct_inj in E5, E6, E7; auto. congruence.
Qed.

(* the name states the numbers: it is the layout over the decimal renderings of the parameters *)
Lemma wp_name_states : forall p, wp_ok p ->
  wp_name p = name_tokens (decN (wp_seed p)) (decN (wp_w p)) (decN (wp_l p)) (decN (wp_r p))
                          (decZ (wp_rb p)) (decZ (wp_lb p)) (decZ (wp_tb p)) (decZ (wp_lt p)) (wp_fd p).
Proof.
  intros p [A1 [A2 [A3 A4]]]. unfold wp_name, file_name. now rewrite !percent_exact.
Qed.

(* D5: truncation *)
Lemma trunc_refuted :
  prob_to_str_orig (pct 29) = "28" /\ prob_to_str_orig (pct 57) = "56" /\ prob_to_str_orig (pct 58) = "57".
Proof. vm_compute. auto. Qed.

Lemma trunc_collision :
  file_name 0 3 3 6 (pct 10) (pct 10) (pct 10) (pct 28) false <>
  file_name 0 3 3 6 (pct 10) (pct 10) (pct 10) (pct 29) false.
Proof. vm_compute. discriminate. Qed.

(** * C15: parameter checks *)
From Coq Require Import QArith Lqa.

Lemma qin_false : forall p : Q, (Qle_bool p 0 || Qle_bool 1 p) = false <-> (0 < p /\ p < 1)%Q.
Proof.
  intros p. rewrite orb_false_iff. split.
  - intros [A B]. split; apply Qnot_le_lt; intro H; apply Qle_bool_iff in H; congruence.
  - intros [A B]. split; apply not_true_is_false; intro H; apply Qle_bool_iff in H;
      [apply (Qlt_not_le _ _ A H)|apply (Qlt_not_le _ _ B H)].
Qed.

Lemma qin_true : forall p : Q, (Qle_bool p 0 || Qle_bool 1 p) = true <-> ~ (0 < p /\ p < 1)%Q.
Proof.
  intros p. rewrite <- qin_false. destruct (Qle_bool p 0 || Qle_bool 1 p); split; congruence.
Qed.

Ltac ci_norm :=
  repeat match goal with
  | H : (_ <? _)%Z = true |- _ => apply Z.ltb_lt in H
  | H : (_ <? _)%Z = false |- _ => apply Z.ltb_ge in H
  | H : (_ <=? _)%Z = true |- _ => apply Z.leb_le in H
  | H : (_ <=? _)%Z = false |- _ => apply Z.leb_gt in H
  | H : (Qle_bool _ 0 || Qle_bool 1 _) = true |- _ => apply qin_true in H
  | H : (Qle_bool _ 0 || Qle_bool 1 _) = false |- _ => apply qin_false in H
  end.

Ltac ci_split :=
  unfold check_input, check_input_gen;
  repeat match goal with
  | |- context [if ?b then _ else _] => let E := fresh "E" in destruct b eqn:E
  end; ci_norm.

Ltac ci_close :=
  split; [intros X; try discriminate X; repeat split; try tauto; try lia
         |intros X; try reflexivity; exfalso; intuition lia].

Lemma check_input_iff : forall seed w l (prb plb plt ptb : Q) m,
  check_input seed w l prb plb plt ptb m = Ok tt <->
  (0 <= seed /\ 1 <= w /\ 1 <= l /\ 1 <= m)%Z /\
  (0 < prb /\ prb < 1)%Q /\ (0 < plb /\ plb < 1)%Q /\ (0 < plt /\ plt < 1)%Q /\ (0 < ptb /\ ptb < 1)%Q.
Proof. intros. ci_split; ci_close. Qed.

(* which message: the first failing check in the order seed, width, length, robot, light,
   loose tile, tile break, maximum reward *)
Definition inside (p : Q) : Prop := (0 < p /\ p < 1)%Q.

Lemma check_input_messages : forall seed w l (prb plb plt ptb : Q) m,
  let r := check_input seed w l prb plb plt ptb m in
  (r = ValueErr "The seed must be a nonnegative integer" <-> (seed < 0)%Z) /\
  (r = ValueErr "The width must be a positive integer" <-> (0 <= seed /\ w <= 0)%Z) /\
  (r = ValueErr "The length must be a positive integer" <-> (0 <= seed /\ 1 <= w /\ l <= 0)%Z) /\
  (r = ValueErr "The failure probability of the robot must be a float in (0,1)" <->
     (0 <= seed /\ 1 <= w /\ 1 <= l)%Z /\ ~ inside prb) /\
  (r = ValueErr "The failure probability of the light must be a float in (0,1)" <->
     (0 <= seed /\ 1 <= w /\ 1 <= l)%Z /\ inside prb /\ ~ inside plb) /\
  (r = ValueErr "The probability of a tile being loose must be a float in (0,1)" <->
     (0 <= seed /\ 1 <= w /\ 1 <= l)%Z /\ inside prb /\ inside plb /\ ~ inside plt) /\
  (r = ValueErr "The probability of a tile breaking must be a float in (0,1)" <->
     (0 <= seed /\ 1 <= w /\ 1 <= l)%Z /\ inside prb /\ inside plb /\ inside plt /\ ~ inside ptb) /\
  (r = ValueErr "The maximum reward must be a positive integer" <->
     (0 <= seed /\ 1 <= w /\ 1 <= l)%Z /\ inside prb /\ inside plb /\ inside plt /\ inside ptb /\ (m <= 0)%Z).
Proof.
  intros. subst r. unfold inside.
  ci_split; repeat match goal with |- _ /\ _ => split end;
    (split; intros X; [try discriminate X; try tauto; try lia; try (intuition lia)|try reflexivity; exfalso; intuition lia]).
Qed.

(* never a crash, never anything but the eight messages *)
Lemma check_input_total : forall seed w l (prb plb plt ptb : Q) m,
  match check_input seed w l prb plb plt ptb m with
  | Ok _ | ValueErr _ => True | _ => False end.
Proof. intros. ci_split; exact I. Qed.

(* main: a refused parameter set never reaches the write *)
Lemma main_refuses : forall seed w l m plt ptb prb plb fd msg,
  check_input_F seed w l prb plb plt ptb m = ValueErr msg ->
  gen_main_F seed w l m plt ptb prb plb fd = ValueErr msg.
Proof. intros. unfold gen_main_F. rewrite H. reflexivity. Qed.

(** * C15: the reward formula *)
Local Open Scope Q_scope.

Lemma hpow_S : forall k, hpow (S k) == (1 # 2) * hpow k.
Proof. intros. simpl. reflexivity. Qed.

Lemma hpow_pos : forall k, 0 < hpow k.
Proof. induction k; [reflexivity|]. rewrite hpow_S. lra. Qed.

Lemma hpow_anti : forall a b, (a <= b)%nat -> hpow b <= hpow a.
Proof.
  intros a b H. induction H; [lra|]. rewrite hpow_S. pose proof (hpow_pos m). lra.
Qed.

Lemma hpow_le1 : forall k, hpow k <= 1.
Proof. intros. apply (hpow_anti 0 k). lia. Qed.

Lemma Qle_bool_false : forall a b, Qle_bool a b = false <-> b < a.
Proof.
  intros. split; intro H.
  - apply Qnot_le_lt. intro C. apply Qle_bool_iff in C. congruence.
  - apply not_true_is_false. intro C. apply Qle_bool_iff in C. exact (Qlt_not_le _ _ H C).
Qed.

(* floor(-log2 y) is the k with 2^-(k+1) < y <= 2^-k *)
Lemma floor_neg_log2_spec : forall fuel y, hpow fuel < y -> y <= 1 ->
  let k := floor_neg_log2 fuel y in (k < fuel)%nat /\ hpow (S k) < y /\ y <= hpow k.
Proof.
  induction fuel as [|f IH]; intros y Hl Hu.
  - change (hpow 0) with 1%Q in Hl. lra.
  - cbn [floor_neg_log2]. rewrite hpow_S in Hl. destruct (Qle_bool y (1 # 2)) eqn:E.
    + apply Qle_bool_iff in E.
      destruct (IH (2 * y)) as [A [B C]]; [lra|lra|].
      split; [lia|]. rewrite hpow_S in B. rewrite !hpow_S. split; lra.
    + apply Qle_bool_false in E. split; [lia|]. rewrite hpow_S. change (hpow 0) with 1%Q. split; lra.
Qed.

Lemma bracket_unique : forall y k k',
  hpow (S k) < y -> y <= hpow k -> hpow (S k') < y -> y <= hpow k' -> k = k'.
Proof.
  intros y k k' A B C D.
  destruct (Nat.lt_trichotomy k k') as [H|[H|H]]; [exfalso|assumption|exfalso].
  - pose proof (hpow_anti (S k) k' H). lra.
  - pose proof (hpow_anti (S k') k H). lra.
Qed.

Lemma floor_neg_log2_exact : forall k fuel y, y == hpow k -> (k < fuel)%nat -> floor_neg_log2 fuel y = k.
Proof.
  induction k as [|k IH]; intros [|f] y E L; try lia; simpl.
  - destruct (Qle_bool y (1 # 2)) eqn:B; [|reflexivity]. apply Qle_bool_iff in B. simpl in E. lra.
  - destruct (Qle_bool y (1 # 2)) eqn:B.
    + f_equal. apply IH; [|lia]. rewrite E, hpow_S. field.
    + apply Qle_bool_false in B. rewrite hpow_S in E. pose proof (hpow_le1 k). lra.
Qed.

Lemma yval_range : forall m x, 0 < x -> x < 1 -> hpow (S m) < yval m x /\ yval m x < 1.
Proof.
  intros m x H0 H1. unfold yval.
  pose proof (hpow_pos (S m)) as P. pose proof (hpow_pos m) as P'. pose proof (hpow_le1 m) as L.
  assert (hpow (S m) <= 1 # 2) by (rewrite hpow_S; lra).
  set (h := hpow (S m)) in *. nra.
Qed.

(* the reward is the bracket index of y, and lies in [0, max_reward] *)
Lemma reward_spec : forall m x, 0 < x -> x < 1 ->
  let k := reward_of m x in (k <= m)%nat /\ hpow (S k) < yval m x /\ yval m x <= hpow k.
Proof.
  intros m x H0 H1. destruct (yval_range m x H0 H1) as [A B].
  unfold reward_of.
  destruct (floor_neg_log2_spec (S (S m)) (yval m x)) as [C [D E]].
  - pose proof (hpow_anti (S m) (S (S m)) ltac:(lia)). lra.
  - lra.
  - cbv zeta. split; [|split; assumption].
    destruct (Nat.le_gt_cases (floor_neg_log2 (S (S m)) (yval m x)) m) as [|G]; [assumption|exfalso].
    pose proof (hpow_anti (S m) _ G). lra.
Qed.

(* a draw of exactly 0.0 (possible, probability 2^-53) gives max_reward + 1: the hypothesis 0 < u
   of the range theorem is needed *)
Lemma reward_zero_draw : forall m, reward_of m 0 = S m.
Proof.
  intros. unfold reward_of. apply floor_neg_log2_exact; [|lia]. unfold yval. ring.
Qed.

Local Close Scope Q_scope.

(** * C15: board shape *)

Lemma nth_map_seq : forall {A} (f : nat -> A) n s i d, i < n -> nth i (map f (seq s n)) d = f (s + i).
Proof.
  intros A f n. induction n; intros s i d H; [lia|]. simpl. destruct i.
  - f_equal. lia.
  - rewrite IHn by lia. f_equal. lia.
Qed.

Lemma in_map_seq : forall {A} (f : nat -> A) n x, In x (map f (seq 0 n)) -> exists i, i < n /\ x = f i.
Proof.
  intros A f n x H. apply in_map_iff in H. destruct H as [i [E I]]. apply in_seq in I. exists i. split; [lia|auto].
Qed.

Lemma set_nth_length : forall k v l, List.length (set_nth k v l) = List.length l.
Proof. intros k v l. revert k. induction l; intros [|k]; simpl; auto. Qed.

Lemma set_nth_forall : forall (Pv : nat -> Prop) k v l, Pv v -> Forall Pv l -> Forall Pv (set_nth k v l).
Proof.
  intros Pv k v l Hv H. revert k. induction H; intros [|k]; simpl; auto.
Qed.

Lemma set_nth_in : forall k v l, k < List.length l -> In v (set_nth k v l).
Proof.
  intros k v l. revert k. induction l; intros [|k] H; simpl in *; try lia; auto.
  right. apply IHl. lia.
Qed.

Section BoardShape.
  Variable u : nat -> Q.
  Variable choices : nat -> list nat.
  Variable rr : nat -> nat.
  Variables L W m : nat.
  Variable p : Q.
  Variable fd : bool.
  Hypothesis u_range : forall n, (0 < u n /\ u n < 1)%Q.
  Hypothesis choices_range : forall i, i < L ->
    List.length (choices i) = W /\ Forall (fun a => a < (if fd then 4 else 3)) (choices i).
  Hypothesis rr_range : fd = true -> forall i, i < L -> rr i < W.

  Lemma board_shape_holds : board_shape L W m fd (gen_rnd_board u choices rr L W p m fd).
  Proof.
    unfold gen_rnd_board, board_shape, grid, get_random_moves.
    rewrite !map_length, !seq_length.
    split; [split; [reflexivity|]|split; [split; [reflexivity|]|split; [split; [reflexivity|]|]]].
    - intros row H. apply in_map_seq in H. destruct H as [i [Hi E]]. subst row.
      destruct (choices_range i Hi) as [A B]. destruct fd.
      + split; [now rewrite set_nth_length|]. apply set_nth_forall; [lia|assumption].
      + auto.
    - intros row H. apply in_map_seq in H. destruct H as [i [Hi E]]. subst row.
      rewrite map_length, seq_length. split; [reflexivity|].
      apply Forall_forall. intros r H. apply in_map_seq in H. destruct H as [j [Hj E]]. subst r.
      unfold tile_reward. destruct (u_range (2 * (i * W + j))) as [A B].
      exact (proj1 (reward_spec m _ A B)).
    - intros row H. apply in_map_seq in H. destruct H as [i [Hi E]]. subst row.
      rewrite map_length, seq_length. split; [reflexivity|].
      apply Forall_forall. intros r H. apply in_map_seq in H. destruct H as [j [Hj E]]. subst r.
      unfold tile_loose. destruct (Qle_bool _ _); lia.
    - intros row H. apply in_map_seq in H. destruct H as [i [Hi E]]. subst row.
      destruct (choices_range i Hi) as [A B]. destruct fd eqn:F.
      + split; [reflexivity|]. intros _. apply set_nth_in. rewrite A. now apply rr_range.
      + split; [|discriminate]. intros H. exfalso.
        rewrite Forall_forall in B. specialize (B 3 H). lia.
  Qed.

  (* entry (i, j) of each grid, in terms of the draws *)
  Lemma board_entries : forall i j, i < L -> j < W ->
    let '(moves, rewards, loose) := gen_rnd_board u choices rr L W p m fd in
    (nth j (nth i loose []) 0 = 1 <-> (u (2 * (i * W + j) + 1) < p)%Q) /\
    (nth j (nth i loose []) 0 = 0 <-> (p <= u (2 * (i * W + j) + 1))%Q) /\
    (let k := nth j (nth i rewards []) 0 in
     let y := yval m (u (2 * (i * W + j))) in (hpow (S k) < y /\ y <= hpow k)%Q).
  Proof.
    intros i j Hi Hj. unfold gen_rnd_board.
    rewrite !(nth_map_seq _ L 0 i) by assumption. rewrite !(nth_map_seq _ W 0 j) by assumption. simpl plus.
    unfold tile_loose, tile_reward.
    destruct (u_range (2 * (i * W + j))) as [A B].
    pose proof (reward_spec m _ A B) as R. cbv zeta in R.
    split; [|split; [|tauto]].
    - destruct (Qle_bool p _) eqn:E.
      + apply Qle_bool_iff in E. split; [discriminate|]. intro C. exfalso. exact (Qlt_not_le _ _ C E).
      + apply Qle_bool_false in E. tauto.
    - destruct (Qle_bool p _) eqn:E.
      + apply Qle_bool_iff in E. tauto.
      + apply Qle_bool_false in E. split; [discriminate|]. intro C. exfalso. exact (Qlt_not_le _ _ E C).
  Qed.
End BoardShape.

(* the boolean used by the check is the proposition *)
Lemma rows_ok_iff : forall L W (okb : nat -> bool) (okp : nat -> Prop) g,
  (forall v, okb v = true <-> okp v) -> (rows_ok L W okb g = true <-> grid L W okp g).
Proof.
  intros L W okb okp g R. unfold rows_ok, grid. rewrite andb_true_iff, Nat.eqb_eq, forallb_forall.
  split; intros [A B]; (split; [assumption|]); intros row H; specialize (B row H).
  - rewrite andb_true_iff, Nat.eqb_eq, forallb_forall in B. destruct B as [B C]. split; [assumption|].
    apply Forall_forall. intros v Hv. apply R. auto.
  - destruct B as [B C]. rewrite andb_true_iff, Nat.eqb_eq, forallb_forall. split; [assumption|].
    rewrite Forall_forall in C. intros v Hv. apply R. auto.
Qed.

Lemma board_shape_ok_iff : forall L W m fd b, board_shape_ok L W m fd b = true <-> board_shape L W m fd b.
Proof.
  intros L W m fd [[moves rewards] loose]. unfold board_shape_ok, board_shape.
  rewrite !andb_true_iff.
  rewrite (rows_ok_iff L W _ (fun a => a < (if fd then 4 else 3)) moves) by (intro; apply Nat.ltb_lt).
  rewrite (rows_ok_iff L W _ (fun r => r <= m) rewards) by (intro; apply Nat.leb_le).
  rewrite (rows_ok_iff L W _ (fun t => t <= 1) loose) by (intro; apply Nat.leb_le).
  rewrite forallb_forall.
  assert (X : forall row, Bool.eqb (existsb (Nat.eqb 3) row) fd = true <-> (In 3 row <-> fd = true)).
  { intros row. rewrite eqb_true_iff. split.
    - intros E. rewrite <- E. rewrite existsb_exists. split.
      + intros H. exists 3. split; [assumption|reflexivity].
      + intros [x [H1 H2]]. apply Nat.eqb_eq in H2. now subst x.
    - intros [H1 H2]. destruct fd.
      + apply existsb_exists. exists 3. split; [auto|reflexivity].
      + apply not_true_is_false. intros E. apply existsb_exists in E. destruct E as [x [E1 E2]].
        apply Nat.eqb_eq in E2. subst x. specialize (H1 E1). discriminate. }
  split.
  - intros [[[A B] C] D]. split; [exact A|split; [exact B|split; [exact C|]]]. intros row H. apply X. auto.
  - intros [A [B [C D]]]. split; [split; [split|]|]; try assumption. intros row H. apply X. auto.
Qed.

(* the board is a function of the draws and the parameters (pointwise equal sources suffice) *)
Lemma board_ext : forall u u' choices choices' rr rr' L W p m fd,
  (forall n, u n = u' n) -> (forall i, choices i = choices' i) -> (forall i, rr i = rr' i) ->
  gen_rnd_board u choices rr L W p m fd = gen_rnd_board u' choices' rr' L W p m fd.
Proof.
  intros u u' c c' rr rr' L W p m fd Hu Hc Hr. unfold gen_rnd_board, get_random_moves.
  f_equal; [f_equal|]; apply map_ext; intros i.
  - now rewrite Hc, Hr.
  - apply map_ext; intros j. unfold tile_reward. now rewrite Hu.
  - apply map_ext; intros j. unfold tile_loose. now rewrite Hu.
Qed.
