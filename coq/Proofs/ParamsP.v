(** Proofs for Model/Params.v: decimal renderings are uniquely decodable, file names are
    injective on whole-percent parameter sets (C17); parameter checks and board shape (C15). *)
From Coq Require Import String Ascii ZArith NArith List Bool Lia PrimFloat Decimal DecimalString DecimalN.
From CR Require Import Model.Num Model.Outcome Model.Params.
Import ListNotations.
Local Open Scope string_scope.

(** * Digit strings *)

Definition is_digit (c : ascii) : bool :=
  let n := nat_of_ascii c in (48 <=? n)%nat && (n <=? 57)%nat.

Fixpoint all_digits (s : string) : bool :=
  match s with
  | EmptyString => true
  | String c r => is_digit c && all_digits r
  end.

Lemma all_digits_uint : forall d, all_digits (NilEmpty.string_of_uint d) = true.
Proof. induction d; simpl; auto. Qed.

Lemma all_digits_decN : forall n, all_digits (decN n) = true.
Proof. intros; apply all_digits_uint. Qed.

Lemma decN_inj : forall a b, decN a = decN b -> a = b.
Proof.
  unfold decN; intros a b H. apply Unsigned.to_uint_inj.
  assert (E : Some (N.to_uint a) = Some (N.to_uint b)).
  { rewrite <- !NilEmpty.usu. now rewrite H. }
  now injection E.
Qed.

Lemma append_inj_l : forall p a b, p ++ a = p ++ b -> a = b.
Proof. induction p; simpl; intros a' b H; [exact H|]. injection H. auto. Qed.

(* a digit string followed by a non-digit character is uniquely decodable *)
Lemma digits_decode : forall s1 s2 c1 c2 r1 r2,
  all_digits s1 = true -> all_digits s2 = true ->
  is_digit c1 = false -> is_digit c2 = false ->
  s1 ++ String c1 r1 = s2 ++ String c2 r2 ->
  s1 = s2 /\ c1 = c2 /\ r1 = r2.
Proof.
  induction s1 as [|a s1 IH]; intros [|b s2] c1 c2 r1 r2 D1 D2 N1 N2 E; simpl in *.
  - injection E; auto.
  - injection E as Ec Er. subst c1. apply andb_prop in D2. destruct D2 as [D2 _]. congruence.
  - injection E as Ec Er. subst c2. apply andb_prop in D1. destruct D1 as [D1 _]. congruence.
  - injection E as Ec Er. subst b.
    apply andb_prop in D1. apply andb_prop in D2.
    destruct (IH s2 c1 c2 r1 r2) as [A [B C]]; try tauto. subst. auto.
Qed.

(* the same at the end of the string's numeric part, whatever follows *)
Ltac peel H :=
  match type of H with
  | String ?c ?a = String ?c ?b => injection H as H; peel H
  | _ => idtac
  end.

Lemma name_tokens_inj : forall s w l r rb lb tb lt fd s' w' l' r' rb' lb' tb' lt' fd',
  all_digits s = true -> all_digits w = true -> all_digits l = true -> all_digits r = true ->
  all_digits rb = true -> all_digits lb = true -> all_digits tb = true -> all_digits lt = true ->
  all_digits s' = true -> all_digits w' = true -> all_digits l' = true -> all_digits r' = true ->
  all_digits rb' = true -> all_digits lb' = true -> all_digits tb' = true -> all_digits lt' = true ->
  name_tokens s w l r rb lb tb lt fd = name_tokens s' w' l' r' rb' lb' tb' lt' fd' ->
  s = s' /\ w = w' /\ l = l' /\ r = r' /\ rb = rb' /\ lb = lb' /\ tb = tb' /\ lt = lt' /\ fd = fd'.
Proof.
  intros s w l r rb lb tb lt fd s' w' l' r' rb' lb' tb' lt' fd'
         Ds Dw Dl Dr Drb Dlb Dtb Dlt Ds' Dw' Dl' Dr' Drb' Dlb' Dtb' Dlt' E.
  unfold name_tokens in E. simpl in E. peel E.
  apply digits_decode in E; auto. destruct E as [E1 [_ E]]. peel E.
  apply digits_decode in E; auto. destruct E as [E2 [_ E]]. peel E.
  apply digits_decode in E; auto. destruct E as [E3 [_ E]]. peel E.
  apply digits_decode in E; auto. destruct E as [E4 [_ E]]. peel E.
  apply digits_decode in E; auto. destruct E as [E5 [_ E]]. peel E.
  apply digits_decode in E; auto. destruct E as [E6 [_ E]]. peel E.
  apply digits_decode in E; auto. destruct E as [E7 [_ E]]. peel E.
  assert (lt = lt' /\ fd = fd') as [E8 E9].
  { destruct fd, fd'; simpl in E; apply digits_decode in E; auto;
      destruct E as [E8 [Ec E]]; try discriminate; auto. }
  repeat split; assumption.
Qed.

Lemma manual_tokens_inj : forall w l r rb lb tb fd w' l' r' rb' lb' tb' fd',
  all_digits w = true -> all_digits l = true -> all_digits r = true ->
  all_digits rb = true -> all_digits lb = true -> all_digits tb = true ->
  all_digits w' = true -> all_digits l' = true -> all_digits r' = true ->
  all_digits rb' = true -> all_digits lb' = true -> all_digits tb' = true ->
  manual_tokens w l r rb lb tb fd = manual_tokens w' l' r' rb' lb' tb' fd' ->
  w = w' /\ l = l' /\ r = r' /\ rb = rb' /\ lb = lb' /\ tb = tb' /\ fd = fd'.
Proof.
  intros w l r rb lb tb fd w' l' r' rb' lb' tb' fd'
         Dw Dl Dr Drb Dlb Dtb Dw' Dl' Dr' Drb' Dlb' Dtb' E.
  unfold manual_tokens in E. simpl in E. peel E.
  apply digits_decode in E; auto. destruct E as [E2 [_ E]]. peel E.
  apply digits_decode in E; auto. destruct E as [E3 [_ E]]. peel E.
  apply digits_decode in E; auto. destruct E as [E4 [_ E]]. peel E.
  apply digits_decode in E; auto. destruct E as [E5 [_ E]]. peel E.
  apply digits_decode in E; auto. destruct E as [E6 [_ E]]. peel E.
  apply digits_decode in E; auto. destruct E as [E7 [_ E]].
  assert (fd = fd') by (destruct fd, fd'; simpl in E; try discriminate; reflexivity).
  repeat split; assumption.
Qed.

(** * Whole percentages: finite sweep over k = 1..99 *)

Definition percent_range : list Z := map Z.of_nat (seq 1 99).

Lemma whole_in_range : forall k, whole k -> In k percent_range.
Proof.
  intros k [H1 H2]. unfold percent_range. apply in_map_iff. exists (Z.to_nat k). split; [lia|].
  apply in_seq. lia.
Qed.

Lemma percent_sweep :
  forallb (fun k => String.eqb (prob_to_str (pct k)) (decZ k)) percent_range = true.
Proof. vm_compute. reflexivity. Qed.

Lemma percent_exact : forall k, whole k -> prob_to_str (pct k) = decZ k.
Proof.
  intros k H. apply String.eqb_eq.
  exact (proj1 (forallb_forall _ _) percent_sweep k (whole_in_range k H)).
Qed.

Lemma decZ_whole : forall k, whole k -> decZ k = decN (Z.to_N k).
Proof. intros k [H1 H2]. unfold decZ. destruct (Z.ltb_spec k 0); [lia|reflexivity]. Qed.

Lemma pct_digits : forall k, whole k -> all_digits (prob_to_str (pct k)) = true.
Proof. intros. rewrite percent_exact, decZ_whole by assumption. apply all_digits_decN. Qed.

Lemma pct_inj : forall a b, whole a -> whole b -> prob_to_str (pct a) = prob_to_str (pct b) -> a = b.
Proof.
  intros a b Ha Hb E. rewrite !percent_exact, !decZ_whole in E by assumption.
  apply decN_inj in E. destruct Ha, Hb. lia.
Qed.

Lemma wp_name_injective : forall p q, wp_ok p -> wp_ok q -> wp_name p = wp_name q -> p = q.
Proof.
  intros [s w l r rb lb tb lt fd] [s' w' l' r' rb' lb' tb' lt' fd']
         [A1 [A2 [A3 A4]]] [B1 [B2 [B3 B4]]] E; simpl in *.
  unfold wp_name, file_name in E; simpl in E.
  apply name_tokens_inj in E; auto using all_digits_decN, pct_digits.
  destruct E as [E1 [E2 [E3 [E4 [E5 [E6 [E7 [E8 E9]]]]]]]].
  apply decN_inj in E1, E2, E3, E4. apply pct_inj in E5, E6, E7, E8; auto. congruence.
Qed.

Lemma mp_name_injective : forall p q, mp_ok p -> mp_ok q -> mp_name p = mp_name q -> p = q.
Proof.
  intros [w l r rb lb tb fd] [w' l' r' rb' lb' tb' fd'] [A1 [A2 A3]] [B1 [B2 B3]] E; simpl in *.
  unfold mp_name, manual_name in E; simpl in E.
  apply manual_tokens_inj in E; auto using all_digits_decN, pct_digits.
  destruct E as [E2 [E3 [E4 [E5 [E6 [E7 E9]]]]]].
  apply decN_inj in E2, E3, E4. apply pct_inj in E5, E6, E7; auto. congruence.
Qed.

(* the name states the numbers: it is the layout over the decimal renderings of the parameters *)
Lemma wp_name_states : forall p, wp_ok p ->
  wp_name p = name_tokens (decN (wp_seed p)) (decN (wp_w p)) (decN (wp_l p)) (decN (wp_r p))
                          (decZ (wp_rb p)) (decZ (wp_lb p)) (decZ (wp_tb p)) (decZ (wp_lt p)) (wp_fd p).
Proof.
  intros p [A1 [A2 [A3 A4]]]. unfold wp_name, file_name. now rewrite !percent_exact.
Qed.

(* D5: truncation *)
Lemma trunc_refuted :
  prob_to_str_orig (pct 29) = "28" /\ prob_to_str_orig (pct 57) = "56" /\ prob_to_str_orig (pct 58) = "57".
Proof. vm_compute. auto. Qed.

Lemma trunc_collision :
  file_name 0 3 3 6 (pct 10) (pct 10) (pct 10) (pct 28) false <>
  file_name 0 3 3 6 (pct 10) (pct 10) (pct 10) (pct 29) false.
Proof. vm_compute. discriminate. Qed.
