(** End to end (C02, exact rationals): for a well-formed game with positive probabilities summing to
    at most one, the expected rewards solve reports satisfy the reward equations of the conditioned
    game (the rows in r_pruned) up to the threshold at every state. *)
From Coq Require Import String List Arith Bool Lia QArith Qabs Qreduction Lqa.
From CR Require Import Model.Num Model.Outcome Model.Graph Model.Game
     Proofs.Laws Proofs.GraphP Proofs.GameP Proofs.PruneStatesP Proofs.PipelineP Proofs.RewStepP
     Proofs.ReachQ Proofs.ReachQ2 Proofs.C03Q Proofs.RewQ Proofs.RewQ2 Proofs.RewResQ.
Import ListNotations.
Local Open Scope Q_scope.

Definition num_wf1 (g : gameQ) : Prop :=
  forall i, nth i (g_players g) PR = PR -> pos_w (nth i (g_trans g) []) /\ sumw (nth i (g_trans g) []) <= 1.

Definition row_ok (n : nodeQ) : Prop := nk n = PR -> pos_w (nxt n) /\ sumw (nxt n) <= 1.

Lemma pos_nonneg l : pos_w l -> nonneg_w l.
Proof. intros H t Ht. apply Qlt_le_weak. apply H. exact Ht. Qed.

Lemma prune_paths_node_row_ok sl (n : nodeQ) : row_ok n -> row_ok (prune_paths_node qops sl n).
Proof.
  intros Hw Hk'. pose proof (prune_paths_node_fields qops sl n) as Hf. cbn zeta in Hf. destruct Hf as (Hk & _).
  rewrite Hk in Hk'. destruct (Hw Hk') as [W1 W2].
  destruct (prune_paths_PR_weights qops sl n Hk') as [[_ E]|[Hlt E]].
  - rewrite E. split; assumption.
  - rewrite E. set (al := filter (alive qops sl) (nxt n)) in *.
    assert (Hal : pos_w al) by (apply pos_w_filter; exact W1).
    destruct al as [|t0 al'] eqn:Eal; [split; [intros t []|cbn; lra]|].
    assert (Hne : t0 :: al' <> []) by discriminate. rewrite <- Eal in *.
    pose proof (sumw_pos al Hne Hal) as Hs. split.
    + intros t Ht. apply in_map_iff in Ht. destruct Ht as [u [<- Hu]]. cbn [pr].
      pose proof (surv_total_spec al 0) as Hst. change (div qops) with qdiv. rewrite qdiv_ok.
      unfold surv_total. change (zero qops) with 0.
      assert (Ht : 0 < fold_left (fun s t => add qops s (pr t)) al 0) by lra.
      assert (0 < pr u) by (apply Hal; exact Hu). apply Qlt_shift_div_l; [exact Ht|lra].
    + rewrite (renormalised_sum_one al Hs). lra.
Qed.

Theorem solve_bellman_consistent fuel (g : gameQ) prune r :
  wf_game qops g -> num_wf1 g -> solve_fuel qops fuel g prune = Ok r ->
  forall s, (s < nstates g)%nat ->
    (nth s (g_players g) PR = PR -> pos_w (nth s (r_pruned r) []) /\ sumw (nth s (r_pruned r) []) <= 1) /\
    Qabs (psi (fun i => nth i (r_rewards r) 0) (nth s (g_players g) PR) (nth s (g_rewards g) 0) (nth s (r_pruned r) [])
          - nth s (r_rewards r) 0) <= q_thr.
Proof.
  intros Hwf Hnum H s Hs. apply solve_inv in H. destruct H as (sl1 & sl3 & sl4 & it2 & Ha & Hb & Hc & Hr).
  destruct (reach_static_chain qops _ _ _ _ _ _ Hwf Ha) as [Hlen Hst].
  pose proof Ha as Ha'. apply solve_reach_inv in Ha'. destruct Ha' as (_ & _ & _ & _ & _ & _ & _ & _ & Hrs).
  assert (Hlrs : length (r_reachs r) = length sl1) by (rewrite Hrs; unfold strats_reach; apply map_length).
  (* rows of sl1 are fine *)
  assert (H1 : forall i, row_ok (getq sl1 i)).
  { intros i Hk. destruct (Nat.lt_ge_cases i (nstates g)) as [Hi|Hi].
    - destruct (Hst i Hi) as (Hk1 & Hn1 & _). rewrite Hn1. apply Hnum. rewrite <- Hk1. exact Hk.
    - rewrite getn_out by (rewrite Hlen; exact Hi). split; [intros t []|cbn; lra]. }
  set (sl2 := prune_reachability (r_reachs r) sl1) in *.
  assert (H2 : forall i, row_ok (getq sl2 i) /\ nk (getq sl2 i) = nk (getq sl1 i) /\ rew (getq sl2 i) = rew (getq sl1 i)).
  { intros i. subst sl2. destruct (Nat.lt_ge_cases i (length sl1)) as [Hi|Hi].
    - rewrite prune_reachability_nth by assumption. cbn zeta.
      destruct (nk (getq sl1 i)) eqn:Ek; destruct (nth i (r_reachs r) None) eqn:En; cbv iota beta;
        try (split; [apply H1|split; [cbn; congruence|reflexivity]]).
      split; [intros Hk; cbn in Hk; congruence|split; [cbn; congruence|reflexivity]].
    - rewrite !getn_out; [split; [intros _; split; [intros t []|cbn; lra]|split; reflexivity]|exact Hi|rewrite prune_reachability_length; assumption]. }
  assert (H3 : forall i, row_ok (getq sl3 i) /\ nk (getq sl3 i) = nk (getq sl1 i) /\ rew (getq sl3 i) = rew (getq sl1 i)).
  { intros i. destruct (H2 i) as (R2 & K2 & W2). unfold prune_stage in Hb. destruct prune.
    - pose proof (prune_paths_node_fields qops sl2 (getq sl2 i)) as Hf. cbn zeta in Hf. destruct Hf as (Hk & Hrw & _).
      destruct (prune_states_only_cleared qops _ _ _ _ i Hb) as [[E0|[E0 _]] _]; rewrite E0, prune_paths_getn.
      + split; [apply prune_paths_node_row_ok; exact R2|]. split; congruence.
      + cbn [nk rew set_nxt]. split; [intros _; split; [intros t []|cbn; lra]|]. split; congruence.
    - inversion Hb; subst sl3. split; [exact R2|split; assumption]. }
  assert (Hp3 : prob_ok sl3).
  { intros i Hk. destruct (H3 i) as (R3 & _). destruct (R3 Hk) as [W1 W2]. split; [apply pos_nonneg; exact W1|exact W2]. }
  destruct (vi_rew_residual fuel sl3 0 sl4 it2 Hp3 Hc) as [Hstat Hres].
  assert (Hl3 : length sl3 = nstates g).
  { unfold prune_stage in Hb. destruct prune.
    - destruct (prune_states_only_cleared qops _ _ _ _ 0%nat Hb) as [_ Hl]. rewrite Hl, prune_paths_length.
      subst sl2. rewrite prune_reachability_length; assumption.
    - inversion Hb; subst sl3. subst sl2. rewrite prune_reachability_length; assumption. }
  specialize (Hres s). rewrite Hl3 in Hres. specialize (Hres Hs).
  assert (Hvec : forall i, nth i (r_rewards r) 0 = er_vec sl4 i).
  { intros i. rewrite Hr. cbn [r_rewards]. change (0:Q) with (er (dnode qops)). apply map_nth. }
  assert (Hrow : nth s (r_pruned r) [] = nxt (getq sl3 s)).
  { rewrite Hr. cbn [r_pruned]. change (@nil trans) with (nxt (dnode qops)). apply map_nth. }
  destruct (H3 s) as (R3s & K3 & W3). destruct (Hst s Hs) as (Hk1 & _ & Hr1 & _).
  split.
  { intros Hk. rewrite Hrow. apply R3s. rewrite K3, Hk1. exact Hk. }
  unfold psi_at in Hres. rewrite K3, W3, Hk1, Hr1, <- Hrow in Hres. rewrite Hvec.
  assert (Hext : psi (fun i => nth i (r_rewards r) 0) (nth s (g_players g) PR) (nth s (g_rewards g) 0) (nth s (r_pruned r) [])
                 = psi (er_vec sl4) (nth s (g_players g) PR) (nth s (g_rewards g) (zero qops)) (nth s (r_pruned r) [])).
  { unfold psi. destruct (nth s (r_pruned r) []) as [|first rest]; [reflexivity|].
    assert (Hg : forall l m, gmax (fun i => nth i (r_rewards r) 0) l m = gmax (er_vec sl4) l m).
    { induction l as [|t l IH]; intros m; cbn [gmax fold_left]; [reflexivity|]. cbn zeta. rewrite Hvec. apply IH. }
    assert (Hm : forall l m, gmin (fun i => nth i (r_rewards r) 0) l m = gmin (er_vec sl4) l m).
    { induction l as [|t l IH]; intros m; cbn [gmin fold_left]; [reflexivity|]. cbn zeta. rewrite Hvec. apply IH. }
    assert (Hsu : forall l m, rsum (fun i => nth i (r_rewards r) 0) l m = rsum (er_vec sl4) l m).
    { induction l as [|t l IH]; intros m; cbn [rsum fold_left]; [reflexivity|]. rewrite Hvec. apply IH. }
    destruct (nth s (g_players g) PR); [rewrite Hg|rewrite Hm, Hvec|rewrite Hsu]; reflexivity. }
  rewrite Hext. exact Hres.
Qed.
