(** Proofs about the validation model (Model/Validate.v): [validate] accepts exactly the
    descriptions that satisfy the documented rules [WFdoc], rejects every other one with a
    ValueError (inside the universe), first-error lemmas, the batch record, and the link to the
    typed game of Model/Game.v. *)
From Coq Require Import String List ZArith QArith Bool Arith Lia Lqa.
From CR Require Import Model.Num Model.Outcome Model.Graph Model.Game Model.PyVal Model.Validate.
Import ListNotations.

(** * Numbers *)
Lemma q_ltb_spec : forall p q, q_ltb p q = true <-> (p < q)%Q.
Proof.
  intros p q. unfold q_ltb. rewrite negb_true_iff. split; intro H.
  - apply Qnot_le_lt. intro L. apply Qle_bool_iff in L. congruence.
  - destruct (Qle_bool q p) eqn:E; [|reflexivity].
    apply Qle_bool_iff in E. exfalso. apply (Qlt_not_le _ _ H E).
Qed.
Lemma q_ltb_false : forall p q, q_ltb p q = false <-> (q <= p)%Q.
Proof.
  intros p q. unfold q_ltb. rewrite negb_false_iff. apply Qle_bool_iff.
Qed.

Definition negative (a : pyfloat) : bool := num_ltb a num_zero.

Lemma nonneg_iff : forall a, is_nan a = false -> (negative a = false <-> nonneg a).
Proof.
  intros [|[|]|q] Hn; simpl in *; try discriminate; unfold negative; simpl.
  - split; [discriminate|intro H; discriminate].
  - split; reflexivity.
  - apply q_ltb_false.
Qed.
Lemma nonneg_not_nan : forall a, nonneg a -> is_nan a = false.
Proof. intros [|n|q]; simpl; intros H; try reflexivity. contradiction. Qed.

(* one step of the builtin's scan, seen through the test [< 0] *)
Lemma min_step_negative : forall x c, is_nan x = false -> is_nan c = false ->
  negative (if num_ltb x c then x else c) = true <-> negative c = true \/ negative x = true.
Proof.
  intros [|[|]|p] [|[|]|q] Hx Hc; simpl in *; try discriminate; unfold negative; simpl;
    try (split; [intros H; auto | intros [H|H]; auto; try discriminate]; fail).
  destruct (q_ltb p q) eqn:E; simpl.
  - apply q_ltb_spec in E. rewrite !q_ltb_spec. split; [auto|]. intros [H|H]; [lra|assumption].
  - apply q_ltb_false in E. rewrite !q_ltb_spec. split; [auto|]. intros [H|H]; [assumption|lra].
Qed.
Lemma min_step_nan : forall x c, is_nan x = false -> is_nan c = false ->
  is_nan (if num_ltb x c then x else c) = false.
Proof. intros x c Hx Hc. destruct (num_ltb x c); assumption. Qed.

Lemma min_from_negative : forall l c, is_nan c = false -> Forall (fun a => is_nan a = false) l ->
  negative (min_from c l) = true <-> negative c = true \/ exists x, In x l /\ negative x = true.
Proof.
  induction l as [|x l IH]; intros c Hc Hl; simpl.
  - split; [auto|]. intros [H|[x [[] _]]]. assumption.
  - inversion Hl as [|? ? Hx Hl']; subst.
    rewrite IH by (auto using min_step_nan). rewrite min_step_negative by assumption.
    split.
    + intros [[H|H]|[y [Hy Hn]]]; eauto.
    + intros [H|[y [[Hy|Hy] Hn]]]; subst; eauto.
Qed.

(** * max / min of int lists *)
Lemma zmax_from_ge : forall l c n, (n <=? zmax_from c l)%Z = true <->
  (n <= c)%Z \/ exists x, In x l /\ (n <= x)%Z.
Proof.
  induction l as [|x l IH]; intros c n; simpl.
  - rewrite Z.leb_le. split; [auto|]. intros [H|[x [[] _]]]. assumption.
  - rewrite IH. destruct (c <? x)%Z eqn:E; [apply Z.ltb_lt in E|apply Z.ltb_ge in E].
    + split.
      * intros [H|[y [Hy Hn]]]; eauto.
      * intros [H|[y [[Hy|Hy] Hn]]]; subst; eauto. left. lia.
    + split.
      * intros [H|[y [Hy Hn]]]; eauto.
      * intros [H|[y [[Hy|Hy] Hn]]]; subst; eauto. left. lia.
Qed.
Lemma zmin_from_neg : forall l c, (zmin_from c l <? 0)%Z = true <->
  (c < 0)%Z \/ exists x, In x l /\ (x < 0)%Z.
Proof.
  induction l as [|x l IH]; intros c; simpl.
  - rewrite Z.ltb_lt. split; [auto|]. intros [H|[x [[] _]]]. assumption.
  - rewrite IH. destruct (x <? c)%Z eqn:E; [apply Z.ltb_lt in E|apply Z.ltb_ge in E].
    + split.
      * intros [H|[y [Hy Hn]]]; eauto.
      * intros [H|[y [[Hy|Hy] Hn]]]; subst; eauto. left. lia.
    + split.
      * intros [H|[y [Hy Hn]]]; eauto.
      * intros [H|[y [[Hy|Hy] Hn]]]; subst; eauto. left. lia.
Qed.

(* the test on the final states, for a non-empty list *)
Lemma finals_test : forall (fs : list Z) (n : Z), fs <> [] ->
  exists mx mn, zmax fs = Some mx /\ zmin fs = Some mn /\
    (((n <=? mx)%Z || (mn <? 0)%Z) = false <-> forall f, In f fs -> (0 <= f < n)%Z).
Proof.
  intros [|f fs] n Hne; [congruence|]. simpl. eexists; eexists. split; [reflexivity|]. split; [reflexivity|].
  rewrite orb_false_iff. split.
  - intros [H1 H2] g Hg.
    assert (A : ~ ((n <= f)%Z \/ exists x, In x fs /\ (n <= x)%Z)).
    { rewrite <- zmax_from_ge. congruence. }
    assert (B : ~ ((f < 0)%Z \/ exists x, In x fs /\ (x < 0)%Z)).
    { rewrite <- zmin_from_neg. congruence. }
    destruct Hg as [Hg|Hg]; subst.
    + split; [destruct (Z_lt_le_dec g 0); [exfalso; apply B; auto|lia]
             |destruct (Z_lt_le_dec g n); [lia|exfalso; apply A; auto]].
    + split; [destruct (Z_lt_le_dec g 0); [exfalso; apply B; eauto|lia]
             |destruct (Z_lt_le_dec g n); [lia|exfalso; apply A; eauto]].
  - intros H. split.
    + destruct (n <=? zmax_from f fs)%Z eqn:E; [|reflexivity]. apply zmax_from_ge in E.
      destruct E as [E|[x [Hx E]]]; [specialize (H f (or_introl eq_refl))|specialize (H x (or_intror Hx))]; lia.
    + destruct (zmin_from f fs <? 0)%Z eqn:E; [|reflexivity]. apply zmin_from_neg in E.
      destruct E as [E|[x [Hx E]]]; [specialize (H f (or_introl eq_refl))|specialize (H x (or_intror Hx))]; lia.
Qed.

(** * Lists *)
Lemma nums_of_some : forall l rs, nums_of l = Some rs -> Forall2 (fun v a => num_of v = Some a) l rs.
Proof.
  induction l as [|v l IH]; intros rs H; simpl in H.
  - inversion H. constructor.
  - destruct (num_of v) eqn:E; [|discriminate]. destruct (nums_of l) eqn:E2; [|discriminate].
    inversion H; subst. constructor; auto.
Qed.
Lemma nums_of_none : forall l, nums_of l = None -> exists v, In v l /\ num_of v = None.
Proof.
  induction l as [|v l IH]; intros H; simpl in H; [discriminate|].
  destruct (num_of v) eqn:E.
  - destruct (nums_of l) eqn:E2; [discriminate|]. destruct (IH eq_refl) as [w [Hw Hn]]. exists w. simpl. auto.
  - exists v. simpl. auto.
Qed.
Lemma nums_of_total : forall l, (forall v, In v l -> exists a, num_of v = Some a) ->
  exists rs, nums_of l = Some rs.
Proof.
  induction l as [|v l IH]; intros H; simpl; [eauto|].
  destruct (H v (or_introl eq_refl)) as [a Ha]. rewrite Ha.
  destruct IH as [rs Hrs]; [intros w Hw; apply H; right; assumption|]. rewrite Hrs. eauto.
Qed.

Lemma In_nth_error' : forall {A} (l : list A) x, In x l <-> exists i, nth_error l i = Some x.
Proof.
  intros A l x. split; [apply In_nth_error|]. intros [i H]. eapply nth_error_In; eassumption.
Qed.

Lemma Forall_nth_error : forall {A} (P : A -> Prop) l,
  Forall P l <-> forall i x, nth_error l i = Some x -> P x.
Proof.
  intros A P l. rewrite Forall_forall. split.
  - intros H i x Hx. apply H. eapply nth_error_In; eassumption.
  - intros H x Hx. apply In_nth_error in Hx. destruct Hx as [i Hi]. eauto.
Qed.

(* the zip of the three lists, position by position *)
Lemma Forall_zip3 : forall {A B C} (P : A -> B -> Prop) (a : list A) (b : list B) (c : list C),
  length b = length a -> length c = length a ->
  (Forall (fun x => P (fst (fst x)) (snd (fst x))) (combine (combine a b) c) <->
   forall i x y, nth_error a i = Some x -> nth_error b i = Some y -> P x y).
Proof.
  intros A B C P. induction a as [|x a IH]; intros [|y b] [|z c] Hb Hc; simpl in *; try discriminate.
  - split; [intros _ [|i] ? ? H; discriminate|constructor].
  - split.
    + intros H. inversion H as [|? ? H1 H2]; subst. simpl in H1.
      intros [|i] x' y' Hx Hy; simpl in *.
      * inversion Hx; inversion Hy; subst. assumption.
      * eapply IH; eauto.
    + intros H. constructor.
      * simpl. apply (H 0%nat); reflexivity.
      * apply IH; [lia|lia|]. intros i x' y' Hx Hy. apply (H (S i)); assumption.
Qed.

(** * Players *)
Lemma kind_of_spec : forall p k, kind_of p = Some k <-> p = VStr (kind_name k).
Proof.
  intros p k. destruct p; simpl; try (split; [discriminate|intros H; destruct k; discriminate]).
  destruct (String.eqb s s_p1) eqn:E1; [apply String.eqb_eq in E1; subst|].
  { split; [intros H; inversion H; reflexivity|intros H; destruct k; inversion H; reflexivity]. }
  destruct (String.eqb s s_p2) eqn:E2; [apply String.eqb_eq in E2; subst|].
  { split; [intros H; inversion H; reflexivity|intros H; destruct k; inversion H; reflexivity]. }
  destruct (String.eqb s s_pr) eqn:E3; [apply String.eqb_eq in E3; subst|].
  { split; [intros H; inversion H; reflexivity|intros H; destruct k; inversion H; reflexivity]. }
  split; [discriminate|]. intros H. inversion H; subst.
  destruct k; vm_compute in E1, E2, E3; discriminate.
Qed.
Lemma known_player_spec : forall p, known_player p = true <-> exists k, p = VStr (kind_name k).
Proof.
  intros p. unfold known_player. destruct (kind_of p) eqn:E.
  - split; [intros _; exists k; apply kind_of_spec; assumption|reflexivity].
  - split; [discriminate|]. intros [k Hk]. apply kind_of_spec in Hk. congruence.
Qed.

(** * check_next_states *)
Lemma check_tuple_cases : forall k n t,
  check_tuple k n t = Ok tt \/ exists m, check_tuple k n t = ValueErr m.
Proof.
  intros k n t. unfold check_tuple. destruct t as [| | | | |l|]; eauto.
  destruct l as [|x [|s [|? ?]]]; eauto.
  destruct (match k with PR => is_number x | _ => is_str x end); eauto.
  destruct (int_val s); eauto. destruct ((z <? 0)%Z || (n <=? z)%Z); eauto.
Qed.
Lemma check_tuple_ok : forall k n t, check_tuple k n t = Ok tt <-> good_tuple k n t.
Proof.
  intros k n t. unfold check_tuple, good_tuple. split.
  - destruct t as [| | | | |l|]; try discriminate.
    destruct l as [|x [|s [|? ?]]]; try discriminate.
    destruct (match k with PR => is_number x | _ => is_str x end) eqn:E0; [|discriminate].
    destruct (int_val s) as [z|] eqn:E1; [|discriminate].
    destruct ((z <? 0)%Z || (n <=? z)%Z) eqn:E2; [discriminate|]. intros _.
    apply orb_false_iff in E2. destruct E2 as [A B]. apply Z.ltb_ge in A. apply Z.leb_gt in B.
    exists x, s, z. repeat split; try assumption; try lia.
    destruct k; assumption.
  - intros [x [s [z [Ht [H0 [H1 H2]]]]]]. subst t.
    replace (match k with PR => is_number x | _ => is_str x end) with true by (destruct k; symmetry; assumption).
    rewrite H1.
    replace ((z <? 0)%Z || (n <=? z)%Z) with false; [reflexivity|].
    symmetry. apply orb_false_iff. split; [apply Z.ltb_ge|apply Z.leb_gt]; lia.
Qed.

Lemma check_tuples_cases : forall k n l,
  check_tuples k n l = Ok tt \/ exists m, check_tuples k n l = ValueErr m.
Proof.
  induction l as [|t l IH]; simpl; [auto|].
  destruct (check_tuple_cases k n t) as [H|[m H]]; rewrite H; simpl; eauto.
Qed.
Lemma check_tuples_ok : forall k n l, check_tuples k n l = Ok tt <-> Forall (good_tuple k n) l.
Proof.
  induction l as [|t l IH]; simpl.
  - split; [constructor|reflexivity].
  - destruct (check_tuple_cases k n t) as [H|[m H]]; rewrite H; simpl.
    + rewrite IH. split; [intros; constructor; [apply check_tuple_ok|]; assumption|intros F; inversion F; assumption].
    + split; [discriminate|]. intros F. inversion F as [|? ? G _]; subst. apply check_tuple_ok in G. congruence.
Qed.
(* the first offending transition decides *)
Lemma check_tuples_first_error : forall k n l1 t l2 m,
  Forall (good_tuple k n) l1 -> check_tuple k n t = ValueErr m ->
  check_tuples k n (l1 ++ t :: l2) = ValueErr m.
Proof.
  induction l1 as [|a l1 IH]; intros t l2 m F H; simpl.
  - rewrite H. reflexivity.
  - inversion F as [|? ? G F']; subst. apply check_tuple_ok in G. rewrite G. simpl. auto.
Qed.

Lemma check_next_states_cases : forall k n v,
  check_next_states k n v = Ok tt \/ exists m, check_next_states k n v = ValueErr m.
Proof. intros k n v. destruct v; simpl; eauto. apply check_tuples_cases. Qed.

Lemma good_trans_spec : forall k n tr,
  good_trans k n tr <-> truthy tr = true /\ check_next_states k n tr = Ok tt.
Proof.
  intros k n tr. unfold good_trans. split.
  - intros [l [Ht [Hne Hall]]]. subst tr. simpl. split; [destruct l; [congruence|reflexivity]|].
    apply check_tuples_ok. apply Forall_nth_error. assumption.
  - intros [Ht Hc]. destruct tr; simpl in Hc; try discriminate.
    exists l. split; [reflexivity|]. split; [destruct l; [discriminate|congruence]|].
    apply Forall_nth_error. apply check_tuples_ok. assumption.
Qed.

(** * init_states *)
Definition state_ok (n : Z) (e : pyval * pyval * pyval) : Prop :=
  exists k, kind_of (fst (fst e)) = Some k /\ good_trans k n (snd (fst e)).

Lemma init_loop_cases : forall n l,
  (exists c, init_loop n l = Ok c /\ c <= length l) \/ exists m, init_loop n l = ValueErr m.
Proof.
  induction l as [|[[p tr] r] l IH]; simpl.
  - left. exists 0. auto.
  - assert (Skip : (exists c, init_loop n l = Ok c /\ c <= S (length l)) \/ exists m, init_loop n l = ValueErr m).
    { destruct IH as [[c [H L]]|[m H]]; [left; exists c; split; [assumption|lia]|right; eauto]. }
    destruct (truthy tr); [|assumption]. destruct (kind_of p); [|assumption].
    destruct (check_next_states_cases k n tr) as [H|[m H]]; rewrite H; simpl; [|right; eauto].
    destruct IH as [[c [Hc L]]|[m Hm]]; rewrite ?Hc, ?Hm; simpl; [left; exists (S c); split; [reflexivity|lia]|right; eauto].
Qed.

Lemma init_loop_full : forall n l, init_loop n l = Ok (length l) <-> Forall (state_ok n) l.
Proof.
  induction l as [|[[p tr] r] l IH]; simpl.
  - split; [constructor|reflexivity].
  - assert (Skip : init_loop n l = Ok (S (length l)) -> False).
    { intros H. destruct (init_loop_cases n l) as [[c [Hc L]]|[m Hm]]; rewrite H in *; [inversion Hc; lia|discriminate]. }
    assert (NotOk : forall P : Prop, ~ state_ok n (p, tr, r) -> (P -> False) -> (P <-> Forall (state_ok n) ((p, tr, r) :: l))).
    { intros P N NP. split; [intros HP; destruct (NP HP)|]. intros F. inversion F; subst. contradiction. }
    destruct (truthy tr) eqn:Et.
    + destruct (kind_of p) as [k|] eqn:Ek.
      * destruct (check_next_states_cases k n tr) as [H|[m H]]; rewrite H; simpl.
        -- destruct (init_loop_cases n l) as [[c [Hc L]]|[m Hm]]; rewrite ?Hc, ?Hm; simpl.
           ++ rewrite Hc in IH. split.
              ** intros E. inversion E; subst. constructor; [|apply IH; reflexivity].
                 exists k. simpl. split; [assumption|]. apply good_trans_spec. auto.
              ** intros F. inversion F as [|? ? _ F']; subst. apply IH in F'. inversion F'; subst. reflexivity.
           ++ rewrite Hm in IH. split; [discriminate|]. intros F. inversion F as [|? ? _ F']; subst.
              apply IH in F'. discriminate.
        -- apply NotOk; [|discriminate]. intros [k' [Hk' G]]. simpl in *. rewrite Ek in Hk'. inversion Hk'; subst.
           apply good_trans_spec in G. destruct G as [_ G]. congruence.
      * apply NotOk; [|assumption]. intros [k' [Hk' _]]. simpl in Hk'. congruence.
    + apply NotOk; [|assumption]. intros [k' [_ G]]. simpl in G. apply good_trans_spec in G. destruct G; congruence.
Qed.

(* a state that does not raise: skipped, or checked successfully *)
Definition no_raise (n : Z) (e : pyval * pyval * pyval) : Prop :=
  truthy (snd (fst e)) = false \/ kind_of (fst (fst e)) = None \/ state_ok n e.
Lemma init_loop_first_error : forall n l1 p tr r l2 k m,
  Forall (no_raise n) l1 -> truthy tr = true -> kind_of p = Some k ->
  check_next_states k n tr = ValueErr m ->
  init_loop n (l1 ++ (p, tr, r) :: l2) = ValueErr m.
Proof.
  induction l1 as [|[[p' tr'] r'] l1 IH]; intros p tr r l2 k m F Ht Hk Hc; simpl.
  - rewrite Ht, Hk, Hc. reflexivity.
  - inversion F as [|? ? G F']; subst. specialize (IH p tr r l2 k m F' Ht Hk Hc).
    destruct G as [G|[G|[k' [Hk' G]]]]; simpl in *.
    + rewrite G. assumption.
    + rewrite G. destruct (truthy tr'); assumption.
    + apply good_trans_spec in G. destruct G as [G1 G2]. rewrite G1, Hk', G2. simpl. rewrite IH. reflexivity.
Qed.

Lemma init_states_d_cases : forall d,
  init_states_d d = Ok tt \/ exists m, init_states_d d = ValueErr m.
Proof.
  intros d. unfold init_states_d.
  destruct (init_loop_cases (Z.of_nat (length (d_players d)))
              (combine (combine (d_players d) (d_trans d)) (d_rewards d))) as [[c [Hc _]]|[m Hm]].
  - rewrite Hc. simpl. destruct (c =? length (d_players d)); eauto.
  - rewrite Hm. simpl. eauto.
Qed.

Lemma init_states_d_ok : forall d,
  length (d_trans d) = length (d_players d) -> length (d_rewards d) = length (d_players d) ->
  (init_states_d d = Ok tt <->
   forall i p tr, nth_error (d_players d) i = Some p -> nth_error (d_trans d) i = Some tr ->
     exists k, p = VStr (kind_name k) /\ good_trans k (Z.of_nat (length (d_players d))) tr).
Proof.
  intros d Ht Hr. unfold init_states_d.
  set (n := Z.of_nat (length (d_players d))).
  set (z := combine (combine (d_players d) (d_trans d)) (d_rewards d)).
  assert (Lz : length z = length (d_players d)).
  { unfold z. rewrite !combine_length. lia. }
  assert (Full : init_loop n z = Ok (length z) <->
                 forall i p tr, nth_error (d_players d) i = Some p -> nth_error (d_trans d) i = Some tr ->
                   exists k, p = VStr (kind_name k) /\ good_trans k n tr).
  { rewrite init_loop_full. unfold z.
    rewrite <- (Forall_zip3 (fun p tr => exists k, p = VStr (kind_name k) /\ good_trans k n tr)
                  (d_players d) (d_trans d) (d_rewards d) Ht Hr).
    rewrite !Forall_forall.
    split; intros H [[p tr] r] Hin; specialize (H _ Hin); unfold state_ok in *; simpl in *;
      destruct H as [k [A B]]; exists k; (split; [|assumption]).
    - apply (proj1 (kind_of_spec _ _)). assumption.
    - apply (proj2 (kind_of_spec _ _)). assumption. }
  rewrite <- Full.
  destruct (init_loop_cases n z) as [[c [Hc L]]|[m Hm]].
  - rewrite Hc. simpl. rewrite <- Lz. destruct (c =? length z) eqn:E.
    + apply Nat.eqb_eq in E. subst c. split; reflexivity.
    + apply Nat.eqb_neq in E. split; [discriminate|]. intros H. inversion H. contradiction.
  - rewrite Hm. simpl. split; discriminate.
Qed.

(** * check_game *)
Definition numd (v : pyval) : pyfloat := match num_of v with Some a => a | None => FNaN end.
Lemma nums_of_map : forall l rs, nums_of l = Some rs ->
  rs = map numd l /\ forall v, In v l -> num_of v = Some (numd v).
Proof.
  induction l as [|v l IH]; intros rs H; simpl in H.
  - inversion H. split; [reflexivity|intros ? []].
  - destruct (num_of v) as [a|] eqn:E; [|discriminate]. destruct (nums_of l) as [r|] eqn:E2; [|discriminate].
    inversion H; subst. destruct (IH r eq_refl) as [A B]. split.
    + simpl. unfold numd at 1. rewrite E. congruence.
    + intros w [Hw|Hw]; [subst; unfold numd; rewrite E; reflexivity|auto].
Qed.

(* the whole-game part of the documented rules *)
Definition CG (d : desc) : Prop :=
  let n := length (d_players d) in
  length (d_trans d) = n /\
  length (d_rewards d) = n /\
  (forall i r, nth_error (d_rewards d) i = Some r -> exists a, num_of r = Some a /\ nonneg a) /\
  (forall i p, nth_error (d_players d) i = Some p -> exists k, p = VStr (kind_name k)) /\
  d_finals d <> [] /\
  (forall j f, nth_error (d_finals d) j = Some f -> (0 <= f < Z.of_nat n)%Z).

Lemma check_game_d_cases : forall d,
  check_game_d d = Ok tt \/ (exists m, check_game_d d = ValueErr m) \/
  (check_game_d d = Crash exc_type_error /\ exists r, In r (d_rewards d) /\ num_of r = None).
Proof.
  intros d. unfold check_game_d.
  destruct (length (d_trans d) =? length (d_players d)); simpl; [|eauto].
  destruct (length (d_rewards d) =? length (d_players d)); simpl; [|eauto].
  destruct (nums_of (d_rewards d)) as [rs|] eqn:E.
  - destruct (py_min rs); [|eauto]. destruct (num_ltb p num_zero); [eauto|].
    destruct (zmax (d_finals d)); [|eauto]. destruct (zmin (d_finals d)); [|eauto].
    destruct ((Z.of_nat (length (d_players d)) <=? z)%Z || (z0 <? 0)%Z); [eauto|].
    destruct (forallb known_player (d_players d)); eauto.
  - right. right. split; [reflexivity|]. apply nums_of_none. assumption.
Qed.

Lemma check_game_d_lens : forall d, check_game_d d = Ok tt ->
  length (d_trans d) = length (d_players d) /\ length (d_rewards d) = length (d_players d).
Proof.
  intros d. unfold check_game_d.
  destruct (length (d_trans d) =? length (d_players d)) eqn:E1; simpl; [|discriminate].
  destruct (length (d_rewards d) =? length (d_players d)) eqn:E2; simpl; [|discriminate].
  intros _. split; apply Nat.eqb_eq; assumption.
Qed.

Lemma not_outside_numbers : forall d, ~ outside_universe d ->
  forall r, In r (d_rewards d) -> exists a, num_of r = Some a /\ is_nan a = false.
Proof.
  intros d H r Hr. destruct (num_of r) as [a|] eqn:E.
  - exists a. split; [reflexivity|]. destruct a; try reflexivity. exfalso. apply H. exists r. auto.
  - exfalso. apply H. exists r. auto.
Qed.

Lemma check_game_d_ok : forall d, ~ outside_universe d -> (check_game_d d = Ok tt <-> CG d).
Proof.
  intros d Hu. pose proof (not_outside_numbers d Hu) as Hnum. unfold CG. split.
  - intros H. destruct (check_game_d_lens d H) as [L1 L2]. revert H. unfold check_game_d.
    rewrite L1, L2, !Nat.eqb_refl. simpl.
    destruct (nums_of (d_rewards d)) as [rs|] eqn:E; [|discriminate].
    destruct (nums_of_map _ _ E) as [Hrs Hv]. subst rs.
    destruct (py_min (map numd (d_rewards d))) as [m|] eqn:Em; [|discriminate].
    destruct (num_ltb m num_zero) eqn:Eneg; [discriminate|].
    destruct (zmax (d_finals d)) as [mx|] eqn:Emx; [|discriminate].
    destruct (zmin (d_finals d)) as [mn|] eqn:Emn; [|discriminate].
    destruct ((Z.of_nat (length (d_players d)) <=? mx)%Z || (mn <? 0)%Z) eqn:Er; [discriminate|].
    destruct (forallb known_player (d_players d)) eqn:Ep; [|discriminate]. intros _.
    split; [auto|]. split; [auto|].
    assert (NN : forall r, In r (d_rewards d) -> negative (numd r) = false).
    { destruct (d_rewards d) as [|r0 rest] eqn:Erw; [intros ? []|]. simpl in Em. inversion Em; subst m. clear Em.
      assert (Nall : Forall (fun a => is_nan a = false) (map numd rest)).
      { apply Forall_forall. intros a Ha. apply in_map_iff in Ha. destruct Ha as [v [Ha Hin]]. subst a.
        destruct (Hnum v (or_intror Hin)) as [a [A B]]. unfold numd. rewrite A. assumption. }
      assert (N0 : is_nan (numd r0) = false).
      { destruct (Hnum r0 (or_introl eq_refl)) as [a [A B]]. unfold numd. rewrite A. assumption. }
      pose proof (min_from_negative (map numd rest) (numd r0) N0 Nall) as MF. unfold negative in MF at 1.
      intros r [Hr|Hr]; destruct (negative (numd r)) eqn:En; try reflexivity; exfalso.
      - subst r. assert (X : num_ltb (min_from (numd r0) (map numd rest)) num_zero = true) by (apply MF; auto).
        congruence.
      - assert (X : num_ltb (min_from (numd r0) (map numd rest)) num_zero = true).
        { apply MF. right. exists (numd r). split; [apply in_map; assumption|assumption]. }
        congruence. }
    split.
    { intros i r Hr. apply nth_error_In in Hr. exists (numd r). split; [auto|].
      destruct (Hnum r Hr) as [a [A B]]. apply nonneg_iff; [unfold numd; rewrite A; assumption|auto]. }
    split.
    { intros i p Hp. apply nth_error_In in Hp. apply known_player_spec.
      rewrite forallb_forall in Ep. auto. }
    assert (Fne : d_finals d <> []). { intros X. rewrite X in Emx. discriminate. }
    split; [assumption|].
    destruct (finals_test (d_finals d) (Z.of_nat (length (d_players d))) Fne) as [mx' [mn' [A [B C]]]].
    rewrite Emx in A. rewrite Emn in B. inversion A; inversion B; subst.
    intros j f Hf. apply nth_error_In in Hf. apply C; assumption.
  - intros [L1 [L2 [Hrw [Hpl [Fne Hfin]]]]]. unfold check_game_d.
    rewrite L1, L2, !Nat.eqb_refl. simpl.
    destruct (nums_of_total (d_rewards d)) as [rs E].
    { intros v Hv. apply In_nth_error in Hv. destruct Hv as [i Hi]. destruct (Hrw i v Hi) as [a [A _]]. eauto. }
    rewrite E. destruct (nums_of_map _ _ E) as [Hrs Hv]. subst rs.
    assert (Hnn : forall r, In r (d_rewards d) -> nonneg (numd r)).
    { intros r Hr. apply In_nth_error in Hr. destruct Hr as [i Hi]. destruct (Hrw i r Hi) as [a [A B]].
      unfold numd. rewrite A. assumption. }
    (* some final state exists and is an index, so there is at least one state *)
    destruct (d_finals d) as [|f0 fs] eqn:Ef; [congruence|].
    assert (Hpos : (0 < length (d_players d))%nat).
    { specialize (Hfin 0%nat f0 eq_refl). lia. }
    destruct (d_rewards d) as [|r0 rest] eqn:Erw; [simpl in L2; lia|].
    simpl py_min. cbv iota.
    assert (Nall : Forall (fun a => is_nan a = false) (map numd rest)).
    { apply Forall_forall. intros a Ha. apply in_map_iff in Ha. destruct Ha as [v [Ha Hin]]. subst a.
      apply nonneg_not_nan. apply Hnn. right. assumption. }
    assert (N0 : is_nan (numd r0) = false) by (apply nonneg_not_nan, Hnn; left; reflexivity).
    destruct (num_ltb (min_from (numd r0) (map numd rest)) num_zero) eqn:Eneg.
    { exfalso. apply (min_from_negative _ _ N0 Nall) in Eneg.
      destruct Eneg as [X|[x [Hx X]]].
      - apply nonneg_iff in N0. assert (Y : negative (numd r0) = false) by (apply N0, Hnn; left; reflexivity). congruence.
      - apply in_map_iff in Hx. destruct Hx as [v [Hx Hin]]. subst x.
        assert (Y : negative (numd v) = false).
        { apply nonneg_iff; [apply nonneg_not_nan|]; apply Hnn; right; assumption. }
        congruence. }
    rewrite <- Ef in *.
    destruct (finals_test (d_finals d) (Z.of_nat (length (d_players d))) Fne) as [mx [mn [A [B C]]]].
    rewrite A, B.
    replace ((Z.of_nat (length (d_players d)) <=? mx)%Z || (mn <? 0)%Z) with false.
    2:{ symmetry. apply C. intros f Hf. apply In_nth_error in Hf. destruct Hf as [j Hj]. eauto. }
    replace (forallb known_player (d_players d)) with true; [reflexivity|].
    symmetry. apply forallb_forall. intros p Hp. apply known_player_spec.
    apply In_nth_error in Hp. destruct Hp as [i Hi]. eauto.
Qed.

(** * validate *)
Lemma wf_not_outside : forall d, WFdoc d -> ~ outside_universe d.
Proof.
  intros d [_ [_ [Hrw _]]] [r [Hr Hbad]]. apply In_nth_error in Hr. destruct Hr as [i Hi].
  destruct (Hrw i r Hi) as [a [A B]]. destruct Hbad as [X|X]; rewrite X in A; [discriminate|].
  inversion A; subst. exact B.
Qed.

Lemma WFdoc_split : forall d, WFdoc d <->
  CG d /\ forall i p tr, nth_error (d_players d) i = Some p -> nth_error (d_trans d) i = Some tr ->
     exists k, p = VStr (kind_name k) /\ good_trans k (Z.of_nat (length (d_players d))) tr.
Proof. intros d. unfold WFdoc, CG. tauto. Qed.

Theorem validate_ok_iff : forall d, ~ outside_universe d -> (validate d = Ok tt <-> WFdoc d).
Proof.
  intros d Hu. rewrite WFdoc_split. unfold validate. split.
  - destruct (check_game_d d) as [[]| | |] eqn:E; simpl; try discriminate. intros H.
    destruct (check_game_d_lens d E) as [L1 L2].
    split; [apply check_game_d_ok; assumption|]. apply init_states_d_ok; assumption.
  - intros [H1 H2]. pose proof H1 as [L1 [L2 _]].
    apply (check_game_d_ok d Hu) in H1. rewrite H1. simpl. apply init_states_d_ok; assumption.
Qed.

Theorem validate_accepts : forall d, WFdoc d -> validate d = Ok tt.
Proof. intros d H. apply validate_ok_iff; [apply wf_not_outside|]; assumption. Qed.

Lemma validate_cases : forall d,
  validate d = Ok tt \/ (exists m, validate d = ValueErr m) \/
  (validate d = Crash exc_type_error /\ exists r, In r (d_rewards d) /\ num_of r = None).
Proof.
  intros d. unfold validate.
  destruct (check_game_d_cases d) as [H|[[m H]|[H X]]]; rewrite H; simpl; eauto.
  destruct (init_states_d_cases d) as [G|[m G]]; rewrite G; eauto.
Qed.

Lemma outside_dec : forall d, outside_universe d \/ ~ outside_universe d.
Proof.
  intros d.
  destruct (existsb (fun r => match num_of r with None => true | Some a => is_nan a end) (d_rewards d)) eqn:E.
  - left. apply existsb_exists in E. destruct E as [r [Hr Hb]]. exists r. split; [assumption|].
    destruct (num_of r) as [a|]; [right|left; reflexivity]. destruct a; try discriminate. reflexivity.
  - right. intros [r [Hr Hb]].
    assert (X : existsb (fun r => match num_of r with None => true | Some a => is_nan a end) (d_rewards d) = true).
    { apply existsb_exists. exists r. split; [assumption|]. destruct Hb as [Hb|Hb]; rewrite Hb; reflexivity. }
    congruence.
Qed.

Theorem validate_rejects : forall d, ~ WFdoc d ->
  (exists m, validate d = ValueErr m) \/ outside_universe d.
Proof.
  intros d Hn. destruct (outside_dec d) as [Ho|Ho]; [auto|]. left.
  destruct (validate_cases d) as [H|[H|[_ [r [Hr Hx]]]]].
  - exfalso. apply Hn. apply validate_ok_iff; assumption.
  - assumption.
  - exfalso. apply Ho. exists r. auto.
Qed.

Theorem validate_crash_outside : forall d w, validate d = Crash w ->
  w = exc_type_error /\ exists r, In r (d_rewards d) /\ num_of r = None.
Proof.
  intros d w H. destruct (validate_cases d) as [G|[[m G]|[G X]]]; rewrite G in H; try discriminate.
  inversion H. auto.
Qed.

Theorem validate_never_out_of_fuel : forall d, validate d <> OutOfFuel.
Proof.
  intros d H. destruct (validate_cases d) as [G|[[m G]|[G X]]]; rewrite G in H; discriminate.
Qed.

(* nothing after validation runs on a malformed description, whatever it is *)
Theorem reject_is_valueerror : forall d, ~ outside_universe d -> ~ WFdoc d ->
  exists m, validate d = ValueErr m /\
    forall R (rest : desc -> outcome R), solve_with rest d = ValueErr m.
Proof.
  intros d Ho Hn. destruct (validate_rejects d Hn) as [[m H]|H]; [|contradiction].
  exists m. split; [assumption|]. intros R rest. unfold solve_with. rewrite H. reflexivity.
Qed.

(* Solver.solve_reachability's own test [if not final_states] can never fire from solve():
   check_game has already raised (max([])) *)
Theorem validated_has_final : forall d, validate d = Ok tt -> d_finals d <> [].
Proof.
  intros d H E. unfold validate in H. destruct (check_game_d d) as [[]| | |] eqn:G; try discriminate.
  clear H. unfold check_game_d in G. rewrite E in G. simpl in G.
  destruct (negb (length (d_trans d) =? length (d_players d))); [discriminate|].
  destruct (negb (length (d_rewards d) =? length (d_players d))); [discriminate|].
  destruct (nums_of (d_rewards d)); [|discriminate]. destruct (py_min l); [|discriminate].
  destruct (num_ltb p num_zero); discriminate.
Qed.

(** * The batch record *)
Theorem batch_records : forall d, ~ outside_universe d -> ~ WFdoc d ->
  exists m, validate d = ValueErr m /\
    forall A (rest : bool -> desc -> outcome A),
      batch_msg (solve_with (rest true) d) = String.append msg_err_prefix m /\
      run_entry (fun p => solve_with (rest p) d) d
        = Ok (n_transitions d, (String.append msg_err_prefix m, msg_not_solved)).
Proof.
  intros d Ho Hn. destruct (reject_is_valueerror d Ho Hn) as [m [H1 H2]]. exists m. split; [assumption|].
  intros A rest. unfold run_entry, run_pair, batch_msg, batch_record. rewrite !H2. simpl. auto.
Qed.

(* ... and the batch goes on: the remaining games are run exactly as they would be alone *)
Theorem batch_continues : forall d, ~ outside_universe d -> ~ WFdoc d ->
  exists m, validate d = ValueErr m /\
    forall A (rest : bool -> desc -> outcome A) ds,
      run_batch (fun d p => solve_with (rest p) d) (d :: ds) =
      do rs <- run_batch (fun d p => solve_with (rest p) d) ds;
      Ok ((n_transitions d, (String.append msg_err_prefix m, msg_not_solved)) :: rs).
Proof.
  intros d Ho Hn. destruct (batch_records d Ho Hn) as [m [H1 H2]]. exists m. split; [assumption|].
  intros A rest ds. simpl. destruct (H2 A rest) as [_ E]. rewrite E. reflexivity.
Qed.

(* the pinned tree (before commit bb189d4) let the TypeError of count_transitions escape *)
Definition unsized_witness : desc := mkD [VInt 0] [VStr s_pr] [VNone] [0%Z].
Theorem batch_unsized_orig_refuted :
  ~ WFdoc unsized_witness /\ ~ outside_universe unsized_witness /\
  validate unsized_witness = ValueErr msg_missing /\
  (forall A (solve : bool -> outcome A), run_entry_orig solve unsized_witness = Crash exc_type_error) /\
  (forall A (rest : bool -> desc -> outcome A),
     run_entry (fun p => solve_with (rest p) unsized_witness) unsized_witness
     = Ok (0, (String.append msg_err_prefix msg_missing, msg_not_solved))).
Proof.
  assert (V : validate unsized_witness = ValueErr msg_missing) by (vm_compute; reflexivity).
  assert (O : ~ outside_universe unsized_witness).
  { intros [r [[Hr|[]] [X|X]]]; subst r; discriminate. }
  split.
  { intros W. apply validate_accepts in W. rewrite V in W. discriminate. }
  split; [exact O|]. split; [exact V|]. split.
  - intros A solve. reflexivity.
  - intros A rest. unfold run_entry, run_pair, solve_with. rewrite V. reflexivity.
Qed.

(** * First error: position (state i, transition j) *)
Lemma zip3_split : forall {A B C} (a : list A) (b : list B) (c : list C) i x y,
  length b = length a -> length c = length a -> nth_error a i = Some x -> nth_error b i = Some y ->
  exists l1 z l2, combine (combine a b) c = l1 ++ (x, y, z) :: l2 /\
    (forall e, In e l1 -> exists i', i' < i /\ nth_error a i' = Some (fst (fst e)) /\
                                     nth_error b i' = Some (snd (fst e))).
Proof.
  induction a as [|x0 a IH]; intros [|y0 b] [|z0 c] i x y Hb Hc Hx Hy; simpl in *; try discriminate.
  - destruct i; discriminate.
  - destruct i as [|i]; simpl in *.
    + inversion Hx; inversion Hy; subst. exists [], z0, (combine (combine a b) c).
      split; [reflexivity|intros ? []].
    + destruct (IH b c i x y) as [l1 [z [l2 [E H]]]]; try lia; try assumption.
      exists ((x0, y0, z0) :: l1), z, l2. split; [simpl; rewrite E; reflexivity|].
      intros e [He|He].
      * subst e. exists 0. simpl. split; [lia|auto].
      * destruct (H e He) as [i' [L [A1 B1]]]. exists (S i'). simpl. split; [lia|auto].
Qed.

(* If the whole-game checks pass, every state before i is well-formed, and in state i every
   transition before j is well-formed, then the error of transition j of state i is THE error. *)
Theorem validate_first_error : forall d i p k l j t m,
  check_game_d d = Ok tt ->
  (forall i' p' tr', i' < i -> nth_error (d_players d) i' = Some p' -> nth_error (d_trans d) i' = Some tr' ->
     exists k', p' = VStr (kind_name k') /\ good_trans k' (Z.of_nat (length (d_players d))) tr') ->
  nth_error (d_players d) i = Some p -> p = VStr (kind_name k) ->
  nth_error (d_trans d) i = Some (VList l) ->
  (forall j' t', j' < j -> nth_error l j' = Some t' -> good_tuple k (Z.of_nat (length (d_players d))) t') ->
  nth_error l j = Some t ->
  check_tuple k (Z.of_nat (length (d_players d))) t = ValueErr m ->
  validate d = ValueErr m.
Proof.
  intros d i p k l j t m Hcg Hbefore Hp Hk Htr Hjbefore Hj Hct.
  destruct (check_game_d_lens d Hcg) as [L1 L2].
  unfold validate. rewrite Hcg. simpl. unfold init_states_d.
  destruct (zip3_split (d_players d) (d_trans d) (d_rewards d) i p (VList l) L1 L2 Hp Htr)
    as [l1 [z [l2 [E H1]]]].
  rewrite E.
  destruct (nth_error_split l j Hj) as [la [lb [El Hla]]].
  rewrite (init_loop_first_error _ l1 p (VList l) z l2 k m); [reflexivity| | | |].
  - apply Forall_forall. intros [[p' tr'] r'] He. right. right.
    destruct (H1 _ He) as [i' [Li [A B]]]. simpl in *.
    destruct (Hbefore i' p' tr' Li A B) as [k' [Hk' G]]. exists k'. simpl.
    split; [apply kind_of_spec; assumption|assumption].
  - simpl. destruct l; [destruct j; discriminate|reflexivity].
  - apply kind_of_spec. assumption.
  - simpl. rewrite El. apply check_tuples_first_error; [|assumption].
    apply Forall_forall. intros t' Ht'. apply In_nth_error in Ht'. destruct Ht' as [j' Hj'].
    assert (Lj : j' < length la) by (apply nth_error_Some; congruence).
    apply (Hjbefore j'); [lia|]. rewrite El. rewrite nth_error_app1; assumption.
Qed.

(* the same for an error of the transitions value itself (not a list) *)
Theorem validate_first_error_not_list : forall d i p k tr,
  check_game_d d = Ok tt ->
  (forall i' p' tr', i' < i -> nth_error (d_players d) i' = Some p' -> nth_error (d_trans d) i' = Some tr' ->
     exists k', p' = VStr (kind_name k') /\ good_trans k' (Z.of_nat (length (d_players d))) tr') ->
  nth_error (d_players d) i = Some p -> p = VStr (kind_name k) ->
  nth_error (d_trans d) i = Some tr -> truthy tr = true -> is_list tr = false ->
  validate d = ValueErr msg_not_list.
Proof.
  intros d i p k tr Hcg Hbefore Hp Hk Htr Ht Hl.
  destruct (check_game_d_lens d Hcg) as [L1 L2].
  unfold validate. rewrite Hcg. simpl. unfold init_states_d.
  destruct (zip3_split (d_players d) (d_trans d) (d_rewards d) i p tr L1 L2 Hp Htr)
    as [l1 [z [l2 [E H1]]]].
  rewrite E.
  rewrite (init_loop_first_error _ l1 p tr z l2 k msg_not_list); [reflexivity| | | |].
  - apply Forall_forall. intros [[p' tr'] r'] He. right. right.
    destruct (H1 _ He) as [i' [Li [A B]]]. simpl in *.
    destruct (Hbefore i' p' tr' Li A B) as [k' [Hk' G]]. exists k'. simpl.
    split; [apply kind_of_spec; assumption|assumption].
  - assumption.
  - apply kind_of_spec. assumption.
  - destruct tr; simpl in *; try reflexivity. discriminate.
Qed.

Lemma init_loop_no_raise : forall n l, Forall (no_raise n) l -> exists c, init_loop n l = Ok c.
Proof.
  induction l as [|[[p tr] r] l IH]; intros F; simpl; [eauto|].
  inversion F as [|? ? G F']; subst. destruct (IH F') as [c Hc].
  destruct G as [G|[G|[k [Hk G]]]]; simpl in *.
  - rewrite G. eauto.
  - rewrite G. destruct (truthy tr); eauto.
  - apply good_trans_spec in G. destruct G as [G1 G2]. rewrite G1, Hk, G2, Hc. simpl. eauto.
Qed.

(* a state without transitions (any falsy value: [], (), None, 0, 0.0, "", False) in a description
   whose other states are well-formed *)
Theorem validate_missing : forall d i tr,
  check_game_d d = Ok tt ->
  (forall i' p' tr', i' <> i -> nth_error (d_players d) i' = Some p' -> nth_error (d_trans d) i' = Some tr' ->
     exists k', p' = VStr (kind_name k') /\ good_trans k' (Z.of_nat (length (d_players d))) tr') ->
  nth_error (d_trans d) i = Some tr -> truthy tr = false ->
  validate d = ValueErr msg_missing.
Proof.
  intros d i tr Hcg Hother Htr Ht.
  destruct (check_game_d_lens d Hcg) as [L1 L2].
  unfold validate. rewrite Hcg. simpl. unfold init_states_d.
  set (n := Z.of_nat (length (d_players d))) in *.
  set (z := combine (combine (d_players d) (d_trans d)) (d_rewards d)).
  assert (Lz : length z = length (d_players d)) by (unfold z; rewrite !combine_length; lia).
  assert (NR : Forall (no_raise n) z).
  { unfold z.
    apply (proj2 (Forall_zip3 (fun p' tr' => truthy tr' = false \/ kind_of p' = None \/
                                 exists k', kind_of p' = Some k' /\ good_trans k' n tr')
                    (d_players d) (d_trans d) (d_rewards d) L1 L2)).
    intros i' p' tr' A B. destruct (Nat.eq_dec i' i) as [e|ne].
    - subst i'. rewrite Htr in B. inversion B; subst. left. assumption.
    - right. right. destruct (Hother i' p' tr' ne A B) as [k' [Hk' G]]. exists k'.
      split; [apply kind_of_spec; assumption|assumption]. }
  destruct (init_loop_no_raise n z NR) as [c Hc]. rewrite Hc. simpl.
  destruct (c =? length (d_players d)) eqn:E; [|reflexivity]. exfalso.
  apply Nat.eqb_eq in E. rewrite <- Lz in E. subst c.
  apply init_loop_full in Hc. unfold z in Hc.
  apply (proj1 (Forall_zip3 (fun p' tr' => exists k, kind_of p' = Some k /\ good_trans k n tr')
                  (d_players d) (d_trans d) (d_rewards d) L1 L2)) with (i := i) (y := tr) (x := nth i (d_players d) VNone) in Hc.
  - destruct Hc as [k [_ G]]. apply good_trans_spec in G. destruct G. congruence.
  - apply nth_error_nth'. rewrite <- L1. apply nth_error_Some. congruence.
  - assumption.
Qed.

(** * Boundary values in one transition tuple *)
Definition slot0_ok (k : kind) (x : pyval) : Prop :=
  match k with PR => is_number x = true | _ => is_str x = true end.

Lemma check_tuple_slot0 : forall k n x s, slot0_ok k x ->
  check_tuple k n (VTuple [x; s]) =
  match int_val s with
  | None => ValueErr msg_ns_int
  | Some z => if (z <? 0)%Z || (n <=? z)%Z then ValueErr msg_ns_range else Ok tt
  end.
Proof. intros k n x s H. unfold check_tuple. destruct k; simpl in H; rewrite H; reflexivity. Qed.

Lemma check_tuple_out_of_range : forall k n x s z, slot0_ok k x -> int_val s = Some z ->
  (z < 0 \/ n <= z)%Z -> check_tuple k n (VTuple [x; s]) = ValueErr msg_ns_range.
Proof.
  intros k n x s z H0 Hs Hz. rewrite check_tuple_slot0 by assumption. rewrite Hs.
  replace ((z <? 0)%Z || (n <=? z)%Z) with true; [reflexivity|].
  symmetry. apply orb_true_iff. destruct Hz; [left; apply Z.ltb_lt|right; apply Z.leb_le]; assumption.
Qed.
Lemma check_tuple_in_range : forall k n x s z, slot0_ok k x -> int_val s = Some z ->
  (0 <= z < n)%Z -> check_tuple k n (VTuple [x; s]) = Ok tt.
Proof.
  intros k n x s z H0 Hs Hz. apply check_tuple_ok. exists x, s, z. repeat split; try assumption; try lia.
Qed.
(* a float successor is not an int, whatever its value (1.0 included) *)
Lemma check_tuple_float_successor : forall k n x f, slot0_ok k x ->
  check_tuple k n (VTuple [x; VFloat f]) = ValueErr msg_ns_int.
Proof. intros. rewrite check_tuple_slot0 by assumption. reflexivity. Qed.
(* bool is int: True / False as successor are the indices 1 / 0 *)
Lemma check_tuple_bool_successor : forall k n x b,
  check_tuple k n (VTuple [x; VBool b]) = check_tuple k n (VTuple [x; VInt (bool_z b)]).
Proof. reflexivity. Qed.
(* bool is a number: True / False as probability are accepted like 1 / 0 *)
Lemma check_tuple_bool_probability : forall n b s,
  check_tuple PR n (VTuple [VBool b; s]) = check_tuple PR n (VTuple [VInt (bool_z b); s]).
Proof. reflexivity. Qed.
(* ... but not a str *)
Lemma check_tuple_nonstr_action : forall k n x s, k <> PR -> is_str x = false ->
  check_tuple k n (VTuple [x; s]) = ValueErr msg_act_str.
Proof. intros k n x s Hk Hx. unfold check_tuple. destruct k; try congruence; rewrite Hx; reflexivity. Qed.
Lemma check_tuple_nonnumber_probability : forall n x s, is_number x = false ->
  check_tuple PR n (VTuple [x; s]) = ValueErr msg_prob_num.
Proof. intros n x s Hx. unfold check_tuple. rewrite Hx. reflexivity. Qed.

(* for examples: the universe test as a computation *)
Definition outside_b (d : desc) : bool :=
  existsb (fun r => match num_of r with None => true | Some a => is_nan a end) (d_rewards d).
Lemma outside_b_false : forall d, outside_b d = false -> ~ outside_universe d.
Proof.
  intros d E [r [Hr Hb]].
  assert (X : outside_b d = true).
  { apply existsb_exists. exists r. split; [assumption|]. destruct Hb as [Hb|Hb]; rewrite Hb; reflexivity. }
  congruence.
Qed.

(** * Link to the typed solver model (Model/Game.v, instance Q) *)
Lemma opt_map_Forall2 : forall {A B} (f : A -> option B) l r,
  opt_map f l = Some r -> Forall2 (fun a b => f a = Some b) l r.
Proof.
  induction l as [|a l IH]; intros r H; simpl in H.
  - inversion H. constructor.
  - destruct (f a) eqn:E; [|discriminate]. destruct (opt_map f l) eqn:E2; [|discriminate].
    inversion H; subst. constructor; auto.
Qed.
Lemma Forall2_length : forall {A B} (R : A -> B -> Prop) l l', Forall2 R l l' -> length l = length l'.
Proof. intros A B R l l' F. induction F; simpl; congruence. Qed.
Lemma Forall2_nth_r : forall {A B} (R : A -> B -> Prop) l l' i b,
  Forall2 R l l' -> nth_error l' i = Some b -> exists a, nth_error l i = Some a /\ R a b.
Proof.
  intros A B R l l' i b F. revert i. induction F as [|a b' l l' H F IH]; intros i Hi.
  - destruct i; discriminate.
  - destruct i as [|i]; simpl in *; [inversion Hi; subst; eauto|auto].
Qed.
Lemma Forall2_In_r : forall {A B} (R : A -> B -> Prop) l l' b,
  Forall2 R l l' -> In b l' -> exists a, In a l /\ R a b.
Proof.
  intros A B R l l' b F Hb. apply In_nth_error in Hb. destruct Hb as [i Hi].
  destruct (Forall2_nth_r R l l' i b F Hi) as [a [Ha Hr]]. exists a. split; [eapply nth_error_In; eassumption|assumption].
Qed.
Lemma In_combine_nth : forall {A B} (a : list A) (b : list B) x y,
  In (x, y) (combine a b) -> exists i, nth_error a i = Some x /\ nth_error b i = Some y.
Proof.
  induction a as [|x0 a IH]; intros [|y0 b] x y H; simpl in H; try contradiction.
  destruct H as [H|H].
  - inversion H; subst. exists 0. auto.
  - destruct (IH b x y H) as [i [A1 B1]]. exists (S i). auto.
Qed.

Lemma typed_tuple_dst : forall k n tup t,
  good_tuple k (Z.of_nat n) tup -> typed_tuple k tup = Some t -> dst t < n.
Proof.
  intros k n tup t [x [s [z [Ht [_ [Hs Hz]]]]]] H. subst tup. simpl in H. rewrite Hs in H.
  unfold nat_of_z in H. replace (z <? 0)%Z with false in H by (symmetry; apply Z.ltb_ge; lia).
  destruct k.
  - destruct x; try discriminate. inversion H. simpl. lia.
  - destruct x; try discriminate. inversion H. simpl. lia.
  - destruct (q_of x); [|discriminate]. inversion H. simpl. lia.
Qed.

Lemma typed_row_ok : forall k n tr row,
  good_trans k (Z.of_nat n) tr -> typed_row (k, tr) = Some row ->
  row <> [] /\ existsb (fun t => n <=? dst t) row = false.
Proof.
  intros k n tr row [l [Ht [Hne Hall]]] H. subst tr. unfold typed_row in H. simpl in H.
  apply opt_map_Forall2 in H. split.
  - intros E. subst row. apply Forall2_length in H. destruct l; [congruence|discriminate].
  - destruct (existsb (fun t => n <=? dst t) row) eqn:E; [|reflexivity]. exfalso.
    apply existsb_exists in E. destruct E as [t [Hin Hle]]. apply Nat.leb_le in Hle.
    destruct (Forall2_In_r _ _ _ _ H Hin) as [tup [Htup Hty]].
    apply In_nth_error in Htup. destruct Htup as [j Hj].
    pose proof (typed_tuple_dst k n tup t (Hall j tup Hj) Hty). lia.
Qed.

Lemma init_states_from_ok : forall n fs (l : list (kind * list (trans (T:=Q)) * Q)) idx,
  Forall (fun e => snd (fst e) <> [] /\ existsb (fun t => n <=? dst t) (snd (fst e)) = false) l ->
  exists sl, init_states_from qops n idx fs l = Ok sl /\ length sl = length l.
Proof.
  induction l as [|[[k row] r] l IH]; intros idx F; simpl.
  - exists []. auto.
  - inversion F as [|? ? [Hne Hb] F']; subst. simpl in Hne, Hb.
    destruct row as [|t0 row]; [congruence|]. rewrite Hb.
    destruct (IH (S idx) F') as [sl [E L]]. rewrite E. simpl. eexists. split; [reflexivity|]. simpl. congruence.
Qed.

Theorem validate_typed_ok : forall d g, validate d = Ok tt -> to_typed d = Some g ->
  check_game qops g = Ok tt /\ exists sl, init_states qops g = Ok sl /\ length sl = length (d_players d).
Proof.
  intros d g Hv Ht. unfold to_typed in Ht.
  destruct (opt_map q_of (d_rewards d)) as [rs|] eqn:Ers; [|discriminate].
  destruct (opt_map kind_of (d_players d)) as [ks|] eqn:Eks; [|discriminate].
  destruct (opt_map nat_of_z (d_finals d)) as [fs|] eqn:Efs; [|discriminate].
  destruct (opt_map typed_row (combine ks (d_trans d))) as [rows|] eqn:Erows; [|discriminate].
  inversion Ht; subst g. clear Ht.
  apply opt_map_Forall2 in Ers, Eks, Efs, Erows.
  assert (Ho : ~ outside_universe d).
  { intros [r [Hr Hbad]]. apply In_nth_error in Hr. destruct Hr as [i Hi].
    assert (exists q, q_of r = Some q) as [q Hq].
    { clear - Ers Hi. revert i Hi. induction Ers as [|a b l l' H F IH]; intros i Hi; [destruct i; discriminate|].
      destruct i; simpl in Hi; [inversion Hi; subst; eauto|eauto]. }
    unfold q_of in Hq. destruct Hbad as [X|X]; rewrite X in Hq; discriminate. }
  pose proof (proj1 (validate_ok_iff d Ho) Hv) as [L1 [L2 [Hrw [Hpl [Fne [Hfin Hst]]]]]].
  set (n := length (d_players d)) in *.
  assert (Lks : length ks = n) by (symmetry; apply (Forall2_length _ _ _ Eks)).
  assert (Lrs : length rs = n) by (rewrite <- (Forall2_length _ _ _ Ers); assumption).
  assert (Lrows : length rows = n).
  { rewrite <- (Forall2_length _ _ _ Erows). rewrite combine_length. lia. }
  assert (Lfs : length fs = length (d_finals d)) by (symmetry; apply (Forall2_length _ _ _ Efs)).
  assert (Hpos : 0 < n).
  { destruct (d_finals d) as [|f0 ?] eqn:Ef; [congruence|]. specialize (Hfin 0 f0 eq_refl). lia. }
  assert (Hrs : existsb (fun r => ltb qops r (zero qops)) rs = false).
  { destruct (existsb (fun r => ltb qops r (zero qops)) rs) eqn:E; [|reflexivity]. exfalso.
    apply existsb_exists in E. destruct E as [q [Hq Hlt]].
    destruct (Forall2_In_r _ _ _ _ Ers Hq) as [r [Hr Hqr]].
    apply In_nth_error in Hr. destruct Hr as [i Hi]. destruct (Hrw i r Hi) as [a [A B]].
    unfold q_of in Hqr. rewrite A in Hqr. destruct a; try discriminate. inversion Hqr; subst q0.
    simpl in B, Hlt. unfold qltb in Hlt. apply negb_true_iff in Hlt.
    apply Qle_bool_iff in B. congruence. }
  assert (Hfs : existsb (fun f => n <=? f) fs = false).
  { destruct (existsb (fun f => n <=? f) fs) eqn:E; [|reflexivity]. exfalso.
    apply existsb_exists in E. destruct E as [f [Hf Hle]]. apply Nat.leb_le in Hle.
    destruct (Forall2_In_r _ _ _ _ Efs Hf) as [z [Hz Hzf]].
    apply In_nth_error in Hz. destruct Hz as [j Hj]. specialize (Hfin j z Hj).
    unfold nat_of_z in Hzf. destruct (z <? 0)%Z; [discriminate|]. inversion Hzf. lia. }
  split.
  - unfold check_game. cbn [g_players g_trans g_rewards g_finals]. rewrite Lrows, Lrs, Lks, !Nat.eqb_refl. cbn [negb].
    destruct rs as [|r0 rs']; [simpl in Lrs; lia|]. rewrite Hrs.
    destruct fs as [|f0 fs']; [destruct (d_finals d); [congruence|discriminate]|]. rewrite Hfs. reflexivity.
  - unfold init_states. cbn [g_players g_trans g_rewards g_finals]. rewrite Lks.
    destruct (init_states_from_ok n fs (combine (combine ks rows) rs) 0) as [sl [E L]].
    + apply Forall_forall. intros [[k row] r] He. simpl.
      apply in_combine_l in He. pose proof (in_combine_r _ _ _ _ He) as Hrow.
      destruct (Forall2_In_r _ _ _ _ Erows Hrow) as [[k' tr] [Hkt Hty]].
      destruct (In_combine_nth _ _ _ _ Hkt) as [i [Hk' Htr]].
      destruct (Forall2_nth_r _ _ _ _ _ Eks Hk') as [p [Hp Hkp]].
      destruct (Hst i p tr Hp Htr) as [k'' [Hk'' G]].
      apply kind_of_spec in Hk''. rewrite Hkp in Hk''. inversion Hk''; subst k''.
      apply (typed_row_ok k' n tr row G Hty).
    + rewrite E. simpl. rewrite L, !combine_length, Lks, Lrows, Lrs, !Nat.min_id, Nat.eqb_refl.
      exists sl. split; [reflexivity|]. rewrite L, !combine_length, Lks, Lrows, Lrs, !Nat.min_id. reflexivity.
Qed.
