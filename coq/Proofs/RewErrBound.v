(** The a-priori error bound for the expected rewards (exact rationals): a vector with reward-equation
    residual at most eps is within eps * T of any fixed point of the reward equations, where T
    certifies a bounded expected absorption time of the (conditioned) game. *)
From Coq Require Import String List Arith Bool Lia QArith Qabs Qreduction Lqa.
From CR Require Import Model.Num Model.Outcome Model.Game Proofs.Laws Proofs.ReachQ Proofs.EquivQ
     Proofs.RewQ Proofs.RewResQ Proofs.ErrBound.
Import ListNotations.
Local Open Scope Q_scope.

Lemma gmax_shift_local x y l d : (forall t, In t l -> y (dst t) <= x (dst t) + d) ->
  forall m m', m' <= m + d -> gmax y l m' <= gmax x l m + d.
Proof.
  induction l as [|t l IH]; intros H m m' Hm; cbn [gmax fold_left]; [exact Hm|].
  apply IH; [intros u Hu; apply H; right; exact Hu|]. cbn zeta. pose proof (H t (or_introl eq_refl)) as Ht.
  destruct (qleb_cases m (x (dst t))) as [[-> H1]|[-> H1]], (qleb_cases m' (y (dst t))) as [[-> H2]|[-> H2]]; lra.
Qed.
Lemma gmin_shift_local x y l d : (forall t, In t l -> y (dst t) <= x (dst t) + d) ->
  forall m m', m' <= m + d -> gmin y l m' <= gmin x l m + d.
Proof.
  induction l as [|t l IH]; intros H m m' Hm; cbn [gmin fold_left]; [exact Hm|].
  apply IH; [intros u Hu; apply H; right; exact Hu|]. cbn zeta. pose proof (H t (or_introl eq_refl)) as Ht.
  destruct (qleb_cases (x (dst t)) m) as [[-> H1]|[-> H1]], (qleb_cases (y (dst t)) m') as [[-> H2]|[-> H2]]; lra.
Qed.

Lemma rsum_spec x l a : rsum x l a == a + sumxw x l.
Proof. change (rsum x l a) with (wsum x l a). apply wsum_spec. Qed.

Section RewBound.
Variable kd : nat -> kind.
Variable rw : nat -> Q.
Variable tr : nat -> list trans.
Variable inS : nat -> bool.
Hypothesis Hw : forall i, kd i = PR -> nonneg_w (tr i).
Hypothesis Hs : forall i, kd i = PR -> sumw (tr i) <= 1.

Definition Psi (x : vec) (s : nat) : Q := psi x (kd s) (rw s) (tr s).

Lemma Psi_diff x y s : Psi y s - Psi x s <= A kd tr (fun i => y i - x i) s.
Proof.
  unfold Psi, psi, A. destruct (tr s) as [|first rest] eqn:El.
  - destruct (kd s); cbn; lra.
  - destruct (kd s) eqn:E.
    + rewrite !qadd_ok. set (c := amax (fun i => y i - x i) (first :: rest)).
      assert (gmax y (first :: rest) 0 <= gmax x (first :: rest) 0 + c); [|lra].
      apply gmax_shift_local; [|pose proof (amax_nonneg (fun i => y i - x i) (first :: rest)) as H; fold c in H; lra].
      intros t Ht. pose proof (amax_ge (fun i => y i - x i) _ _ Ht) as H. fold c in H. cbn beta in H. lra.
    + rewrite !qadd_ok. set (c := amax (fun i => y i - x i) (first :: rest)).
      assert (gmin y (first :: rest) (y (dst first)) <= gmin x (first :: rest) (x (dst first)) + c); [|lra].
      apply gmin_shift_local.
      * intros t Ht. pose proof (amax_ge (fun i => y i - x i) _ _ Ht) as H. fold c in H. cbn beta in H. lra.
      * pose proof (amax_ge (fun i => y i - x i) (first :: rest) first (or_introl eq_refl)) as H. fold c in H. cbn beta in H. lra.
    + rewrite !rsum_spec, sumxw_sub. lra.
Qed.

(* two-sided: |y - x| <= eps * T *)
Theorem reward_error_bound (x y T : vec) (eps C M : Q) :
  0 <= eps -> 0 <= C ->
  (forall s, inS s = true -> y s = Psi y s) ->                         (* y solves the reward equations on S *)
  (forall s, inS s = true -> Qabs (Psi x s - x s) <= eps) ->           (* x solves them up to eps *)
  (forall s, inS s = false -> y s = x s) ->                            (* absorbing zero-reward states: both 0 *)
  (forall s, Qabs (y s - x s) <= C) ->
  (forall s, 1 + B kd tr inS T s <= T s) -> (forall s, 0 <= T s <= M) ->
  forall s, Qabs (y s - x s) <= eps * T s.
Proof.
  intros Heps HC Hy Hx Hout Hb HT HTb s.
  assert (H1 : y s - x s <= eps * T s).
  { apply (abstract_bound kd tr inS Hw (fun i => y i - x i) T eps C M); try assumption.
    - intros i. unfold B. destruct (inS i) eqn:Ei.
      + pose proof (Psi_diff x y i). rewrite (Hy i Ei) at 1. specialize (Hx i Ei). apply Qabs_Qle_condition in Hx. lra.
      + rewrite (Hout i Ei). lra.
    - intros i Ei. rewrite (Hout i Ei). lra.
    - intros i. specialize (Hb i). apply Qabs_Qle_condition in Hb. lra. }
  assert (H2 : x s - y s <= eps * T s).
  { apply (abstract_bound kd tr inS Hw (fun i => x i - y i) T eps C M); try assumption.
    - intros i. unfold B. destruct (inS i) eqn:Ei.
      + pose proof (Psi_diff y x i). rewrite (Hy i Ei) at 1. specialize (Hx i Ei). apply Qabs_Qle_condition in Hx. lra.
      + rewrite (Hout i Ei). lra.
    - intros i Ei. rewrite (Hout i Ei). lra.
    - intros i. specialize (Hb i). apply Qabs_Qle_condition in Hb. lra. }
  apply Qabs_Qle_condition. lra.
Qed.
End RewBound.
