(** Proofs about run_games: isolation, failure protocol, key order, the name collision. *)
From Coq Require Import String List Arith Bool Lia.
From CR Require Import Model.Num Model.Outcome Model.Graph Model.Game Model.Heap Model.Batch Proofs.HeapP.
Import ListNotations.

(** * strings *)
Lemma str_length_append (a b : string) : String.length (a ++ b)%string = String.length a + String.length b.
Proof. induction a as [|c a IH]; cbn; [reflexivity|]. rewrite IH. reflexivity. Qed.

Lemma str_append_neq (a b : string) : b <> EmptyString -> a <> (a ++ b)%string.
Proof.
  intros Hb H. apply (f_equal String.length) in H. rewrite str_length_append in H.
  destruct b; [congruence|]. cbn in H. lia.
Qed.

Lemma str_append_inj_l (s : string) : forall a b : string, (a ++ s)%string = (b ++ s)%string -> a = b.
Proof.
  induction a as [|c a IH]; intros [|c' b] H; cbn in H.
  - reflexivity.
  - exfalso. apply (f_equal String.length) in H. cbn in H. rewrite str_length_append in H. lia.
  - exfalso. apply (f_equal String.length) in H. cbn in H. rewrite str_length_append in H. lia.
  - injection H as -> H. f_equal. apply IH. exact H.
Qed.

Lemma sfx_nonempty : sfx <> EmptyString.
Proof. discriminate. Qed.

(** * dict *)
Section Dict.
Context {V : Type}.
Implicit Types (d ws : list (string * V)).

Lemma sdict_get_set d k k' v :
  sdict_get (sdict_set d k' v) k = if String.eqb k' k then Some v else sdict_get d k.
Proof.
  induction d as [|[k0 v0] d IH]; cbn.
  - reflexivity.
  - destruct (String.eqb_spec k0 k') as [->|N]; cbn.
    + destruct (String.eqb k' k); reflexivity.
    + rewrite IH. destruct (String.eqb_spec k0 k) as [->|N']; [|reflexivity].
      destruct (String.eqb_spec k' k) as [->|_]; [congruence|reflexivity].
Qed.

(* the last value written to k by a sequence of writes *)
Fixpoint last_write (k : string) ws : option V :=
  match ws with
  | [] => None
  | (k', v) :: ws' =>
    match last_write k ws' with
    | Some v' => Some v'
    | None => if String.eqb k' k then Some v else None
    end
  end.

Lemma sdict_get_set_all ws : forall d k,
  sdict_get (set_all d ws) k = match last_write k ws with Some v => Some v | None => sdict_get d k end.
Proof.
  induction ws as [|[k' v] ws IH]; intros d k; cbn; [reflexivity|].
  unfold set_all in IH. rewrite IH. destruct (last_write k ws); [reflexivity|].
  rewrite sdict_get_set. destruct (String.eqb k' k); reflexivity.
Qed.

Lemma last_write_none k ws : ~ In k (map fst ws) -> last_write k ws = None.
Proof.
  induction ws as [|[k' v] ws IH]; intros H; cbn in *; [reflexivity|].
  rewrite IH by tauto. destruct (String.eqb_spec k' k); [tauto|reflexivity].
Qed.

Lemma last_write_nodup k v ws : NoDup (map fst ws) -> In (k, v) ws -> last_write k ws = Some v.
Proof.
  induction ws as [|[k' v'] ws IH]; intros ND H; cbn in *; [destruct H|].
  inversion ND as [|? ? N1 N2]; subst. destruct H as [H|H].
  - injection H as -> ->. rewrite (last_write_none k ws N1). rewrite String.eqb_refl. reflexivity.
  - rewrite (IH N2 H). reflexivity.
Qed.

Lemma last_write_some_in k v ws : last_write k ws = Some v -> In k (map fst ws).
Proof.
  intros H. destruct (in_dec string_dec k (map fst ws)) as [I|N]; [exact I|].
  rewrite (last_write_none k ws N) in H. discriminate.
Qed.

(* keys of a dict after a write / a sequence of writes *)
Definition add_key (ks : list string) (k : string) : list string :=
  if existsb (String.eqb k) ks then ks else ks ++ [k].

Lemma existsb_eqb_in k ks : existsb (String.eqb k) ks = true <-> In k ks.
Proof.
  rewrite existsb_exists. split.
  - intros [x [Hx E]]. apply String.eqb_eq in E. subst. exact Hx.
  - intros H. exists k. split; [exact H|apply String.eqb_refl].
Qed.

Lemma keys_sdict_set d k v : map fst (sdict_set d k v) = add_key (map fst d) k.
Proof.
  unfold add_key. induction d as [|[k0 v0] d IH]; cbn; [reflexivity|].
  rewrite (String.eqb_sym k k0). destruct (String.eqb_spec k0 k) as [->|N]; cbn; [reflexivity|].
  rewrite IH. destruct (existsb (String.eqb k) (map fst d)); reflexivity.
Qed.

Lemma keys_set_all ws : forall d, map fst (set_all d ws) = fold_left add_key (map fst ws) (map fst d).
Proof.
  induction ws as [|[k v] ws IH]; intros d; cbn; [reflexivity|].
  unfold set_all in IH. rewrite IH, keys_sdict_set. reflexivity.
Qed.

Lemma add_keys_nodup : forall (ks acc : list string),
  NoDup (acc ++ ks) -> fold_left add_key ks acc = acc ++ ks.
Proof.
  induction ks as [|k ks IH]; intros acc ND; cbn; [rewrite app_nil_r; reflexivity|].
  unfold add_key at 2.
  destruct (existsb (String.eqb k) acc) eqn:E.
  - apply existsb_eqb_in in E. apply NoDup_remove_2 in ND. exfalso. apply ND.
    apply in_or_app. left. exact E.
  - rewrite IH; rewrite <- app_assoc; cbn; [reflexivity|exact ND].
Qed.
End Dict.

Section BatchP.
Context {T : Type}.
Variable K : ops T.
Notation game := (@game T).
Notation entry := (@entry T).

Lemma solve_copy_pure fuel (g : game) prune : solve_copy K fuel g prune = solve_fuel K fuel g prune.
Proof. apply solve_H_load. Qed.

(** * one game = two writes *)
Definition game_entries (fuel : nat) (name : string) (g : game) : outcome (list (string * entry)) :=
  match solve_fuel K fuel g true with
  | Ok r =>
    match solve_fuel K fuel g false with
    | Ok r' => Ok [(name, solved_entry g r); ((name ++ sfx)%string, solved_entry g r')]
    | ValueErr m => Ok [(name, solved_entry g r); ((name ++ sfx)%string, failed_entry g m)]
    | Crash w => Crash w
    | OutOfFuel => OutOfFuel
    end
  | ValueErr m => Ok [(name, failed_entry g m); ((name ++ sfx)%string, not_solved_entry g)]
  | Crash w => Crash w
  | OutOfFuel => OutOfFuel
  end.

Fixpoint all_entries (fuel : nat) (gs : list (string * game)) : outcome (list (string * entry)) :=
  match gs with
  | [] => Ok []
  | (n, g) :: gs' =>
    do es <- game_entries fuel n g;
    do ws <- all_entries fuel gs';
    Ok (es ++ ws)
  end.

Lemma run_game_entries fuel d n g :
  run_game K fuel d n g = omap (set_all d) (game_entries fuel n g).
Proof.
  unfold run_game, game_entries, run_one. rewrite !solve_copy_pure.
  destruct (solve_fuel K fuel g true) as [r| | |]; cbn; try reflexivity.
  destruct (solve_fuel K fuel g false) as [r'| | |]; reflexivity.
Qed.

Lemma run_games_from_err fuel gs (o : outcome (list (string * entry))) :
  is_ok o = false -> run_games_from K fuel gs o = o.
Proof.
  unfold run_games_from. revert o. induction gs as [|[n g] gs IH]; intros o H; cbn; [reflexivity|].
  destruct o; try discriminate; cbn; apply IH; reflexivity.
Qed.

Lemma run_games_from_entries fuel gs : forall d,
  run_games_from K fuel gs (Ok d) = omap (set_all d) (all_entries fuel gs).
Proof.
  induction gs as [|[n g] gs IH]; intros d; [reflexivity|].
  unfold run_games_from in *. cbn [fold_left fst snd bind all_entries]. rewrite run_game_entries.
  destruct (game_entries fuel n g) as [es| | |]; cbn [omap bind];
    try (apply (run_games_from_err fuel gs); reflexivity).
  rewrite IH. destruct (all_entries fuel gs) as [ws| | |]; cbn; try reflexivity.
  unfold set_all. rewrite fold_left_app. reflexivity.
Qed.

Lemma run_games_entries fuel gs :
  run_games_fuel K fuel gs = omap (set_all []) (all_entries fuel gs).
Proof. apply run_games_from_entries. Qed.

Lemma game_entries_keys fuel n g es : game_entries fuel n g = Ok es -> map fst es = [n; (n ++ sfx)%string].
Proof.
  unfold game_entries. intros H.
  destruct (solve_fuel K fuel g true); try discriminate.
  - destruct (solve_fuel K fuel g false); try discriminate; injection H as <-; reflexivity.
  - injection H as <-. reflexivity.
Qed.

Lemma all_entries_keys fuel : forall gs ws, all_entries fuel gs = Ok ws -> map fst ws = keys_of gs.
Proof.
  induction gs as [|[n g] gs IH]; intros ws H; cbn in H.
  - injection H as <-. reflexivity.
  - destruct (game_entries fuel n g) as [es| | |] eqn:E; cbn in H; try discriminate.
    destruct (all_entries fuel gs) as [ws'| | |] eqn:E'; cbn in H; try discriminate.
    injection H as <-. rewrite map_app, (game_entries_keys _ _ _ _ E), (IH ws' eq_refl). reflexivity.
Qed.

Lemma all_entries_incl fuel : forall gs ws n g,
  all_entries fuel gs = Ok ws -> In (n, g) gs ->
  exists es, game_entries fuel n g = Ok es /\ incl es ws.
Proof.
  induction gs as [|[n0 g0] gs IH]; intros ws n g H Hin; [destruct Hin|].
  cbn in H.
  destruct (game_entries fuel n0 g0) as [es| | |] eqn:E; cbn in H; try discriminate.
  destruct (all_entries fuel gs) as [ws'| | |] eqn:E'; cbn in H; try discriminate.
  injection H as <-. destruct Hin as [Heq|Hin].
  - injection Heq as <- <-. exists es. split; [exact E|]. apply incl_appl, incl_refl.
  - destruct (IH ws' n g eq_refl Hin) as [es' [E1 I1]]. exists es'. split; [exact E1|].
    apply incl_appr. exact I1.
Qed.

(* the whole run aborts only when a game of its own aborts *)
Lemma all_entries_ok_iff fuel : forall gs,
  (exists ws, all_entries fuel gs = Ok ws) <->
  (forall n g, In (n, g) gs -> exists es, game_entries fuel n g = Ok es).
Proof.
  induction gs as [|[n0 g0] gs IH]; cbn.
  - split; [intros _ n g []|intros _; eexists; reflexivity].
  - split.
    + intros [ws H] n g Hin.
      destruct (game_entries fuel n0 g0) as [es| | |] eqn:E; cbn in H; try discriminate.
      destruct (all_entries fuel gs) as [ws'| | |] eqn:E'; cbn in H; try discriminate.
      destruct Hin as [Heq|Hin]; [injection Heq as <- <-; eexists; exact E|].
      apply (proj1 IH); [eexists; reflexivity|exact Hin].
    + intros H. destruct (H n0 g0 (or_introl eq_refl)) as [es ->]. cbn.
      destruct (proj2 IH) as [ws ->]; [intros n g Hin; apply H; right; exact Hin|].
      cbn. eexists; reflexivity.
Qed.

Lemma solo_entries fuel n g :
  all_entries fuel [(n, g)] = do es <- game_entries fuel n g; Ok es.
Proof.
  cbn. destruct (game_entries fuel n g); cbn; try reflexivity. rewrite app_nil_r. reflexivity.
Qed.

Lemma solo_keys_nodup (n : string) : NoDup [n; (n ++ sfx)%string].
Proof.
  constructor; [|constructor; [intros []|constructor]].
  intros [H|[]]. symmetry in H. revert H. apply str_append_neq, sfx_nonempty.
Qed.

(** * isolation *)
Theorem isolation fuel gs d n g :
  names_independent gs -> In (n, g) gs -> run_games_fuel K fuel gs = Ok d ->
  exists d1 e1 e2, run_games_fuel K fuel [(n, g)] = Ok d1
    /\ sdict_get d1 n = Some e1 /\ sdict_get d1 (n ++ sfx)%string = Some e2
    /\ sdict_get d n = Some e1 /\ sdict_get d (n ++ sfx)%string = Some e2.
Proof.
  intros ND Hin H. rewrite run_games_entries in H.
  destruct (all_entries fuel gs) as [ws| | |] eqn:E; cbn in H; try discriminate.
  injection H as <-.
  destruct (all_entries_incl fuel gs ws n g E Hin) as [es [E1 I1]].
  pose proof (game_entries_keys _ _ _ _ E1) as K1.
  destruct es as [|[k1 e1] [|[k2 e2] [|? ?]]]; cbn in K1; try discriminate.
  injection K1 as -> ->.
  assert (NDws : NoDup (map fst ws)) by (rewrite (all_entries_keys _ _ _ E); exact ND).
  exists (set_all [] [(n, e1); ((n ++ sfx)%string, e2)]), e1, e2.
  split; [rewrite run_games_entries, solo_entries, E1; reflexivity|].
  assert (NDs : NoDup (map fst [(n, e1); ((n ++ sfx)%string, e2)])) by apply solo_keys_nodup.
  rewrite !sdict_get_set_all.
  rewrite (last_write_nodup n e1 _ NDs) by (left; reflexivity).
  rewrite (last_write_nodup (n ++ sfx)%string e2 _ NDs) by (right; left; reflexivity).
  rewrite (last_write_nodup n e1 ws NDws) by (apply I1; left; reflexivity).
  rewrite (last_write_nodup (n ++ sfx)%string e2 ws NDws) by (apply I1; right; left; reflexivity).
  repeat split; reflexivity.
Qed.

(* what the two entries are, from the two pure solves *)
Theorem entries_of_game fuel gs d n g :
  names_independent gs -> In (n, g) gs -> run_games_fuel K fuel gs = Ok d ->
  exists e1 e2, game_entries fuel n g = Ok [(n, e1); ((n ++ sfx)%string, e2)]
    /\ sdict_get d n = Some e1 /\ sdict_get d (n ++ sfx)%string = Some e2.
Proof.
  intros ND Hin H. rewrite run_games_entries in H.
  destruct (all_entries fuel gs) as [ws| | |] eqn:E; cbn in H; try discriminate.
  injection H as <-.
  destruct (all_entries_incl fuel gs ws n g E Hin) as [es [E1 I1]].
  pose proof (game_entries_keys _ _ _ _ E1) as K1.
  destruct es as [|[k1 e1] [|[k2 e2] [|? ?]]]; cbn in K1; try discriminate.
  injection K1 as -> ->.
  assert (NDws : NoDup (map fst ws)) by (rewrite (all_entries_keys _ _ _ E); exact ND).
  exists e1, e2. split; [exact E1|].
  rewrite !sdict_get_set_all.
  rewrite (last_write_nodup n e1 ws NDws) by (apply I1; left; reflexivity).
  rewrite (last_write_nodup (n ++ sfx)%string e2 ws NDws) by (apply I1; right; left; reflexivity).
  split; reflexivity.
Qed.

(** * failure protocol *)
Theorem failure_protocol fuel gs d n g m :
  names_independent gs -> In (n, g) gs -> run_games_fuel K fuel gs = Ok d ->
  solve_fuel K fuel g true = ValueErr m ->
  sdict_get d n = Some (failed_entry g m) /\ sdict_get d (n ++ sfx)%string = Some (not_solved_entry g).
Proof.
  intros ND Hin H Hs.
  destruct (entries_of_game fuel gs d n g ND Hin H) as [e1 [e2 [E [G1 G2]]]].
  unfold game_entries in E. rewrite Hs in E. injection E as <- <-. split; assumption.
Qed.

Theorem solved_protocol fuel gs d n g r r' :
  names_independent gs -> In (n, g) gs -> run_games_fuel K fuel gs = Ok d ->
  solve_fuel K fuel g true = Ok r -> solve_fuel K fuel g false = Ok r' ->
  sdict_get d n = Some (solved_entry g r) /\ sdict_get d (n ++ sfx)%string = Some (solved_entry g r').
Proof.
  intros ND Hin H Hs Hs'.
  destruct (entries_of_game fuel gs d n g ND Hin H) as [e1 [e2 [E [G1 G2]]]].
  unfold game_entries in E. rewrite Hs, Hs' in E. injection E as <- <-. split; assumption.
Qed.

Definition no_abort {A} (o : outcome A) : Prop :=
  match o with Crash _ | OutOfFuel => False | _ => True end.

(* a ValueError never stops the run: if no solve of any game ends in another exception (or
   runs out of model fuel), run_games returns a dictionary *)
Theorem valueerr_never_aborts fuel gs :
  (forall n g p, In (n, g) gs -> no_abort (solve_fuel K fuel g p)) ->
  exists d, run_games_fuel K fuel gs = Ok d.
Proof.
  intros H. rewrite run_games_entries.
  destruct (proj2 (all_entries_ok_iff fuel gs)) as [ws ->]; [|eexists; reflexivity].
  intros n g Hin. unfold game_entries.
  pose proof (H n g true Hin) as H1. pose proof (H n g false Hin) as H2.
  destruct (solve_fuel K fuel g true); cbn in H1; try contradiction; [|eexists; reflexivity].
  destruct (solve_fuel K fuel g false); cbn in H2; try contradiction; eexists; reflexivity.
Qed.

(* ... and it has entries for all games (without any hypothesis on the names) *)
Theorem all_games_present fuel gs d n g :
  In (n, g) gs -> run_games_fuel K fuel gs = Ok d ->
  sdict_get d n <> None /\ sdict_get d (n ++ sfx)%string <> None.
Proof.
  intros Hin H. rewrite run_games_entries in H.
  destruct (all_entries fuel gs) as [ws| | |] eqn:E; cbn in H; try discriminate.
  injection H as <-.
  assert (HK : forall k, In k (keys_of gs) -> sdict_get (set_all [] ws) k <> None).
  { intros k Hk. rewrite sdict_get_set_all. rewrite <- (all_entries_keys _ _ _ E) in Hk.
    destruct (last_write k ws) eqn:L; [discriminate|].
    exfalso. clear -Hk L. induction ws as [|[k' v] ws IH]; cbn in *; [exact Hk|].
    destruct (last_write k ws); [discriminate|].
    destruct (String.eqb_spec k' k); [discriminate|]. destruct Hk as [Hk|Hk]; [congruence|auto]. }
  split; apply HK; unfold keys_of; apply in_flat_map; exists (n, g); (split; [exact Hin|cbn; tauto]).
Qed.

(** * order of the keys *)
Theorem keys_general fuel gs d :
  run_games_fuel K fuel gs = Ok d -> map fst d = fold_left add_key (keys_of gs) [].
Proof.
  intros H. rewrite run_games_entries in H.
  destruct (all_entries fuel gs) as [ws| | |] eqn:E; cbn in H; try discriminate.
  injection H as <-. rewrite keys_set_all, (all_entries_keys _ _ _ E). reflexivity.
Qed.

Theorem keys_in_run_order fuel gs d :
  names_independent gs -> run_games_fuel K fuel gs = Ok d -> map fst d = keys_of gs.
Proof.
  intros ND H. rewrite (keys_general fuel gs d H). apply (add_keys_nodup (keys_of gs) []). exact ND.
Qed.

Lemma keys_of_length (gs : list (string * game)) : length (keys_of gs) = 2 * length gs.
Proof. unfold keys_of. induction gs as [|[n g] gs IH]; cbn [flat_map app length fst] in *; lia. Qed.

Theorem two_entries_per_game fuel gs d :
  names_independent gs -> run_games_fuel K fuel gs = Ok d -> length d = 2 * length gs.
Proof.
  intros ND H. rewrite <- keys_of_length, <- (keys_in_run_order fuel gs d ND H). symmetry. apply map_length.
Qed.

(** * names_independent, spelled out *)
Lemma in_keys_of k (gs : list (string * game)) :
  In k (keys_of gs) <-> exists m, In m (map fst gs) /\ (k = m \/ k = (m ++ sfx)%string).
Proof.
  unfold keys_of. rewrite in_flat_map. split.
  - intros [[m g] [Hin Hk]]. exists m. split; [apply in_map_iff; exists (m, g); auto|].
    cbn in Hk. destruct Hk as [<-|[<-|[]]]; auto.
  - intros [m [Hin Hk]]. apply in_map_iff in Hin. destruct Hin as [[m' g] [<- Hin]].
    exists (m', g). split; [exact Hin|]. cbn. destruct Hk as [->| ->]; auto.
Qed.

Theorem names_independent_iff (gs : list (string * game)) :
  names_independent gs <->
  (NoDup (map fst gs) /\ forall n m, In n (map fst gs) -> In m (map fst gs) -> n <> (m ++ sfx)%string).
Proof.
  unfold names_independent. induction gs as [|[x g] gs IH]; cbn [keys_of flat_map map fst app].
  - split; [intros _; split; [constructor|intros n m []]|intros _; constructor].
  - fold (keys_of gs). split.
    + intros ND. inversion ND as [|? ? N1 ND1]; subst. inversion ND1 as [|? ? N2 ND2]; subst.
      destruct (proj1 IH ND2) as [NDn NC].
      assert (Hsub : forall m, In m (map fst gs) -> In m (keys_of gs) /\ In (m ++ sfx)%string (keys_of gs)).
      { intros m Hm. split; apply in_keys_of; exists m; auto. }
      split.
      * constructor; [|exact NDn]. intros Hx. apply N1. right. apply Hsub. exact Hx.
      * intros n m [<-|Hn] [<-|Hm].
        -- apply str_append_neq, sfx_nonempty.
        -- intros ->. apply N1. right. apply Hsub. exact Hm.
        -- intros ->. apply N2. apply (proj1 (Hsub _ Hn)).
        -- apply NC; assumption.
    + intros [NDn NC]. inversion NDn as [|? ? Nx NDn']; subst.
      assert (NC' : forall n m, In n (map fst gs) -> In m (map fst gs) -> n <> (m ++ sfx)%string).
      { intros n m Hn Hm. apply NC; right; assumption. }
      constructor; [|constructor; [|apply (proj2 IH); split; assumption]].
      * intros [H|H].
        -- symmetry in H. revert H. apply str_append_neq, sfx_nonempty.
        -- apply in_keys_of in H. destruct H as [m [Hm [->| ->]]]; [apply Nx; exact Hm|].
           apply (NC (m ++ sfx)%string m); [left; reflexivity|right; exact Hm|reflexivity].
      * intros H. apply in_keys_of in H. destruct H as [m [Hm [H|H]]].
        -- apply (NC m x); [right; exact Hm|left; reflexivity|symmetry; exact H].
        -- apply str_append_inj_l in H. subst m. apply Nx. exact Hm.
Qed.

End BatchP.

(** * K2: without names_independent.  Games named "a" and "a_no_prune" (exact rationals). *)
Require Import QArith.
Module K2.
Local Open Scope string_scope.
Definition p (x : Q) (d : nat) : @trans Q := mkT "" x d.
Definition a (s : string) (d : nat) : @trans Q := mkT s 0%Q d.
(* two different solvable games: 3 and 4 states *)
Definition g1 : @game Q :=
  mkG [1%Q; 0%Q; 0%Q] [PR; PR; PR] [[p (1 # 2) 1; p (1 # 2) 2]; [p 1 1]; [p 1 2]] [1%nat].
Definition g2 : @game Q :=
  mkG [0%Q; 2%Q; 0%Q; 0%Q] [P1; PR; PR; PR] [[a "x" 1; a "y" 3]; [p 1 2]; [p 1 2]; [p 1 3]] [2%nat].
Definition gs : list (string * @game Q) := [("a", g1); ("a_no_prune", g2)].
Definition fuel := 1000%nat.
Definition get (l : list (string * @game Q)) (k : string) :=
  match run_games_fuel qops fuel l with Ok d => sdict_get d k | _ => None end.

Lemma not_independent : ~ names_independent gs.
Proof.
  unfold names_independent. cbn. intros H. inversion H as [|? ? _ H1]; subst.
  inversion H1 as [|? ? N _]; subst. apply N. left. reflexivity.
Qed.

Lemma three_entries :
  match run_games_fuel qops fuel gs with
  | Ok d => map fst d = ["a"; "a_no_prune"; "a_no_prune_no_prune"]
  | _ => False
  end.
Proof. vm_compute. reflexivity. Qed.

(* the entry under "a_no_prune" is the PRUNED entry of the game named "a_no_prune" ... *)
Lemma overwritten_by : get gs "a_no_prune" = get [("a_no_prune", g2)] "a_no_prune".
Proof. vm_compute. reflexivity. Qed.

(* ... and not the unpruned entry of "a", which is lost *)
Lemma differs_from_solo :
  option_map (@e_n_states Q) (get gs "a_no_prune") = Some 4%nat /\
  option_map (@e_n_states Q) (get [("a", g1)] "a_no_prune") = Some 3%nat.
Proof. vm_compute. split; reflexivity. Qed.

(* non-vacuity for the positive theorems: a failing game between two solvable ones *)
Definition bad : @game Q := mkG [0%Q; 0%Q] [PR; PR] [[p 1 0]; [p 1 1]] [1%nat].   (* state 0 never reaches 1 *)
Definition gs3 : list (string * @game Q) := [("g1", g1); ("bad", bad); ("g2", g2)].
Lemma gs3_independent : names_independent gs3.
Proof.
  unfold names_independent. cbn.
  repeat (constructor; [cbn; intros H; repeat (destruct H as [H|H]; [discriminate H|]); exact H|]).
  constructor.
Qed.
Lemma gs3_example :
  match run_games_fuel qops fuel gs3 with
  | Ok d => map (fun kv => (fst kv, e_msg (snd kv))) d =
            [("g1", "Game solved"); ("g1_no_prune", "Game solved");
             ("bad", "Error while solving the game: The game has no solution. The initial state has a reach probability of 0.");
             ("bad_no_prune", "Game not solved");
             ("g2", "Game solved"); ("g2_no_prune", "Game solved")]
  | _ => False
  end.
Proof. vm_compute. reflexivity. Qed.

(* DESIGN section 5/C12: with the pinned tree's in-place scan and WITHOUT the deep copy, the
   unpruned run of figure 5.5 would start from the description the pruned run damaged: it raises
   "Missing transitions", while the unpruned solve of the game alone succeeds. *)
Lemma copy_matters_for_orig :
  nth 1 (snd (solve_seq_H_orig qops Fig55.fuel Fig55.hg0 Fig55.st0 None [(true, true); (false, true)])) OutOfFuel
    = ValueErr msg_missing
  /\ is_ok (solve_fuel qops Fig55.fuel Fig55.g false) = true.
Proof. vm_compute. split; reflexivity. Qed.
End K2.
