(** Order laws RELATIVE TO A PREDICATE on the number operations, and the scans as arg-max / arg-min.
    Generalisation of Proofs/Laws.v: the five laws are only required of values satisfying [P]
    (for binary64: "not NaN", see Proofs/FloatLaws.v), and the scan theorems carry the hypotheses
    that the start value and all listed values satisfy [P].  The definitions [vmax], [vmin],
    [smax_step], [smin_step] are the ones of Laws.v; the proofs are the ones of Laws.v with the
    [P]-hypotheses threaded through (the running maximum of P-values is a P-value). *)
From Coq Require Import String List Bool.
From CR Require Import Model.Num Model.Game Proofs.Laws.
Import ListNotations.

Section ScanOn.
Context {T : Type}.
Variable K : ops T.
Variable P : T -> Prop.

Record lawful_order_on : Prop := {
  loo_irrefl : forall x, P x -> ltb K x x = false;
  loo_trans : forall x y z, P x -> P y -> P z ->
      ltb K x y = true -> ltb K y z = true -> ltb K x z = true;
  loo_refl : forall x, P x -> eqb K x x = true;
  (* eqb is a congruence for both comparisons *)
  loo_cong : forall x y, P x -> P y -> eqb K x y = true -> forall z, P z ->
      eqb K x z = eqb K y z /\ eqb K z x = eqb K z y /\ ltb K x z = ltb K y z /\ ltb K z x = ltb K z y;
  loo_total : forall x y, P x -> P y -> ltb K x y = true \/ eqb K x y = true \/ ltb K y x = true
}.

(* all values of an (action, value) list satisfy P *)
Definition vals_on (l : list (string * T)) : Prop := Forall (fun av => P (snd av)) l.

Hypothesis L : lawful_order_on.

Lemma loo_sym x y : P x -> P y -> eqb K x y = true -> eqb K y x = true.
Proof.
  intros Hx Hy H. destruct (loo_cong L x y Hx Hy H x Hx) as (H1 & _). rewrite <- H1. apply (loo_refl L), Hx.
Qed.
Lemma loo_eq_not_lt x y : P x -> P y -> eqb K x y = true -> ltb K x y = false.
Proof.
  intros Hx Hy H. destruct (loo_cong L x y Hx Hy H y Hy) as (_ & _ & H3 & _). rewrite H3. apply (loo_irrefl L), Hy.
Qed.

(* the running maximum / minimum of P-values is a P-value *)
Lemma vmax_on l : vals_on l -> forall m, P m -> P (vmax K m l).
Proof.
  induction 1 as [|[a v] l Hv Hl IH]; intros m Hm; cbn [vmax snd] in *; [exact Hm|].
  apply IH. destruct (ltb K m v); assumption.
Qed.
Lemma vmin_on l : vals_on l -> forall m, P m -> P (vmin K m l).
Proof.
  induction 1 as [|[a v] l Hv Hl IH]; intros m Hm; cbn [vmin snd] in *; [exact Hm|].
  apply IH. destruct (ltb K v m); assumption.
Qed.

Lemma vmax_ge_on l : vals_on l -> forall x, P x -> ltb K (vmax K x l) x = false.
Proof.
  induction 1 as [|[a v] l Hv Hl IH]; intros x Hx; cbn [vmax snd] in *; [apply (loo_irrefl L), Hx|].
  destruct (ltb K x v) eqn:E; [|apply IH, Hx].
  destruct (ltb K (vmax K v l) x) eqn:E2; [|reflexivity].
  pose proof (loo_trans L _ _ _ (vmax_on l Hl v Hv) Hx Hv E2 E) as H. rewrite (IH v Hv) in H. discriminate.
Qed.
Lemma vmin_le_on l : vals_on l -> forall x, P x -> ltb K x (vmin K x l) = false.
Proof.
  induction 1 as [|[a v] l Hv Hl IH]; intros x Hx; cbn [vmin snd] in *; [apply (loo_irrefl L), Hx|].
  destruct (ltb K v x) eqn:E; [|apply IH, Hx].
  destruct (ltb K x (vmin K v l)) eqn:E2; [|reflexivity].
  pose proof (loo_trans L _ _ _ Hv Hx (vmin_on l Hl v Hv) E E2) as H. rewrite (IH v Hv) in H. discriminate.
Qed.

Lemma scan_max_gen_on l : vals_on l -> forall m best, P m ->
  fold_left (smax_step K) l (m, best) =
  (vmax K m l, (if eqb K (vmax K m l) m then best else []) ++
               map fst (filter (fun av => eqb K (snd av) (vmax K m l)) l)).
Proof.
  induction 1 as [|[a v] l Hv Hl IH]; intros m best Hm.
  - cbn. rewrite (loo_refl L _ Hm), app_nil_r. reflexivity.
  - cbn [snd] in Hv. cbn [fold_left vmax snd]. unfold smax_step at 2. cbn [fst snd].
    destruct (ltb K m v) eqn:Hlt.
    + rewrite (IH _ _ Hv). f_equal. cbn [filter map fst snd].
      assert (Hx : P (vmax K v l)) by (apply vmax_on; assumption).
      destruct (eqb K (vmax K v l) m) eqn:E1.
      { destruct (loo_cong L _ _ Hx Hm E1 v Hv) as (_ & _ & H3 & _).
        pose proof (vmax_ge_on l Hl v Hv) as H. rewrite H3, Hlt in H. discriminate. }
      destruct (eqb K (vmax K v l) v) eqn:E2; destruct (eqb K v (vmax K v l)) eqn:E3; cbn; try reflexivity.
      * apply loo_sym in E2; [congruence|assumption..].
      * apply loo_sym in E3; [congruence|assumption..].
    + assert (Hx : P (vmax K m l)) by (apply vmax_on; assumption).
      destruct (eqb K v m) eqn:Hv'.
      * rewrite (IH _ _ Hm). cbn [fst snd]. f_equal. cbn [filter snd].
        destruct (loo_cong L _ _ Hv Hm Hv' (vmax K m l) Hx) as (Hc1 & Hc2 & _). rewrite Hc1.
        destruct (eqb K (vmax K m l) m) eqn:E1.
        -- apply loo_sym in E1; [|assumption..]. rewrite E1. cbn. rewrite <- app_assoc. reflexivity.
        -- destruct (eqb K m (vmax K m l)) eqn:E2; [apply loo_sym in E2; [congruence|assumption..]|]. reflexivity.
      * rewrite (IH _ _ Hm). f_equal. cbn [filter snd].
        destruct (eqb K v (vmax K m l)) eqn:E2; [|reflexivity].
        exfalso. destruct (loo_total L m v Hm Hv) as [H|[H|H]].
        -- congruence.
        -- apply loo_sym in H; [congruence|assumption..].
        -- pose proof (vmax_ge_on l Hl m Hm) as H2.
           destruct (loo_cong L _ _ Hv Hx E2 m Hm) as (_ & _ & H3 & _).
           rewrite <- H3, H in H2. discriminate.
Qed.

Lemma scan_min_gen_on l : vals_on l -> forall m best, P m ->
  fold_left (smin_step K) l (m, best) =
  (vmin K m l, (if eqb K (vmin K m l) m then best else []) ++
               map fst (filter (fun av => eqb K (snd av) (vmin K m l)) l)).
Proof.
  induction 1 as [|[a v] l Hv Hl IH]; intros m best Hm.
  - cbn. rewrite (loo_refl L _ Hm), app_nil_r. reflexivity.
  - cbn [snd] in Hv. cbn [fold_left vmin snd]. unfold smin_step at 2. cbn [fst snd].
    destruct (ltb K v m) eqn:Hlt.
    + rewrite (IH _ _ Hv). f_equal. cbn [filter map fst snd].
      assert (Hx : P (vmin K v l)) by (apply vmin_on; assumption).
      destruct (eqb K (vmin K v l) m) eqn:E1.
      { destruct (loo_cong L _ _ Hx Hm E1 v Hv) as (_ & _ & _ & H4).
        pose proof (vmin_le_on l Hl v Hv) as H. rewrite H4, Hlt in H. discriminate. }
      destruct (eqb K (vmin K v l) v) eqn:E2; destruct (eqb K v (vmin K v l)) eqn:E3; cbn; try reflexivity.
      * apply loo_sym in E2; [congruence|assumption..].
      * apply loo_sym in E3; [congruence|assumption..].
    + assert (Hx : P (vmin K m l)) by (apply vmin_on; assumption).
      destruct (eqb K v m) eqn:Hv'.
      * rewrite (IH _ _ Hm). cbn [fst snd]. f_equal. cbn [filter snd].
        destruct (loo_cong L _ _ Hv Hm Hv' (vmin K m l) Hx) as (Hc1 & Hc2 & _). rewrite Hc1.
        destruct (eqb K (vmin K m l) m) eqn:E1.
        -- apply loo_sym in E1; [|assumption..]. rewrite E1. cbn. rewrite <- app_assoc. reflexivity.
        -- destruct (eqb K m (vmin K m l)) eqn:E2; [apply loo_sym in E2; [congruence|assumption..]|]. reflexivity.
      * rewrite (IH _ _ Hm). f_equal. cbn [filter snd].
        destruct (eqb K v (vmin K m l)) eqn:E2; [|reflexivity].
        exfalso. destruct (loo_total L v m Hv Hm) as [H|[H|H]].
        -- congruence.
        -- congruence.
        -- pose proof (vmin_le_on l Hl m Hm) as H2.
           destruct (loo_cong L _ _ Hv Hx E2 m Hm) as (_ & _ & _ & H4).
           rewrite <- H4, H in H2. discriminate.
Qed.

(* The Player 1 scan lists, in transition order, exactly the actions whose value equals the
   running maximum (started from m0); the Player 2 scan the running minimum. *)
Theorem scan_max_is_argmax_on m0 l : P m0 -> vals_on l ->
  scan_max K m0 l = (vmax K m0 l, map fst (filter (fun av => eqb K (snd av) (vmax K m0 l)) l)).
Proof.
  intros Hm Hl. unfold scan_max. change (fold_left _ l (m0, [])) with (fold_left (smax_step K) l (m0, [])).
  rewrite (scan_max_gen_on l Hl _ _ Hm). destruct (eqb K _ _); reflexivity.
Qed.
Theorem scan_min_is_argmin_on m0 l : P m0 -> vals_on l ->
  scan_min K m0 l = (vmin K m0 l, map fst (filter (fun av => eqb K (snd av) (vmin K m0 l)) l)).
Proof.
  intros Hm Hl. unfold scan_min. change (fold_left _ l (m0, [])) with (fold_left (smin_step K) l (m0, [])).
  rewrite (scan_min_gen_on l Hl _ _ Hm). destruct (eqb K _ _); reflexivity.
Qed.

(* vmax is an upper bound of m0 (vmax_ge_on) and of every element, and is attained *)
Lemma vmax_upper_on m0 l av : P m0 -> vals_on l -> In av l -> ltb K (vmax K m0 l) (snd av) = false.
Proof.
  intros Hm Hl. revert m0 Hm. induction Hl as [|[a v] l Hv Hl IH]; intros m0 Hm Hin; [destruct Hin|].
  cbn [snd] in Hv. destruct Hin as [<-|Hin]; cbn [vmax snd].
  - destruct (ltb K m0 v) eqn:E; [apply vmax_ge_on; assumption|].
    assert (Hx : P (vmax K m0 l)) by (apply vmax_on; assumption).
    destruct (ltb K (vmax K m0 l) v) eqn:E2; [|reflexivity].
    pose proof (vmax_ge_on l Hl m0 Hm) as H. destruct (loo_total L m0 v Hm Hv) as [H1|[H1|H1]]; [congruence| |].
    + destruct (loo_cong L _ _ Hm Hv H1 (vmax K m0 l) Hx) as (_ & _ & _ & H4). congruence.
    + pose proof (loo_trans L _ _ _ Hx Hv Hm E2 H1). congruence.
  - apply IH; [|exact Hin]. destruct (ltb K m0 v); assumption.
Qed.
Lemma vmax_attained_on m0 l : vmax K m0 l = m0 \/ exists av, In av l /\ vmax K m0 l = snd av.
Proof. apply vmax_attained. Qed.   (* needs no law *)

Lemma vmin_lower_on m0 l av : P m0 -> vals_on l -> In av l -> ltb K (snd av) (vmin K m0 l) = false.
Proof.
  intros Hm Hl. revert m0 Hm. induction Hl as [|[a v] l Hv Hl IH]; intros m0 Hm Hin; [destruct Hin|].
  cbn [snd] in Hv. destruct Hin as [<-|Hin]; cbn [vmin snd].
  - destruct (ltb K v m0) eqn:E; [apply vmin_le_on; assumption|].
    assert (Hx : P (vmin K m0 l)) by (apply vmin_on; assumption).
    destruct (ltb K v (vmin K m0 l)) eqn:E2; [|reflexivity].
    pose proof (vmin_le_on l Hl m0 Hm) as H. destruct (loo_total L v m0 Hv Hm) as [H1|[H1|H1]]; [congruence| |].
    + destruct (loo_cong L _ _ Hv Hm H1 (vmin K m0 l) Hx) as (_ & _ & H3 & _). congruence.
    + pose proof (loo_trans L _ _ _ Hm Hv Hx H1 E2). congruence.
  - apply IH; [|exact Hin]. destruct (ltb K v m0); assumption.
Qed.
Lemma vmin_attained_on m0 l : vmin K m0 l = m0 \/ exists av, In av l /\ vmin K m0 l = snd av.
Proof. apply vmin_attained. Qed.   (* needs no law *)
End ScanOn.

(** * Values outside P that are inert
    If [P] is decided by a boolean test and every comparison involving a value outside [P] answers
    [false] (binary64: every comparison with a NaN is false), such values are invisible to the scans,
    to [vmax]/[vmin] and to the [eqb]-filter, so the arg-max / arg-min equations hold for ALL inputs. *)
Section Inert.
Context {T : Type}.
Variable K : ops T.
Variable P : T -> Prop.
Variable p : T -> bool.

Record inert_outside : Prop := {
  io_spec : forall x, p x = true <-> P x;
  io_inert : forall x y, p x = false ->
      ltb K x y = false /\ ltb K y x = false /\ eqb K x y = false /\ eqb K y x = false
}.

Hypothesis L : lawful_order_on K P.
Hypothesis I : inert_outside.

(* the sub-list of the P-values *)
Definition keep (l : list (string * T)) : list (string * T) := filter (fun av => p (snd av)) l.

Lemma keep_vals_on l : vals_on P (keep l).
Proof.
  unfold vals_on, keep. apply Forall_forall. intros av H. apply filter_In in H. apply (io_spec I), H.
Qed.
Lemma keep_In av l : In av l -> p (snd av) = true -> In av (keep l).
Proof. intros H1 H2. apply filter_In. split; assumption. Qed.

Lemma smax_keep l : forall st, fold_left (smax_step K) l st = fold_left (smax_step K) (keep l) st.
Proof.
  induction l as [|[a v] l IH]; intros st; [reflexivity|]. cbn [keep filter snd fold_left].
  destruct (p v) eqn:E; [apply IH|]. rewrite <- IH. f_equal.
  destruct (io_inert I v (fst st) E) as (_ & H2 & H3 & _).
  unfold smax_step. cbn [snd]. rewrite H2, H3. reflexivity.
Qed.
Lemma smin_keep l : forall st, fold_left (smin_step K) l st = fold_left (smin_step K) (keep l) st.
Proof.
  induction l as [|[a v] l IH]; intros st; [reflexivity|]. cbn [keep filter snd fold_left].
  destruct (p v) eqn:E; [apply IH|]. rewrite <- IH. f_equal.
  destruct (io_inert I v (fst st) E) as (H1 & _ & H3 & _).
  unfold smin_step. cbn [snd]. rewrite H1, H3. reflexivity.
Qed.
Lemma vmax_keep l : forall m, vmax K m l = vmax K m (keep l).
Proof.
  induction l as [|[a v] l IH]; intros m; [reflexivity|]. cbn [keep filter snd vmax].
  destruct (p v) eqn:E; [apply IH|]. rewrite <- IH.
  destruct (io_inert I v m E) as (_ & H2 & _). rewrite H2. reflexivity.
Qed.
Lemma vmin_keep l : forall m, vmin K m l = vmin K m (keep l).
Proof.
  induction l as [|[a v] l IH]; intros m; [reflexivity|]. cbn [keep filter snd vmin].
  destruct (p v) eqn:E; [apply IH|]. rewrite <- IH.
  destruct (io_inert I v m E) as (H1 & _). rewrite H1. reflexivity.
Qed.
Lemma filter_keep M (l : list (string * T)) :
  filter (fun av => eqb K (snd av) M) l = filter (fun av => eqb K (snd av) M) (keep l).
Proof.
  induction l as [|[a v] l IH]; [reflexivity|]. cbn [keep filter snd].
  destruct (p v) eqn:E.
  - cbn [filter snd]. fold (keep l). rewrite IH. reflexivity.
  - destruct (io_inert I v M E) as (_ & _ & H3 & _). rewrite H3. exact IH.
Qed.

(* a start value outside P is never replaced and nothing is listed *)
Lemma smax_outside l m best : p m = false -> fold_left (smax_step K) l (m, best) = (m, best).
Proof.
  intros E. induction l as [|[a v] l IH]; [reflexivity|]. cbn [fold_left]. rewrite <- IH at 2. f_equal.
  destruct (io_inert I m v E) as (H1 & _ & _ & H4). unfold smax_step. cbn [fst snd]. rewrite H1, H4. reflexivity.
Qed.
Lemma smin_outside l m best : p m = false -> fold_left (smin_step K) l (m, best) = (m, best).
Proof.
  intros E. induction l as [|[a v] l IH]; [reflexivity|]. cbn [fold_left]. rewrite <- IH at 2. f_equal.
  destruct (io_inert I m v E) as (_ & H2 & _ & H4). unfold smin_step. cbn [fst snd]. rewrite H2, H4. reflexivity.
Qed.
Lemma vmax_outside l m : p m = false -> vmax K m l = m.
Proof.
  intros E. induction l as [|[a v] l IH]; [reflexivity|]. cbn [vmax snd].
  destruct (io_inert I m v E) as (H1 & _). rewrite H1. exact IH.
Qed.
Lemma vmin_outside l m : p m = false -> vmin K m l = m.
Proof.
  intros E. induction l as [|[a v] l IH]; [reflexivity|]. cbn [vmin snd].
  destruct (io_inert I m v E) as (_ & H2 & _). rewrite H2. exact IH.
Qed.
Lemma filter_outside (l : list (string * T)) m : p m = false -> filter (fun av => eqb K (snd av) m) l = [].
Proof.
  intros E. induction l as [|[a v] l IH]; [reflexivity|]. cbn [filter snd].
  destruct (io_inert I m v E) as (_ & _ & _ & H4). rewrite H4. exact IH.
Qed.

Theorem scan_max_is_argmax_total m0 l :
  scan_max K m0 l = (vmax K m0 l, map fst (filter (fun av => eqb K (snd av) (vmax K m0 l)) l)).
Proof.
  destruct (p m0) eqn:E.
  - pose proof (scan_max_is_argmax_on K P L m0 (keep l) (proj1 (io_spec I m0) E) (keep_vals_on l)) as H.
    unfold scan_max in *. change (fold_left _ l (m0, [])) with (fold_left (smax_step K) l (m0, [])).
    change (fold_left _ (keep l) (m0, [])) with (fold_left (smax_step K) (keep l) (m0, [])) in H.
    rewrite smax_keep, H, <- vmax_keep, <- filter_keep. reflexivity.
  - unfold scan_max. change (fold_left _ l (m0, [])) with (fold_left (smax_step K) l (m0, [])).
    rewrite (smax_outside l m0 [] E), (vmax_outside l m0 E), (filter_outside l m0 E). reflexivity.
Qed.
Theorem scan_min_is_argmin_total m0 l :
  scan_min K m0 l = (vmin K m0 l, map fst (filter (fun av => eqb K (snd av) (vmin K m0 l)) l)).
Proof.
  destruct (p m0) eqn:E.
  - pose proof (scan_min_is_argmin_on K P L m0 (keep l) (proj1 (io_spec I m0) E) (keep_vals_on l)) as H.
    unfold scan_min in *. change (fold_left _ l (m0, [])) with (fold_left (smin_step K) l (m0, [])).
    change (fold_left _ (keep l) (m0, [])) with (fold_left (smin_step K) (keep l) (m0, [])) in H.
    rewrite smin_keep, H, <- vmin_keep, <- filter_keep. reflexivity.
  - unfold scan_min. change (fold_left _ l (m0, [])) with (fold_left (smin_step K) l (m0, [])).
    rewrite (smin_outside l m0 [] E), (vmin_outside l m0 E), (filter_outside l m0 E). reflexivity.
Qed.

(* the running maximum / minimum is that of the P-values alone; it is a P-value as soon as m0 is *)
Lemma vmax_total_on m0 l : P m0 -> P (vmax K m0 l).
Proof. intros H. rewrite vmax_keep. apply (vmax_on K P); [apply keep_vals_on|exact H]. Qed.
Lemma vmin_total_on m0 l : P m0 -> P (vmin K m0 l).
Proof. intros H. rewrite vmin_keep. apply (vmin_on K P); [apply keep_vals_on|exact H]. Qed.
Lemma vmax_upper_total m0 l av : In av l -> ltb K (vmax K m0 l) (snd av) = false.
Proof.
  intros Hin. destruct (p (snd av)) eqn:Ev.
  - destruct (p m0) eqn:Em.
    + rewrite vmax_keep. apply (vmax_upper_on K P L).
      * apply (io_spec I), Em.
      * apply keep_vals_on.
      * apply keep_In; assumption.
    + rewrite (vmax_outside l m0 Em). apply (io_inert I m0 (snd av) Em).
  - apply (io_inert I (snd av) (vmax K m0 l) Ev).
Qed.
Lemma vmin_lower_total m0 l av : In av l -> ltb K (snd av) (vmin K m0 l) = false.
Proof.
  intros Hin. destruct (p (snd av)) eqn:Ev.
  - destruct (p m0) eqn:Em.
    + rewrite vmin_keep. apply (vmin_lower_on K P L).
      * apply (io_spec I), Em.
      * apply keep_vals_on.
      * apply keep_In; assumption.
    + rewrite (vmin_outside l m0 Em). apply (io_inert I m0 (snd av) Em).
  - apply (io_inert I (snd av) (vmin K m0 l) Ev).
Qed.
End Inert.

(** The unrestricted laws are the laws on the trivial predicate. *)
Lemma lawful_order_on_all {T} (K : ops T) (P : T -> Prop) : lawful_order K -> lawful_order_on K P.
Proof.
  intros L. split.
  - intros x _. apply (lo_irrefl K L).
  - intros x y z _ _ _. apply (lo_trans K L).
  - intros x _. apply (lo_refl K L).
  - intros x y _ _ H z _. apply (lo_cong K L x y H z).
  - intros x y _ _. apply (lo_total K L).
Qed.
Lemma lawful_order_of_on {T} (K : ops T) : lawful_order_on K (fun _ => True) -> lawful_order K.
Proof.
  intros L. split.
  - intros x. apply (loo_irrefl K _ L x I).
  - intros x y z. apply (loo_trans K _ L x y z I I I).
  - intros x. apply (loo_refl K _ L x I).
  - intros x y H z. apply (loo_cong K _ L x y I I H z I).
  - intros x y. apply (loo_total K _ L x y I I).
Qed.
(* the laws are inherited by smaller predicates *)
Lemma lawful_order_on_weaken {T} (K : ops T) (P P' : T -> Prop) :
  (forall x, P' x -> P x) -> lawful_order_on K P -> lawful_order_on K P'.
Proof.
  intros S L. split.
  - intros x Hx. apply (loo_irrefl K P L); auto.
  - intros x y z Hx Hy Hz. apply (loo_trans K P L); auto.
  - intros x Hx. apply (loo_refl K P L); auto.
  - intros x y Hx Hy H z Hz. apply (loo_cong K P L x y); auto.
  - intros x y Hx Hy. apply (loo_total K P L); auto.
Qed.
