(** C06, termination of the reward loop on exact rationals for ranked (acyclic) node lists, with an
    explicit fuel bound.

    Setting: a rank function [rk] on state indices such that every transition strictly decreases the
    rank (no self-loops, no cycles). More generally ([acyc_above rk k0]) the states of rank < k0 may
    have arbitrary transitions among themselves as long as they already hold what the reward step
    computes for them ([fixed_below rk k0]): this covers absorbing zero-reward end states.

    Idea: a state is [fixed] when the triple it holds is literally what [rew_step] returns for it.
    [rew_step] reads the node list only at the successors of the state (locality), so a fixed state
    whose successors do not change stays fixed, and a sweep step at a fixed state writes the node back
    unchanged with difference |Qred (a - a)| = 0. One sweep turns "all states of rank < k fixed" into
    "all states of rank < k+1 fixed" (in place, Gauss-Seidel: what matters is only that the successors
    of the state being recomputed are fixed, whether or not this sweep has visited them yet). When all
    states are fixed the sweep returns the same list and maximal difference 0, and the loop stops. *)
From Coq Require Import String List Arith Bool Lia QArith Qabs Qreduction Lqa.
From CR Require Import Model.Num Model.Outcome Model.Graph Model.Game
     Proofs.Laws Proofs.GraphP Proofs.GameP Proofs.RewStepP Proofs.ReachQ Proofs.RewQ.
Import ListNotations.

(** * Locality of the reward step (any number instance) *)
Lemma fold_left_ext_in {A B} (f g : A -> B -> A) (l : list B) :
  (forall a x, In x l -> f a x = g a x) -> forall a, fold_left f l a = fold_left g l a.
Proof.
  induction l as [|x l IH]; intros H a; cbn [fold_left]; [reflexivity|].
  rewrite (H a x (or_introl eq_refl)). apply IH. intros b y Hy. apply H. right. exact Hy.
Qed.

Section Local.
Context {T : Type}.
Variable K : ops T.
Notation node := (@Game.node T).
Notation trans := (@Game.trans T).
Notation getn := (Game.getn K).

(* the four value fields of a node *)
Definition vals (n : node) : T * T * T * T := (reach n, er n, ermr n, erm n).

(* two node lists carry the same values at all targets of a transition list *)
Definition agree_on (sl sl' : list node) (l : list trans) : Prop :=
  forall t, In t l -> vals (getn sl (dst t)) = vals (getn sl' (dst t)).

Lemma agree_fields sl sl' l t : agree_on sl sl' l -> In t l ->
  reach (getn sl (dst t)) = reach (getn sl' (dst t)) /\ er (getn sl (dst t)) = er (getn sl' (dst t)) /\
  ermr (getn sl (dst t)) = ermr (getn sl' (dst t)) /\ erm (getn sl (dst t)) = erm (getn sl' (dst t)).
Proof. intros H Ht. specialize (H t Ht). unfold vals in H. inversion H. repeat split; assumption. Qed.

(* the reward step of a node reads the node list only through the value fields of the node's successors *)
Theorem rew_step_local sl sl' n : agree_on sl sl' (nxt n) -> rew_step K sl n = rew_step K sl' n.
Proof.
  intros H. unfold rew_step. destruct (nxt n) as [|first rest] eqn:El; [reflexivity|].
  set (l := first :: rest) in *.
  assert (Hfirst : In first l) by (left; reflexivity).
  destruct (nk n).
  - (* Player 1 *)
    fold (p1_fold K sl l (zero K, None)). fold (p1_fold K sl' l (zero K, None)).
    assert (E : p1_fold K sl l (zero K, None) = p1_fold K sl' l (zero K, None)).
    { unfold p1_fold. apply fold_left_ext_in. intros st t Ht. cbn zeta.
      destruct (agree_fields sl sl' l t H Ht) as (_ & -> & _). reflexivity. }
    rewrite E. destruct (p1_fold K sl' l (zero K, None)) as [m [t|]] eqn:Ef; cbn [fst snd]; [|reflexivity].
    apply p1_fold_pick in Ef. destruct Ef as [[Ht _]|[Hx _]]; [|discriminate].
    destruct (agree_fields sl sl' l t H Ht) as (_ & _ & -> & ->). reflexivity.
  - (* Player 2 *)
    cbn zeta.
    assert (E1 : map (fun t => (act t, rnd K (reach (getn sl (dst t))))) l =
                 map (fun t => (act t, rnd K (reach (getn sl' (dst t))))) l).
    { apply map_ext_in. intros t Ht. destruct (agree_fields sl sl' l t H Ht) as (-> & _). reflexivity. }
    rewrite E1.
    set (strats := snd (scan_min K (one K) (map (fun t => (act t, rnd K (reach (getn sl' (dst t))))) l))).
    fold (p2_fold K sl l (er (getn sl (dst first)), None)).
    fold (p2_fold K sl' l (er (getn sl' (dst first)), None)).
    assert (E2 : p2_fold K sl l (er (getn sl (dst first)), None) = p2_fold K sl' l (er (getn sl' (dst first)), None)).
    { destruct (agree_fields sl sl' l first H Hfirst) as (_ & -> & _).
      unfold p2_fold. apply fold_left_ext_in. intros st t Ht. cbn zeta.
      destruct (agree_fields sl sl' l t H Ht) as (_ & -> & _). reflexivity. }
    rewrite E2.
    assert (E3 : forall f0, In f0 l ->
       fold_left (fun m t => if mem_str (act t) strats
                             then if ltb K (ermr (getn sl (dst t))) m then ermr (getn sl (dst t)) else m
                             else m) l (ermr (getn sl (dst f0))) =
       fold_left (fun m t => if mem_str (act t) strats
                             then if ltb K (ermr (getn sl' (dst t))) m then ermr (getn sl' (dst t)) else m
                             else m) l (ermr (getn sl' (dst f0)))).
    { intros f0 Hf0. destruct (agree_fields sl sl' l f0 H Hf0) as (_ & _ & -> & _).
      apply fold_left_ext_in. intros m t Ht. cbn zeta.
      destruct (agree_fields sl sl' l t H Ht) as (_ & _ & -> & _). reflexivity. }
    destruct (p2_fold K sl' l (er (getn sl' (dst first)), None)) as [m [t|]] eqn:Ef; cbn [fst snd].
    + apply p2_fold_pick in Ef. destruct Ef as [[Ht _]|[Hx _]]; [|discriminate].
      destruct (agree_fields sl sl' l t H Ht) as (_ & _ & _ & ->).
      destruct strats as [|s0 ss] eqn:Es; [reflexivity|].
      destruct (filter (fun t0 => mem_str (act t0) (s0 :: ss)) l) as [|f0 fl] eqn:Efl; [reflexivity|].
      assert (Hf0 : In f0 l).
      { assert (Hin : In f0 (filter (fun t0 => mem_str (act t0) (s0 :: ss)) l)) by (rewrite Efl; left; reflexivity).
        apply filter_In in Hin. apply Hin. }
      rewrite (E3 f0 Hf0). reflexivity.
    + destruct strats as [|s0 ss]; [reflexivity|]. destruct (filter _ l); reflexivity.
  - (* probabilistic *)
    assert (Ea : forall a, fold_left (fun v t => add K v (mul K (er (getn sl (dst t))) (pr t))) l a =
                           fold_left (fun v t => add K v (mul K (er (getn sl' (dst t))) (pr t))) l a).
    { apply fold_left_ext_in. intros v t Ht. destruct (agree_fields sl sl' l t H Ht) as (_ & -> & _). reflexivity. }
    assert (Eb : forall a, fold_left (fun v t => add K v (mul K (ermr (getn sl (dst t))) (pr t))) l a =
                           fold_left (fun v t => add K v (mul K (ermr (getn sl' (dst t))) (pr t))) l a).
    { apply fold_left_ext_in. intros v t Ht. destruct (agree_fields sl sl' l t H Ht) as (_ & _ & -> & _). reflexivity. }
    assert (Ec : forall a, fold_left (fun v t => add K v (mul K (erm (getn sl (dst t))) (pr t))) l a =
                           fold_left (fun v t => add K v (mul K (erm (getn sl' (dst t))) (pr t))) l a).
    { apply fold_left_ext_in. intros v t Ht. destruct (agree_fields sl sl' l t H Ht) as (_ & _ & _ & ->). reflexivity. }
    rewrite Ea, Eb, Ec. reflexivity.
Qed.

(* ... and the node itself only through kind, reward and transitions *)
Lemma rew_step_set_rews sl n a b c : rew_step K sl (set_rews n a b c) = rew_step K sl n.
Proof. reflexivity. Qed.

Lemma set_rews_same (n : node) : set_rews n (er n) (ermr n) (erm n) = n.
Proof. destruct n. reflexivity. Qed.

(* overwriting a state that is not among the successors does not change the step *)
Lemma rew_step_upd_other sl i n' n :
  (forall t, In t (nxt n) -> dst t <> i) -> rew_step K (upd sl i n') n = rew_step K sl n.
Proof.
  intros H. apply rew_step_local. intros t Ht. rewrite getn_upd_neq; [reflexivity|].
  intros E. apply (H t Ht). symmetry. exact E.
Qed.
End Local.

(** * Exact rationals *)
Local Open Scope Q_scope.

(* the body of the sweep, literally the function folded by [sweep_rew] *)
Definition sweep_body (o : outcome (list nodeQ * Q)) (i : nat) : outcome (list nodeQ * Q) :=
  do st <- o;
  let sl := fst st in let md := snd st in
  let n := getq sl i in
  match rew_step qops sl n with
  | None => Crash "UnboundLocalError"%string
  | Some (a, b, c) =>
    let d := max3 qops (absf qops (sub qops a (er n))) (absf qops (sub qops b (ermr n))) (absf qops (sub qops c (erm n))) in
    Ok (upd sl i (set_rews n a b c), if ltb qops md d then d else md)
  end.

Lemma sweep_rew_fold sl : sweep_rew qops sl = fold_left sweep_body (seq 0 (length sl)) (Ok (sl, zero qops)).
Proof. reflexivity. Qed.

Lemma fold_body_crash idxs w : fold_left sweep_body idxs (Crash w) = Crash w.
Proof. induction idxs as [|i idxs IH]; cbn [fold_left]; [reflexivity|exact IH]. Qed.

(* a state is fixed when it holds literally (Leibniz) what the reward step computes for it *)
Definition fixed (sl : list nodeQ) (s : nat) : Prop :=
  rew_step qops sl (getq sl s) = Some (er (getq sl s), ermr (getq sl s), erm (getq sl s)).

Lemma qsub_self a : qsub a a = 0.
Proof. unfold qsub. change 0 with (Qred 0). apply Qred_complete. ring. Qed.

Lemma diff_self a b c : max3 qops (absf qops (sub qops a a)) (absf qops (sub qops b b)) (absf qops (sub qops c c)) = 0.
Proof. change (sub qops) with qsub. rewrite !qsub_self. reflexivity. Qed.

(* a sweep step at a fixed state writes the node back unchanged, with difference 0 *)
Lemma body_fixed sl md i : fixed sl i ->
  sweep_body (Ok (sl, md)) i = Ok (sl, if ltb qops md 0 then 0 else md).
Proof.
  intros H. unfold sweep_body. cbn [bind fst snd]. unfold fixed in H. rewrite H.
  rewrite diff_self, set_rews_same. unfold getn. rewrite upd_same. reflexivity.
Qed.

(** ** A sweep over a list in which every state is fixed returns the same list and difference 0 *)
Lemma fold_all_fixed : forall idxs sl, (forall i, In i idxs -> fixed sl i) ->
  fold_left sweep_body idxs (Ok (sl, 0)) = Ok (sl, 0).
Proof.
  induction idxs as [|i idxs IH]; intros sl H; cbn [fold_left]; [reflexivity|].
  rewrite body_fixed by (apply H; left; reflexivity).
  change (if ltb qops 0 0 then 0 else 0) with 0. apply IH. intros j Hj. apply H. right. exact Hj.
Qed.

Theorem sweep_all_fixed sl : (forall s, (s < length sl)%nat -> fixed sl s) -> sweep_rew qops sl = Ok (sl, 0).
Proof.
  intros H. rewrite sweep_rew_fold. apply fold_all_fixed. intros i Hi. apply in_seq in Hi. apply H. lia.
Qed.

(** ** The loop stops at the first sweep that starts from an all-fixed list *)
Theorem vi_rew_stops_when_fixed fuel sl i :
  (forall s, (s < length sl)%nat -> fixed sl s) -> vi_rew qops (S fuel) sl i = Ok (sl, (i + 1)%nat).
Proof. intros H. cbn [vi_rew]. rewrite (sweep_all_fixed sl H). reflexivity. Qed.

(** ** Ranks *)
(* every transition strictly decreases the rank, except possibly among the states of rank < k *)
Definition acyc_above (rk : nat -> nat) (k : nat) (sl : list nodeQ) : Prop :=
  forall s t, In t (nxt (getq sl s)) -> (rk (dst t) < rk s)%nat \/ ((rk s < k)%nat /\ (rk (dst t) < k)%nat).
Definition fixed_below (rk : nat -> nat) (k : nat) (sl : list nodeQ) : Prop :=
  forall s, (s < length sl)%nat -> (rk s < k)%nat -> fixed sl s.

Lemma acyc_above_S rk k sl : acyc_above rk k sl -> acyc_above rk (S k) sl.
Proof. intros H s t Ht. destruct (H s t Ht) as [A|[A B]]; [left; exact A|right; lia]. Qed.

Lemma acyc_above_nxt rk k sl sl' :
  (forall s, nxt (getq sl' s) = nxt (getq sl s)) -> acyc_above rk k sl -> acyc_above rk k sl'.
Proof. intros E H s t Ht. rewrite E in Ht. apply H. exact Ht. Qed.

Lemma nxt_upd_set_rews (sl : list nodeQ) i a b c s :
  nxt (getq (upd sl i (set_rews (getq sl i) a b c)) s) = nxt (getq sl s).
Proof.
  destruct (Nat.eq_dec i s) as [<-|Hne].
  - destruct (Nat.lt_ge_cases i (length sl)) as [Hi|Hi].
    + rewrite getn_upd_eq by exact Hi. reflexivity.
    + rewrite !getn_out by (try rewrite upd_length; exact Hi). reflexivity.
  - rewrite getn_upd_neq by exact Hne. reflexivity.
Qed.

(* a fixed state stays fixed when another state, not among its successors, is overwritten *)
Lemma fixed_upd_other sl i n' s :
  fixed sl s -> s <> i -> (forall t, In t (nxt (getq sl s)) -> dst t <> i) -> fixed (upd sl i n') s.
Proof.
  intros H Hne Hs. unfold fixed. rewrite getn_upd_neq by congruence.
  rewrite rew_step_upd_other by exact Hs. exact H.
Qed.

(* the state just recomputed is fixed, provided it is not its own successor *)
Lemma fixed_upd_new sl i a b c :
  (i < length sl)%nat -> rew_step qops sl (getq sl i) = Some (a, b, c) ->
  (forall t, In t (nxt (getq sl i)) -> dst t <> i) ->
  fixed (upd sl i (set_rews (getq sl i) a b c)) i.
Proof.
  intros Hi E Hs. unfold fixed. rewrite getn_upd_eq by exact Hi. rewrite rew_step_set_rews.
  rewrite rew_step_upd_other by exact Hs. rewrite E. reflexivity.
Qed.

(* the invariant of one sweep: [G] is a set of fixed states of rank <= k containing all states of
   rank < k; every state of rank <= k the sweep visits joins it *)
Lemma fold_rank rk k : forall idxs sl md sl' md' (G : nat -> Prop),
  acyc_above rk k sl ->
  (forall i, In i idxs -> (i < length sl)%nat) ->
  (forall s, (s < length sl)%nat -> (rk s < k)%nat -> G s) ->
  (forall s, G s -> (rk s <= k)%nat /\ fixed sl s) ->
  fold_left sweep_body idxs (Ok (sl, md)) = Ok (sl', md') ->
  (forall s, G s -> fixed sl' s) /\
  (forall s, In s idxs -> (rk s <= k)%nat -> fixed sl' s).
Proof.
  induction idxs as [|i idxs IH]; intros sl md sl' md' G Hac Hr Hlow HG H; cbn [fold_left] in H.
  - inversion H; subst. split; [intros s Hs; apply HG; exact Hs|intros s []].
  - assert (Hi : (i < length sl)%nat) by (apply Hr; left; reflexivity).
    destruct (lt_dec (rk i) k) as [Hlt|Hge].
    + (* a state of rank < k: already fixed, nothing changes *)
      assert (Gi : G i) by (apply Hlow; assumption).
      rewrite body_fixed in H by (apply HG; exact Gi).
      apply (IH sl _ sl' md' G Hac) in H; try assumption.
      2:{ intros j Hj. apply Hr. right. exact Hj. }
      destruct H as [I1 I2].
      split; [exact I1|]. intros s [<-|Hs] Hk; [apply I1; exact Gi|apply I2; assumption].
    + (* rank >= k: only state i changes, and no member of G has i as a successor *)
      unfold sweep_body in H at 2. cbn [bind fst snd] in H.
      destruct (rew_step qops sl (getq sl i)) as [[[a b] c]|] eqn:E.
      2:{ rewrite fold_body_crash in H. discriminate. }
      set (n := getq sl i) in *.
      set (sl1 := upd sl i (set_rews n a b c)) in *.
      assert (Hself : forall t, In t (nxt n) -> dst t <> i).
      { intros t Ht Heq. destruct (Hac i t Ht) as [A|[A _]]; [rewrite Heq in A|]; lia. }
      assert (Hnew : fixed sl1 i) by (apply fixed_upd_new; assumption).
      assert (Hold : forall s, G s -> fixed sl1 s).
      { intros s Gs. destruct (HG s Gs) as [Hk Hf]. destruct (Nat.eq_dec s i) as [->|Hne]; [exact Hnew|].
        apply fixed_upd_other; [exact Hf|exact Hne|].
        intros t Ht Heq. destruct (Hac s t Ht) as [A|[_ A]]; rewrite Heq in A; lia. }
      apply (IH sl1 _ sl' md' (fun s => G s \/ (s = i /\ (rk i <= k)%nat))) in H.
      * destruct H as [I1 I2]. split; [intros s Gs; apply I1; left; exact Gs|].
        intros s [<-|Hs] Hk; [apply I1; right; split; [reflexivity|exact Hk]|apply I2; assumption].
      * apply (acyc_above_nxt rk k sl); [|exact Hac]. intros s. apply nxt_upd_set_rews.
      * intros j Hj. unfold sl1. rewrite upd_length. apply Hr. right. exact Hj.
      * intros s Hs Hk. left. apply Hlow; [|exact Hk]. unfold sl1 in Hs. rewrite upd_length in Hs. exact Hs.
      * intros s [Gs|[-> Hk]]; [split; [apply HG; exact Gs|apply Hold; exact Gs]|split; [exact Hk|exact Hnew]].
Qed.

Lemma sweep_static sl sl' d : sweep_rew qops sl = Ok (sl', d) ->
  length sl' = length sl /\ forall s, nxt (getq sl' s) = nxt (getq sl s).
Proof.
  intros E. apply sweep_rew_erase in E. split.
  - apply (map_eq_length (erase_rews qops)). exact E.
  - intros s. apply (erase_rews_static qops). apply map_eq_getn. exact E.
Qed.

(** ** One sweep fixes one more rank *)
Theorem sweep_rank rk k sl sl' d :
  acyc_above rk k sl -> fixed_below rk k sl -> sweep_rew qops sl = Ok (sl', d) ->
  length sl' = length sl /\ acyc_above rk (S k) sl' /\ fixed_below rk (S k) sl'.
Proof.
  intros Hac Hfix E. destruct (sweep_static sl sl' d E) as [Hl Hn].
  split; [exact Hl|]. split; [apply acyc_above_S; apply (acyc_above_nxt rk k sl); assumption|].
  rewrite sweep_rew_fold in E.
  destruct (fold_rank rk k (seq 0 (length sl)) sl (zero qops) sl' d (fun s => (s < length sl)%nat /\ (rk s < k)%nat) Hac)
    as [I1 I2]; try exact E.
  - intros i Hi. apply in_seq in Hi. lia.
  - intros s Hs Hk. split; assumption.
  - intros s [Hs Hk]. split; [lia|apply Hfix; assumption].
  - intros s Hs Hk. rewrite Hl in Hs. apply I2; [apply in_seq; lia|lia].
Qed.

(** ** Termination with an explicit bound *)
(* [m] = number of rank levels not yet fixed. At most m sweeps fix them, one more sweep sees difference 0. *)
Lemma vi_rew_ranked rk : forall m k sl i fuel,
  good_static sl -> er_nonneg sl -> acyc_above rk k sl -> fixed_below rk k sl ->
  (forall s, (s < length sl)%nat -> (rk s < k + m)%nat) -> (m + 1 <= fuel)%nat ->
  exists sl' j, vi_rew qops fuel sl i = Ok (sl', (i + j)%nat) /\ (1 <= j <= m + 1)%nat.
Proof.
  induction m as [|m IH]; intros k sl i fuel Hg Hnn Hac Hfix Hrk Hfuel.
  - destruct fuel as [|fuel]; [lia|]. exists sl, 1%nat. split; [|lia].
    apply vi_rew_stops_when_fixed. intros s Hs. apply Hfix; [exact Hs|]. specialize (Hrk s Hs). lia.
  - destruct fuel as [|fuel]; [lia|]. cbn [vi_rew].
    destruct (sweep_rew_no_crash sl Hg Hnn) as (sl1 & d & E & Hg1 & Hnn1). rewrite E. cbn [bind fst snd].
    destruct (ltb qops (thr qops) d).
    + destruct (sweep_rank rk k sl sl1 d Hac Hfix E) as (Hl & Hac1 & Hfix1).
      destruct (IH (S k) sl1 (i + 1)%nat fuel Hg1 Hnn1 Hac1 Hfix1) as (sl' & j & Ej & Hj).
      * intros s Hs. rewrite Hl in Hs. specialize (Hrk s Hs). lia.
      * lia.
      * exists sl', (1 + j)%nat. split; [|lia]. rewrite Ej. f_equal. f_equal. lia.
    + exists sl1, 1%nat. split; [reflexivity|lia].
Qed.

(* General form: the states of rank < k0 are already fixed (and closed under transitions together with
   the strictly decreasing part); all ranks are < R. Then R - k0 + 1 sweeps suffice. *)
Theorem vi_rew_terminates_ranked rk R k0 : forall sl i fuel,
  good_static sl -> er_nonneg sl ->
  acyc_above rk k0 sl -> fixed_below rk k0 sl ->
  (forall s, (s < length sl)%nat -> (rk s < R)%nat) -> (k0 <= R)%nat ->
  (R - k0 + 1 <= fuel)%nat ->
  exists sl' j, vi_rew qops fuel sl i = Ok (sl', (i + j)%nat) /\ (1 <= j <= R - k0 + 1)%nat.
Proof.
  intros sl i fuel Hg Hnn Hac Hfix Hrk Hk Hfuel.
  apply (vi_rew_ranked rk (R - k0) k0); try assumption.
  intros s Hs. specialize (Hrk s Hs). lia.
Qed.

(* every transition goes to a state of strictly smaller rank *)
Definition acyclic (rk : nat -> nat) (sl : list nodeQ) : Prop :=
  forall s t, (s < length sl)%nat -> In t (nxt (getq sl s)) -> (rk (dst t) < rk s)%nat.

Lemma acyclic_above0 rk sl : acyclic rk sl -> acyc_above rk 0 sl.
Proof.
  intros H s t Ht. left. destruct (Nat.lt_ge_cases s (length sl)) as [Hs|Hs]; [apply (H s t Hs Ht)|].
  rewrite getn_out in Ht by exact Hs. destruct Ht.
Qed.

(* Main theorem: strictly ranked (acyclic) node list, all ranks < R: the reward loop returns Ok as
   soon as it is given R + 1 sweeps of fuel, after at most R + 1 sweeps. No hypothesis on the values
   initially held by the states other than er >= 0 (needed against the unbound-variable branch). *)
Theorem vi_rew_terminates_acyclic rk R : forall sl i fuel,
  good_static sl -> er_nonneg sl -> acyclic rk sl ->
  (forall s, (s < length sl)%nat -> (rk s < R)%nat) ->
  (R + 1 <= fuel)%nat ->
  exists sl' j, vi_rew qops fuel sl i = Ok (sl', (i + j)%nat) /\ (1 <= j <= R + 1)%nat.
Proof.
  intros sl i fuel Hg Hnn Hac Hrk Hfuel.
  destruct (vi_rew_terminates_ranked rk R 0 sl i fuel) as (sl' & j & E & Hj); try assumption.
  - apply acyclic_above0. exact Hac.
  - intros s _ Hk. lia.
  - lia.
  - lia.
  - exists sl', j. split; [exact E|lia].
Qed.
