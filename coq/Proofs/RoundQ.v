(** Rounding to 6 digits on exact rationals moves a value by at most 5e-7; hence successors whose
    reported values differ by more than 1e-6 are never confused by the strategy scans (C04). *)
From Coq Require Import String List Bool Lia ZArith QArith Qabs Qreduction Lqa.
From CR Require Import Model.Num Model.Game Proofs.Laws.
Import ListNotations.

Local Open Scope Z_scope.
Lemma rhe_close n d : 0 < d -> 2 * Z.abs (rhe n d * d - n) <= d.
Proof.
  intros Hd. unfold rhe. pose proof (Z.div_mod n d ltac:(lia)) as E. pose proof (Z.mod_pos_bound n d Hd) as B.
  set (q := n / d) in *. set (r := n mod d) in *.
  destruct (Z.compare_spec (2 * r) d) as [H|H|H].
  - destruct (Z.even q); lia.
  - lia.
  - lia.
Qed.

Local Open Scope Q_scope.
Lemma qround6_close a : Qabs (qround6 a - a) <= 1 # 2000000.
Proof.
  unfold qround6. rewrite Qred_correct. destruct a as [n d]. cbn [Qnum Qden].
  pose proof (rhe_close (n * 1000000) (Zpos d) ltac:(lia)) as H.
  set (k := rhe (n * 1000000) (Z.pos d)) in *.
  apply Qabs_Qle_condition. unfold Qle, Qminus, Qplus, Qopp. cbn [Qnum Qden].
  split; nia.
Qed.

(* values further apart than 1e-6 keep their order after rounding (strictly) *)
Lemma qround6_separates x y : x - y > 1 # 1000000 -> qround6 y < qround6 x.
Proof.
  intros H. pose proof (qround6_close x) as Hx. pose proof (qround6_close y) as Hy.
  apply Qabs_Qle_condition in Hx. apply Qabs_Qle_condition in Hy. lra.
Qed.

(* Player 1: a successor whose reported value is more than 1e-6 below another successor's is not listed;
   Player 2: one more than 1e-6 above another's is not listed *)
Theorem scan_separated (raw : list (string * Q)) a1 x1 a2 x2 m0 :
  In (a1, x1) raw -> In (a2, x2) raw -> x1 - x2 > 1 # 1000000 ->
  let vals := map (fun ax => (fst ax, qround6 (snd ax))) raw in
  eqb qops (qround6 x2) (vmax qops m0 vals) = false /\
  eqb qops (qround6 x1) (vmin qops m0 vals) = false.
Proof.
  intros H1 H2 Hs vals. pose proof (qround6_separates x1 x2 Hs) as Hlt.
  assert (I1 : In (a1, qround6 x1) vals) by (apply (in_map (fun ax => (fst ax, qround6 (snd ax))) raw (a1, x1)); exact H1).
  assert (I2 : In (a2, qround6 x2) vals) by (apply (in_map (fun ax => (fst ax, qround6 (snd ax))) raw (a2, x2)); exact H2).
  split.
  - pose proof (vmax_upper qops qops_lawful m0 vals _ I1) as U. cbn [snd] in U.
    change (ltb qops) with qltb in U. apply qltb_false in U.
    change (eqb qops) with qeqb. destruct (qeqb (qround6 x2) (vmax qops m0 vals)) eqn:E; [|reflexivity].
    apply qeqb_eq in E. lra.
  - pose proof (vmin_lower qops qops_lawful m0 vals _ I2) as U. cbn [snd] in U.
    change (ltb qops) with qltb in U. apply qltb_false in U.
    change (eqb qops) with qeqb. destruct (qeqb (qround6 x1) (vmin qops m0 vals)) eqn:E; [|reflexivity].
    apply qeqb_eq in E. lra.
Qed.
