(** End to end (C06): for a well-formed game with positive probabilities, solve on exact rationals
    never reaches the UnboundLocalError branch (nor divides by zero when renormalising). *)
From Coq Require Import String List Arith Bool Lia QArith Qabs Qreduction Lqa.
From CR Require Import Model.Num Model.Outcome Model.Graph Model.Game
     Proofs.Laws Proofs.GraphP Proofs.GameP Proofs.PruneStatesP Proofs.PipelineP Proofs.RewStepP
     Proofs.ReachQ Proofs.ReachQ2 Proofs.C03Q Proofs.RewQ.
Import ListNotations.
Local Open Scope Q_scope.

Notation gameQ := (@game Q).

Definition num_wf (g : gameQ) : Prop :=
  forall i, nth i (g_players g) PR = PR -> pos_w (nth i (g_trans g) []).

Lemma sumw_pos l : l <> [] -> pos_w l -> 0 < sumw l.
Proof.
  intros Hne Hp. destruct l as [|t l]; [congruence|]. cbn [sumw fold_right]. fold (sumw l).
  assert (0 < pr t) by (apply Hp; left; reflexivity).
  assert (0 <= sumw l).
  { apply sumw_nonneg. intros u Hu. apply Qlt_le_weak. apply Hp. right. exact Hu. }
  lra.
Qed.

Lemma pos_w_filter f l : pos_w l -> pos_w (filter f l).
Proof. intros H t Ht. apply filter_In in Ht. apply H. apply Ht. Qed.

Lemma prune_paths_node_good sl (n : nodeQ) :
  0 <= rew n -> (nk n = PR -> pos_w (nxt n)) ->
  let n' := prune_paths_node qops sl n in
  0 <= rew n' /\ (nk n' = PR -> pos_w (nxt n')) /\ er n' = er n.
Proof.
  intros Hr Hw n'. pose proof (prune_paths_node_fields qops sl n) as Hf. cbn zeta in Hf.
  destruct Hf as (Hk & Hrw & _ & _ & He & _). fold n' in Hk, Hrw, He.
  split; [rewrite Hrw; exact Hr|]. split; [|exact He].
  intros Hk'. rewrite Hk in Hk'. subst n'. rewrite prune_paths_node_PR by exact Hk'. cbn zeta.
  destruct (_ =? _); [apply Hw; exact Hk'|].
  set (al := filter (alive qops sl) (nxt n)).
  assert (Hal : pos_w al) by (apply pos_w_filter, Hw, Hk').
  intros t Ht. apply in_map_iff in Ht. destruct Ht as [t0 [<- Ht0]]. cbn [pr].
  assert (Hne : al <> []) by (intros E; rewrite E in Ht0; destruct Ht0).
  pose proof (sumw_pos al Hne Hal) as Hs.
  pose proof (surv_total_spec al 0) as Hst. change (div qops) with qdiv. rewrite qdiv_ok.
  unfold surv_total. change (zero qops) with 0.
  assert (Ht : 0 < fold_left (fun s t => add qops s (pr t)) al 0) by lra.
  assert (0 < pr t0) by (apply Hal; exact Ht0).
  apply Qlt_shift_div_l; [exact Ht|lra].
Qed.

Theorem solve_no_crash fuel (g : gameQ) prune :
  wf_game qops g -> num_wf g ->
  match solve_fuel qops fuel g prune with Crash _ => False | _ => True end.
Proof.
  intros Hwf Hnum. destruct (solve_fuel qops fuel g prune) as [r|m|w|] eqn:E; try exact I.
  unfold solve_fuel in E.
  destruct (solve_reach_fuel qops fuel g prune) as [[[sl1 rs] it]| | |] eqn:Ea; cbn [bind] in E; try discriminate.
  2:{ (* a crash of the reachability half is impossible for a well-formed game *)
      pose proof (solve_outcomes qops fuel g prune Hwf) as Ho. unfold solve_fuel in Ho. rewrite Ea in Ho. cbn [bind] in Ho.
      inversion E; subst. unfold solve_reach_fuel in Ea.
      rewrite (check_game_wf qops g Hwf) in Ea. cbn [bind] in Ea.
      destruct (init_states_wf qops g Hwf) as (sl0 & E0 & _). rewrite E0 in Ea. cbn [bind] in Ea.
      destruct (g_finals g) as [|f0 fs] eqn:Ef; [discriminate|]. rewrite <- Ef in *.
      destruct (reverse_dfs_exact (tlg g) (g_finals g) (wf_finals_inrange qops g Hwf)) as (srf & Es & _).
      fold (tlg g) in Ea. rewrite Es in Ea. cbn [bind] in Ea.
      pose proof (vi_reach_outcomes qops srf fuel sl0 0) as Hv.
      destruct (vi_reach qops fuel srf sl0 0) as [[sla it]| | |]; cbn [bind] in Ea; try discriminate; try contradiction.
      cbn [fst snd] in Ea. unfold after_reach in Ea. destruct (_ && prune); discriminate. }
  cbn [fst snd] in E.
  (* static facts about sl1 *)
  destruct (reach_static_chain qops _ _ _ _ _ _ Hwf Ea) as [Hlen Hst].
  pose proof Ea as Ea'. apply solve_reach_inv in Ea'. destruct Ea' as (sl0 & srf & sla & A1 & A2 & A3 & A4 & A5 & A6).
  destruct (init_states_wf qops g Hwf) as (sl0' & B1 & B2 & B3). rewrite A2 in B1. inversion B1; subst sl0'.
  apply after_reach_ok in A5.
  destruct (vi_reach_frame qops srf _ _ _ _ _ A4) as [F1 _].
  assert (Her1 : forall i, er (getq sl1 i) = rew (getq sl1 i)).
  { intros i. subst sl1. rewrite getn_map by reflexivity. cbn [er rew set_erm].
    pose proof (map_eq_getn qops _ _ _ i F1) as Hs. apply erase_reach_static in Hs.
    destruct Hs as (_ & S2 & _ & _ & S5 & _). rewrite S2, S5.
    destruct (Nat.lt_ge_cases i (nstates g)) as [Hi|Hi]; [rewrite (B3 i Hi); reflexivity|].
    rewrite getn_out by (rewrite B2; exact Hi). reflexivity. }
  assert (Hg1 : good_static sl1).
  { intros i. destruct (Nat.lt_ge_cases i (nstates g)) as [Hi|Hi].
    - destruct (Hst i Hi) as (Hk & Hn & Hr & _). split.
      + rewrite Hr. destruct Hwf as (_ & W2 & W3 & _).
        assert (Hin : In (nth i (g_rewards g) (zero qops)) (g_rewards g)) by (apply nth_In; rewrite W2; exact Hi).
        apply W3 in Hin. apply qltb_false in Hin. exact Hin.
      + intros Hk'. rewrite Hn. apply Hnum. rewrite <- Hk. exact Hk'.
    - rewrite getn_out by (rewrite Hlen; exact Hi). split; [cbn; lra|intros _ t []]. }
  assert (Hlrs : length rs = length sl1) by (rewrite A6; unfold strats_reach; apply map_length).
  set (sl2 := prune_reachability rs sl1) in *.
  assert (H2 : forall i, rew (getq sl2 i) = rew (getq sl1 i) /\ er (getq sl2 i) = er (getq sl1 i) /\
                         nk (getq sl2 i) = nk (getq sl1 i) /\ (nk (getq sl1 i) = PR -> nxt (getq sl2 i) = nxt (getq sl1 i))).
  { intros i. subst sl2. destruct (Nat.lt_ge_cases i (length sl1)) as [Hi|Hi].
    - rewrite prune_reachability_nth by assumption. cbn zeta.
      destruct (nk (getq sl1 i)) eqn:Ek; destruct (nth i rs None); cbn; repeat split; try reflexivity; try congruence.
    - rewrite !getn_out; [repeat split; reflexivity|exact Hi|rewrite prune_reachability_length; assumption]. }
  assert (Hg2 : good_static sl2 /\ er_nonneg sl2).
  { split; intros i; destruct (H2 i) as (R1 & R2 & R3 & R4).
    - split; [rewrite R1; apply Hg1|]. intros Hk. rewrite R3 in Hk. rewrite R4 by exact Hk. apply Hg1. exact Hk.
    - rewrite R2, Her1. apply Hg1. }
  destruct Hg2 as [Hg2 Hn2].
  assert (Hg3 : forall sl3, (if prune then prune_states (length sl2 + 2) [] (prune_paths qops sl2) else Ok sl2) = Ok sl3 ->
                good_static sl3 /\ er_nonneg sl3).
  { intros sl3 Hb. destruct prune.
    - assert (Hp : forall i, 0 <= rew (getq (prune_paths qops sl2) i) /\
                             (nk (getq (prune_paths qops sl2) i) = PR -> pos_w (nxt (getq (prune_paths qops sl2) i))) /\
                             0 <= er (getq (prune_paths qops sl2) i)).
      { intros i. rewrite prune_paths_getn.
        destruct (prune_paths_node_good sl2 (getq sl2 i) (proj1 (Hg2 i)) (proj2 (Hg2 i))) as (P1' & P2' & P3').
        split; [exact P1'|]. split; [exact P2'|]. rewrite P3'. apply Hn2. }
      split; intros i; destruct (prune_states_only_cleared qops _ _ _ _ i Hb) as [[E0|[E0 _]] _]; rewrite E0.
      + split; [apply Hp|apply Hp].
      + cbn [rew nk nxt set_nxt]. split; [apply Hp|intros _ t []].
      + apply Hp.
      + cbn [er set_nxt]. apply Hp.
    - inversion Hb; subst. split; assumption. }
  match type of E with bind ?x _ = _ => destruct x as [sl3| | |] eqn:Eb; cbn [bind] in E; try discriminate end.
  - destruct (Hg3 sl3 eq_refl) as [G3 N3].
    pose proof (vi_rew_no_crash fuel sl3 0 G3 N3) as Hv.
    destruct (vi_rew qops fuel sl3 0) as [[sl4 it2]| | |]; cbn [bind] in E; try discriminate; contradiction.
  - (* prune_states cannot crash *)
    destruct prune; [|discriminate].
    clear -Eb. revert Eb. generalize (length sl2 + 2)%nat, (@nil nat), (prune_paths qops sl2).
    induction n as [|k IH]; intros old sl Eb; cbn [prune_states] in Eb; [discriminate|].
    destruct (_ && _); [discriminate|]. eapply IH. exact Eb.
Qed.
