(** C04, exact rationals: a true tie that the solver misses (known finding K1-C04). Player 1 chooses
    between a final state and a state that reaches it through a 0.9 self-loop: both are worth 1, the
    reported strategy lists only the first. *)
From Coq Require Import String List Arith Bool Lia QArith Qabs Qreduction Lqa.
From CR Require Import Model.Num Model.Outcome Model.Graph Model.Game
     Proofs.PipelineP Proofs.ReachQ Proofs.ReachQ2 Proofs.ReachQ3.
Import ListNotations.
Local Open Scope Q_scope.

Definition k4_game : @game Q :=
  mkG [0; 0; 0] [P1; PR; PR]
      [[mkT "a" 0 1%nat; mkT "b" 0 2%nat]; [mkT "" 1 1%nat]; [mkT "" (9#10) 2%nat; mkT "" (1#10) 1%nat]] [1%nat].

Lemma k4_reported :
  exists sl1 rs it, solve_reach_fuel qops 1000 k4_game false = Ok (sl1, rs, it) /\
                    nth 0 rs None = Some ["a"%string] /\ reach_vec qops sl1 2%nat < 1.
Proof. eexists _, _, _. split; [vm_compute; reflexivity|]. split; vm_compute; reflexivity. Qed.

Lemma k4_V_closed m : gV k4_game m 1%nat == 1 /\ gV k4_game m 2%nat == 1 - qpow (9#10) m.
Proof.
  induction m as [|m [IH1 IH2]].
  - split; cbn; lra.
  - unfold gV in *. cbn [V]. unfold PhiStar, gfin. cbn [mem_nat existsb k4_game g_finals Nat.eqb orb].
    split; [reflexivity|].
    unfold Phi, gkd, gtr. cbn [nth k4_game g_players g_trans]. rewrite !rstep_unfold. unfold wsum. cbn [fold_left dst pr].
    rewrite !qadd_ok, !qmul_ok. rewrite IH1, IH2. cbn [qpow]. ring.
Qed.

Theorem k4_tie_missed :
  exists sl1 rs it, solve_reach_fuel qops 1000 k4_game false = Ok (sl1, rs, it) /\
    nth 0 rs None = Some ["a"%string] /\
    (forall m, gV k4_game m 1%nat == 1) /\
    (forall m, gV k4_game m 2%nat == 1 - qpow (9#10) m) /\
    gV k4_game 200 2%nat > 1 - (1 # 1000000000).
Proof.
  destruct k4_reported as (sl1 & rs & it & H1 & H2 & _). exists sl1, rs, it.
  split; [exact H1|]. split; [exact H2|]. split; [intros m; apply k4_V_closed|]. split; [intros m; apply k4_V_closed|].
  destruct (k4_V_closed 200) as [_ Hv]. rewrite Hv. vm_compute. reflexivity.
Qed.
