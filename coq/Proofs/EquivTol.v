(** Two reports of the same value are close: the C13 "within tolerance" claim in conditional form.
    Ingredients: the report never exceeds any super-solution of the Bellman equations (least-fixed-point
    side), and it is within threshold * T of the value under an absorption-time certificate T
    (ReachQ4.reach_error_bound). *)
From Coq Require Import String List Arith Bool QArith Lia Lqa.
From CR Require Import Model.Num Model.Outcome Model.Graph Model.Game
     Proofs.GraphP Proofs.PipelineP Proofs.ReachQ Proofs.ReachQ2 Proofs.ErrBound Proofs.ReachQ4.
Import ListNotations.
Local Open Scope Q_scope.

Section Below.
Variable kd : nat -> kind.
Variable tr : nat -> list trans.
Variable finb : nat -> bool.
Hypothesis Hw : forall i, kd i = PR -> nonneg_w (tr i).
Hypothesis Hs : forall i, kd i = PR -> sumw (tr i) <= 1.

(* every finite-horizon value lies below every super-solution that is 1 on the final states *)
Lemma V_below_super (y : vec) :
  (forall i, 0 <= y i) ->
  (forall i, finb i = true -> 1 <= y i) ->
  (forall i, finb i = false -> Phi kd tr y i <= y i) ->
  forall m i, V kd tr finb m i <= y i.
Proof.
  intros H0 H1 H2. induction m as [|m IH]; intros i; cbn [V].
  - unfold x0. destruct (finb i) eqn:E; [apply H1; exact E|apply H0].
  - unfold PhiStar. destruct (finb i) eqn:E; [apply H1; exact E|].
    eapply Qle_trans; [apply (Phi_mono kd tr Hw); exact IH|apply H2; exact E].
Qed.
End Below.

(* the report of a solved game never exceeds a super-solution *)
Lemma report_below_super (g : gameQ) :
  wf_game qops g ->
  (forall i, nth i (g_players g) PR = PR ->
     nonneg_w (nth i (g_trans g) []) /\ sumw (nth i (g_trans g) []) <= 1) ->
  forall fuel prune sl1 rs it,
  solve_reach_fuel qops fuel g prune = Ok (sl1, rs, it) ->
  forall y : vec,
  (forall i, 0 <= y i) ->
  (forall i, gfin g i = true -> 1 <= y i) ->
  (forall i, gfin g i = false -> gPhi g y i <= y i) ->
  forall s, reach_vec qops sl1 s <= y s.
Proof.
  intros Hwf Hnum fuel prune sl1 rs it H y H0 H1 H2 s.
  destruct (reach_numeric g Hwf Hnum fuel prune sl1 rs it H) as (srf & _ & _ & _ & Hb & _).
  eapply Qle_trans; [apply Hb|].
  unfold gV. apply V_below_super; try assumption.
  - intros i Hi. apply Hnum. exact Hi.
Qed.

(* Two solved games (any two: in the use below, one is the other written with renamed states and
   reordered transitions), a value vector for each - a fixed point of its Bellman equations on the
   iterated states that agrees with the report elsewhere and is a super-solution everywhere - and an
   absorption-time certificate for each. If the two value vectors correspond along pi (which is what
   C13_values_equivariant establishes for every finite horizon), the two reports differ, at
   corresponding states, by at most threshold * the larger of the two certificates. *)
Theorem reports_close (g g' : gameQ) (pi : nat -> nat) :
  wf_game qops g -> wf_game qops g' ->
  (forall i, nth i (g_players g) PR = PR ->
     nonneg_w (nth i (g_trans g) []) /\ sumw (nth i (g_trans g) []) <= 1) ->
  (forall i, nth i (g_players g') PR = PR ->
     nonneg_w (nth i (g_trans g') []) /\ sumw (nth i (g_trans g') []) <= 1) ->
  forall fuel fuel' prune prune' sl1 sl1' rs rs' it it',
  solve_reach_fuel qops fuel g prune = Ok (sl1, rs, it) ->
  solve_reach_fuel qops fuel' g' prune' = Ok (sl1', rs', it') ->
  let p := reach_vec qops sl1 in
  let p' := reach_vec qops sl1' in
  exists srf srf', reverse_dfs (tlg g) (g_finals g) = Ok srf /\
                   reverse_dfs (tlg g') (g_finals g') = Ok srf' /\
  forall (y y' T T' : vec) (M M' : Q),
    (* y: the value of g *)
    (forall s, In s srf -> y s = gPhi g y s) -> (forall s, ~ In s srf -> y s = p s) ->
    (forall i, 0 <= y i <= 1) -> (forall i, gfin g i = true -> 1 <= y i) ->
    (forall i, gfin g i = false -> gPhi g y i <= y i) ->
    (* y': the value of g' *)
    (forall s, In s srf' -> y' s = gPhi g' y' s) -> (forall s, ~ In s srf' -> y' s = p' s) ->
    (forall i, 0 <= y' i <= 1) -> (forall i, gfin g' i = true -> 1 <= y' i) ->
    (forall i, gfin g' i = false -> gPhi g' y' i <= y' i) ->
    (* certificates *)
    (forall s, 1 + B (gkd g) (gtr g) (fun s => mem_nat s srf) T s <= T s) -> (forall s, 0 <= T s <= M) ->
    (forall s, 1 + B (gkd g') (gtr g') (fun s => mem_nat s srf') T' s <= T' s) -> (forall s, 0 <= T' s <= M') ->
    forall s, y' (pi s) == y s ->
      p s - p' (pi s) <= q_thr * T' (pi s) /\ p' (pi s) - p s <= q_thr * T s.
Proof.
  intros Hwf Hwf' Hnum Hnum' fuel fuel' prune prune' sl1 sl1' rs rs' it it' H H' p p'.
  destruct (reach_error_bound g Hwf Hnum fuel prune sl1 rs it H) as (srf & E & HB).
  destruct (reach_error_bound g' Hwf' Hnum' fuel' prune' sl1' rs' it' H') as (srf' & E' & HB').
  exists srf, srf'. split; [exact E|]. split; [exact E'|].
  intros y y' T T' M M' Y1 Y2 Y3 Y4 Y5 Y1' Y2' Y3' Y4' Y5' C1 C2 C1' C2' s Hpi.
  destruct (reach_numeric g Hwf Hnum fuel prune sl1 rs it H) as (_ & _ & Pb & _).
  subst p p'.
  destruct (reach_numeric g' Hwf' Hnum' fuel' prune' sl1' rs' it' H') as (_ & _ & Pb' & _).
  assert (L : forall s, reach_vec qops sl1 s <= y s).
  { intros u. apply (report_below_super g Hwf Hnum fuel prune sl1 rs it H y); [intros i; apply Y3|exact Y4|exact Y5]. }
  assert (L' : forall s, reach_vec qops sl1' s <= y' s).
  { intros u. apply (report_below_super g' Hwf' Hnum' fuel' prune' sl1' rs' it' H' y'); [intros i; apply Y3'|exact Y4'|exact Y5']. }
  assert (D : forall s, y s - reach_vec qops sl1 s <= q_thr * T s).
  { apply (HB y T M Y1 Y2); [|exact C1|exact C2]. intros u. pose proof (Y3 u) as A1. pose proof (Pb u) as A2. cbv zeta in A2. set (a := reach_vec qops sl1 u) in *. lra. }
  assert (D' : forall s, y' s - reach_vec qops sl1' s <= q_thr * T' s).
  { apply (HB' y' T' M' Y1' Y2'); [|exact C1'|exact C2']. intros u. pose proof (Y3' u) as A1. pose proof (Pb' u) as A2. cbv zeta in A2. set (a := reach_vec qops sl1' u) in *. lra. }
  specialize (L s). specialize (L' (pi s)). specialize (D s). specialize (D' (pi s)).
  set (a := reach_vec qops sl1 s) in *. set (b := reach_vec qops sl1' (pi s)) in *. split; lra.
Qed.

(** non-vacuity: the 0.9-self-loop game and the same game with states 1 and 2 exchanged and both rows
    written in the opposite order meet every hypothesis of [reports_close] (values (1,1,1), certificates
    (12,1,11) and (12,11,1)). *)
From CR Require Import Proofs.C04Q.
Definition k4r_game : @game Q :=
  mkG [0; 0; 0] [P1; PR; PR]
      [[mkT "b" 0 1%nat; mkT "a" 0 2%nat]; [mkT "" (1#10) 2%nat; mkT "" (9#10) 1%nat]; [mkT "" 1 2%nat]] [2%nat].
Definition k4_pi (i : nat) : nat := match i with 1%nat => 2%nat | 2%nat => 1%nat | _ => i end.
Definition k4r_T : vec := fun i => k4_T (k4_pi i).
Definition k4r_y : vec := fun i => k4_y (k4_pi i).

Lemma k4r_num : forall i, nth i (g_players k4r_game) PR = PR ->
  nonneg_w (nth i (g_trans k4r_game) []) /\ sumw (nth i (g_trans k4r_game) []) <= 1.
Proof.
  intros i _. destruct i as [|[|[|i]]]; cbn [nth g_trans k4r_game].
  - split; [intros t [<-|[<-|[]]]; cbn; lra|cbn; lra].
  - split; [intros t [<-|[<-|[]]]; cbn; lra|cbn; lra].
  - split; [intros t [<-|[]]; cbn; lra|cbn; lra].
  - destruct i; cbn; split; try (intros t []); lra.
Qed.

Lemma k4r_wf : wf_game qops k4r_game.
Proof.
  unfold wf_game, nstates. cbn [k4r_game g_trans g_rewards g_players g_finals length].
  split; [reflexivity|]. split; [reflexivity|]. split.
  - intros r Hr. cbn in Hr. destruct Hr as [<-|[<-|[<-|[]]]]; reflexivity.
  - split; [discriminate|]. split.
    + intros f [<-|[]]. lia.
    + intros tr Htr. cbn in Htr.
      destruct Htr as [<-|[<-|[<-|[]]]]; (split; [discriminate|]); intros t Ht; cbn in Ht.
      * destruct Ht as [<-|[<-|[]]]; cbn; lia.
      * destruct Ht as [<-|[<-|[]]]; cbn; lia.
      * destruct Ht as [<-|[]]; cbn; lia.
Qed.

Lemma k4r_certificate :
  (forall s, 1 + B (gkd k4r_game) (gtr k4r_game) (fun s => mem_nat s [0%nat; 1%nat]) k4r_T s <= k4r_T s) /\
  (forall s, 0 <= k4r_T s <= 12).
Proof.
  split; intros s; destruct s as [|[|[|s]]]; try (cbn; lra); vm_compute; intros H; discriminate H.
Qed.

Lemma k4_values :
  (forall s, In s [0%nat; 2%nat] -> k4_y s = gPhi k4_game k4_y s) /\
  (forall i, 0 <= k4_y i <= 1) /\ (forall i, gfin k4_game i = true -> 1 <= k4_y i) /\
  (forall i, gfin k4_game i = false -> gPhi k4_game k4_y i <= k4_y i).
Proof.
  split; [intros s [<-|[<-|[]]]; vm_compute; reflexivity|].
  split; [intros i; destruct i as [|[|[|i]]]; cbn; lra|].
  split.
  - intros i Hi. destruct i as [|[|[|i]]]; cbn; try lra; vm_compute in Hi; discriminate Hi.
  - intros i _. destruct i as [|[|[|i]]]; try (vm_compute; intros H; discriminate H).
    unfold gPhi, Phi, gkd, gtr. cbn [nth k4_game g_players g_trans]. destruct i; cbn; try rewrite rstep_unfold; cbn; try lra; vm_compute; intros H; discriminate H.
Qed.

Lemma k4r_values :
  (forall s, In s [0%nat; 1%nat] -> k4r_y s = gPhi k4r_game k4r_y s) /\
  (forall i, 0 <= k4r_y i <= 1) /\ (forall i, gfin k4r_game i = true -> 1 <= k4r_y i) /\
  (forall i, gfin k4r_game i = false -> gPhi k4r_game k4r_y i <= k4r_y i).
Proof.
  split; [intros s [<-|[<-|[]]]; vm_compute; reflexivity|].
  split; [intros i; destruct i as [|[|[|i]]]; cbn; lra|].
  split.
  - intros i Hi. destruct i as [|[|[|i]]]; cbn; try lra; vm_compute in Hi; discriminate Hi.
  - intros i _. destruct i as [|[|[|i]]]; try (vm_compute; intros H; discriminate H).
    unfold gPhi, Phi, gkd, gtr. cbn [nth k4r_game g_players g_trans]. destruct i; cbn; try rewrite rstep_unfold; cbn; try lra; vm_compute; intros H; discriminate H.
Qed.

Lemma k4_pair_solved :
  (exists sl1 rs it, solve_reach_fuel qops 1000 k4_game true = Ok (sl1, rs, it)) /\
  (exists sl1 rs it, solve_reach_fuel qops 1000 k4r_game true = Ok (sl1, rs, it)) /\
  reverse_dfs (tlg k4_game) (g_finals k4_game) = Ok [0%nat; 2%nat] /\
  reverse_dfs (tlg k4r_game) (g_finals k4r_game) = Ok [0%nat; 1%nat] /\
  (forall s, k4r_y (k4_pi s) == k4_y s).
Proof.
  split; [eexists _, _, _; vm_compute; reflexivity|].
  split; [eexists _, _, _; vm_compute; reflexivity|].
  split; [vm_compute; reflexivity|]. split; [vm_compute; reflexivity|].
  intros s. destruct s as [|[|[|s]]]; cbn; lra.
Qed.
