(** Known finding K5 (C14), on the exact-rational instance of the model: the 'probabilities under minimal
    reward' diagnostic can keep a stale value at a player state whose final strategy never reaches a
    final state. *)
From Coq Require Import String List Arith Bool QArith Lia.
From CR Require Import Model.Num Model.Outcome Model.Graph Model.Game Proofs.PipelineP.
Import ListNotations.
Local Open Scope string_scope.

(* 0: coin flip to 1 or to the final state 3; 1: Player 2, 'c' loops on 1 (reward 0), 'a' goes to 2;
   2 -> 4 -> 3 collects reward 1 at state 4 *)
Definition k5_game : @game Q :=
  mkG [0; 0; 0; 0; 1]%Q [PR; P2; PR; PR; PR]
      [[mkT "" (1#2)%Q 1%nat; mkT "" (1#2)%Q 3%nat]; [mkT "c" 0%Q 1%nat; mkT "a" 0%Q 2%nat];
       [mkT "" 1%Q 4%nat]; [mkT "" 1%Q 3%nat]; [mkT "" 1%Q 3%nat]] [3%nat].

Lemma k5_wf : wf_game qops k5_game.
Proof.
  unfold wf_game, nstates. cbn [k5_game g_trans g_rewards g_players g_finals length].
  split; [reflexivity|]. split; [reflexivity|]. split.
  - intros r Hr. cbn in Hr. destruct Hr as [<-|[<-|[<-|[<-|[<-|[]]]]]]; reflexivity.
  - split; [discriminate|]. split.
    + intros f [<-|[]]. lia.
    + intros tr Htr. cbn in Htr.
      destruct Htr as [<-|[<-|[<-|[<-|[<-|[]]]]]]; (split; [discriminate|]); intros t Ht; cbn in Ht.
      * destruct Ht as [<-|[<-|[]]]; cbn; lia.
      * destruct Ht as [<-|[<-|[]]]; cbn; lia.
      * destruct Ht as [<-|[]]; cbn; lia.
      * destruct Ht as [<-|[]]; cbn; lia.
      * destruct Ht as [<-|[]]; cbn; lia.
Qed.

(* Without pruning the solve succeeds; Player 2's final strategy at state 1 is the single action 'c', whose
   target is state 1 itself - not a final state - so following the final strategies state 1 reaches the
   final state with probability 0 and the initial state with probability 1/2; the report says 1 and 1. *)
Lemma k5_stale :
  exists r, solve_fuel qops 100 k5_game false = Ok r /\
    nth 1 (r_final r) None = Some ["c"] /\
    (forall t, In t (nth 1 (g_trans k5_game) []) -> act t = "c" -> dst t = 1%nat) /\
    ~ In 1%nat (g_finals k5_game) /\
    nth 1 (r_prob_min_rew r) 0%Q = 1%Q /\ nth 0 (r_prob_min_rew r) 0%Q = 1%Q /\
    nth 1 (r_probs r) 1%Q = 0%Q.
Proof.
  eexists. split; [vm_compute; reflexivity|]. split; [reflexivity|]. split.
  - intros t Ht Ha. cbn in Ht. destruct Ht as [<-|[<-|[]]]; [reflexivity|discriminate Ha].
  - split; [intros [H|[]]; discriminate H|]. split; [reflexivity|]. split; reflexivity.
Qed.
