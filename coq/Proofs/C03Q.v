(** C03, exact rationals: after renormalisation the surviving probabilities sum to 1; and the pinned
    tree's mutate-while-iterating scan (defect D1, repaired) violates the property. *)
From Coq Require Import String List Arith Bool Lia QArith Qabs Qreduction Lqa.
From CR Require Import Model.Num Model.Outcome Model.Graph Model.Game Model.Heap
     Proofs.GameP Proofs.ReachQ.
Import ListNotations.
Local Open Scope Q_scope.

Arguments qdiv : simpl never.
Lemma qdiv_ok a b : qdiv a b == a / b. Proof. apply Qred_correct. Qed.

Lemma surv_total_spec (l : list trans) : forall acc,
  fold_left (fun s t => add qops s (pr t)) l acc == acc + sumw l.
Proof.
  induction l as [|t l IH]; intros acc; cbn [fold_left sumw fold_right]; [lra|].
  rewrite IH. fold (sumw l). change (add qops acc (pr t)) with (qadd acc (pr t)). rewrite qadd_ok. lra.
Qed.

(* each surviving weight is old / total, and (for a positive surviving total) they sum to one *)
Theorem renormalised_sum_one (al : list trans) :
  0 < sumw al ->
  sumw (map (fun t => mkT (act t) (div qops (pr t) (surv_total qops al)) (dst t)) al) == 1.
Proof.
  intros Hpos. unfold surv_total. pose proof (surv_total_spec al 0) as Hs. change (zero qops) with 0.
  set (tot := fold_left (fun s t => add qops s (pr t)) al 0) in *.
  assert (Ht : tot == sumw al) by lra.
  assert (Hgen : forall l, sumw (map (fun t => mkT (act t) (div qops (pr t) tot) (dst t)) l) == sumw l / tot).
  { induction l as [|t l IH]; cbn [map sumw fold_right pr].
    - unfold Qdiv. lra.
    - fold (sumw (map (fun t0 => mkT (act t0) (div qops (pr t0) tot) (dst t0)) l)). fold (sumw l).
      rewrite IH. change (div qops (pr t) tot) with (qdiv (pr t) tot). rewrite qdiv_ok. field. lra. }
  rewrite Hgen, Ht. field. lra.
Qed.

(** * The pinned tree's scan (kept in Model/Heap.v as prune_paths_orig_H) *)
Definition d1_game (row0 : list trans) : @game Q :=
  mkG [1; 0; 0; 0; 0] [PR; PR; PR; PR; PR]
      [row0; [mkT "" 1 1%nat]; [mkT "" 1 2%nat]; [mkT "" 1 3%nat]; [mkT "" 1 4%nat]] [3%nat].
Definition d1_adjacent := d1_game [mkT "" (1#4) 1%nat; mkT "" (1#4) 2%nat; mkT "" (1#2) 3%nat].
Definition d1_separated := d1_game [mkT "" (1#4) 1%nat; mkT "" (1#2) 3%nat; mkT "" (1#4) 2%nat].

Definition solve_orig (g : @game Q) : outcome (@result Q) :=
  snd (solve_H_orig qops 100 (fst (load g)) (snd (load g)) true).

(* two adjacent dead successors: the second one survives (with weight 1/3) although its probability is 0 *)
Lemma d1_adjacent_keeps_dead :
  exists r, solve_orig d1_adjacent = Ok r /\
            nth 0 (r_pruned r) [] = [mkT "" (1#3) 2%nat; mkT "" (2#3) 3%nat] /\
            nth 2 (r_probs r) 1 = 0.
Proof. eexists. split; [vm_compute; reflexivity|]. split; vm_compute; reflexivity. Qed.

(* two separated dead successors: solve dies with ValueError('list.remove(x): x not in list') *)
Lemma d1_separated_crashes : solve_orig d1_separated = ValueErr msg_remove.
Proof. vm_compute. reflexivity. Qed.

(* the repaired pipeline on the same inputs *)
Lemma d1_repaired :
  (exists r, solve qops d1_adjacent true = Ok r /\ nth 0 (r_pruned r) [] = [mkT "" 1 3%nat]) /\
  (exists r, solve qops d1_separated true = Ok r /\ nth 0 (r_pruned r) [] = [mkT "" 1 3%nat]).
Proof. split; eexists; (split; [vm_compute; reflexivity|vm_compute; reflexivity]). Qed.
