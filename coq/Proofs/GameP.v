(** Structural facts about the solver model, generic in the number operations (so they hold of the
    binary64 instance as well): pruning (C03), strategy scans (C04/C05), frame lemmas of the loops. *)
From Coq Require Import String List Arith Bool Lia.
From CR Require Import Model.Num Model.Outcome Model.Graph Model.Game Proofs.GraphP.
Import ListNotations.

(** * lists *)
Lemma upd_length {A} (l : list A) i x : length (upd l i x) = length l.
Proof. revert i. induction l as [|h t IH]; intros [|i]; cbn; auto. Qed.

Lemma nth_upd_eq {A} (l : list A) i x d : i < length l -> nth i (upd l i x) d = x.
Proof. revert i. induction l as [|h t IH]; intros [|i] H; cbn in *; try lia; auto. apply IH. lia. Qed.

Lemma nth_upd_neq {A} (l : list A) i j x d : i <> j -> nth j (upd l i x) d = nth j l d.
Proof.
  revert i j. induction l as [|h t IH]; intros [|i] [|j] H; cbn; try reflexivity; try congruence.
  apply IH. congruence.
Qed.

Lemma map_upd {A B} (f : A -> B) (l : list A) i x : map f (upd l i x) = upd (map f l) i (f x).
Proof. revert i. induction l as [|h t IH]; intros [|i]; cbn; try reflexivity. rewrite IH. reflexivity. Qed.

Lemma upd_same {A} (l : list A) i d : upd l i (nth i l d) = l.
Proof. revert i. induction l as [|h t IH]; intros [|i]; cbn; try reflexivity. rewrite IH. reflexivity. Qed.

Lemma filter_length_le {A} (f : A -> bool) (l : list A) : length (filter f l) <= length l.
Proof. induction l as [|h t IH]; cbn; [lia|]. destruct (f h); cbn; lia. Qed.

Lemma filter_length_all {A} (f : A -> bool) (l : list A) :
  length (filter f l) = length l -> forall x, In x l -> f x = true.
Proof.
  induction l as [|h t IH]; intros H x Hx; [destruct Hx|].
  cbn in H. pose proof (filter_length_le f t) as Hle. destruct (f h) eqn:E.
  - cbn in H. destruct Hx as [<-|Hx]; [exact E|]. apply IH; [lia|exact Hx].
  - lia.
Qed.

Lemma filter_all_id {A} (f : A -> bool) (l : list A) : (forall x, In x l -> f x = true) -> filter f l = l.
Proof.
  induction l as [|h t IH]; intros H; [reflexivity|]. cbn. rewrite (H h (or_introl eq_refl)).
  f_equal. apply IH. intros x Hx. apply H. right. exact Hx.
Qed.

Lemma nth_combine_seq {A} (l : list A) a i d : i < length l ->
  nth i (combine (seq a (length l)) l) (0, d) = (a + i, nth i l d).
Proof.
  revert a i. induction l as [|h t IH]; intros a i H; [cbn in H; lia|].
  cbn [length seq combine]. destruct i as [|i]; cbn [nth].
  - rewrite Nat.add_0_r. reflexivity.
  - rewrite IH by (cbn in H; lia). f_equal. lia.
Qed.

Section GameP.
Context {T : Type}.
Variable K : ops T.
Notation node := (@node T).
Notation trans := (@trans T).
Notation getn := (getn K).

Lemma getn_upd_eq (sl : list node) i n : i < length sl -> getn (upd sl i n) i = n.
Proof. apply nth_upd_eq. Qed.
Lemma getn_upd_neq (sl : list node) i j n : i <> j -> getn (upd sl i n) j = getn sl j.
Proof. apply nth_upd_neq. Qed.
Lemma getn_out (sl : list node) i : length sl <= i -> getn sl i = dnode K.
Proof. intros H. apply nth_overflow. exact H. Qed.

Lemma getn_map (f : node -> node) (sl : list node) i :
  f (dnode K) = dnode K -> getn (map f sl) i = f (getn sl i).
Proof. intros H. unfold Game.getn. rewrite <- H at 1. apply map_nth. Qed.

(** * C03: prune_paths *)
Lemma prune_paths_node_fields sl n :
  let n' := prune_paths_node K sl n in
  nk n' = nk n /\ rew n' = rew n /\ fin n' = fin n /\ reach n' = reach n /\
  er n' = er n /\ ermr n' = ermr n /\ erm n' = erm n.
Proof.
  unfold prune_paths_node. destruct (nk n) eqn:E; cbn; try (repeat split; congruence).
  destruct (_ =? _); cbn; repeat split; congruence.
Qed.

Lemma prune_paths_node_dnode sl : prune_paths_node K sl (dnode K) = dnode K.
Proof. reflexivity. Qed.

Lemma prune_paths_length sl : length (prune_paths K sl) = length sl.
Proof. apply map_length. Qed.

Lemma prune_paths_getn sl i : getn (prune_paths K sl) i = prune_paths_node K sl (getn sl i).
Proof. apply getn_map. apply prune_paths_node_dnode. Qed.

Lemma prune_paths_reach sl i : reach (getn (prune_paths K sl) i) = reach (getn sl i).
Proof. rewrite prune_paths_getn. apply prune_paths_node_fields. Qed.

Lemma prune_paths_node_P1 sl n : nk n = P1 -> nxt (prune_paths_node K sl n) = filter (alive K sl) (nxt n).
Proof. intros H. unfold prune_paths_node. rewrite H. reflexivity. Qed.

Lemma prune_paths_node_P2 sl n : nk n = P2 -> prune_paths_node K sl n = n.
Proof. intros H. unfold prune_paths_node. rewrite H. reflexivity. Qed.

Definition surv_total (l : list trans) : T := fold_left (fun s t => add K s (pr t)) l (zero K).

Lemma prune_paths_node_PR sl n : nk n = PR ->
  nxt (prune_paths_node K sl n) =
  let al := filter (alive K sl) (nxt n) in
  if length al =? length (nxt n) then nxt n
  else map (fun t => mkT (act t) (div K (pr t) (surv_total al)) (dst t)) al.
Proof.
  intros H. unfold prune_paths_node. rewrite H. cbn zeta.
  destruct (_ =? _); reflexivity.
Qed.

(* no Player 1 or probabilistic state keeps a transition into a state whose reach value is 0 *)
Theorem prune_paths_no_dead sl n t :
  nk n <> P2 -> In t (nxt (prune_paths_node K sl n)) -> alive K sl t = true.
Proof.
  intros Hk Hin. destruct (nk n) eqn:E; [|congruence|].
  - rewrite prune_paths_node_P1 in Hin by exact E. apply filter_In in Hin. apply Hin.
  - rewrite prune_paths_node_PR in Hin by exact E. cbn zeta in Hin.
    destruct (Nat.eqb_spec (length (filter (alive K sl) (nxt n))) (length (nxt n))) as [Hl|Hl].
    + eapply filter_length_all; eauto.
    + apply in_map_iff in Hin. destruct Hin as [t0 [<- Hin0]]. apply filter_In in Hin0.
      unfold alive in *. cbn [dst]. apply Hin0.
Qed.

(* the surviving targets are exactly the alive ones, in their original order *)
Theorem prune_paths_survivors sl n :
  nk n <> P2 -> map dst (nxt (prune_paths_node K sl n)) = map dst (filter (alive K sl) (nxt n)).
Proof.
  intros Hk. destruct (nk n) eqn:E; [|congruence|].
  - rewrite prune_paths_node_P1 by exact E. reflexivity.
  - rewrite prune_paths_node_PR by exact E. cbn zeta.
    destruct (Nat.eqb_spec (length (filter (alive K sl) (nxt n))) (length (nxt n))) as [Hl|Hl].
    + rewrite filter_all_id; [reflexivity|]. apply filter_length_all. exact Hl.
    + rewrite map_map. reflexivity.
Qed.

(* Player 1 survivors keep their action labels *)
Theorem prune_paths_P1_exact sl n : nk n = P1 ->
  nxt (prune_paths_node K sl n) = filter (alive K sl) (nxt n).
Proof. apply prune_paths_node_P1. Qed.

(* probabilistic survivors carry old / (sum of surviving old), or are untouched when nothing died *)
Theorem prune_paths_PR_weights sl n : nk n = PR ->
  let al := filter (alive K sl) (nxt n) in
  (al = nxt n /\ prune_paths_node K sl n = n) \/
  (length al < length (nxt n) /\
   nxt (prune_paths_node K sl n) = map (fun t => mkT (act t) (div K (pr t) (surv_total al)) (dst t)) al).
Proof.
  intros E al. pose proof (filter_length_le (alive K sl) (nxt n)) as Hle.
  destruct (Nat.eqb_spec (length al) (length (nxt n))) as [Hl|Hl].
  - left. assert (Hal : al = nxt n) by (apply filter_all_id, filter_length_all; exact Hl).
    split; [exact Hal|]. unfold prune_paths_node. rewrite E. fold al. rewrite Hl, Nat.eqb_refl. reflexivity.
  - right. split; [unfold al in *; lia|]. rewrite prune_paths_node_PR by exact E. cbn zeta. fold al.
    destruct (Nat.eqb_spec (length al) (length (nxt n))); [contradiction|reflexivity].
Qed.

(** * C03: prune_reachability keeps exactly the actions of the reachability strategy *)
Lemma prune_reachability_length strats (sl : list node) :
  length strats = length sl -> length (prune_reachability strats sl) = length sl.
Proof. intros H. unfold prune_reachability. rewrite map_length, combine_length. lia. Qed.

Lemma prune_reachability_nth strats (sl : list node) i :
  length strats = length sl -> i < length sl ->
  getn (prune_reachability strats sl) i =
  let n := getn sl i in
  match nk n, nth i strats None with
  | P1, Some best => set_nxt n (filter (fun t => mem_str (act t) best) (nxt n))
  | _, _ => n
  end.
Proof.
  intros Hl Hi. unfold prune_reachability, Game.getn.
  set (f := fun ns : node * option (list string) => _).
  rewrite (nth_indep _ (dnode K) (f (dnode K, None))) by (rewrite map_length, combine_length; lia).
  rewrite map_nth, combine_nth by (symmetry; exact Hl).
  subst f. cbn [fst snd]. destruct (nk (nth i sl (dnode K))); reflexivity.
Qed.

(** * Strategy scans: what is listed is an action of the scanned list *)
Lemma scan_max_subset m0 (l : list (string * T)) a :
  In a (snd (scan_max K m0 l)) -> In a (map fst l).
Proof.
  unfold scan_max.
  assert (H : forall st, In a (snd (fold_left (fun st av => let m := fst st in let v := snd av in
     if ltb K m v then (v, [fst av]) else if eqb K v m then (m, snd st ++ [fst av]) else st) l st)) ->
     In a (snd st) \/ In a (map fst l)).
  { induction l as [|av l IH]; intros st Hin; cbn [fold_left] in Hin; [left; exact Hin|].
    apply IH in Hin. destruct Hin as [Hin|Hin]; [|right; right; exact Hin]. cbn zeta in Hin.
    destruct (ltb K (fst st) (snd av)).
    - cbn in Hin. destruct Hin as [<-|[]]. right. left. reflexivity.
    - destruct (eqb K (snd av) (fst st)); [|left; exact Hin].
      cbn in Hin. apply in_app_iff in Hin. destruct Hin as [Hin|[<-|[]]]; [left; exact Hin|right; left; reflexivity]. }
  intros Hin. apply H in Hin. destruct Hin as [[]|Hin]. exact Hin.
Qed.

Lemma scan_min_subset m0 (l : list (string * T)) a :
  In a (snd (scan_min K m0 l)) -> In a (map fst l).
Proof.
  unfold scan_min.
  assert (H : forall st, In a (snd (fold_left (fun st av => let m := fst st in let v := snd av in
     if ltb K v m then (v, [fst av]) else if eqb K v m then (m, snd st ++ [fst av]) else st) l st)) ->
     In a (snd st) \/ In a (map fst l)).
  { induction l as [|av l IH]; intros st Hin; cbn [fold_left] in Hin; [left; exact Hin|].
    apply IH in Hin. destruct Hin as [Hin|Hin]; [|right; right; exact Hin]. cbn zeta in Hin.
    destruct (ltb K (snd av) (fst st)).
    - cbn in Hin. destruct Hin as [<-|[]]. right. left. reflexivity.
    - destruct (eqb K (snd av) (fst st)); [|left; exact Hin].
      cbn in Hin. apply in_app_iff in Hin. destruct Hin as [Hin|[<-|[]]]; [left; exact Hin|right; left; reflexivity]. }
  intros Hin. apply H in Hin. destruct Hin as [[]|Hin]. exact Hin.
Qed.

(** * Frame lemmas of the two loops *)
Definition erase_reach (n : node) : node := set_reach n (zero K).
Definition erase_rews (n : node) : node := set_rews n (zero K) (zero K) (zero K).

Lemma map_upd_erase (er : node -> node) (sl : list node) i x :
  er x = er (getn sl i) -> map er (upd sl i x) = map er sl.
Proof.
  intros H. rewrite map_upd, H. unfold Game.getn.
  rewrite <- (map_nth er). apply upd_same.
Qed.

Lemma sweep_reach_frame S : forall sl md,
  let r := fold_left (fun st i =>
     let sl := fst st in let md := snd st in
     let n := getn sl i in
     let v := reach_step K sl n in
     let d := absf K (sub K v (reach n)) in
     (upd sl i (set_reach n v), if ltb K md d then d else md)) S (sl, md) in
  map erase_reach (fst r) = map erase_reach sl /\
  (forall j, ~ In j S -> reach (getn (fst r) j) = reach (getn sl j)).
Proof.
  induction S as [|i S IH]; intros sl md; cbn [fold_left]; [split; reflexivity|].
  cbn zeta. cbn [fst snd].
  match goal with |- context [fold_left _ S (?a, ?b)] => destruct (IH a b) as [H1 H2] end.
  cbn zeta in *. split.
  - rewrite H1. apply map_upd_erase. reflexivity.
  - intros j Hj. rewrite H2 by (intros H; apply Hj; right; exact H).
    rewrite getn_upd_neq; [reflexivity|]. intros ->. apply Hj. left. reflexivity.
Qed.

Lemma sweep_reach_erase S sl : map erase_reach (fst (sweep_reach K S sl)) = map erase_reach sl.
Proof. apply (sweep_reach_frame S sl (zero K)). Qed.
Lemma sweep_reach_outside S sl j : ~ In j S -> reach (getn (fst (sweep_reach K S sl)) j) = reach (getn sl j).
Proof. apply (sweep_reach_frame S sl (zero K)). Qed.

Lemma vi_reach_frame S : forall fuel sl i sl' i',
  vi_reach K fuel S sl i = Ok (sl', i') ->
  map erase_reach sl' = map erase_reach sl /\
  (forall j, ~ In j S -> reach (getn sl' j) = reach (getn sl j)).
Proof.
  induction fuel as [|fuel IH]; intros sl i sl' i' H; cbn [vi_reach] in H; [discriminate|].
  destruct (ltb K (thr K) (snd (sweep_reach K S sl))).
  - apply IH in H. destruct H as [H1 H2]. split.
    + rewrite H1. apply sweep_reach_erase.
    + intros j Hj. rewrite H2 by exact Hj. apply sweep_reach_outside. exact Hj.
  - inversion H; subst. split; [apply sweep_reach_erase|intros j Hj; apply sweep_reach_outside; exact Hj].
Qed.

Lemma erase_reach_static (a b : node) : erase_reach a = erase_reach b ->
  nk a = nk b /\ rew a = rew b /\ nxt a = nxt b /\ fin a = fin b /\ er a = er b /\ ermr a = ermr b /\ erm a = erm b.
Proof. unfold erase_reach, set_reach. intros H. inversion H. repeat split; assumption. Qed.

Lemma erase_rews_static (a b : node) : erase_rews a = erase_rews b ->
  nk a = nk b /\ rew a = rew b /\ nxt a = nxt b /\ fin a = fin b /\ reach a = reach b.
Proof. unfold erase_rews, set_rews. intros H. inversion H. repeat split; assumption. Qed.

Lemma map_eq_getn (f : node -> node) (sl sl' : list node) i :
  map f sl' = map f sl -> f (getn sl' i) = f (getn sl i).
Proof.
  intros H. unfold Game.getn. rewrite <- !(map_nth f). rewrite H. reflexivity.
Qed.

Lemma map_eq_length {A B} (f : A -> B) (l l' : list A) : map f l' = map f l -> length l' = length l.
Proof. intros H. rewrite <- (map_length f l'), H. apply map_length. Qed.

Lemma sweep_rew_frame : forall (idxs : list nat) sl md sl' md',
  fold_left (fun o i =>
     do st <- o;
     let sl := fst st in let md := snd st in
     let n := getn sl i in
     match rew_step K sl n with
     | None => Crash "UnboundLocalError"%string
     | Some (a, b, c) =>
       let d := max3 K (absf K (sub K a (er n))) (absf K (sub K b (ermr n))) (absf K (sub K c (erm n))) in
       Ok (upd sl i (set_rews n a b c), if ltb K md d then d else md)
     end) idxs (Ok (sl, md)) = Ok (sl', md') ->
  map erase_rews sl' = map erase_rews sl.
Proof.
  induction idxs as [|i idxs IH]; intros sl md sl' md' H; cbn [fold_left] in H.
  - inversion H; subst. reflexivity.
  - cbn [bind fst snd] in H. destruct (rew_step K sl (getn sl i)) as [[[a b] c]|] eqn:E.
    + apply IH in H. rewrite H. apply map_upd_erase. reflexivity.
    + exfalso. clear -H. induction idxs as [|j idxs IHi]; cbn [fold_left] in H; [discriminate|]. apply IHi. exact H.
Qed.

Lemma sweep_rew_erase sl sl' d : sweep_rew K sl = Ok (sl', d) -> map erase_rews sl' = map erase_rews sl.
Proof. unfold sweep_rew. apply sweep_rew_frame. Qed.

Lemma vi_rew_frame : forall fuel sl i sl' i',
  vi_rew K fuel sl i = Ok (sl', i') -> map erase_rews sl' = map erase_rews sl.
Proof.
  induction fuel as [|fuel IH]; intros sl i sl' i' H; cbn [vi_rew] in H; [discriminate|].
  destruct (sweep_rew K sl) as [[sl1 d]| | |] eqn:E; cbn [bind] in H; try discriminate.
  cbn [fst snd] in H. apply sweep_rew_erase in E. destruct (ltb K (thr K) d).
  - apply IH in H. rewrite H. exact E.
  - inversion H; subst. exact E.
Qed.

End GameP.
