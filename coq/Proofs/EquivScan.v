(** C13: the strategy scans are equivariant. If the scanned (action, value) list is reordered and its
    actions renamed while the values stay the same, the scan lists exactly the renamed actions (as a
    set: a permutation), in the order of the reordered list. Needs the total-order laws. *)
From Coq Require Import String List Bool Lia Permutation.
From CR Require Import Model.Num Model.Game Proofs.Laws.
Import ListNotations.

Lemma Permutation_filter' {A} (f : A -> bool) (l l' : list A) :
  Permutation l l' -> Permutation (filter f l) (filter f l').
Proof.
  induction 1 as [|x l l' _ IH|x y l|l1 l2 l3 _ IH1 _ IH2]; cbn [filter].
  - constructor.
  - destruct (f x); [constructor|]; exact IH.
  - destruct (f x), (f y); try apply Permutation_refl. apply perm_swap.
  - eapply perm_trans; eassumption.
Qed.

Section EquivScan.
Context {T : Type}.
Variable K : ops T.
Hypothesis L : lawful_order K.

Lemma lo_antisym x y : ltb K x y = false -> ltb K y x = false -> eqb K x y = true.
Proof. intros H1 H2. destruct (lo_total K L x y) as [H|[H|H]]; congruence. Qed.

(* if x is not above y then: y < z -> not (z <= ... ) helper: ltb respects the order *)
Lemma lo_le_lt_trans x y z : ltb K y x = false -> ltb K y z = true -> ltb K x z = true.
Proof.
  intros H1 H2. destruct (lo_total K L x y) as [H|[H|H]].
  - eapply (lo_trans K L); eassumption.
  - destruct (lo_cong K L x y H z) as (_ & _ & H3 & _). congruence.
  - congruence.
Qed.

(* the running maximum is, up to eqb, determined by: not below m0, not below any element, attained *)
Lemma vmax_unique m0 l l' :
  (forall av, In av l -> exists av', In av' l' /\ snd av' = snd av) ->
  ltb K (vmax K m0 l') (vmax K m0 l) = false.
Proof.
  intros H. destruct (vmax_attained K m0 l) as [E|[av [Hin E]]]; rewrite E.
  - apply vmax_ge. exact L.
  - destruct (H av Hin) as [av' [Hin' Es]]. rewrite <- Es. apply (vmax_upper K L). exact Hin'.
Qed.
Lemma vmin_unique m0 l l' :
  (forall av, In av l -> exists av', In av' l' /\ snd av' = snd av) ->
  ltb K (vmin K m0 l) (vmin K m0 l') = false.
Proof.
  intros H. destruct (vmin_attained K m0 l) as [E|[av [Hin E]]]; rewrite E.
  - apply vmin_le. exact L.
  - destruct (H av Hin) as [av' [Hin' Es]]. rewrite <- Es. apply (vmin_lower K L). exact Hin'.
Qed.

Variable rho : string -> string.
Definition ren_av (av : string * T) : string * T := (rho (fst av), snd av).

Lemma perm_values l l' : Permutation l' (map ren_av l) ->
  (forall av, In av l -> exists av', In av' l' /\ snd av' = snd av) /\
  (forall av', In av' l' -> exists av, In av l /\ snd av = snd av').
Proof.
  intros P. split.
  - intros av Hin. exists (ren_av av). split; [|reflexivity].
    apply (Permutation_in _ (Permutation_sym P)). apply in_map. exact Hin.
  - intros av' Hin. apply (Permutation_in _ P) in Hin. apply in_map_iff in Hin.
    destruct Hin as [av [<- Hin]]. exists av. split; [exact Hin|reflexivity].
Qed.

Theorem scan_max_equivariant m0 l l' :
  Permutation l' (map ren_av l) ->
  snd (scan_max K m0 l') = map fst (filter (fun av => eqb K (snd av) (vmax K m0 l')) l') /\
  Permutation (snd (scan_max K m0 l')) (map rho (snd (scan_max K m0 l))).
Proof.
  intros P. rewrite !(scan_max_is_argmax K L). cbn [snd]. split; [reflexivity|].
  destruct (perm_values l l' P) as [H1 H2].
  assert (Hm : eqb K (vmax K m0 l') (vmax K m0 l) = true).
  { apply lo_antisym; [apply vmax_unique; exact H1|].
    apply vmax_unique. intros av' Hin. destruct (H2 av' Hin) as [av [Ha Hs]]. exists av. split; [exact Ha|exact Hs]. }
  assert (Hf : forall av : string * T, eqb K (snd av) (vmax K m0 l') = eqb K (snd av) (vmax K m0 l)).
  { intros av. destruct (lo_cong K L _ _ Hm (snd av)) as (_ & Hc & _). exact Hc. }
  rewrite (filter_ext _ _ Hf).
  eapply perm_trans; [apply Permutation_map; apply (Permutation_filter' _ _ _ P)|].
  set (mx := vmax K m0 l). clearbody mx. clear.
  induction l as [|av l IH]; cbn [map filter]; [constructor|].
  unfold ren_av at 1. cbn [snd]. destruct (eqb K (snd av) mx); cbn [map fst]; [constructor|]; exact IH.
Qed.

Theorem scan_min_equivariant m0 l l' :
  Permutation l' (map ren_av l) ->
  snd (scan_min K m0 l') = map fst (filter (fun av => eqb K (snd av) (vmin K m0 l')) l') /\
  Permutation (snd (scan_min K m0 l')) (map rho (snd (scan_min K m0 l))).
Proof.
  intros P. rewrite !(scan_min_is_argmin K L). cbn [snd]. split; [reflexivity|].
  destruct (perm_values l l' P) as [H1 H2].
  assert (Hm : eqb K (vmin K m0 l') (vmin K m0 l) = true).
  { apply lo_antisym; [|apply vmin_unique; exact H1].
    apply vmin_unique. intros av' Hin. destruct (H2 av' Hin) as [av [Ha Hs]]. exists av. split; [exact Ha|exact Hs]. }
  assert (Hf : forall av : string * T, eqb K (snd av) (vmin K m0 l') = eqb K (snd av) (vmin K m0 l)).
  { intros av. destruct (lo_cong K L _ _ Hm (snd av)) as (_ & Hc & _). exact Hc. }
  rewrite (filter_ext _ _ Hf).
  eapply perm_trans; [apply Permutation_map; apply (Permutation_filter' _ _ _ P)|].
  set (mx := vmin K m0 l). clearbody mx. clear.
  induction l as [|av l IH]; cbn [map filter]; [constructor|].
  unfold ren_av at 1. cbn [snd]. destruct (eqb K (snd av) mx); cbn [map fst]; [constructor|]; exact IH.
Qed.
End EquivScan.
