(** What one reward step computes (C14): the two diagnostics follow the successor picked by the
    reward step. Generic in the number operations. *)
From Coq Require Import String List Arith Bool Lia.
From CR Require Import Model.Num Model.Outcome Model.Graph Model.Game Proofs.GameP.
Import ListNotations.

Section RewStep.
Context {T : Type}.
Variable K : ops T.
Notation node := (@node T).
Notation trans := (@trans T).
Notation getn := (getn K).
Implicit Types sl : list node.

Definition p1_fold sl (l : list trans) (st : T * option trans) : T * option trans :=
  fold_left (fun st t => let v := er (getn sl (dst t)) in if leb K (fst st) v then (v, Some t) else st) l st.
Definition p2_fold sl (l : list trans) (st : T * option trans) : T * option trans :=
  fold_left (fun st t => let v := er (getn sl (dst t)) in if leb K v (fst st) then (v, Some t) else st) l st.

Lemma p1_fold_pick sl l : forall m o m' t,
  p1_fold sl l (m, o) = (m', Some t) ->
  (In t l /\ m' = er (getn sl (dst t))) \/ (o = Some t /\ m' = m).
Proof.
  induction l as [|u l IH]; intros m o m' t H; cbn [p1_fold fold_left] in H.
  - inversion H; subst. right. split; reflexivity.
  - cbn zeta in H. cbn [fst] in H. destruct (leb K m (er (getn sl (dst u)))).
    + apply IH in H. destruct H as [[H1 H2]|[H1 H2]].
      * left. split; [right; exact H1|exact H2].
      * inversion H1; subst. left. split; [left; reflexivity|reflexivity].
    + apply IH in H. destruct H as [[H1 H2]|H]; [left; split; [right; exact H1|exact H2]|right; exact H].
Qed.
Lemma p2_fold_pick sl l : forall m o m' t,
  p2_fold sl l (m, o) = (m', Some t) ->
  (In t l /\ m' = er (getn sl (dst t))) \/ (o = Some t /\ m' = m).
Proof.
  induction l as [|u l IH]; intros m o m' t H; cbn [p2_fold fold_left] in H.
  - inversion H; subst. right. split; reflexivity.
  - cbn zeta in H. cbn [fst] in H. destruct (leb K (er (getn sl (dst u))) m).
    + apply IH in H. destruct H as [[H1 H2]|[H1 H2]].
      * left. split; [right; exact H1|exact H2].
      * inversion H1; subst. left. split; [left; reflexivity|reflexivity].
    + apply IH in H. destruct H as [[H1 H2]|H]; [left; split; [right; exact H1|exact H2]|right; exact H].
Qed.

(* Player 1: all three quantities follow ONE successor t of the state, the one the reward step picked *)
Theorem rew_step_P1 sl n a b c :
  nk n = P1 -> nxt n <> [] -> rew_step K sl n = Some (a, b, c) ->
  exists t, In t (nxt n) /\
    a = add K (er (getn sl (dst t))) (rew n) /\
    b = add K (ermr (getn sl (dst t))) (rew n) /\
    c = erm (getn sl (dst t)).
Proof.
  intros Hk Hne H. unfold rew_step in H. destruct (nxt n) as [|first rest] eqn:El; [congruence|].
  rewrite Hk in H. fold (p1_fold sl (first :: rest) (zero K, None)) in H.
  destruct (p1_fold sl (first :: rest) (zero K, None)) as [m [t|]] eqn:Ef; cbn [fst snd] in H; [|discriminate].
  apply p1_fold_pick in Ef. destruct Ef as [[H1 H2]|[H1 _]]; [|discriminate]. rewrite H2 in H.
  inversion H; subst. exists t. repeat split. exact H1.
Qed.

(* Player 2: reward and the probability diagnostic follow the picked (cheapest) successor; the reward
   diagnostic is reward + the smallest value among the successors whose action is in the state's
   6-digit reachability strategy (0 when that strategy is empty) *)
Theorem rew_step_P2 sl n a b c :
  nk n = P2 -> nxt n <> [] -> rew_step K sl n = Some (a, b, c) ->
  (exists t, In t (nxt n) /\ a = add K (er (getn sl (dst t))) (rew n) /\ c = erm (getn sl (dst t))) /\
  let strats := snd (scan_min K (one K) (map (fun t => (act t, rnd K (reach (getn sl (dst t))))) (nxt n))) in
  (strats = [] -> b = zero K) /\
  (strats <> [] -> exists f0, In f0 (nxt n) /\ mem_str (act f0) strats = true /\
     b = add K (fold_left (fun m t => if mem_str (act t) strats
                                      then let v := ermr (getn sl (dst t)) in if ltb K v m then v else m
                                      else m) (nxt n) (ermr (getn sl (dst f0)))) (rew n)).
Proof.
  intros Hk Hne H. unfold rew_step in H. destruct (nxt n) as [|first rest] eqn:El; [congruence|].
  rewrite Hk in H. cbn zeta in H.
  set (strats := snd (scan_min K (one K) (map (fun t => (act t, rnd K (reach (getn sl (dst t))))) (first :: rest)))) in *.
  fold (p2_fold sl (first :: rest) (er (getn sl (dst first)), None)) in H.
  destruct (p2_fold sl (first :: rest) (er (getn sl (dst first)), None)) as [m [t|]] eqn:Ef; cbn [fst snd] in H.
  2:{ destruct strats; [discriminate|]. destruct (filter _ _); discriminate. }
  apply p2_fold_pick in Ef. destruct Ef as [[H1 H2]|[H1 _]]; [|discriminate]. rewrite H2 in H. clear H2.
  destruct strats as [|s0 ss] eqn:Es.
  - inversion H; subst. split; [exists t; repeat split; exact H1|].
    split; [reflexivity|congruence].
  - destruct (filter (fun t0 => mem_str (act t0) (s0 :: ss)) (first :: rest)) as [|f0 fl] eqn:Efl; [discriminate|].
    inversion H; subst. split; [exists t; repeat split; exact H1|].
    split; [discriminate|]. intros _. exists f0.
    assert (Hin : In f0 (filter (fun t0 => mem_str (act t0) (s0 :: ss)) (first :: rest))) by (rewrite Efl; left; reflexivity).
    apply filter_In in Hin. destruct Hin as [Hi1 Hi2]. repeat split; assumption.
Qed.

(* probabilistic: the three weighted sums over the SAME transition list (reward added to the first two) *)
Theorem rew_step_PR sl n :
  nk n = PR -> nxt n <> [] ->
  rew_step K sl n =
  Some (fold_left (fun v t => add K v (mul K (er (getn sl (dst t))) (pr t))) (nxt n) (rew n),
        fold_left (fun v t => add K v (mul K (ermr (getn sl (dst t))) (pr t))) (nxt n) (rew n),
        fold_left (fun v t => add K v (mul K (erm (getn sl (dst t))) (pr t))) (nxt n) (zero K)).
Proof.
  intros Hk Hne. unfold rew_step. destruct (nxt n) as [|first rest] eqn:El; [congruence|]. rewrite Hk. reflexivity.
Qed.

(* a state without transitions is worth 0 in all three quantities *)
Theorem rew_step_empty sl n : nxt n = [] -> rew_step K sl n = Some (zero K, zero K, zero K).
Proof. intros H. unfold rew_step. rewrite H. reflexivity. Qed.

(* the diagnostics are seeded from the reachability values *)
Theorem after_reach_seeds prune sla sl1 i :
  after_reach K prune sla = Ok sl1 -> erm (getn sl1 i) = reach (getn sl1 i).
Proof.
  unfold after_reach. destruct (_ && _); [discriminate|]. intros H. inversion H; subst.
  rewrite getn_map by reflexivity. reflexivity.
Qed.
End RewStep.
