(** The solve pipeline: well-formed typed games, inversion of a successful run, and the structural
    theorems behind C01 (finals = 1, unreachable = 0, pruning-independent), C04 (both modes agree),
    C05 (final strategy within reachability strategy) and C06 (outcome classification).
    Generic in the number operations. *)
From Coq Require Import String List Arith Bool Lia Sorted.
From CR Require Import Model.Num Model.Outcome Model.Graph Model.Game
     Proofs.GraphP Proofs.GameP Proofs.PruneStatesP.
Import ListNotations.

Lemma mem_str_In s l : mem_str s l = true <-> In s l.
Proof.
  unfold mem_str. rewrite existsb_exists. split.
  - intros [y [Hy E]]. apply String.eqb_eq in E. subst. exact Hy.
  - intros H. exists s. split; [exact H|apply String.eqb_refl].
Qed.

Section Pipeline.
Context {T : Type}.
Variable K : ops T.
Notation node := (@node T).
Notation trans := (@trans T).
Notation game := (@game T).
Notation getn := (getn K).
Implicit Types sl : list node.
Implicit Types g : game.

Definition nstates g : nat := length (g_players g).
Definition tlg g : list (list nat) := map (map dst) (g_trans g).

(* well-formed typed description *)
Definition wf_game g : Prop :=
  length (g_trans g) = nstates g /\ length (g_rewards g) = nstates g /\
  (forall r, In r (g_rewards g) -> ltb K r (zero K) = false) /\
  g_finals g <> [] /\ (forall f, In f (g_finals g) -> f < nstates g) /\
  (forall tr, In tr (g_trans g) -> tr <> [] /\ forall t, In t tr -> dst t < nstates g).

Lemma wf_pos g : wf_game g -> 0 < nstates g.
Proof.
  intros (_ & _ & _ & Hne & Hr & _). destruct (g_finals g) as [|f fs]; [congruence|].
  specialize (Hr f (or_introl eq_refl)). lia.
Qed.

Lemma existsb_false_forall {A} (f : A -> bool) l : (forall x, In x l -> f x = false) -> existsb f l = false.
Proof.
  intros H. destruct (existsb f l) eqn:E; [|reflexivity]. apply existsb_exists in E.
  destruct E as [x [Hx Hf]]. rewrite H in Hf by exact Hx. discriminate.
Qed.

Lemma check_game_wf g : wf_game g -> check_game K g = Ok tt.
Proof.
  intros Hwf. pose proof (wf_pos g Hwf) as Hpos. destruct Hwf as (H1 & H2 & H3 & H4 & H5 & _).
  unfold check_game. fold (nstates g). rewrite H1, H2, Nat.eqb_refl. cbn [negb].
  destruct (g_rewards g) as [|r0 rs] eqn:Er; [cbn in H2; lia|].
  rewrite existsb_false_forall by exact H3.
  destruct (g_finals g) as [|f fs] eqn:Ef; [congruence|].
  rewrite existsb_false_forall; [reflexivity|]. intros f' Hf'. apply Nat.leb_gt. apply H5. exact Hf'.
Qed.

Definition node_of g (i : nat) : node :=
  mk_node K (nth i (g_players g) PR) (nth i (g_rewards g) (zero K)) (nth i (g_trans g) []) (mem_nat i (g_finals g)).

Lemma init_from_ok n finals : forall (l : list (kind * list trans * T)) idx,
  (forall k tr r, In (k, tr, r) l -> tr <> [] /\ forall t, In t tr -> dst t < n) ->
  init_states_from K n idx finals l =
  Ok (map (fun jx => mk_node K (fst (fst (snd jx))) (snd (snd jx)) (snd (fst (snd jx))) (mem_nat (fst jx) finals))
          (combine (seq idx (length l)) l)).
Proof.
  induction l as [|[[k tr] r] l IH]; intros idx H; cbn [init_states_from length seq combine map]; [reflexivity|].
  destruct (H k tr r (or_introl eq_refl)) as [Hne Hr]. destruct tr as [|t0 tr]; [congruence|].
  rewrite existsb_false_forall by (intros t Ht; apply Nat.leb_gt, Hr; exact Ht).
  rewrite IH by (intros k' tr' r' Hin; apply (H k' tr' r'); right; exact Hin). reflexivity.
Qed.

Lemma in_combine3 {A B C} (a : list A) (b : list B) (c : list C) x y z :
  In (x, y, z) (combine (combine a b) c) -> In x a /\ In y b /\ In z c.
Proof.
  intros H. pose proof (in_combine_l _ _ _ _ H) as H1. pose proof (in_combine_r _ _ _ _ H) as H2.
  pose proof (in_combine_l _ _ _ _ H1). pose proof (in_combine_r _ _ _ _ H1). auto.
Qed.

Lemma init_states_wf g : wf_game g ->
  exists sl0, init_states K g = Ok sl0 /\ length sl0 = nstates g /\
              forall i, i < nstates g -> getn sl0 i = node_of g i.
Proof.
  intros Hwf. destruct Hwf as (H1 & H2 & H3 & H4 & H5 & H6).
  unfold init_states. fold (nstates g).
  set (l := combine (combine (g_players g) (g_trans g)) (g_rewards g)).
  assert (Hl : length l = nstates g).
  { subst l. rewrite !combine_length, H1, H2. unfold nstates. lia. }
  rewrite init_from_ok.
  2:{ intros k tr r Hin. apply in_combine3 in Hin. apply H6. apply Hin. }
  cbn [bind]. rewrite map_length, combine_length, seq_length, Hl, Nat.min_id, Nat.eqb_refl.
  eexists. split; [reflexivity|]. split.
  - rewrite map_length, combine_length, seq_length, Hl. lia.
  - intros i Hi. unfold Game.getn.
    set (f := fun jx : nat * (kind * list trans * T) => _).
    rewrite (nth_indep _ (dnode K) (f (0, (PR, [], zero K)))) by (rewrite map_length, combine_length, seq_length; lia).
    rewrite map_nth. rewrite <- Hl. rewrite nth_combine_seq by lia. subst f. cbn [fst snd].
    subst l. rewrite !combine_nth by (unfold nstates in *; rewrite ?combine_length; lia).
    cbn [fst snd]. reflexivity.
Qed.

(** ** inversion of the reachability half *)
Lemma after_reach_ok prune sla sl1 :
  after_reach K prune sla = Ok sl1 -> sl1 = map (fun n => set_erm n (reach n)) sla.
Proof. unfold after_reach. destruct (_ && _); [discriminate|]. intros H. inversion H. reflexivity. Qed.

Lemma solve_reach_inv fuel g prune sl1 rs it :
  solve_reach_fuel K fuel g prune = Ok (sl1, rs, it) ->
  exists sl0 srf sla,
    check_game K g = Ok tt /\ init_states K g = Ok sl0 /\
    reverse_dfs (tlg g) (g_finals g) = Ok srf /\
    vi_reach K fuel srf sl0 0 = Ok (sla, it) /\ after_reach K prune sla = Ok sl1 /\
    rs = strats_reach K sl1.
Proof.
  unfold solve_reach_fuel. intros H.
  destruct (check_game K g) as [[]| | |] eqn:E1; cbn [bind] in H; try discriminate.
  destruct (init_states K g) as [sl0| | |] eqn:E2; cbn [bind] in H; try discriminate.
  destruct (g_finals g) as [|f0 fs] eqn:Ef; [discriminate|]. rewrite <- Ef in *.
  fold (tlg g) in H.
  destruct (reverse_dfs (tlg g) (g_finals g)) as [srf| | |] eqn:E3; cbn [bind] in H; try discriminate.
  destruct (vi_reach K fuel srf sl0 0) as [[sla it']| | |] eqn:E4; cbn [bind] in H; try discriminate.
  cbn [fst snd] in H.
  destruct (after_reach K prune sla) as [sl1'| | |] eqn:E5; cbn [bind] in H; try discriminate.
  inversion H; subst. exists sl0, srf, sla. repeat split; assumption.
Qed.

Definition prune_stage (prune : bool) sl2 : outcome (list node) :=
  if prune then prune_states (length sl2 + 2) [] (prune_paths K sl2) else Ok sl2.

Lemma solve_inv fuel g prune r :
  solve_fuel K fuel g prune = Ok r ->
  exists sl1 sl3 sl4 it2,
    solve_reach_fuel K fuel g prune = Ok (sl1, r_reachs r, r_it_reach r) /\
    prune_stage prune (prune_reachability (r_reachs r) sl1) = Ok sl3 /\
    vi_rew K fuel sl3 0 = Ok (sl4, it2) /\
    r = mkR (strats_rew K sl4) (r_reachs r) (map er sl4) (map reach sl1) (r_it_reach r) it2
            (map erm sl4) (map ermr sl4) (map nxt sl3).
Proof.
  unfold solve_fuel. intros H.
  destruct (solve_reach_fuel K fuel g prune) as [[[sl1 rs] it]| | |] eqn:E1; cbn [bind] in H; try discriminate.
  cbn [fst snd] in H. fold (prune_stage prune (prune_reachability rs sl1)) in H.
  destruct (prune_stage prune (prune_reachability rs sl1)) as [sl3| | |] eqn:E2; cbn [bind] in H; try discriminate.
  destruct (vi_rew K fuel sl3 0) as [[sl4 it2]| | |] eqn:E3; cbn [bind] in H; try discriminate.
  cbn [fst snd] in H. inversion H; subst. cbn. exists sl1, sl3, sl4, it2. repeat split; assumption.
Qed.

(** ** C01 / C04: what the pruning flag cannot influence *)
Theorem prune_flag_irrelevant fuel g r1 r2 :
  solve_fuel K fuel g true = Ok r1 -> solve_fuel K fuel g false = Ok r2 ->
  r_probs r1 = r_probs r2 /\ r_reachs r1 = r_reachs r2 /\ r_it_reach r1 = r_it_reach r2.
Proof.
  intros H1 H2. apply solve_inv in H1, H2.
  destruct H1 as (sl1 & sl3 & sl4 & it2 & Ha & _ & _ & Hr1). destruct H2 as (sl1' & sl3' & sl4' & it2' & Hb & _ & _ & Hr2).
  apply solve_reach_inv in Ha, Hb.
  destruct Ha as (sl0 & srf & sla & _ & A2 & A3 & A4 & A5 & A6).
  destruct Hb as (sl0' & srf' & sla' & _ & B2 & B3 & B4 & B5 & B6).
  rewrite A2 in B2. inversion B2; subst sl0'. rewrite A3 in B3. inversion B3; subst srf'.
  assert (sla' = sla /\ r_it_reach r2 = r_it_reach r1) as [-> Hit] by (rewrite A4 in B4; inversion B4; auto).
  apply after_reach_ok in A5, B5.
  rewrite Hr1, Hr2. cbn [r_probs r_reachs r_it_reach]. rewrite A6, B6, A5, B5. repeat split; congruence.
Qed.

(** ** C01: finals report exactly one, states without a path exactly zero *)
Lemma reach_static_chain fuel g prune sl1 rs it :
  wf_game g -> solve_reach_fuel K fuel g prune = Ok (sl1, rs, it) ->
  length sl1 = nstates g /\
  forall i, i < nstates g ->
    nk (getn sl1 i) = nth i (g_players g) PR /\ nxt (getn sl1 i) = nth i (g_trans g) [] /\
    rew (getn sl1 i) = nth i (g_rewards g) (zero K) /\
    (forall srf, reverse_dfs (tlg g) (g_finals g) = Ok srf -> ~ In i srf ->
       reach (getn sl1 i) = if mem_nat i (g_finals g) then one K else zero K).
Proof.
  intros Hwf H. apply solve_reach_inv in H. destruct H as (sl0 & srf & sla & _ & A2 & A3 & A4 & A5 & _).
  destruct (init_states_wf g Hwf) as (sl0' & B1 & B2 & B3). rewrite A2 in B1. inversion B1; subst sl0'.
  apply after_reach_ok in A5. subst sl1.
  destruct (vi_reach_frame K srf _ _ _ _ _ A4) as [F1 F2].
  split; [rewrite map_length, (map_eq_length _ _ _ F1); exact B2|].
  intros i Hi. rewrite getn_map by reflexivity. cbn [nk nxt rew reach set_erm].
  pose proof (map_eq_getn K _ _ _ i F1) as Hs. apply erase_reach_static in Hs.
  destruct Hs as (S1 & S2 & S3 & _). rewrite S1, S2, S3, (B3 i Hi). cbn.
  repeat split. intros srf' E Hn. rewrite A3 in E. inversion E; subst srf'.
  rewrite F2 by exact Hn. rewrite (B3 i Hi). reflexivity.
Qed.

Lemma wf_finals_inrange g : wf_game g -> forall f, In f (g_finals g) -> f < length (tlg g).
Proof.
  intros (H1 & _ & _ & _ & H5 & _) f Hf. unfold tlg. rewrite map_length, H1. apply H5. exact Hf.
Qed.

Theorem final_reports_one fuel g prune r f :
  wf_game g -> solve_fuel K fuel g prune = Ok r -> In f (g_finals g) ->
  nth f (r_probs r) (zero K) = one K.
Proof.
  intros Hwf H Hf. apply solve_inv in H. destruct H as (sl1 & sl3 & sl4 & it2 & Ha & _ & _ & Hr).
  rewrite Hr. cbn [r_probs]. change (zero K) with (reach (dnode K)). rewrite map_nth.
  destruct (reverse_dfs_exact (tlg g) (g_finals g) (wf_finals_inrange g Hwf)) as (srf & E & _ & Hin).
  destruct (reach_static_chain _ _ _ _ _ _ Hwf Ha) as [_ Hc].
  assert (Hfn : f < nstates g) by (apply Hwf; exact Hf).
  destruct (Hc f Hfn) as (_ & _ & _ & Hv). fold (getn sl1 f). rewrite (Hv srf E).
  - apply mem_nat_In in Hf. rewrite Hf. reflexivity.
  - intros Hs. apply Hin in Hs. apply Hs. exact Hf.
Qed.

Theorem unreachable_reports_zero fuel g prune r s :
  wf_game g -> solve_fuel K fuel g prune = Ok r -> s < nstates g ->
  (forall f, In f (g_finals g) -> ~ path (tlg g) s f) ->
  nth s (r_probs r) (one K) = zero K.
Proof.
  intros Hwf H Hs Hnp. apply solve_inv in H. destruct H as (sl1 & sl3 & sl4 & it2 & Ha & _ & _ & Hr).
  rewrite Hr. cbn [r_probs].
  destruct (reverse_dfs_exact (tlg g) (g_finals g) (wf_finals_inrange g Hwf)) as (srf & E & _ & Hin).
  destruct (reach_static_chain _ _ _ _ _ _ Hwf Ha) as [Hlen Hc].
  rewrite (nth_indep _ (one K) (reach (dnode K))) by (rewrite map_length; lia).
  rewrite map_nth. fold (getn sl1 s).
  destruct (Hc s Hs) as (_ & _ & _ & Hv). rewrite (Hv srf E).
  - destruct (mem_nat s (g_finals g)) eqn:Em; [|reflexivity].
    apply mem_nat_In in Em. exfalso. apply (Hnp s Em). apply path_refl.
  - intros Hin'. apply Hin in Hin'. destruct Hin' as [_ [f [Hf Hp]]]. exact (Hnp f Hf Hp).
Qed.

(** ** C05: the final strategy of a Player 1 state is within its reachability strategy *)
Lemma strats_reach_nth sl i : nth i (strats_reach K sl) None = strat_reach K sl (getn sl i).
Proof. unfold strats_reach. change None with (strat_reach K sl (dnode K)). apply map_nth. Qed.
Lemma strats_rew_nth sl i : nth i (strats_rew K sl) None = strat_rew K sl (getn sl i).
Proof. unfold strats_rew. change None with (strat_rew K sl (dnode K)). apply map_nth. Qed.

Lemma prune_stage_P1 prune sl2 sl3 i :
  prune_stage prune sl2 = Ok sl3 -> nk (getn sl2 i) = P1 ->
  nk (getn sl3 i) = P1 /\ incl (nxt (getn sl3 i)) (nxt (getn sl2 i)).
Proof.
  unfold prune_stage. destruct prune.
  - intros H Hk. destruct (prune_states_only_cleared K _ _ _ _ i H) as [Hoc _].
    rewrite prune_paths_getn in Hoc.
    pose proof (prune_paths_node_fields K sl2 (getn sl2 i)) as Hf. cbn zeta in Hf. destruct Hf as (Hk' & _).
    destruct Hoc as [E|[_ Hne]]; [|rewrite Hk', Hk in Hne; congruence].
    rewrite E. split; [rewrite Hk'; exact Hk|]. rewrite prune_paths_node_P1 by exact Hk.
    intros t Ht. apply filter_In in Ht. apply Ht.
  - intros H Hk. inversion H; subst. split; [exact Hk|apply incl_refl].
Qed.

Theorem final_within_reach fuel g prune r i fs :
  wf_game g -> solve_fuel K fuel g prune = Ok r -> i < nstates g ->
  nth i (g_players g) PR = P1 -> nth i (r_final r) None = Some fs ->
  exists rs, nth i (r_reachs r) None = Some rs /\ incl fs rs.
Proof.
  intros Hwf H Hi Hp Hfs. apply solve_inv in H. destruct H as (sl1 & sl3 & sl4 & it2 & Ha & Hb & Hc & Hr).
  destruct (reach_static_chain _ _ _ _ _ _ Hwf Ha) as [Hlen Hst]. destruct (Hst i Hi) as (Hk1 & _).
  rewrite Hp in Hk1.
  pose proof Ha as Ha'. apply solve_reach_inv in Ha'. destruct Ha' as (_ & _ & _ & _ & _ & _ & _ & _ & Hrs).
  assert (Hrsi : nth i (r_reachs r) None = strat_reach K sl1 (getn sl1 i)) by (rewrite Hrs; apply strats_reach_nth).
  unfold strat_reach in Hrsi. rewrite Hk1 in Hrsi.
  set (best := snd (scan_max K (zero K) (map (fun t => (act t, rnd K (reach (getn sl1 (dst t))))) (nxt (getn sl1 i))))) in *.
  exists best. split; [exact Hrsi|].
  (* the chain of transition lists *)
  set (sl2 := prune_reachability (r_reachs r) sl1) in *.
  assert (H2 : getn sl2 i = set_nxt (getn sl1 i) (filter (fun t => mem_str (act t) best) (nxt (getn sl1 i)))).
  { subst sl2. rewrite prune_reachability_nth; [|rewrite Hrs; unfold strats_reach; apply map_length|lia].
    cbn zeta. rewrite Hk1, Hrsi. reflexivity. }
  assert (Hk2 : nk (getn sl2 i) = P1) by (rewrite H2; exact Hk1).
  destruct (prune_stage_P1 _ _ _ i Hb Hk2) as [Hk3 Hin3].
  pose proof (vi_rew_frame K _ _ _ _ _ Hc) as Hfr. pose proof (map_eq_getn K _ _ _ i Hfr) as Hs4.
  apply erase_rews_static in Hs4. destruct Hs4 as (Hk4 & _ & Hn4 & _).
  rewrite Hr in Hfs. cbn [r_final] in Hfs. rewrite strats_rew_nth in Hfs. unfold strat_rew in Hfs.
  rewrite Hk4, Hk3 in Hfs. inversion Hfs as [Hfs']. clear Hfs.
  intros a Ha1. apply scan_max_subset in Ha1. rewrite map_map in Ha1. cbn [fst] in Ha1.
  apply in_map_iff in Ha1. destruct Ha1 as [t [<- Ht]]. rewrite Hn4 in Ht. apply Hin3 in Ht.
  rewrite H2 in Ht. cbn [nxt set_nxt] in Ht. apply filter_In in Ht. apply mem_str_In. apply Ht.
Qed.

(** ** C06: which outcomes a well-formed game can produce *)
Lemma fold_bind_err {A B} (f : outcome A -> B -> outcome A) (l : list B) (e : outcome A) :
  (forall b, f e b = e) -> fold_left f l e = e.
Proof. intros H. induction l as [|b l IH]; cbn; [reflexivity|]. rewrite H. exact IH. Qed.

Lemma sweep_fold_outcomes : forall (idxs : list nat) sl md,
  match fold_left (fun o i =>
     do st <- o;
     let sl := fst st in let md := snd st in
     let n := getn sl i in
     match rew_step K sl n with
     | None => Crash "UnboundLocalError"%string
     | Some (a, b, c) =>
       let d := max3 K (absf K (sub K a (er n))) (absf K (sub K b (ermr n))) (absf K (sub K c (erm n))) in
       Ok (upd sl i (set_rews n a b c), if ltb K md d then d else md)
     end) idxs (Ok (sl, md)) with
  | Ok _ => True | Crash w => w = "UnboundLocalError"%string | ValueErr _ => False | OutOfFuel => False
  end.
Proof.
  induction idxs as [|i idxs IH]; intros sl md; cbn [fold_left]; [exact I|].
  cbn [bind fst snd]. destruct (rew_step K sl (getn sl i)) as [[[a b] c]|].
  - apply IH.
  - rewrite fold_bind_err by reflexivity. reflexivity.
Qed.

Lemma sweep_rew_outcomes sl :
  match sweep_rew K sl with
  | Ok _ => True | Crash w => w = "UnboundLocalError"%string | ValueErr _ => False | OutOfFuel => False
  end.
Proof. unfold sweep_rew. apply sweep_fold_outcomes. Qed.

Lemma vi_rew_outcomes : forall fuel sl i,
  match vi_rew K fuel sl i with
  | Ok _ => True | Crash w => w = "UnboundLocalError"%string | ValueErr _ => False | OutOfFuel => True
  end.
Proof.
  induction fuel as [|fuel IH]; intros sl i; cbn [vi_rew]; [exact I|].
  pose proof (sweep_rew_outcomes sl) as H. destruct (sweep_rew K sl) as [[sl' d]| | |]; cbn [bind]; try assumption; try contradiction.
  cbn [fst snd]. destruct (ltb K (thr K) d); [apply IH|exact I].
Qed.

Lemma vi_reach_outcomes S : forall fuel sl i,
  match vi_reach K fuel S sl i with Ok _ => True | OutOfFuel => True | _ => False end.
Proof.
  induction fuel as [|fuel IH]; intros sl i; cbn [vi_reach]; [exact I|].
  destruct (ltb K (thr K) _); [apply IH|exact I].
Qed.

Theorem solve_outcomes fuel g prune :
  wf_game g ->
  match solve_fuel K fuel g prune with
  | Ok r => length (r_probs r) = nstates g /\ length (r_rewards r) = nstates g /\
            length (r_final r) = nstates g /\ length (r_reachs r) = nstates g /\
            length (r_prob_min_rew r) = nstates g /\ length (r_rew_min_reach r) = nstates g
  | ValueErr m => m = msg_no_solution /\ prune = true
  | Crash w => w = "UnboundLocalError"%string
  | OutOfFuel => True   (* only the two value-iteration loops can run out: see prune_states_never_out_of_fuel, C07_fuel *)
  end.
Proof.
  intros Hwf. destruct (solve_fuel K fuel g prune) as [r| | |] eqn:E.
  - apply solve_inv in E. destruct E as (sl1 & sl3 & sl4 & it2 & Ha & Hb & Hc & Hr).
    destruct (reach_static_chain _ _ _ _ _ _ Hwf Ha) as [Hlen _].
    assert (H3 : length sl3 = nstates g).
    { unfold prune_stage in Hb. pose proof Ha as Ha'. apply solve_reach_inv in Ha'.
      destruct Ha' as (_ & _ & _ & _ & _ & _ & _ & _ & Hrs).
      assert (H2 : length (prune_reachability (r_reachs r) sl1) = nstates g).
      { rewrite prune_reachability_length; [exact Hlen|]. rewrite Hrs. unfold strats_reach. apply map_length. }
      destruct prune.
      - destruct (prune_states_only_cleared K _ _ _ _ 0 Hb) as [_ Hl]. rewrite Hl, prune_paths_length. exact H2.
      - inversion Hb; subst. exact H2. }
    assert (H4 : length sl4 = nstates g).
    { rewrite (map_eq_length _ _ _ (vi_rew_frame K _ _ _ _ _ Hc)). exact H3. }
    pose proof Ha as Ha'. apply solve_reach_inv in Ha'. destruct Ha' as (_ & _ & _ & _ & _ & _ & _ & _ & Hrs).
    rewrite Hr. cbn. unfold strats_rew. rewrite !map_length. rewrite Hrs. unfold strats_reach. rewrite map_length.
    repeat split; assumption.
  - (* a ValueError can only be the no-solution one *)
    unfold solve_fuel, solve_reach_fuel in E. rewrite (check_game_wf g Hwf) in E. cbn [bind] in E.
    destruct (init_states_wf g Hwf) as (sl0 & E0 & _). rewrite E0 in E. cbn [bind] in E.
    destruct Hwf as (W1 & W2 & W3 & W4 & W5 & W6).
    destruct (g_finals g) as [|f0 fs] eqn:Ef; [congruence|]. rewrite <- Ef in *.
    destruct (reverse_dfs_exact (tlg g) (g_finals g)) as (srf & Es & _).
    { intros f Hf. unfold tlg. rewrite map_length, W1. apply W5. exact Hf. }
    fold (tlg g) in E. rewrite Es in E. cbn [bind] in E.
    pose proof (vi_reach_outcomes srf fuel sl0 0) as Hv.
    destruct (vi_reach K fuel srf sl0 0) as [[sla it]| | |]; cbn [bind] in E; try discriminate; try contradiction.
    cbn [fst snd] in E. unfold after_reach in E.
    destruct (eqb K _ _ && prune) eqn:Ec; cbn [bind] in E.
    + inversion E. apply andb_true_iff in Ec. split; [reflexivity|apply Ec].
    + cbn [fst snd] in E.
      match type of E with context [if prune then ?a else ?b] => destruct (if prune then a else b) as [sl3| | |] eqn:Ep end;
        cbn [bind] in E; try discriminate.
      * pose proof (vi_rew_outcomes fuel sl3 0) as Hw.
        destruct (vi_rew K fuel sl3 0) as [[sl4 it2]| | |]; cbn [bind] in E; try discriminate; contradiction.
      * exfalso. destruct prune; [|discriminate].
        match type of Ep with prune_states ?f ?o ?s = _ => destruct (prune_states_never_out_of_fuel K s) as [x Hx] end.
        rewrite prune_paths_length in Hx. rewrite Hx in Ep. discriminate.
  - unfold solve_fuel, solve_reach_fuel in E. rewrite (check_game_wf g Hwf) in E. cbn [bind] in E.
    destruct (init_states_wf g Hwf) as (sl0 & E0 & _). rewrite E0 in E. cbn [bind] in E.
    destruct Hwf as (W1 & W2 & W3 & W4 & W5 & W6).
    destruct (g_finals g) as [|f0 fs] eqn:Ef; [congruence|]. rewrite <- Ef in *.
    destruct (reverse_dfs_exact (tlg g) (g_finals g)) as (srf & Es & _).
    { intros f Hf. unfold tlg. rewrite map_length, W1. apply W5. exact Hf. }
    fold (tlg g) in E. rewrite Es in E. cbn [bind] in E.
    pose proof (vi_reach_outcomes srf fuel sl0 0) as Hv.
    destruct (vi_reach K fuel srf sl0 0) as [[sla it]| | |]; cbn [bind] in E; try discriminate; try contradiction.
    cbn [fst snd] in E. unfold after_reach in E.
    destruct (eqb K _ _ && prune) eqn:Ec; cbn [bind] in E; [discriminate|].
    cbn [fst snd] in E.
    match type of E with context [if prune then ?a else ?b] => destruct (if prune then a else b) as [sl3| | |] eqn:Ep end;
      cbn [bind] in E; try discriminate.
    + pose proof (vi_rew_outcomes fuel sl3 0) as Hw.
      destruct (vi_rew K fuel sl3 0) as [[sl4 it2]| | |]; cbn [bind] in E; try discriminate; try contradiction.
      inversion E; congruence.
    + exfalso. destruct prune; [|discriminate].
      match type of Ep with prune_states ?f ?o ?s = _ => destruct (prune_states_never_out_of_fuel K s) as [x Hx] end.
      rewrite prune_paths_length in Hx. rewrite Hx in Ep. discriminate.
  - exact I.
Qed.

(** ** C03 end to end: after a pruned solve no Player 1 / probabilistic state keeps a transition
    into a state whose reported probability is 0 *)
Lemma prune_reachability_reach strats sl j :
  length strats = length sl -> reach (getn (prune_reachability strats sl) j) = reach (getn sl j).
Proof.
  intros Hl. destruct (Nat.lt_ge_cases j (length sl)) as [Hj|Hj].
  - rewrite prune_reachability_nth by assumption. cbn zeta.
    destruct (nk (getn sl j)); destruct (nth j strats None); reflexivity.
  - rewrite !getn_out; [reflexivity|exact Hj|rewrite prune_reachability_length; assumption].
Qed.
Lemma prune_reachability_nk strats sl j :
  length strats = length sl -> nk (getn (prune_reachability strats sl) j) = nk (getn sl j).
Proof.
  intros Hl. destruct (Nat.lt_ge_cases j (length sl)) as [Hj|Hj].
  - rewrite prune_reachability_nth by assumption. cbn zeta.
    destruct (nk (getn sl j)) eqn:E; destruct (nth j strats None); cbn; congruence.
  - rewrite !getn_out; [reflexivity|exact Hj|rewrite prune_reachability_length; assumption].
Qed.

Theorem pruned_no_dead fuel g r i t :
  wf_game g -> solve_fuel K fuel g true = Ok r -> i < nstates g ->
  nth i (g_players g) PR <> P2 -> In t (nth i (r_pruned r) []) ->
  eqb K (nth (dst t) (r_probs r) (zero K)) (zero K) = false.
Proof.
  intros Hwf H Hi Hp Ht. apply solve_inv in H. destruct H as (sl1 & sl3 & sl4 & it2 & Ha & Hb & Hc & Hr).
  destruct (reach_static_chain _ _ _ _ _ _ Hwf Ha) as [Hlen Hst]. destruct (Hst i Hi) as (Hk1 & _).
  pose proof Ha as Ha'. apply solve_reach_inv in Ha'. destruct Ha' as (_ & _ & _ & _ & _ & _ & _ & _ & Hrs).
  assert (Hlrs : length (r_reachs r) = length sl1) by (rewrite Hrs; unfold strats_reach; apply map_length).
  rewrite Hr in Ht |- *. cbn [r_pruned r_probs] in *.
  change (@nil trans) with (nxt (dnode K)) in Ht. rewrite map_nth in Ht. fold (getn sl3 i) in Ht.
  change (zero K) with (reach (dnode K)) at 1. rewrite map_nth. fold (getn sl1 (dst t)).
  set (sl2 := prune_reachability (r_reachs r) sl1) in *.
  unfold prune_stage in Hb. destruct (prune_states_only_cleared K _ _ _ _ i Hb) as [Hoc _].
  rewrite prune_paths_getn in Hoc. destruct Hoc as [E|[E _]]; rewrite E in Ht; [|destruct Ht].
  apply prune_paths_no_dead in Ht.
  - unfold alive in Ht. apply negb_true_iff in Ht. subst sl2. rewrite prune_reachability_reach in Ht by exact Hlrs. exact Ht.
  - subst sl2. rewrite prune_reachability_nk by exact Hlrs. rewrite Hk1. exact Hp.
Qed.

End Pipeline.
