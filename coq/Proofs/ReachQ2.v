(** Connection of the vector-level theory (ReachQ.v) with the solver model on node lists, and the
    end-to-end numeric statements of C01 for solve on exact rationals. *)
From Coq Require Import String List Arith Bool Lia QArith Qabs Qreduction Lqa Sorted.
From CR Require Import Model.Num Model.Outcome Model.Graph Model.Game
     Proofs.Laws Proofs.GraphP Proofs.GameP Proofs.PipelineP Proofs.ReachQ.
Import ListNotations.
Local Open Scope Q_scope.

Notation nodeQ := (@node Q).
Notation gameQ := (@game Q).
Notation getq := (getn qops).

Section Conn.
Variable kd : nat -> kind.
Variable tr : nat -> list trans.

Definition static_ok (sl : list nodeQ) : Prop :=
  forall i, nk (getq sl i) = kd i /\ nxt (getq sl i) = tr i.

Lemma vsweep_ext : forall S x y md,
  (forall j, x j = y j) ->
  (forall j, fst (vsweep kd tr S x md) j = fst (vsweep kd tr S y md) j) /\
  snd (vsweep kd tr S x md) = snd (vsweep kd tr S y md).
Proof.
  induction S as [|i S IH]; intros x y md H; cbn [vsweep]; [split; [exact H|reflexivity]|].
  cbn zeta. rewrite (Phi_ext kd tr x y i H), (H i). apply IH.
  intros j. unfold vupd. destruct (j =? i)%nat; [reflexivity|apply H].
Qed.

Lemma reach_vec_upd (sl : list nodeQ) i v j :
  (i < length sl)%nat ->
  reach_vec qops (upd sl i (set_reach (getq sl i) v)) j = vupd (reach_vec qops sl) i v j.
Proof.
  intros Hi. unfold reach_vec, vupd. destruct (Nat.eqb_spec j i) as [->|Hne].
  - rewrite getn_upd_eq by exact Hi. reflexivity.
  - rewrite getn_upd_neq by congruence. reflexivity.
Qed.

Lemma static_upd (sl : list nodeQ) i v : static_ok sl -> static_ok (upd sl i (set_reach (getq sl i) v)).
Proof.
  intros H j. destruct (Nat.eq_dec i j) as [<-|Hne].
  - destruct (Nat.lt_ge_cases i (length sl)) as [Hi|Hi].
    + rewrite getn_upd_eq by exact Hi. apply H.
    + rewrite getn_out by (rewrite upd_length; exact Hi). rewrite <- (getn_out qops sl i Hi). apply H.
  - rewrite getn_upd_neq by exact Hne. apply H.
Qed.

Lemma sweep_refines : forall S (sl : list nodeQ) md x,
  static_ok sl -> (forall i, In i S -> (i < length sl)%nat) -> (forall j, reach_vec qops sl j = x j) ->
  let r := fold_left (fun st i =>
     let sl := fst st in let md := snd st in
     let n := getq sl i in
     let v := reach_step qops sl n in
     let d := absf qops (sub qops v (reach n)) in
     (upd sl i (set_reach n v), if ltb qops md d then d else md)) S (sl, md) in
  (forall j, reach_vec qops (fst r) j = fst (vsweep kd tr S x md) j) /\
  snd r = snd (vsweep kd tr S x md) /\ static_ok (fst r) /\ length (fst r) = length sl.
Proof.
  induction S as [|i S IH]; intros sl md x Hst Hr Hx; cbn [fold_left vsweep].
  - cbn [fst snd]. repeat split; try assumption; try reflexivity; apply Hst.
  - cbn zeta. cbn [fst snd].
    assert (Hi : (i < length sl)%nat) by (apply Hr; left; reflexivity).
    assert (Hv : reach_step qops sl (getq sl i) = Phi kd tr x i).
    { unfold reach_step, Phi. destruct (Hst i) as [-> ->]. apply (Phi_ext kd tr _ _ i Hx). }
    assert (Hri : reach (getq sl i) = x i) by (apply (Hx i)).
    rewrite Hv, Hri.
    change (absf qops (sub qops (Phi kd tr x i) (x i))) with (qabs (qsub (Phi kd tr x i) (x i))).
    change (ltb qops) with qltb.
    set (v := Phi kd tr x i). set (md1 := if qltb md (qabs (qsub v (x i))) then qabs (qsub v (x i)) else md).
    destruct (IH (upd sl i (set_reach (getq sl i) v)) md1 (vupd x i v)) as (A & B & C & D).
    + apply static_upd. exact Hst.
    + intros k Hk. rewrite upd_length. apply Hr. right. exact Hk.
    + intros j. rewrite reach_vec_upd by exact Hi. unfold vupd. destruct (j =? i)%nat; [reflexivity|apply Hx].
    + cbn zeta in *. split; [exact A|]. split; [exact B|]. split; [exact C|].
      rewrite <- (upd_length sl i (set_reach (getq sl i) v)). exact D.
Qed.

Lemma vi_refines : forall fuel S (sl : list nodeQ) i x,
  static_ok sl -> (forall k, In k S -> (k < length sl)%nat) -> (forall j, reach_vec qops sl j = x j) ->
  match vi_reach qops fuel S sl i with
  | Ok (sl', k) => exists y, vvi kd tr fuel S x i = Some (y, k) /\ (forall j, reach_vec qops sl' j = y j)
  | OutOfFuel => vvi kd tr fuel S x i = None
  | _ => False
  end.
Proof.
  induction fuel as [|fuel IH]; intros S sl i x Hst Hr Hx; cbn [vi_reach vvi]; [reflexivity|].
  pose proof (sweep_refines S sl (zero qops) x Hst Hr Hx) as Hs. cbn zeta in Hs.
  unfold sweep_reach. destruct Hs as (A & B & C & D).
  change (zero qops) with (0:Q) in *. rewrite B. change (ltb qops (thr qops)) with (qltb q_thr).
  destruct (qltb q_thr (snd (vsweep kd tr S x 0))).
  - specialize (IH S _ (i + 1)%nat (fst (vsweep kd tr S x 0)) C).
    apply IH; [intros k Hk; rewrite D; apply Hr; exact Hk|exact A].
  - eexists. split; [reflexivity|exact A].
Qed.
End Conn.

(** * End to end on solve (instance Q) *)
Section EndToEnd.
Variable g : gameQ.
Hypothesis Hwf : wf_game qops g.
(* probabilities of every probabilistic state are non-negative and sum to at most one (= 1 for a proper game) *)
Hypothesis Hnum : forall i, nth i (g_players g) PR = PR ->
  nonneg_w (nth i (g_trans g) []) /\ sumw (nth i (g_trans g) []) <= 1.

Definition gkd (i : nat) : kind := nth i (g_players g) PR.
Definition gtr (i : nat) : list trans := nth i (g_trans g) [].
Definition gfin (i : nat) : bool := mem_nat i (g_finals g).
Definition gPhi := Phi gkd gtr.
Definition gV := V gkd gtr gfin.
Definition gx0 := x0 gfin.

Lemma gHw i : gkd i = PR -> nonneg_w (gtr i). Proof. intros H. apply Hnum. exact H. Qed.
Lemma gHs i : gkd i = PR -> sumw (gtr i) <= 1. Proof. intros H. apply Hnum. exact H. Qed.

Lemma init_static sl0 : init_states qops g = Ok sl0 ->
  length sl0 = nstates g /\ static_ok gkd gtr sl0 /\ (forall j, reach_vec qops sl0 j = gx0 j).
Proof.
  intros H. destruct (init_states_wf qops g Hwf) as (sl0' & E & Hl & Hn). rewrite E in H. inversion H; subst sl0'.
  split; [exact Hl|]. split.
  - intros i. destruct (Nat.lt_ge_cases i (nstates g)) as [Hi|Hi].
    + rewrite (Hn i Hi). split; reflexivity.
    + rewrite getn_out by (rewrite Hl; exact Hi). unfold gkd, gtr, nstates in *.
      destruct Hwf as (W1 & _). unfold nstates in W1.
      rewrite !nth_overflow by lia. split; reflexivity.
  - intros j. unfold reach_vec, gx0, x0, gfin. destruct (Nat.lt_ge_cases j (nstates g)) as [Hj|Hj].
    + rewrite (Hn j Hj). unfold node_of, mk_node. cbn [reach]. destruct (mem_nat j (g_finals g)); reflexivity.
    + rewrite getn_out by (rewrite Hl; exact Hj).
      destruct (mem_nat j (g_finals g)) eqn:Em; [|reflexivity].
      apply mem_nat_In in Em. destruct Hwf as (_ & _ & _ & _ & W5 & _). specialize (W5 j Em). lia.
Qed.

Lemma srf_props srf : reverse_dfs (tlg g) (g_finals g) = Ok srf ->
  NoDup srf /\ (forall s, In s srf -> gfin s = false /\ (s < nstates g)%nat).
Proof.
  intros E. destruct (reverse_dfs_exact (tlg g) (g_finals g) (wf_finals_inrange qops g Hwf)) as (r & E' & Hs & Hin).
  rewrite E in E'. inversion E'; subst r. split.
  - apply StronglySorted_Sorted in Hs. clear -Hs. induction srf as [|a l IH]; [constructor|].
    inversion Hs as [|? ? Hs' Hhd]; subst. constructor; [|apply IH; exact Hs'].
    intros Ha. assert (Hall : Forall (lt a) l).
    { apply Sorted_extends in Hs; [exact Hs|intros x y z; apply Nat.lt_trans]. }
    rewrite Forall_forall in Hall. specialize (Hall a Ha). lia.
  - intros s Hs'. apply Hin in Hs'. destruct Hs' as [Hnf [f [Hf Hp]]]. split.
    + unfold gfin. apply mem_nat_false. exact Hnf.
    + destruct Hp as [|u v w He _].
      * apply Hwf. exact Hf.
      * apply edge_source_inrange in He. unfold tlg in He. rewrite map_length in He.
        destruct Hwf as (W1 & _). rewrite W1 in He. exact He.
Qed.

Lemma Inv_x0 S : (forall s, In s S -> gfin s = false) -> Inv gkd gtr S gx0.
Proof.
  intros H. split; [intros j; apply x0_bounds|].
  intros j Hj. unfold gx0, x0 at 1. rewrite (H j Hj).
  apply (Phi_bounds gkd gtr gHw gHs (x0 gfin) j). intros k. apply x0_bounds.
Qed.

(* everything the reachability loop guarantees, in one statement *)
Theorem reach_numeric fuel prune sl1 rs it :
  solve_reach_fuel qops fuel g prune = Ok (sl1, rs, it) ->
  let p := reach_vec qops sl1 in
  exists srf, reverse_dfs (tlg g) (g_finals g) = Ok srf /\
    (forall j, 0 <= p j <= 1) /\                                     (* bounded *)
    (forall j, gx0 j <= p j) /\                                      (* monotone from below *)
    (forall j, p j <= gV (it * length srf) j) /\                     (* never above the finite-horizon value *)
    (forall s, In s srf -> 0 <= gPhi p s - p s <= q_thr).            (* Bellman residual at most the threshold *)
Proof.
  intros H p. apply solve_reach_inv in H. destruct H as (sl0 & srf & sla & A1 & A2 & A3 & A4 & A5 & A6).
  exists srf. split; [exact A3|].
  destruct (init_static sl0 A2) as (Hl & Hst & Hx). destruct (srf_props srf A3) as (Hnd & Hsrf).
  pose proof (vi_refines gkd gtr fuel srf sl0 0 gx0 Hst) as Hv.
  rewrite A4 in Hv. destruct Hv as (y & Hvv & Hy); [intros k Hk; rewrite Hl; apply Hsrf; exact Hk|exact Hx|].
  assert (Hnf : forall s, In s srf -> gfin s = false) by (intros s Hs'; apply Hsrf; exact Hs').
  destruct (vvi_result gkd gtr gHw gHs fuel srf gx0 0 y it Hnd (Inv_x0 srf Hnf) Hvv) as (J1 & J2 & J3 & J4 & J5).
  apply after_reach_ok in A5.
  assert (Hp : forall j, p j = y j).
  { intros j. subst p sl1. unfold reach_vec. rewrite getn_map by reflexivity. cbn [reach set_erm]. apply Hy. }
  split; [intros j; rewrite Hp; apply J1|]. split; [intros j; rewrite Hp; apply J2|]. split.
  - intros j. rewrite Hp.
    pose proof (vvi_below_V gkd gtr gfin gHw gHs fuel srf gx0 0 y it 0 Hnf) as Hb.
    replace (it * length srf)%nat with (0 + (it - 0) * length srf)%nat by lia.
    apply Hb; [intros k; apply Qle_refl|exact Hvv].
  - intros s Hs'. unfold gPhi. rewrite (Phi_ext gkd gtr p y s Hp), Hp. apply J4. exact Hs'.
Qed.

(* with |S| * 10^6 + 1 sweeps of fuel the reachability loop cannot run out *)
Theorem reach_terminates fuel prune srf :
  reverse_dfs (tlg g) (g_finals g) = Ok srf ->
  (length srf * Z.to_nat 1000000 < fuel)%nat ->
  solve_reach_fuel qops fuel g prune <> OutOfFuel.
Proof.
  intros A3 Hfuel H. unfold solve_reach_fuel in H.
  rewrite (check_game_wf qops g Hwf) in H. cbn [bind] in H.
  destruct (init_states_wf qops g Hwf) as (sl0 & A2 & _). rewrite A2 in H. cbn [bind] in H.
  destruct (g_finals g) as [|f0 fs] eqn:Ef; [discriminate|]. rewrite <- Ef in *.
  fold (tlg g) in H. rewrite A3 in H. cbn [bind] in H.
  destruct (init_static sl0 A2) as (Hl & Hst & Hx). destruct (srf_props srf A3) as (Hnd & Hsrf).
  assert (Hnf : forall s, In s srf -> gfin s = false) by (intros s Hs'; apply Hsrf; exact Hs').
  pose proof (vi_refines gkd gtr fuel srf sl0 0 gx0 Hst) as Hv.
  destruct (vi_reach qops fuel srf sl0 0) as [[sla it]| | |] eqn:E; cbn [bind] in H.
  - cbn [fst snd] in H. unfold after_reach in H. destruct (_ && prune); discriminate.
  - discriminate.
  - discriminate.
  - assert (Hnone : vvi gkd gtr fuel srf gx0 0 = None).
    { apply Hv; [intros k Hk; rewrite Hl; apply Hsrf; exact Hk|exact Hx]. }
    revert Hnone. apply (vvi_terminates gkd gtr gHw gHs); [exact Hnd|apply Inv_x0; exact Hnf|].
    pose proof (sumL_bound srf gx0 (fun j => x0_bounds gfin j)) as Hb.
    assert (Hq : inject_Z (Z.of_nat (length srf)) < inject_Z (Z.of_nat fuel) * q_thr).
    { unfold q_thr. assert (Hz : (Z.of_nat (length srf) * 1000000 < Z.of_nat fuel)%Z).
      { rewrite <- (Z2Nat.id 1000000) at 1 by lia. rewrite <- Nat2Z.inj_mul. apply Nat2Z.inj_lt. exact Hfuel. }
      unfold Qlt, inject_Z, Qmult. cbn [Qnum Qden]. lia. }
    lra.
Qed.

End EndToEnd.

(** the same guarantees stated on the result of the whole solve: r_probs is that vector *)
Theorem solve_probs_numeric (g : gameQ) :
  wf_game qops g ->
  (forall i, nth i (g_players g) PR = PR ->
     nonneg_w (nth i (g_trans g) []) /\ sumw (nth i (g_trans g) []) <= 1) ->
  forall fuel prune r,
  solve_fuel qops fuel g prune = Ok r ->
  let p := fun j => nth j (r_probs r) 0 in
  exists srf, reverse_dfs (tlg g) (g_finals g) = Ok srf /\
    (forall j, 0 <= p j <= 1) /\
    (forall j, gx0 g j <= p j) /\
    (forall j, p j <= gV g (r_it_reach r * length srf) j) /\
    (forall s, In s srf -> 0 <= gPhi g p s - p s <= q_thr).
Proof.
  intros Hwf Hnum fuel prune r H p. apply solve_inv in H.
  destruct H as (sl1 & sl3 & sl4 & it2 & Ha & _ & _ & Hr).
  destruct (reach_numeric g Hwf Hnum fuel prune sl1 (r_reachs r) (r_it_reach r) Ha) as (srf & E & B1 & B2 & B3 & B4).
  assert (Hp : forall j, p j = reach_vec qops sl1 j).
  { intros j. unfold p. rewrite Hr. cbn [r_probs]. unfold reach_vec. change (0:Q) with (reach (dnode qops)). apply map_nth. }
  exists srf. split; [exact E|]. split; [intros j; rewrite Hp; apply B1|]. split; [intros j; rewrite Hp; apply B2|].
  split; [intros j; rewrite Hp; apply B3|].
  intros s Hs. unfold gPhi. rewrite (Phi_ext (gkd g) (gtr g) p (reach_vec qops sl1) s Hp), Hp. apply B4. exact Hs.
Qed.
