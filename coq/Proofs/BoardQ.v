(** C11 on exact rationals: every probabilistic state of the three games has positive
    probabilities that sum to 1. *)
From Coq Require Import String List Arith Bool Lia QArith Qreduction Lqa.
From CR Require Import Model.Num Model.Outcome Model.Graph Model.Game Model.Board Proofs.BoardP.
Import ListNotations.
Local Open Scope Q_scope.

Definition qsum (l : list Q) : Q := fold_right Qplus 0 l.

(* probabilities of one state: all positive, sum 1 *)
Definition proper_row (row : list (trans (T:=Q))) : Prop :=
  Forall (fun t => 0 < pr t) row /\ qsum (map pr row) == 1.

(* ... for every probabilistic state (the default of [nth] is not reached: s is a state) *)
Definition prob_rows_proper (g : game (T:=Q)) : Prop :=
  forall s, (s < length (g_players g))%nat -> nth s (g_players g) PR = PR ->
            proper_row (nth s (g_trans g) []).

Lemma qsub_one p : qsub 1 p == 1 - p.
Proof. unfold qsub. apply Qred_correct. Qed.

Lemma proper_one d : proper_row [pb (one qops) d].
Proof. split; [repeat constructor; cbn; lra|cbn; lra]. Qed.

Lemma proper_two p d1 d2 : 0 < p -> p < 1 -> proper_row [pb p d1; pb (sub qops (one qops) p) d2].
Proof.
  intros H0 H1. pose proof (qsub_one p) as E. split.
  - repeat constructor; cbn [pr pb sub one qops]; [assumption|rewrite E; lra].
  - cbn [map pr pb qsum fold_right sub one qops]. rewrite E. lra.
Qed.

Section ProbQ.
Variables (L W : nat) (moves : nat -> nat -> nat) (rewards : nat -> nat -> Q)
          (loose : nat -> nat -> nat) (ptb prb plb : Q).
Notation n := (L * W)%nat.

Lemma tile_cell_proper o lose i j : 0 < ptb /\ ptb < 1 -> proper_row (prob_tile_break_cell qops W ptb loose o lose i j).
Proof. intros H. unfold prob_tile_break_cell. destruct (_ =? 1)%nat; [apply proper_two; tauto|apply proper_one]. Qed.
Lemma down_cell_proper o win i j : 0 < prb /\ prb < 1 -> proper_row (prob_robot_down_break_cell qops L W prb o win i j).
Proof. intros H. unfold prob_robot_down_break_cell. destruct (_ <? _)%nat; apply proper_two; tauto. Qed.
Lemma left_cell_proper o i j : 0 < prb /\ prb < 1 -> proper_row (prob_robot_left_break_cell qops W prb o i j).
Proof. intros H. unfold prob_robot_left_break_cell. destruct (_ =? _)%nat; apply proper_two; tauto. Qed.
Lemma right_cell_proper o i j : 0 < prb /\ prb < 1 -> proper_row (prob_robot_right_break_cell qops W prb o i j).
Proof. intros H. unfold prob_robot_right_break_cell. destruct (_ =? _)%nat; apply proper_two; tauto. Qed.
Lemma light_cell_proper o1 o2 i j : 0 < plb /\ plb < 1 -> proper_row (prob_light_break_cell qops W plb o1 o2 i j).
Proof. intros H. unfold prob_light_break_cell. apply proper_two; tauto. Qed.

(* a state of a player group is not probabilistic *)
Lemma player_group a b g i j : (i < L)%nat -> (j < W)%nat -> (g <= a)%nat ->
  nth (g * n + i * W + j) (my_players L W a b) PR <> PR.
Proof.
  intros Hi Hj Hg. pose proof (cell_lt L W i j Hi Hj). rewrite my_players_nth.
  destruct (Nat.ltb_spec (g * n + i * W + j) n); [discriminate|].
  destruct (Nat.ltb_spec (g * n + i * W + j) (n + n * a)); [discriminate|]. nia.
Qed.

Ltac split_groups g k :=
  match k with
  | O => idtac
  | S ?k' => destruct g as [|g]; [|split_groups g k']
  end.

Lemma gen_A_prob : 0 < ptb /\ ptb < 1 -> prob_rows_proper (gen_A qops L W moves rewards loose ptb).
Proof.
  intros Htb s Hs Hk. destruct (gen_A_lengths qops L W moves rewards loose ptb) as [(_ & Hlen & _) _].
  rewrite Hlen in Hs. rewrite gen_A_players in Hk. rewrite gen_A_trans.
  destruct (state_decomp L W 4 s Hs) as [(g & i & j & Hg & Hi & Hj & ->)|[-> | ->]].
  - split_groups g 4%nat; [..|exfalso; lia];
      try (exfalso; revert Hk; apply player_group; (assumption || lia));
      rewrite nth_groups by (assumption || (cbn; lia)); cbn [nth cells_A cells_A_with].
    apply tile_cell_proper; assumption.
  - replace (4 * n)%nat with (length (cells_A qops L W moves loose ptb) * n + 0)%nat by (cbn [length cells_A cells_A_with]; lia).
    rewrite nth_groups_tail. apply proper_one.
  - change 4%nat with (length (cells_A qops L W moves loose ptb)).
    rewrite nth_groups_tail. apply proper_one.
Qed.

Lemma gen_B_prob : 0 < ptb /\ ptb < 1 -> 0 < prb /\ prb < 1 -> prob_rows_proper (gen_B qops L W moves rewards loose ptb prb).
Proof.
  intros Htb Hrb s Hs Hk. destruct (gen_B_lengths qops L W moves rewards loose ptb prb) as [(_ & Hlen & _) _].
  rewrite Hlen in Hs. rewrite gen_B_players in Hk. rewrite gen_B_trans.
  destruct (state_decomp L W 7 s Hs) as [(g & i & j & Hg & Hi & Hj & ->)|[-> | ->]].
  - split_groups g 7%nat; [..|exfalso; lia];
      try (exfalso; revert Hk; apply player_group; (assumption || lia));
      rewrite nth_groups by (assumption || (cbn; lia)); cbn [nth cells_B].
    + apply tile_cell_proper; assumption.
    + apply down_cell_proper; assumption.
    + apply left_cell_proper; assumption.
    + apply right_cell_proper; assumption.
  - replace (7 * n)%nat with (length (cells_B qops L W moves loose ptb prb) * n + 0)%nat by (cbn [length cells_B]; lia).
    rewrite nth_groups_tail. apply proper_one.
  - change 7%nat with (length (cells_B qops L W moves loose ptb prb)).
    rewrite nth_groups_tail. apply proper_one.
Qed.

Lemma gen_C_prob : 0 < ptb /\ ptb < 1 -> 0 < prb /\ prb < 1 -> 0 < plb /\ plb < 1 -> prob_rows_proper (gen_C qops L W moves rewards loose ptb prb plb).
Proof.
  intros Htb Hrb Hlb s Hs Hk. destruct (gen_C_lengths qops L W moves rewards loose ptb prb plb) as [(_ & Hlen & _) _].
  rewrite Hlen in Hs. rewrite gen_C_players in Hk. rewrite gen_C_trans.
  destruct (state_decomp L W 10 s Hs) as [(g & i & j & Hg & Hi & Hj & ->)|[-> | ->]].
  - split_groups g 10%nat; [..|exfalso; lia];
      try (exfalso; revert Hk; apply player_group; (assumption || lia));
      rewrite nth_groups by (assumption || (cbn; lia)); cbn [nth cells_C].
    + apply tile_cell_proper; assumption.
    + apply down_cell_proper; assumption.
    + apply left_cell_proper; assumption.
    + apply right_cell_proper; assumption.
    + apply light_cell_proper; assumption.
    + apply light_cell_proper; assumption.
  - replace (10 * n)%nat with (length (cells_C qops L W moves loose ptb prb plb) * n + 0)%nat by (cbn [length cells_C]; lia).
    rewrite nth_groups_tail. apply proper_one.
  - change 10%nat with (length (cells_C qops L W moves loose ptb prb plb)).
    rewrite nth_groups_tail. apply proper_one.
Qed.

End ProbQ.

(** rewards >= 0 is what check_game tests on instance Q *)
Lemma q_nonneg r : 0 <= r -> ltb qops r (zero qops) = false.
Proof.
  intros H. cbn [ltb zero qops]. unfold qltb. apply Qle_bool_iff in H. rewrite H. reflexivity.
Qed.
Lemma q_zero_ok : ltb qops (zero qops) (zero qops) = false.
Proof. reflexivity. Qed.

(** rows_ok, by state index *)
Lemma rows_ok_nth {T} (N : nat) (tl : list (list (trans (T:=T)))) :
  length tl = N -> rows_ok N tl ->
  forall s, (s < N)%nat -> nth s tl [] <> [] /\ forall t, In t (nth s tl []) -> (dst t < N)%nat.
Proof.
  intros Hlen HR s Hs. unfold rows_ok in HR. rewrite Forall_forall in HR.
  destruct (HR (nth s tl [])) as [H1 H2]; [apply nth_In; lia|].
  split; [assumption|]. rewrite Forall_forall in H2. assumption.
Qed.

(** * The bundled C11 statement (restated verbatim in Props/C11.v) *)
Definition proper_game (g : game (T:=Q)) (N : nat) : Prop :=
  length (g_rewards g) = N /\ length (g_players g) = N /\ length (g_trans g) = N /\
  g_finals g = [(N - 1)%nat] /\
  check_game qops g = Ok tt /\
  (exists sl, init_states qops g = Ok sl /\ length sl = N) /\
  (forall s, (s < N)%nat -> nth s (g_trans g) [] <> [] /\
                      forall t, In t (nth s (g_trans g) []) -> (dst t < N)%nat) /\
  (forall s, (s < N)%nat -> nth s (g_players g) PR = PR ->
             Forall (fun t => (0 < pr t)%Q) (nth s (g_trans g) []) /\
             (fold_right Qplus 0 (map pr (nth s (g_trans g) [])) == 1)%Q) /\
  nth (N - 2) (g_trans g) [] = [mkT ""%string 1%Q (N - 2)%nat] /\
  nth (N - 1) (g_trans g) [] = [mkT ""%string 1%Q (N - 1)%nat] /\
  nth (N - 2) (g_players g) PR = PR /\ nth (N - 1) (g_players g) PR = PR /\
  mem_nat (N - 2) (g_finals g) = false /\ mem_nat (N - 1) (g_finals g) = true.

Definition board_ok (L W : nat) (moves : nat -> nat -> nat) (rewards : nat -> nat -> Q) : Prop :=
  (1 <= L)%nat /\ (1 <= W)%nat /\ (forall i j, (i < L)%nat -> (j < W)%nat -> (moves i j <= 3)%nat) /\
  (forall i j, (i < L)%nat -> (j < W)%nat -> (0 <= rewards i j)%Q).
Definition prob_ok (p : Q) : Prop := (0 < p)%Q /\ (p < 1)%Q.

Lemma proper_assemble (g : game (T:=Q)) N :
  lengths_are g N -> g_finals g = [(N - 1)%nat] -> validates qops g N -> rows_ok N (g_trans g) ->
  prob_rows_proper g -> absorbing_ends qops g N -> proper_game g N.
Proof.
  intros (H1 & H2 & H3) Hf (Hc & Hi) Hrows Hp (E1 & E2 & E3 & E4 & E5 & E6 & E7).
  unfold proper_game. repeat split; try assumption.
  - apply (rows_ok_nth N (g_trans g) H3 Hrows s H).
  - apply (rows_ok_nth N (g_trans g) H3 Hrows s H).
  - apply (Hp s); [rewrite H2|]; assumption.
  - apply (Hp s); [rewrite H2|]; assumption.
Qed.

Lemma gen_A_proper L W moves rewards loose ptb :
  board_ok L W moves rewards -> prob_ok ptb ->
  proper_game (gen_A qops L W moves rewards loose ptb) (4 * (L * W) + 2).
Proof.
  intros (HL & HW & Hm & Hr) Hp.
  destruct (gen_A_lengths qops L W moves rewards loose ptb) as [Hlen Hf].
  apply proper_assemble; try assumption.
  - rewrite Hf. f_equal. lia.
  - apply gen_A_validates; try assumption; [apply q_zero_ok|]. intros; apply q_nonneg; auto.
  - replace (4 * (L * W) + 2)%nat with (L * W * 4 + 2)%nat by lia. apply gen_A_rows_ok; assumption.
  - apply gen_A_prob; assumption.
  - apply gen_A_ends.
Qed.

Lemma gen_B_proper L W moves rewards loose ptb prb :
  board_ok L W moves rewards -> prob_ok ptb -> prob_ok prb ->
  proper_game (gen_B qops L W moves rewards loose ptb prb) (7 * (L * W) + 2).
Proof.
  intros (HL & HW & Hm & Hr) Hp Hq.
  destruct (gen_B_lengths qops L W moves rewards loose ptb prb) as [Hlen Hf].
  apply proper_assemble; try assumption.
  - rewrite Hf. f_equal. lia.
  - apply gen_B_validates; try assumption; [apply q_zero_ok|]. intros; apply q_nonneg; auto.
  - replace (7 * (L * W) + 2)%nat with (L * W * 7 + 2)%nat by lia. apply gen_B_rows_ok; assumption.
  - apply gen_B_prob; assumption.
  - apply gen_B_ends.
Qed.

Lemma gen_C_proper L W moves rewards loose ptb prb plb :
  board_ok L W moves rewards -> prob_ok ptb -> prob_ok prb -> prob_ok plb ->
  proper_game (gen_C qops L W moves rewards loose ptb prb plb) (10 * (L * W) + 2).
Proof.
  intros (HL & HW & Hm & Hr) Hp Hq Hl.
  destruct (gen_C_lengths qops L W moves rewards loose ptb prb plb) as [Hlen Hf].
  apply proper_assemble; try assumption.
  - rewrite Hf. f_equal. lia.
  - apply gen_C_validates; try assumption; [apply q_zero_ok|]. intros; apply q_nonneg; auto.
  - replace (10 * (L * W) + 2)%nat with (L * W * 10 + 2)%nat by lia. apply gen_C_rows_ok; assumption.
  - apply gen_C_prob; assumption.
  - apply gen_C_ends.
Qed.

Lemma structure_generic (T : Type) (K : ops T) L W moves rewards loose ptb prb plb :
  (1 <= L)%nat -> (1 <= W)%nat -> (forall i j, (i < L)%nat -> (j < W)%nat -> (moves i j <= 3)%nat) ->
  ltb K (zero K) (zero K) = false ->
  (forall i j, (i < L)%nat -> (j < W)%nat -> ltb K (rewards i j) (zero K) = false) ->
  let n := (L * W)%nat in
  (lengths_are (gen_A K L W moves rewards loose ptb) (4 * n + 2) /\
   validates K (gen_A K L W moves rewards loose ptb) (4 * n + 2) /\
   absorbing_ends K (gen_A K L W moves rewards loose ptb) (4 * n + 2)) /\
  (lengths_are (gen_B K L W moves rewards loose ptb prb) (7 * n + 2) /\
   validates K (gen_B K L W moves rewards loose ptb prb) (7 * n + 2) /\
   absorbing_ends K (gen_B K L W moves rewards loose ptb prb) (7 * n + 2)) /\
  (lengths_are (gen_C K L W moves rewards loose ptb prb plb) (10 * n + 2) /\
   validates K (gen_C K L W moves rewards loose ptb prb plb) (10 * n + 2) /\
   absorbing_ends K (gen_C K L W moves rewards loose ptb prb plb) (10 * n + 2)).
Proof.
  intros HL HW Hm Hz Hr n. repeat split.
  all: try apply gen_A_lengths; try apply gen_B_lengths; try apply gen_C_lengths.
  all: try (apply gen_A_validates; assumption); try (apply gen_B_validates; assumption);
       try (apply gen_C_validates; assumption).
  all: try apply gen_A_ends; try apply gen_B_ends; try apply gen_C_ends.
Qed.

Example c11_example :
  let moves := ll_nat [[3; 1]; [2; 0]]%nat in
  let rewards := ll_num qops [[6; 0]; [1; 2]]%Q in
  let loose := ll_nat [[0; 1]; [1; 0]]%nat in
  board_ok 2 2 moves rewards /\ prob_ok (1 # 10) /\
  check_game qops (gen_C qops 2 2 moves rewards loose (1 # 10) (1 # 2) (29 # 100)) = Ok tt /\
  is_ok (init_states qops (gen_C qops 2 2 moves rewards loose (1 # 10) (1 # 2) (29 # 100))) = true /\
  length (g_players (gen_C qops 2 2 moves rewards loose (1 # 10) (1 # 2) (29 # 100))) = 42%nat.
Proof.
  cbv zeta. split; [|split; [|split; [|split]]].
  - unfold board_ok. split; [lia|split; [lia|split]]; intros i j Hi Hj;
      destruct i as [|[|i]]; try lia; destruct j as [|[|j]]; try lia; vm_compute; try lia; discriminate.
  - split; reflexivity.
  - vm_compute. reflexivity.
  - vm_compute. reflexivity.
  - vm_compute. reflexivity.
Qed.

(** * The solving step: a generated game on which the reward loop does not settle
      (1x3 board  [0|<-( )] [0|v(X)] [3|<>( )], game A, tile-break probability 1/10) *)
Definition w_moves := ll_nat [[0; 3; 1]]%nat.
Definition w_rewards := ll_num qops [[0; 0; 3]]%Q.
Definition w_loose := ll_nat [[0; 1; 0]]%nat.
Definition w_game := gen_A qops 1 3 w_moves w_rewards w_loose (1 # 10)%Q.

Lemma w_game_diverges_400 :
  board_ok 1 3 w_moves w_rewards /\
  (* the reachability half finishes after 7 sweeps with value 9/10 at the initial state ... *)
  (exists r, solve_reach_fuel qops 400 w_game true = Ok r /\ snd r = 7%nat /\
             (reach (getn qops (fst (fst r)) 0) == 9 # 10)%Q) /\
  (* ... but 400 sweeps of the reward loop do not reach the stopping criterion *)
  solve_fuel qops 400 w_game true = OutOfFuel.
Proof.
  split; [|split].
  - unfold board_ok. split; [lia|split; [lia|split]]; intros i j Hi Hj;
      destruct i as [|i]; try lia; destruct j as [|[|[|j]]]; try lia; vm_compute; try lia; discriminate.
  - eexists. split; [vm_compute; reflexivity|]. split; vm_compute; reflexivity.
  - vm_compute. reflexivity.
Qed.
